(* rtpmpeg1video, encoder side: slicing, batching, payload layout, packet well-formedness (C06). *)
From GVL Require Import NList Wire Chunks Rtp.
From GVG Require Import Consts.
From GV_mpeg1video Require Import Model.
From Coq Require Import ZifyBool ZifyNat ZifyN.
Open Scope N_scope.
Ltac splits := repeat match goal with |- _ /\ _ => split end.

(* ---------- generic ---------- *)
Lemma nnth_app_l {A} (l1 l2 : list A) i : i < nlen l1 -> nnth i (l1 ++ l2) = nnth i l1.
Proof.
  revert i; induction l1 as [|x t IH]; intros i H; cbn [nlen app nnth] in *; [lia|].
  destruct (N.eqb_spec i 0); [reflexivity|]. apply IH. lia.
Qed.
Lemma nnth_app_r {A} (l1 l2 : list A) i : nlen l1 <= i -> nnth i (l1 ++ l2) = nnth (i - nlen l1) l2.
Proof.
  revert i; induction l1 as [|x t IH]; intros i H; cbn [nlen app nnth] in *; [f_equal; lia|].
  destruct (N.eqb_spec i 0); [lia|]. rewrite IH by lia. f_equal. lia.
Qed.
Lemma seq_add_next s k : seq_add (seq_next s) k = seq_add s (k + 1).
Proof. unfold seq_add, seq_next. rewrite N.add_mod_idemp_l by lia. f_equal. lia. Qed.
Lemma seq_add_0 s : s < 65536 -> seq_add s 0 = s.
Proof. intros H. unfold seq_add. rewrite N.add_0_r. now apply N.mod_small. Qed.
Lemma seq_add_add s a b : seq_add (seq_add s a) b = seq_add s (a + b).
Proof. unfold seq_add. rewrite N.add_mod_idemp_l by lia. f_equal. lia. Qed.
Lemma seq_add_lt s k : seq_add s k < 65536.
Proof. unfold seq_add. apply N.mod_lt. lia. Qed.
Lemma seq_next_lt s : seq_next s < 65536.
Proof. unfold seq_next. apply N.mod_lt. lia. Qed.
Lemma concat_snoc {A} (l : list (list A)) x : concat (l ++ [x]) = concat l ++ x.
Proof. rewrite concat_app. cbn. now rewrite app_nil_r. Qed.
Lemma Forall_ntake {A} (P : A -> Prop) (l : list A) : forall n, Forall P l -> Forall P (ntake n l).
Proof.
  induction l as [|x t IH]; intros n H; cbn [ntake]; [constructor|]. inversion H; subst.
  destruct (n =? 0); constructor; [assumption|now apply IH].
Qed.
Lemma Forall_ndrop {A} (P : A -> Prop) (l : list A) : forall n, Forall P l -> Forall P (ndrop n l).
Proof.
  induction l as [|x t IH]; intros n H; cbn [ndrop]; [constructor|]. inversion H; subst.
  destruct (n =? 0); [assumption|now apply IH].
Qed.
Lemma chunks_ne {A} n (l : list A) : 0 < n -> l <> [] -> chunks n l <> [].
Proof. intros Hn Hl. rewrite chunks_cons by assumption. discriminate. Qed.

Definition bytes_ok (l : bytes) : Prop := Forall (fun b => b < 256) l.

(* ---------- slicing ---------- *)
Lemma index001_bound l : forall e, index001 l = Some e -> e + 3 <= nlen l.
Proof.
  induction l as [|a t IH]; intros e H; cbn [index001] in H; [discriminate|].
  destruct (starts001 (a :: t)) eqn:Es.
  - injection H as <-. destruct t as [|b [|c t']]; cbn in Es; try discriminate. cbn [nlen]. lia.
  - destruct (index001 t) as [e'|]; [|discriminate]. injection H as <-. specialize (IH e' eq_refl). cbn [nlen]. lia.
Qed.

Lemma picture_check_ok s r : picture_check s = SOk r -> r = [s] /\ 4 <= nlen s.
Proof.
  unfold picture_check. destruct (nnth 3 s) as [x|] eqn:E; [|discriminate].
  destruct ((x =? 0) && (nlen s <? 6)); [discriminate|]. intros H; injection H as <-. split; [reflexivity|].
  destruct (N.ltb_spec (nlen s) 4); [|assumption]. rewrite nnth_ge in E by lia. discriminate.
Qed.

(* the slices are consecutive pieces of the frame, each at least 4 bytes long; there is at least one *)
Lemma scan_ok fuel : forall frame slices, scan fuel frame = SOk slices ->
  concat slices = frame /\ Forall (fun s => 4 <= nlen s) slices /\ slices <> [].
Proof.
  induction fuel as [|f fuel IH]; intros frame slices H; cbn [scan] in H; [discriminate|].
  destruct (nlen frame <? 4); [discriminate|].
  destruct (index001 (ndrop 4 frame)) as [e|] eqn:Ei.
  - destruct (picture_check (ntake (e + 4) frame)) as [r| |] eqn:Ep; try discriminate.
    apply picture_check_ok in Ep. destruct Ep as [_ Hl].
    destruct (scan fuel (ndrop (e + 4) frame)) as [l| |] eqn:Es; try discriminate. injection H as <-.
    destruct (IH _ _ Es) as (H1 & H2 & H3). splits.
    + cbn [concat]. rewrite H1. apply ntake_ndrop.
    + constructor; assumption.
    + discriminate.
  - apply picture_check_ok in H. destruct H as [-> Hl]. splits; [cbn; now rewrite app_nil_r|constructor; [assumption|constructor]|discriminate].
Qed.

Lemma scan_bytes_ok fuel : forall frame slices, scan fuel frame = SOk slices -> bytes_ok frame -> Forall bytes_ok slices.
Proof.
  induction fuel as [|f fuel IH]; intros frame slices H Hb; cbn [scan] in H; [discriminate|].
  destruct (nlen frame <? 4); [discriminate|].
  destruct (index001 (ndrop 4 frame)) as [e|] eqn:Ei.
  - destruct (picture_check (ntake (e + 4) frame)) as [r| |] eqn:Ep; try discriminate.
    destruct (scan fuel (ndrop (e + 4) frame)) as [l| |] eqn:Es; try discriminate. injection H as <-.
    constructor; [now apply Forall_ntake|]. apply (IH _ _ Es). now apply Forall_ndrop.
  - apply picture_check_ok in H. destruct H as [-> _]. constructor; [assumption|constructor].
Qed.

(* the decoder's validateFrame walks the same start codes *)
Lemma scan_validate fuel : forall frame slices, scan fuel frame = SOk slices -> validate fuel frame = true.
Proof.
  induction fuel as [|f fuel IH]; intros frame slices H; cbn [scan validate] in *; [discriminate|].
  destruct (nlen frame <? 4); [discriminate|].
  destruct (index001 (ndrop 4 frame)) as [e|]; [|reflexivity].
  destruct (picture_check _); try discriminate.
  destruct (scan fuel (ndrop (e + 4) frame)) as [l| |] eqn:Es; try discriminate. now apply (IH _ l).
Qed.

(* ---------- header fields ---------- *)
Definition hdr_ok (h : hdr) : Prop := htr h < 1024 /\ hbos h < 2 /\ hft h < 8.

Lemma nnth_bytes_ok s i x : bytes_ok s -> nnth i s = Some x -> x < 256.
Proof.
  revert i; induction s as [|a t IH]; intros i Hb H; cbn [nnth] in H; [discriminate|]. inversion Hb; subst.
  destruct (i =? 0); [injection H as <-; assumption|]. eapply IH; eassumption.
Qed.

Lemma upd_ok h s : hdr_ok h -> bytes_ok s -> hdr_ok (upd h s).
Proof.
  intros (H1 & H2 & H3) Hb. unfold upd. destruct (nnth 3 s) as [x|]; [|unfold hdr_ok; tauto].
  destruct (x =? 0).
  - destruct (nnth 4 s) as [s4|] eqn:E4; [|unfold hdr_ok; tauto].
    destruct (nnth 5 s) as [s5|] eqn:E5; [|unfold hdr_ok; tauto].
    pose proof (nnth_bytes_ok _ _ _ Hb E4). pose proof (nnth_bytes_ok _ _ _ Hb E5).
    unfold hdr_ok; cbn [htr hbos hft]. splits; [|assumption|apply N.mod_lt; lia].
    assert (s5 / 64 < 4) by (apply N.div_lt_upper_bound; lia). lia.
  - destruct (x =? 184); unfold hdr_ok; cbn [htr hbos hft]; splits; try assumption; lia.
Qed.

(* ---------- batching ---------- *)
Definition batch_ok (max : N) (b : list bytes) : Prop :=
  b <> [] /\ Forall (fun s => 4 <= nlen s) b /\ ((exists s, b = [s]) \/ 4 + total b <= max).

Lemma total_snoc b s : total (b ++ [s]) = total b + nlen s.
Proof. unfold total. now rewrite concat_snoc, nlen_app. Qed.

Lemma batching_top max s t h : batching max (s :: t) [] h = batching max t [s] (upd h s).
Proof. cbn [batching app]. destruct (4 + nlen s + total [] <=? max); reflexivity. Qed.

Lemma batching_ok max slices : forall batch h, batch_ok max batch -> Forall (fun s => 4 <= nlen s) slices ->
  Forall (fun bh => batch_ok max (fst bh)) (batching max slices batch h).
Proof.
  induction slices as [|s t IH]; intros batch h Hb Hs; cbn [batching].
  - constructor; [exact Hb|constructor].
  - inversion Hs as [|? ? Hs1 Hs2]; subst. destruct Hb as (Hne & Hf & Hsz).
    destruct (N.leb_spec (4 + nlen s + total batch) max) as [Hle|Hgt].
    + apply IH; [|assumption]. unfold batch_ok. splits.
      * intros E. apply app_eq_nil in E. destruct E; discriminate.
      * apply Forall_app. split; [assumption|constructor; [assumption|constructor]].
      * right. rewrite total_snoc. lia.
    + destruct batch as [|b0 bt]; [contradiction|]. constructor; [cbn [fst]; unfold batch_ok; splits; assumption|].
      apply IH; [|assumption]. unfold batch_ok. splits; [discriminate|constructor; [assumption|constructor]|left; eauto].
Qed.

Lemma batching_hdr max slices : forall batch h, hdr_ok h -> Forall bytes_ok slices ->
  Forall (fun bh => hdr_ok (snd bh)) (batching max slices batch h).
Proof.
  induction slices as [|s t IH]; intros batch h Hh Hs; cbn [batching].
  - constructor; [exact Hh|constructor].
  - inversion Hs as [|? ? Hs1 Hs2]; subst.
    destruct (4 + nlen s + total batch <=? max); [apply IH; [now apply upd_ok|assumption]|].
    destruct batch as [|b0 bt]; [apply IH; [now apply upd_ok|assumption]|].
    constructor; [exact Hh|]. apply IH; [|assumption]. apply upd_ok; [|assumption].
    destruct Hh as (H1 & H2 & H3). unfold hdr_ok; cbn. splits; [assumption|lia|assumption].
Qed.

Lemma batching_concat max slices : forall batch h,
  concat (map (fun bh => concat (fst bh)) (batching max slices batch h)) = concat batch ++ concat slices.
Proof.
  induction slices as [|s t IH]; intros batch h; cbn [batching].
  - cbn. now rewrite !app_nil_r.
  - destruct (4 + nlen s + total batch <=? max).
    + rewrite IH, concat_snoc, <- app_assoc. reflexivity.
    + destruct batch as [|b0 bt].
      * rewrite IH. cbn. now rewrite app_nil_r.
      * cbn [map concat fst]. rewrite IH. cbn [concat]. now rewrite app_nil_r.
Qed.

(* ---------- payload layout ---------- *)
Lemma header_len h a b c : nlen (header h a b c) = 4.
Proof. reflexivity. Qed.
Lemma ndrop4_header h a b c x : ndrop 4 (header h a b c ++ x) = x.
Proof. unfold header. cbn. apply ndrop_0. Qed.
Lemma ntake4_header h a b c x : ntake 4 (header h a b c ++ x) = header h a b c.
Proof. unfold header. cbn. now rewrite ntake_0. Qed.

Lemma frag_payloads_facts h avail : forall cs first, Forall (fun c => 0 < nlen c /\ nlen c <= avail) cs ->
  Forall (fun pl => 4 < nlen pl /\ nlen pl <= avail + 4) (frag_payloads h first cs) /\
  map (ndrop 4) (frag_payloads h first cs) = cs.
Proof.
  induction cs as [|c t IH]; intros first H; cbn [frag_payloads map]; [split; [constructor|reflexivity]|].
  inversion H as [|? ? [Hc1 Hc2] Ht]; subst. destruct (IH false Ht) as [I1 I2]. split.
  - constructor; [|exact I1]. rewrite nlen_app, header_len. lia.
  - rewrite ndrop4_header, I2. reflexivity.
Qed.

Lemma batch_payloads_facts max b h : 5 <= max -> batch_ok max b ->
  let pls := batch_payloads max (b, h) in
  pls <> [] /\ Forall (fun pl => 4 < nlen pl /\ nlen pl <= max) pls /\ concat (map (ndrop 4) pls) = concat b.
Proof.
  intros Hm (Hne & Hf & Hsz). unfold batch_payloads.
  destruct b as [|s [|s2 t]]; [contradiction| |].
  - inversion Hf as [|? ? Hs _]; subst. destruct (N.ltb_spec (4 + nlen s) max) as [Hlt|Hge].
    + splits; [discriminate|constructor; [rewrite nlen_app, header_len; lia|constructor]|].
      cbn [map concat]. now rewrite ndrop4_header.
    + assert (Hsne : s <> []) by (intros ->; cbn in Hs; lia).
      pose proof (chunks_bounds (max - 4) s ltac:(lia)) as Hb.
      destruct (frag_payloads_facts h (max - 4) (chunks (max - 4) s) true Hb) as [F1 F2]. splits.
      * intros E. apply (f_equal (map (ndrop 4))) in E. rewrite F2 in E. cbn in E.
        now apply (chunks_ne (max - 4) s ltac:(lia) Hsne).
      * eapply Forall_impl; [|exact F1]. cbn. intros pl. lia.
      * rewrite F2. cbn [concat]. rewrite app_nil_r. apply chunks_concat. lia.
  - destruct Hsz as [[s0 E]|Hsz]; [discriminate|].
    splits; [discriminate| |cbn [map concat]; rewrite ndrop4_header; now rewrite app_nil_r].
    constructor; [|constructor]. rewrite nlen_app, header_len. unfold total in Hsz.
    inversion Hf as [|? ? Hs _]; subst. cbn [concat] in *. rewrite nlen_app in *. lia.
Qed.

(* ---------- packets ---------- *)
Lemma mk_pkts_payloads seq cs : map ppayload (mk_pkts seq cs) = cs.
Proof. revert seq; induction cs as [|c t IH]; intros seq; cbn [mk_pkts map]; [reflexivity|]. now rewrite IH. Qed.
Lemma mk_pkts_len seq cs : nlen (mk_pkts seq cs) = nlen cs.
Proof. revert seq; induction cs as [|c t IH]; intros seq; cbn [mk_pkts nlen]; [reflexivity|]. now rewrite IH. Qed.
Lemma mk_pkts_seq cs : forall seq i p, seq < 65536 -> nnth i (mk_pkts seq cs) = Some p -> pseq p = seq_add seq i.
Proof.
  induction cs as [|c t IH]; intros seq i p Hs H; cbn [mk_pkts nnth] in H; [discriminate|].
  destruct (N.eqb_spec i 0) as [->|Hi].
  - injection H as <-. cbn [pseq]. now rewrite seq_add_0.
  - apply IH in H; [|apply seq_next_lt]. rewrite H, seq_add_next. f_equal. lia.
Qed.
Lemma mk_pkts_marker cs : forall seq i p, nnth i (mk_pkts seq cs) = Some p ->
  pmarker p = (i + 1 =? nlen cs).
Proof.
  induction cs as [|c t IH]; intros seq i p H; cbn [mk_pkts nnth] in H; [discriminate|].
  destruct (N.eqb_spec i 0) as [->|Hi].
  - injection H as <-. cbn [pmarker nlen]. destruct t; cbn [nlen]; [reflexivity|].
    symmetry. apply N.eqb_neq. lia.
  - apply IH in H. rewrite H. cbn [nlen].
    destruct (N.eqb_spec (N.pred i + 1) (nlen t)); destruct (N.eqb_spec (i + 1) (N.succ (nlen t))); try reflexivity; lia.
Qed.
Lemma mk_pkts_ts seq cs : Forall (fun p => pts p = 0) (mk_pkts seq cs).
Proof. revert seq; induction cs as [|c t IH]; intros seq; cbn [mk_pkts]; constructor; [reflexivity|apply IH]. Qed.

Lemma concat_map_concat {A} (l : list (list (list A))) : concat (map (@concat A) l) = concat (concat l).
Proof. induction l as [|x t IH]; cbn [map concat]; [reflexivity|]. now rewrite concat_app, IH. Qed.

(* the batches the encoder forms for a list of slices, starting from the zero header state *)
Definition batches (max : N) (slices : list bytes) : list (list bytes * hdr) :=
  batching max slices [] (mkH 0 0 0).
Definition payloads (max : N) (slices : list bytes) : list bytes :=
  concat (map (batch_payloads max) (batches max slices)).

Lemma enc_ok max seq frame slices : 5 <= max -> scan frame frame = SOk slices ->
  enc max seq frame = EOk (mk_pkts seq (payloads max slices)) (seq_add seq (nlen (payloads max slices))).
Proof.
  intros Hm Hs. unfold enc. rewrite Hs. destruct (N.leb_spec max 4); [lia|]. reflexivity.
Qed.

Lemma batches_ok max slices : slices <> [] -> Forall (fun s => 4 <= nlen s) slices ->
  Forall (fun bh => batch_ok max (fst bh)) (batches max slices).
Proof.
  intros Hne Hf. unfold batches. destruct slices as [|s t]; [contradiction|]. rewrite batching_top.
  inversion Hf; subst. apply batching_ok; [|assumption].
  unfold batch_ok. splits; [discriminate|constructor; [assumption|constructor]|left; eauto].
Qed.

Lemma payloads_facts max slices : 5 <= max -> slices <> [] -> Forall (fun s => 4 <= nlen s) slices ->
  payloads max slices <> [] /\
  Forall (fun pl => 4 < nlen pl /\ nlen pl <= max) (payloads max slices) /\
  concat (map (ndrop 4) (payloads max slices)) = concat slices.
Proof.
  intros Hm Hne Hf. pose proof (batches_ok max slices Hne Hf) as Hb.
  pose proof (batching_concat max slices [] (mkH 0 0 0)) as Hc. fold (batches max slices) in Hc. cbn [concat app] in Hc.
  unfold payloads. remember (batches max slices) as bhs eqn:E.
  assert (Hbne : bhs <> []).
  { subst bhs. unfold batches. destruct slices as [|s t]; [contradiction|]. rewrite batching_top.
    destruct t; cbn [batching]; [discriminate|]. destruct (_ <=? _); [|discriminate].
    clear. generalize ([s] ++ [l]) as b. generalize (upd (upd (mkH 0 0 0) s) l) as h. revert l.
    induction t as [|x t IH]; intros l h b; cbn [batching]; [discriminate|].
    destruct (_ <=? _); [apply (IH x)|]. destruct b; [apply (IH x)|discriminate]. }
  clear E. rewrite <- Hc. clear Hc. induction Hb as [|[b h] t Hb Ht IH].
  - contradiction.
  - cbn [fst] in Hb. destruct (batch_payloads_facts max b h Hm Hb) as (P1 & P2 & P3).
    cbn [map concat]. destruct t as [|bh2 t2].
    + cbn [map concat]. rewrite !app_nil_r. splits; assumption.
    + destruct IH as (I1 & I2 & I3); [discriminate|]. splits.
      * intros E. apply app_eq_nil in E. destruct E as [E _]. contradiction.
      * apply Forall_app. split; assumption.
      * rewrite map_app, concat_app, P3, I3. reflexivity.
Qed.

(* C06: for every frame that Encode accepts (the slicing loop neither panics nor reports an invalid
   picture slice), every limit >= 5 and every initial sequence number: at least one packet; every
   payload is a 4-byte header plus at least one byte and at most the limit; the payload bodies
   concatenate to the frame; packet i carries seq+i mod 2^16; the marker is on the last packet and on
   no other; the encoder continues at seq+count; timestamps are left at 0. *)
Theorem enc_wellformed max seq frame slices : 5 <= max -> seq < 65536 -> scan frame frame = SOk slices ->
  exists ps, enc max seq frame = EOk ps (seq_add seq (nlen ps)) /\ ps <> [] /\
    Forall (fun p => 4 < nlen (ppayload p) /\ nlen (ppayload p) <= max) ps /\
    concat (map (fun p => ndrop 4 (ppayload p)) ps) = frame /\
    (forall i p, nnth i ps = Some p -> pseq p = seq_add seq i /\ pmarker p = (i + 1 =? nlen ps)) /\
    Forall (fun p => pts p = 0) ps.
Proof.
  intros Hm Hs Hscan. destruct (scan_ok _ _ _ Hscan) as (Hc & Hf & Hne).
  destruct (payloads_facts max slices Hm Hne Hf) as (P1 & P2 & P3).
  exists (mk_pkts seq (payloads max slices)). splits.
  - rewrite (enc_ok max seq frame slices Hm Hscan). now rewrite mk_pkts_len.
  - intros E. apply (f_equal (map ppayload)) in E. rewrite mk_pkts_payloads in E. cbn in E. contradiction.
  - rewrite <- (mk_pkts_payloads seq (payloads max slices)) in P2. rewrite Forall_map in P2. exact P2.
  - rewrite <- (map_map ppayload (ndrop 4)), mk_pkts_payloads, P3. exact Hc.
  - intros i p H. split; [eapply mk_pkts_seq; eassumption|]. rewrite mk_pkts_len. eapply mk_pkts_marker; eassumption.
  - apply mk_pkts_ts.
Qed.

Definition encodable (f : bytes) : Prop := exists slices, scan f f = SOk slices.

Theorem enc_many_gapless max frames : 5 <= max -> Forall encodable frames -> forall seq, seq < 65536 ->
  exists pss, enc_many max seq frames = Some pss /\
    forall i p, nnth i (concat pss) = Some p -> pseq p = seq_add seq i.
Proof.
  intros Hm. induction 1 as [|f t [slices Hf] Ht IH]; intros seq Hs; cbn [enc_many].
  - exists []. split; [reflexivity|]. intros i p H. cbn in H. discriminate.
  - destruct (enc_wellformed max seq f slices Hm Hs Hf) as (ps & -> & _ & _ & _ & Hi & _).
    destruct (IH (seq_add seq (nlen ps)) (seq_add_lt _ _)) as (pss & -> & Hj).
    exists (ps :: pss). split; [reflexivity|]. intros i p H. cbn [concat] in H.
    destruct (N.ltb_spec i (nlen ps)) as [Hlt|Hge].
    + rewrite nnth_app_l in H by assumption. apply Hi in H. tauto.
    + rewrite nnth_app_r in H by assumption. apply Hj in H. rewrite H, seq_add_add. f_equal. lia.
Qed.

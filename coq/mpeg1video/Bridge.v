(* BRIDGE: the integer formulas of pkg/format/rtpmpeg1video (encoder.go, decoder.go) as TRANSLATED from the Go source
   on this run (GVG.Kern, tools/go2coq, spec.d/mpeg1video.txt) are the formulas the hand-written Model.v uses: the
   aggregation length lenAggregated (both statements of it) and its comparison with PayloadMaxSize, the
   aggregated / fragmented decision of writeBatch, the fragment budget PayloadMaxSize - 4, the fragment count, the
   packet size 4+le, the three header bytes, temporalReference / frameType, the picture / group start codes, the
   sequence number step; in the decoder the length test, the six header bit fields and the tests on them, the
   tagless switch, the sequence-number continuity tests, the size accumulations and the three caps.
   Re-checked against the regenerated Kern.v on every run. *)
From Coq Require Import ZArith NArith List Lia Bool.
From Coq Require Import ZifyBool ZifyN.
From GVL Require Import NList Wrap Chunks Rtp.
From GVG Require Import Consts Kern.
From GV_mpeg1video Require Import Model BridgeLib.
Import ListNotations.
Open Scope Z_scope.

Definition byte (b : N) : Prop := (b < 256)%N.
Definition u16 (s : N) : Prop := (s < 65536)%N.
Definition bit (b : N) : Prop := (b < 2)%N.

(* a << k | b  =  a * 2^k + b   when b < 2^k *)
Lemma lor_shift a b k : 0 <= k -> 0 <= a -> 0 <= b < 2 ^ k -> Z.lor (Z.shiftl a k) b = a * 2 ^ k + b.
Proof.
  intros Hk Ha Hb. rewrite Z.shiftl_mul_pow2 by lia.
  rewrite <- Z.lxor_lor, <- Z.add_nocarry_lxor; try reflexivity.
  all: apply Z.bits_inj'; intros n Hn; rewrite Z.land_spec, Z.bits_0.
  all: destruct (Z.lt_ge_cases n k) as [L|G].
  all: try (rewrite Z.mul_pow2_bits_low by lia; reflexivity).
  all: destruct (Z.eq_dec b 0) as [->|Hb0]; [rewrite Z.bits_0, andb_false_r; reflexivity|].
  all: rewrite (Z.bits_above_log2 b n); [apply andb_false_r|lia|].
  all: assert (Z.log2 b < k) by (apply Z.log2_lt_pow2; lia); lia.
Qed.

Lemma land_mask a k : 0 <= k -> Z.land a (2 ^ k - 1) = a mod 2 ^ k.
Proof. intros Hk. rewrite <- Z.land_ones by lia. rewrite Z.ones_equiv. reflexivity. Qed.

(* ---------- encoder ---------- *)

(* lenAggregated(slices, slice): the loop skeleton is written here, both statements of it are translated kernels *)
Fixpoint la_loop (n : Z) (slices : list bytes) : Z :=
  match slices with
  | [] => n
  | fr :: t => la_loop (k_mpeg1video_lenagg_add n (Z.of_N (nlen fr))) t
  end.
Definition la_code (slices : list bytes) (slice : option bytes) : Z :=
  la_loop (k_mpeg1video_lenagg_hdr (match slice with None => 0 | Some s => Z.of_N (nlen s) end)) slices.

Lemma la_loop_spec slices : forall n, 0 <= n -> n + Z.of_N (total slices) < i64max ->
  la_loop n slices = n + Z.of_N (total slices).
Proof.
  unfold i64max, total. induction slices as [|x t IH]; intros n Hn Hb; cbn [la_loop concat] in *.
  - cbn [nlen]. lia.
  - rewrite nlen_app in *. unfold k_mpeg1video_lenagg_add. rewrite ki64_small by lia. rewrite IH by lia. lia.
Qed.

(* lenAggregated(batch, slice) is the left-hand side of the test of Model.batching *)
Lemma bridge_len_agg batch s : Z.of_N (4 + nlen s + total batch) < i64max ->
  la_code batch (Some s) = Z.of_N (4 + nlen s + total batch).
Proof.
  unfold la_code, k_mpeg1video_lenagg_hdr, i64max. intros H. rewrite (ki64_small (4 + _)) by lia.
  rewrite la_loop_spec by (unfold i64max; lia). lia.
Qed.
Lemma bridge_len_agg_nil batch : Z.of_N (4 + total batch) < i64max ->
  la_code batch None = Z.of_N (4 + total batch).
Proof.
  unfold la_code, k_mpeg1video_lenagg_hdr, i64max. intros H. rewrite (ki64_small (4 + _)) by lia.
  rewrite la_loop_spec by (unfold i64max; lia). lia.
Qed.

(* if lenAggregated(batch, slice) <= e.PayloadMaxSize   is the test of Model.batching *)
Lemma bridge_agg_fits max batch s : Z.of_N (4 + nlen s + total batch) < i64max ->
  k_mpeg1video_agg_fits (la_code batch (Some s)) (Z.of_N max) = (4 + nlen s + total batch <=? max)%N.
Proof. intros H. rewrite bridge_len_agg by exact H. unfold k_mpeg1video_agg_fits. apply leb_N. Qed.

(* writeBatch: len(slices) != 1 || lenAggregated(slices, nil) < e.PayloadMaxSize; for a batch of one slice this is
   the test 4 + nlen s <? max of Model.batch_payloads *)
Lemma bridge_aggregate max (batch : list bytes) : Z.of_N (4 + total batch) < i64max ->
  k_mpeg1video_aggregate (Z.of_N (nlen batch)) (la_code batch None) (Z.of_N max)
  = (negb (nlen batch =? 1)%N || (4 + total batch <? max)%N).
Proof.
  intros H. rewrite bridge_len_agg_nil by exact H. unfold k_mpeg1video_aggregate.
  rewrite ltb_N. f_equal. f_equal. exact (eqb_N (nlen batch) 1).
Qed.
Lemma bridge_aggregate_one max (s : bytes) : Z.of_N (4 + nlen s) < i64max ->
  k_mpeg1video_aggregate (Z.of_N (nlen [s])) (la_code [s] None) (Z.of_N max) = (4 + nlen s <? max)%N.
Proof.
  intros H. assert (E : total [s] = nlen s) by (unfold total; cbn [concat]; rewrite app_nil_r; reflexivity).
  rewrite bridge_aggregate by (rewrite E; exact H). rewrite E. reflexivity.
Qed.

(* writeFragmented: avail, le, the packet count, the size of a packet, the last-fragment test *)
Lemma bridge_frag_avail max : (4 <= max)%N -> Z.of_N max < i64max -> k_mpeg1video_frag_avail (Z.of_N max) = Z.of_N (max - 4).
Proof. unfold k_mpeg1video_frag_avail, i64max. intros H1 H2. rewrite ki64_small by lia. lia. Qed.

Lemma bridge_frag_count max (s : bytes) : (5 <= max)%N -> Z.of_N max < i64max -> Z.of_N (nlen s) < i64max ->
  k_mpeg1video_packetCount (k_mpeg1video_frag_avail (Z.of_N max)) (k_mpeg1video_frag_le (Z.of_N (nlen s)))
  = Some (Z.of_N (nlen (chunks (max - 4) s))).
Proof.
  intros H1 H2 H3. rewrite bridge_frag_avail by (try assumption; lia).
  unfold k_mpeg1video_packetCount, k_mpeg1video_frag_le. unfold i64max in *. rewrite pc_generic by lia.
  rewrite chunks_count_Z by lia. reflexivity.
Qed.

Lemma bridge_frag_size (h : hdr) (bos st sp : N) (c : bytes) : Z.of_N (nlen c) + 4 < i64max ->
  k_mpeg1video_frag_size (Z.of_N (nlen c)) = Z.of_N (nlen (header h bos st sp ++ c)).
Proof.
  unfold k_mpeg1video_frag_size, i64max. rewrite nlen_app. unfold header. cbn [nlen]. intros H.
  rewrite ki64_small by lia. lia.
Qed.

Lemma bridge_frag_last (i pc : N) : Z.of_N pc < i64max -> (1 <= pc)%N ->
  k_mpeg1video_frag_last (Z.of_N i) (Z.of_N pc) = (i + 1 =? pc)%N.
Proof.
  unfold k_mpeg1video_frag_last, i64max. intros H1 H2. rewrite ki64_small by lia.
  destruct (Z.eqb_spec (Z.of_N i) (Z.of_N pc - 1)), (N.eqb_spec (i + 1) pc); lia.
Qed.

(* the header bytes:  byte(tr >> 8), byte(tr), bos<<5 | start<<4 | end<<3 | frameType   (Model.header) *)
Lemma bridge_hdr_tr (tr : N) : u16 tr ->
  k_mpeg1video_frag_h0 (Z.of_N tr) = Z.of_N (tr / 256) /\ k_mpeg1video_frag_h1 (Z.of_N tr) = Z.of_N (tr mod 256) /\
  k_mpeg1video_agg_h0 (Z.of_N tr) = Z.of_N (tr / 256) /\ k_mpeg1video_agg_h1 (Z.of_N tr) = Z.of_N (tr mod 256).
Proof.
  unfold u16, k_mpeg1video_frag_h0, k_mpeg1video_frag_h1, k_mpeg1video_agg_h0, k_mpeg1video_agg_h1, w8, w16.
  intros H. rewrite Z.shiftr_div_pow2 by lia. change (2 ^ 8) with 256. repeat split; lia.
Qed.

Lemma bridge_hdr_flags (bos st sp ft : N) : bit bos -> bit st -> bit sp -> (ft < 8)%N ->
  k_mpeg1video_frag_h2 (Z.of_N bos) (Z.of_N st) (Z.of_N sp) (Z.of_N ft) = Z.of_N (bos * 32 + st * 16 + sp * 8 + ft) /\
  k_mpeg1video_agg_h2 (Z.of_N bos) (Z.of_N ft) = Z.of_N (bos * 32 + 1 * 16 + 1 * 8 + ft).
Proof.
  unfold bit. intros Hb Hs He Hf.
  assert (Eb : (bos = 0 \/ bos = 1)%N) by lia. assert (Es : (st = 0 \/ st = 1)%N) by lia. assert (Ee : (sp = 0 \/ sp = 1)%N) by lia.
  assert (Ef : (ft = 0 \/ ft = 1 \/ ft = 2 \/ ft = 3 \/ ft = 4 \/ ft = 5 \/ ft = 6 \/ ft = 7)%N) by lia.
  destruct Eb as [->| ->], Es as [->| ->], Ee as [->| ->]; repeat (destruct Ef as [->|Ef]); try subst ft;
    vm_compute; split; reflexivity.
Qed.

(* temporalReference = uint16(slice[4])<<2 | uint16(slice[5])>>6; frameType = (slice[5] >> 3) & 0b111  (Model.upd);
   slice[3] is compared with 0 and 0xB8; a picture start code needs len(slice) >= 6 (Model.picture_check) *)
Lemma bridge_picture (s4 s5 : N) (s : bytes) : byte s4 -> byte s5 ->
  k_mpeg1video_tr (Z.of_N s4) (Z.of_N s5) = Z.of_N (s4 * 4 + s5 / 64) /\
  k_mpeg1video_ft (Z.of_N s5) = Z.of_N ((s5 / 8) mod 8) /\
  k_mpeg1video_pic_short (Z.of_N (nlen s)) = (nlen s <? 6)%N /\
  k_mpeg1video_pic_code = Z.of_N 0 /\ k_mpeg1video_gop_code = Z.of_N 184.
Proof.
  unfold byte, k_mpeg1video_tr, k_mpeg1video_ft, k_mpeg1video_pic_short. intros H4 H5. split; [|split; [|split; [|split]]].
  - rewrite (w16_small (Z.of_N s4)), (w16_small (Z.of_N s5)) by lia.
    rewrite Z.shiftr_div_pow2 by lia. change (2 ^ 6) with 64.
    rewrite (w16_small (Z.of_N s5 / 64)) by lia.
    rewrite (Z.shiftl_mul_pow2 _ 2) by lia. change (2 ^ 2) with 4. rewrite (w16_small (Z.of_N s4 * 4)) by lia.
    rewrite <- (Z.shiftl_mul_pow2 _ 2) by lia. rewrite lor_shift by lia. change (2 ^ 2) with 4.
    rewrite w16_small by lia. lia.
  - rewrite Z.shiftr_div_pow2 by lia. change (2 ^ 3) with 8. change 7 with (2 ^ 3 - 1).
    rewrite land_mask by lia. change (2 ^ 3) with 8. unfold w8. lia.
  - exact (ltb_N (nlen s) 6).
  - reflexivity.
  - reflexivity.
Qed.

(* e.sequenceNumber++ (two copies) is Rtp.seq_next *)
Lemma bridge_seq (s : N) :
  k_mpeg1video_seq_frag (Z.of_N s) = Z.of_N (seq_next s) /\ k_mpeg1video_seq_agg (Z.of_N s) = Z.of_N (seq_next s).
Proof. unfold k_mpeg1video_seq_frag, k_mpeg1video_seq_agg, seq_next. split; apply w16_succ_N. Qed.

Theorem enc_kernels_are_the_code (max : N) (batch : list bytes) (s c : bytes) (h : hdr) (bos st sp ft tr s4 s5 i pc sq : N) :
  (5 <= max)%N -> Z.of_N max < i64max -> Z.of_N (4 + nlen s + total batch) < i64max -> Z.of_N (nlen c) + 4 < i64max ->
  (1 <= pc)%N -> Z.of_N pc < i64max -> bit bos -> bit st -> bit sp -> (ft < 8)%N -> u16 tr -> byte s4 -> byte s5 ->
  la_code batch (Some s) = Z.of_N (4 + nlen s + total batch) /\
  k_mpeg1video_agg_fits (la_code batch (Some s)) (Z.of_N max) = (4 + nlen s + total batch <=? max)%N /\
  k_mpeg1video_aggregate (Z.of_N (nlen batch)) (la_code batch None) (Z.of_N max)
    = (negb (nlen batch =? 1)%N || (4 + total batch <? max)%N) /\
  k_mpeg1video_aggregate (Z.of_N (nlen [s])) (la_code [s] None) (Z.of_N max) = (4 + nlen s <? max)%N /\
  k_mpeg1video_frag_avail (Z.of_N max) = Z.of_N (max - 4) /\
  k_mpeg1video_packetCount (k_mpeg1video_frag_avail (Z.of_N max)) (k_mpeg1video_frag_le (Z.of_N (nlen s)))
    = Some (Z.of_N (nlen (chunks (max - 4) s))) /\
  k_mpeg1video_frag_size (Z.of_N (nlen c)) = Z.of_N (nlen (header h bos st sp ++ c)) /\
  k_mpeg1video_frag_last (Z.of_N i) (Z.of_N pc) = (i + 1 =? pc)%N /\
  k_mpeg1video_frag_h0 (Z.of_N tr) = Z.of_N (tr / 256) /\ k_mpeg1video_frag_h1 (Z.of_N tr) = Z.of_N (tr mod 256) /\
  k_mpeg1video_agg_h0 (Z.of_N tr) = Z.of_N (tr / 256) /\ k_mpeg1video_agg_h1 (Z.of_N tr) = Z.of_N (tr mod 256) /\
  k_mpeg1video_frag_h2 (Z.of_N bos) (Z.of_N st) (Z.of_N sp) (Z.of_N ft) = Z.of_N (bos * 32 + st * 16 + sp * 8 + ft) /\
  k_mpeg1video_agg_h2 (Z.of_N bos) (Z.of_N ft) = Z.of_N (bos * 32 + 1 * 16 + 1 * 8 + ft) /\
  k_mpeg1video_tr (Z.of_N s4) (Z.of_N s5) = Z.of_N (s4 * 4 + s5 / 64) /\
  k_mpeg1video_ft (Z.of_N s5) = Z.of_N ((s5 / 8) mod 8) /\
  k_mpeg1video_pic_short (Z.of_N (nlen s)) = (nlen s <? 6)%N /\
  k_mpeg1video_pic_code = Z.of_N 0 /\ k_mpeg1video_gop_code = Z.of_N 184 /\
  k_mpeg1video_seq_frag (Z.of_N sq) = Z.of_N (seq_next sq) /\ k_mpeg1video_seq_agg (Z.of_N sq) = Z.of_N (seq_next sq).
Proof.
  intros H1 H2 H3 H4 H5 H6 Hb Hs He Hf Ht H7 H8.
  assert (Hb0 : Z.of_N (4 + total batch) < i64max) by (unfold i64max in *; lia).
  assert (Hs0 : Z.of_N (4 + nlen s) < i64max) by (unfold i64max in *; lia).
  destruct (bridge_hdr_tr tr Ht) as (A1 & A2 & A3 & A4). destruct (bridge_hdr_flags bos st sp ft Hb Hs He Hf) as (B1 & B2).
  destruct (bridge_picture s4 s5 s H7 H8) as (C1 & C2 & C3 & C4 & C5). destruct (bridge_seq sq) as (D1 & D2).
  split; [apply bridge_len_agg; exact H3|]. split; [apply bridge_agg_fits; exact H3|].
  split; [apply bridge_aggregate; exact Hb0|]. split; [apply bridge_aggregate_one; exact Hs0|].
  split; [apply bridge_frag_avail; [lia|exact H2]|].
  split; [apply bridge_frag_count; [exact H1|exact H2|unfold i64max in *; lia]|].
  split; [apply bridge_frag_size; exact H4|]. split; [apply bridge_frag_last; assumption|].
  repeat split; assumption.
Qed.

(* ---------- decoder: header fields, dispatch, resynchronisation tests (C07) ---------- *)

Lemma bridge_dec_fields (p0 p2 : N) : byte p0 -> byte p2 ->
  k_mpeg1video_dec_mbz_bad (k_mpeg1video_dec_mbz (Z.of_N p0)) = negb (p0 / 8 =? 0)%N /\
  k_mpeg1video_dec_t_bad (k_mpeg1video_dec_t (Z.of_N p0)) = negb ((p0 / 4) mod 2 =? 0)%N /\
  k_mpeg1video_dec_an_bad (k_mpeg1video_dec_an (Z.of_N p2)) = negb (p2 / 128 =? 0)%N /\
  k_mpeg1video_dec_n_bad (k_mpeg1video_dec_n (Z.of_N p2)) = negb ((p2 / 64) mod 2 =? 0)%N /\
  k_mpeg1video_dec_b (Z.of_N p2) = Z.of_N ((p2 / 16) mod 2) /\
  k_mpeg1video_dec_e (Z.of_N p2) = Z.of_N ((p2 / 8) mod 2).
Proof.
  unfold byte, k_mpeg1video_dec_mbz_bad, k_mpeg1video_dec_mbz, k_mpeg1video_dec_t_bad, k_mpeg1video_dec_t,
    k_mpeg1video_dec_an_bad, k_mpeg1video_dec_an, k_mpeg1video_dec_n_bad, k_mpeg1video_dec_n,
    k_mpeg1video_dec_b, k_mpeg1video_dec_e. intros H0 H2.
  change 1 with (2 ^ 1 - 1). rewrite !land_mask by lia. rewrite !Z.shiftr_div_pow2 by lia.
  change (2 ^ 1) with 2. change (2 ^ 2) with 4. change (2 ^ 3) with 8. change (2 ^ 4) with 16.
  change (2 ^ 6) with 64. change (2 ^ 7) with 128. unfold w8.
  repeat split; try lia.
  all: f_equal.
  all: match goal with |- (?a =? 0) = (?b =? 0)%N => destruct (Z.eqb_spec a 0), (N.eqb_spec b 0); lia end.
Qed.

(* switch { case b == 1 && e == 1: ... case b == 1: ... case e == 1: ... default: } *)
Lemma bridge_dec_switch (p2 : N) : byte p2 ->
  k_mpeg1video_dec_whole (k_mpeg1video_dec_b (Z.of_N p2)) (k_mpeg1video_dec_e (Z.of_N p2))
    = (((p2 / 16) mod 2 =? 1)%N && ((p2 / 8) mod 2 =? 1)%N) /\
  k_mpeg1video_dec_first (k_mpeg1video_dec_b (Z.of_N p2)) = ((p2 / 16) mod 2 =? 1)%N /\
  k_mpeg1video_dec_lastf (k_mpeg1video_dec_e (Z.of_N p2)) = ((p2 / 8) mod 2 =? 1)%N.
Proof.
  intros H2. destruct (bridge_dec_fields 0 p2 ltac:(unfold byte; lia) H2) as (_ & _ & _ & _ & B & E).
  unfold k_mpeg1video_dec_whole, k_mpeg1video_dec_first, k_mpeg1video_dec_lastf. rewrite B, E.
  rewrite (eqb_N _ 1), (eqb_N _ 1). repeat split.
Qed.

Lemma bridge_dec_resync (seq next fs : N) : u16 seq -> u16 next ->
  k_mpeg1video_dec_nextseq (Z.of_N seq) = Z.of_N (seq_next seq) /\
  k_mpeg1video_dec_incseq (Z.of_N next) = Z.of_N (seq_next next) /\
  k_mpeg1video_dec_gap1 (Z.of_N seq) (Z.of_N next) = negb (seq =? next)%N /\
  k_mpeg1video_dec_gap2 (Z.of_N seq) (Z.of_N next) = negb (seq =? next)%N /\
  k_mpeg1video_dec_nostart1 (Z.of_N fs) = (fs =? 0)%N /\
  k_mpeg1video_dec_nostart2 (Z.of_N fs) = (fs =? 0)%N.
Proof.
  unfold k_mpeg1video_dec_nextseq, k_mpeg1video_dec_incseq, k_mpeg1video_dec_gap1, k_mpeg1video_dec_gap2,
    k_mpeg1video_dec_nostart1, k_mpeg1video_dec_nostart2, seq_next. intros _ _.
  rewrite !w16_succ_N, !eqb_N. repeat split; exact (eqb_N fs 0).
Qed.

Theorem resync_kernels_are_the_code (p0 p2 seq next fs : N) : byte p0 -> byte p2 -> u16 seq -> u16 next ->
  k_mpeg1video_dec_mbz_bad (k_mpeg1video_dec_mbz (Z.of_N p0)) = negb (p0 / 8 =? 0)%N /\
  k_mpeg1video_dec_t_bad (k_mpeg1video_dec_t (Z.of_N p0)) = negb ((p0 / 4) mod 2 =? 0)%N /\
  k_mpeg1video_dec_an_bad (k_mpeg1video_dec_an (Z.of_N p2)) = negb (p2 / 128 =? 0)%N /\
  k_mpeg1video_dec_n_bad (k_mpeg1video_dec_n (Z.of_N p2)) = negb ((p2 / 64) mod 2 =? 0)%N /\
  k_mpeg1video_dec_whole (k_mpeg1video_dec_b (Z.of_N p2)) (k_mpeg1video_dec_e (Z.of_N p2))
    = (((p2 / 16) mod 2 =? 1)%N && ((p2 / 8) mod 2 =? 1)%N) /\
  k_mpeg1video_dec_first (k_mpeg1video_dec_b (Z.of_N p2)) = ((p2 / 16) mod 2 =? 1)%N /\
  k_mpeg1video_dec_lastf (k_mpeg1video_dec_e (Z.of_N p2)) = ((p2 / 8) mod 2 =? 1)%N /\
  k_mpeg1video_dec_nextseq (Z.of_N seq) = Z.of_N (seq_next seq) /\
  k_mpeg1video_dec_incseq (Z.of_N next) = Z.of_N (seq_next next) /\
  k_mpeg1video_dec_gap1 (Z.of_N seq) (Z.of_N next) = negb (seq =? next)%N /\
  k_mpeg1video_dec_gap2 (Z.of_N seq) (Z.of_N next) = negb (seq =? next)%N /\
  k_mpeg1video_dec_nostart1 (Z.of_N fs) = (fs =? 0)%N /\
  k_mpeg1video_dec_nostart2 (Z.of_N fs) = (fs =? 0)%N.
Proof.
  intros H0 H2 Hs Hn. destruct (bridge_dec_fields p0 p2 H0 H2) as (A & B & C & D & _ & _).
  destruct (bridge_dec_switch p2 H2) as (E & F & G).
  destruct (bridge_dec_resync seq next fs Hs Hn) as (I & J & K & L & M & O). repeat split; assumption.
Qed.

(* ---------- decoder: length test and caps (C08) ---------- *)

Lemma bridge_dec_short (pl : bytes) : k_mpeg1video_dec_short (Z.of_N (nlen pl)) = (nlen pl <? 4)%N.
Proof. unfold k_mpeg1video_dec_short. exact (ltb_N (nlen pl) 4). Qed.

(* d.fragmentsSize += len(pkt.Payload[4:]); if d.fragmentsSize > maxFrameSize   (two copies: end and middle fragments) *)
Lemma bridge_dec_cap (fs : N) (body : bytes) : Z.of_N (fs + nlen body) < i64max ->
  k_mpeg1video_dec_acc1 (Z.of_N fs) (Z.of_N (nlen body)) = Z.of_N (fs + nlen body) /\
  k_mpeg1video_dec_cap1 (k_mpeg1video_dec_acc1 (Z.of_N fs) (Z.of_N (nlen body))) (Z.of_N cap) = (cap <? fs + nlen body)%N /\
  k_mpeg1video_dec_acc2 (Z.of_N fs) (Z.of_N (nlen body)) = Z.of_N (fs + nlen body) /\
  k_mpeg1video_dec_cap2 (k_mpeg1video_dec_acc2 (Z.of_N fs) (Z.of_N (nlen body))) (Z.of_N cap) = (cap <? fs + nlen body)%N.
Proof.
  unfold k_mpeg1video_dec_cap1, k_mpeg1video_dec_acc1, k_mpeg1video_dec_cap2, k_mpeg1video_dec_acc2, i64max. intros H.
  rewrite ki64_small by lia. rewrite <- N2Z.inj_add. repeat split; apply gtb_N.
Qed.

(* Decode: (d.sliceBufferSize + addSize) > maxFrameSize, d.sliceBufferSize += addSize *)
Lemma bridge_dec_slicecap (ss : N) (s : bytes) : Z.of_N (ss + nlen s) < i64max ->
  k_mpeg1video_dec_slicecap (Z.of_N ss) (Z.of_N (nlen s)) (Z.of_N cap) = (cap <? ss + nlen s)%N /\
  k_mpeg1video_dec_sliceacc (Z.of_N ss) (Z.of_N (nlen s)) = Z.of_N (ss + nlen s).
Proof.
  unfold k_mpeg1video_dec_slicecap, k_mpeg1video_dec_sliceacc, i64max. intros H.
  rewrite ki64_small by lia. rewrite <- N2Z.inj_add. split; [apply gtb_N|reflexivity].
Qed.

Theorem caps_kernels_are_the_code (pl body s : bytes) (fs ss : N) :
  Z.of_N (fs + nlen body) < i64max -> Z.of_N (ss + nlen s) < i64max ->
  k_mpeg1video_dec_short (Z.of_N (nlen pl)) = (nlen pl <? 4)%N /\
  k_mpeg1video_dec_acc1 (Z.of_N fs) (Z.of_N (nlen body)) = Z.of_N (fs + nlen body) /\
  k_mpeg1video_dec_cap1 (k_mpeg1video_dec_acc1 (Z.of_N fs) (Z.of_N (nlen body))) (Z.of_N cap) = (cap <? fs + nlen body)%N /\
  k_mpeg1video_dec_acc2 (Z.of_N fs) (Z.of_N (nlen body)) = Z.of_N (fs + nlen body) /\
  k_mpeg1video_dec_cap2 (k_mpeg1video_dec_acc2 (Z.of_N fs) (Z.of_N (nlen body))) (Z.of_N cap) = (cap <? fs + nlen body)%N /\
  k_mpeg1video_dec_slicecap (Z.of_N ss) (Z.of_N (nlen s)) (Z.of_N cap) = (cap <? ss + nlen s)%N /\
  k_mpeg1video_dec_sliceacc (Z.of_N ss) (Z.of_N (nlen s)) = Z.of_N (ss + nlen s).
Proof.
  intros H1 H2. destruct (bridge_dec_cap fs body H1) as (A & B & C & D). destruct (bridge_dec_slicecap ss s H2) as (E & F).
  split; [apply bridge_dec_short|]. repeat split; assumption.
Qed.

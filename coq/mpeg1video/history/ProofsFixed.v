(* rtpmpeg1video with the F5 repair (ModelFixed.v): on every packet history the decoder never
   panics and retains at most maxFrameSize + max(maxFrameSize, P) BYTES, where P bounds the packet
   payloads (slice buffer <= maxFrameSize, fragment table <= max(maxFrameSize, P)).  The number of
   slice HEADERS stays unbounded (empty fragments / empty slices, finding F6), which this repair does
   not address. *)
From GVL Require Import NList Wire Chunks Rtp.
From GVG Require Import Consts.
From GV_mpeg1video Require Import Model PEnc PDec ModelFixed.
From Coq Require Import ZifyBool ZifyNat ZifyN.
Open Scope N_scope.

Definition InvFx (P : N) (d : dstate) : Prop := Inv d /\ dfsize d <= N.max cap P.

Lemma invfx_reset P d : InvFx P d -> InvFx P (reset_frags d).
Proof. intros [HI _]. split; [now apply inv_reset_frags|]. cbn. lia. Qed.

Lemma decode_slice_fx_inv P d p : InvFx P d -> nlen (ppayload p) <= P ->
  let '(d1, r) := decode_slice_fx d p in
  InvFx P d1 /\ r <> SlPanic /\ dslices d1 = dslices d /\ dssize d1 = dssize d.
Proof.
  intros HF HP. pose proof HF as [HI Hb]. pose proof HI as (H1 & H2 & H3). unfold decode_slice_fx.
  destruct (N.ltb_spec (nlen (ppayload p)) 4) as [Hl|Hl].
  { split; [now apply invfx_reset|]. split; [discriminate|]. split; reflexivity. }
  destruct (nnth_lt (ppayload p) 0) as [p0 ->]; [lia|].
  destruct (nnth_lt (ppayload p) 2) as [p2 ->]; [lia|].
  rewrite nsub_suffix by lia. set (body := ndrop 4 (ppayload p)).
  assert (Hbody : nlen body <= P) by (unfold body; rewrite nlen_ndrop; lia).
  assert (R : InvFx P (reset_frags d) /\ SlErr <> SlPanic /\ dslices (reset_frags d) = dslices d /\ dssize (reset_frags d) = dssize d).
  { split; [now apply invfx_reset|]. split; [discriminate|]. split; reflexivity. }
  destruct (negb (p0 / 8 =? 0)); [exact R|]. destruct (negb ((p0 / 4) mod 2 =? 0)); [exact R|].
  destruct (negb (p2 / 128 =? 0)); [exact R|]. destruct (negb ((p2 / 64) mod 2 =? 0)); [exact R|].
  destruct ((p2 / 16) mod 2 =? 1); destruct ((p2 / 8) mod 2 =? 1); cbn [andb].
  - split; [exact HF|]. split; [discriminate|]. split; reflexivity.
  - split; [|split; [discriminate|split; reflexivity]]. split; [unfold Inv; cbn; rewrite app_nil_r; tauto|cbn; lia].
  - destruct (dfsize d =? 0); [split; [exact HF|split; [discriminate|split; reflexivity]]|].
    destruct (negb (pseq p =? dfnext d)); [exact R|].
    destruct (N.ltb_spec cap (dfsize d + nlen body)); [exact R|].
    replace (dfsize d + nlen body) with (nlen (concat (dfrags d ++ [body]))) by (rewrite concat_snoc, nlen_app; lia).
    rewrite join_exact. split; [split; [unfold Inv; cbn; tauto|cbn; lia]|]. split; [discriminate|]. split; reflexivity.
  - destruct (dfsize d =? 0); [split; [exact HF|split; [discriminate|split; reflexivity]]|].
    destruct (negb (pseq p =? dfnext d)); [exact R|].
    destruct (N.ltb_spec cap (dfsize d + nlen body)); [exact R|].
    split; [|split; [discriminate|split; reflexivity]]. split; [|cbn; lia].
    unfold Inv; cbn. rewrite concat_snoc, nlen_app. splits; [lia|assumption|assumption].
Qed.

Lemma dec_fx_inv P d p : InvFx P d -> nlen (ppayload p) <= P ->
  InvFx P (fst (dec_fx d p)) /\ snd (dec_fx d p) <> DPanic /\ (forall f, snd (dec_fx d p) = DFrame f -> nlen f <= cap).
Proof.
  intros HF HP. unfold dec_fx. pose proof (decode_slice_fx_inv P d p HF HP) as Hs.
  destruct (decode_slice_fx d p) as [d1 r]. destruct Hs as ([HI1 Hb1] & Hnp & Hsl & Hss).
  destruct r as [s| | |]; cbn [fst snd]; try (split; [split; assumption|split; [discriminate|discriminate]]); [|contradiction].
  pose proof HI1 as (H1 & H2 & H3).
  assert (C : InvFx P (mkD (dfrags d1) (dfsize d1) (dfnext d1) [] 0)).
  { split; [|cbn; assumption]. unfold Inv; cbn. splits; [assumption|reflexivity|unfold cap, mpeg1video_max_frame_size; lia]. }
  destruct (N.ltb_spec cap (dssize d1 + nlen s)) as [Hov|Hfit]; cbn [fst snd].
  { split; [exact C|]. split; discriminate. }
  destruct (pmarker p); cbn [negb fst snd].
  - cbn [dslices dssize dfrags dfsize dfnext].
    replace (dssize d1 + nlen s) with (nlen (concat (dslices d1 ++ [s]))) by (rewrite concat_snoc, nlen_app; lia).
    rewrite join_exact.
    destruct (validate _ _); cbn [fst snd]; (split; [exact C|]); (split; [discriminate|]); [|discriminate].
    intros f Hf. injection Hf as <-. rewrite concat_snoc, nlen_app. lia.
  - split; [|split; discriminate]. split; [|cbn; assumption]. unfold Inv; cbn. rewrite concat_snoc, nlen_app. splits; [assumption|lia|lia].
Qed.

Theorem fixed_bounded P hist : Forall (fun p => nlen (ppayload p) <= P) hist ->
  let '(d, rs) := dec_run_fx dinit hist in
  fst (retained d) <= cap + N.max cap P /\ ~ In DPanic rs /\ forall f, In (DFrame f) rs -> nlen f <= cap.
Proof.
  assert (G : forall hist d, InvFx P d -> Forall (fun p => nlen (ppayload p) <= P) hist ->
    InvFx P (fst (dec_run_fx d hist)) /\ ~ In DPanic (snd (dec_run_fx d hist)) /\
    forall f, In (DFrame f) (snd (dec_run_fx d hist)) -> nlen f <= cap).
  { clear hist. induction hist as [|p t IH]; intros d HF HP; cbn [dec_run_fx]; [cbn; tauto|].
    inversion HP as [|? ? Hp Ht]; subst.
    destruct (dec_fx_inv P d p HF Hp) as (HF' & Hnp & Hfr). destruct (dec_fx d p) as [d' r] eqn:E. cbn [fst snd] in *.
    destruct (IH d' HF' Ht) as (HF'' & Hnp' & Hfr'). destruct (dec_run_fx d' t) as [d'' rs]. cbn [fst snd] in *.
    split; [assumption|]. split.
    - intros [H|H]; [congruence|contradiction].
    - intros f [H|H]; [now apply Hfr|now apply Hfr']. }
  intros HP. specialize (G hist dinit). destruct (dec_run_fx dinit hist) as [d rs]. cbn [fst snd] in G.
  destruct G as ([(H1 & H2 & H3) Hb] & Hnp & Hfr); [split; [apply inv_init|cbn; lia]|assumption|].
  unfold retained; cbn [fst]. split; [lia|]. split; assumption.
Qed.

(* C07, rtpmpeg1video — statements only *)
From GVL Require Import NList Rtp.
From GV_mpeg1video Require Import Model Proofs.
Open Scope N_scope.

(* After ANY packet history (loss, duplication, reordering, foreign packets: [hist] is arbitrary), one
   intact frame f1 (any frame Encode accepts) is enough: the next intact frame f2 is returned exactly
   at its last packet, "more" before, and the decoder is clean afterwards.  Sequence numbers s1, s2 are
   arbitrary, so whole frames may be missing between the two. *)
Theorem C07_mpeg1video_resync : forall max hist f1 f2 s1 s2,
  5 <= max -> bytes_ok f1 -> encodable f1 -> valid_frame f2 ->
  exists ps1 q1 ps2 q2, enc max s1 f1 = EOk ps1 q1 /\ enc max s2 f2 = EOk ps2 q2 /\
  let d0 := fst (dec_run dinit hist) in
  let d1 := fst (dec_run d0 ps1) in
  exists d2, dec_run d1 ps2 = (d2, repeat DMore (length ps2 - 1) ++ [DFrame f2]) /\ clean d2.
Proof. exact resync. Qed.
Print Assumptions C07_mpeg1video_resync.

Theorem C07_mpeg1video_no_panic : forall hist, ~ In DPanic (snd (dec_run dinit hist)).
Proof. exact total. Qed.
Print Assumptions C07_mpeg1video_no_panic.

Definition fa : bytes := [0;0;1;1;5;6;7;8;9;10;11].
Definition fb : bytes := [0;0;1;2;3;4].
Example C07_mpeg1video_example : (* first packet of frame a lost; an intact b; then a again *)
  match enc 9 10 fa, enc 9 20 fb, enc 9 30 fa with
  | EOk pa _, EOk pb _, EOk pa' _ =>
      snd (dec_run dinit (tl pa ++ pb ++ pa')) = [DErr; DErr; DMore; DFrame fb; DMore; DMore; DFrame fa]
  | _, _, _ => False
  end.
Proof. vm_compute. reflexivity. Qed.

(* rtpmpeg1video decoder with the proposed repair of finding F5: after adding a middle or end
   fragment, fragmentsSize is checked against maxFrameSize (as rtph264 does for FU-A); on overflow the
   fragments are dropped and an error is returned.  Everything else is Model.v.  NOT referenced by
   the Props files: the coordinator switches over after a fix commit in /repo. *)
From GVL Require Import NList Wire Chunks Rtp.
From GV_mpeg1video Require Import Model.
Open Scope N_scope.

Definition decode_slice_fx (d : dstate) (p : packet) : dstate * sl :=
  let pl := ppayload p in
  if nlen pl <? 4 then (reset_frags d, SlErr) else
  match nnth 0 pl, nnth 2 pl, nsub pl 4 (nlen pl) with
  | Some p0, Some p2, Some body =>
      if negb (p0 / 8 =? 0) then (reset_frags d, SlErr) else
      if negb ((p0 / 4) mod 2 =? 0) then (reset_frags d, SlErr) else
      if negb (p2 / 128 =? 0) then (reset_frags d, SlErr) else
      if negb ((p2 / 64) mod 2 =? 0) then (reset_frags d, SlErr) else
      let b := (p2 / 16) mod 2 =? 1 in
      let e := (p2 / 8) mod 2 =? 1 in
      if b && e then (d, SlSlice body)
      else if b then (mkD [body] (nlen body) (seq_next (pseq p)) (dslices d) (dssize d), SlMore)
      else if e then
        if dfsize d =? 0 then (d, SlErr) else
        if negb (pseq p =? dfnext d) then (reset_frags d, SlErr) else
        if cap <? dfsize d + nlen body then (reset_frags d, SlErr) else          (* the repair *)
        let frags := dfrags d ++ [body] in
        let size := dfsize d + nlen body in
        match join frags size with
        | Some s => (mkD [] 0 (dfnext d) (dslices d) (dssize d), SlSlice s)
        | None => (d, SlPanic)
        end
      else
        if dfsize d =? 0 then (d, SlErr) else
        if negb (pseq p =? dfnext d) then (reset_frags d, SlErr) else
        if cap <? dfsize d + nlen body then (reset_frags d, SlErr) else          (* the repair *)
        (mkD (dfrags d ++ [body]) (dfsize d + nlen body) (seq_next (dfnext d)) (dslices d) (dssize d), SlMore)
  | _, _, _ => (d, SlPanic)
  end.

Definition dec_fx (d : dstate) (p : packet) : dstate * dres bytes :=
  match decode_slice_fx d p with
  | (d1, SlPanic) => (d1, DPanic)
  | (d1, SlErr) => (d1, DErr)
  | (d1, SlMore) => (d1, DMore)
  | (d1, SlSlice s) =>
      if cap <? dssize d1 + nlen s then (mkD (dfrags d1) (dfsize d1) (dfnext d1) [] 0, DErr) else
      let d2 := mkD (dfrags d1) (dfsize d1) (dfnext d1) (dslices d1 ++ [s]) (dssize d1 + nlen s) in
      if negb (pmarker p) then (d2, DMore) else
      match join (dslices d2) (dssize d2) with
      | None => (d2, DPanic)
      | Some ret =>
          let d3 := mkD (dfrags d2) (dfsize d2) (dfnext d2) [] 0 in
          if validate ret ret then (d3, DFrame ret) else (d3, DErr)
      end
  end.

Fixpoint dec_run_fx (d : dstate) (ps : list packet) : dstate * list (dres bytes) :=
  match ps with
  | [] => (d, [])
  | p :: t => let '(d', r) := dec_fx d p in let '(d'', rs) := dec_run_fx d' t in (d'', r :: rs)
  end.

(* rtpmpeg1video, decoder side on ARBITRARY packet histories (C08): never panics, the slice buffer and
   every returned frame stay within maxFrameSize; the fragment table is unbounded (F5) and both tables
   take empty entries without bound (F6). *)
From GVL Require Import NList Wire Chunks Rtp.
From GVG Require Import Consts.
From GV_mpeg1video Require Import Model PEnc.
From Coq Require Import ZifyBool ZifyNat ZifyN.
Open Scope N_scope.

(* join is exact (and does not panic) when size is the total length *)
Lemma join_aux_exact frags : forall size n acc,
  n = nlen acc -> size = n + nlen (concat frags) -> join_aux frags size n acc = Some (acc ++ concat frags).
Proof.
  induction frags as [|p t IH]; intros size n acc Hn Hs; cbn [join_aux concat] in *.
  - cbn [nlen] in Hs. replace (size - n) with 0 by lia. cbn [nrep]. reflexivity.
  - rewrite nlen_app in Hs. destruct (N.ltb_spec size n); [lia|].
    rewrite ntake_all by lia. rewrite IH; [now rewrite <- app_assoc| rewrite nlen_app; lia | lia].
Qed.
Lemma join_exact frags : join frags (nlen (concat frags)) = Some (concat frags).
Proof. unfold join. now rewrite join_aux_exact with (acc := []). Qed.

(* sizes are the lengths of what the tables hold; the slice buffer never exceeds maxFrameSize *)
Definition Inv (d : dstate) : Prop :=
  dfsize d = nlen (concat (dfrags d)) /\ dssize d = nlen (concat (dslices d)) /\ dssize d <= cap.

Lemma inv_init : Inv dinit.
Proof. unfold Inv, dinit; cbn. unfold cap, mpeg1video_max_frame_size. lia. Qed.

Lemma inv_reset_frags d : Inv d -> Inv (reset_frags d).
Proof. intros (H1 & H2 & H3). unfold Inv, reset_frags; cbn. tauto. Qed.

Lemma nsub_suffix {A} (l : list A) i : i <= nlen l -> nsub l i (nlen l) = Some (ndrop i l).
Proof.
  intros H. unfold nsub. destruct (N.leb_spec i (nlen l)); [|lia]. rewrite N.leb_refl. cbn [andb].
  f_equal. apply ntake_all. rewrite nlen_ndrop. lia.
Qed.

(* decode_slice: never panics, keeps the invariant, leaves the slice buffer alone *)
Lemma decode_slice_inv d p : Inv d ->
  let '(d1, r) := decode_slice d p in
  Inv d1 /\ r <> SlPanic /\ dslices d1 = dslices d /\ dssize d1 = dssize d.
Proof.
  intros HI. pose proof HI as (H1 & H2 & H3). unfold decode_slice.
  destruct (N.ltb_spec (nlen (ppayload p)) 4) as [Hl|Hl].
  { split; [now apply inv_reset_frags|]. split; [discriminate|]. split; reflexivity. }
  destruct (nnth_lt (ppayload p) 0) as [p0 ->]; [lia|].
  destruct (nnth_lt (ppayload p) 2) as [p2 ->]; [lia|].
  rewrite nsub_suffix by lia. set (body := ndrop 4 (ppayload p)).
  assert (R : Inv (reset_frags d) /\ SlErr <> SlPanic /\ dslices (reset_frags d) = dslices d /\ dssize (reset_frags d) = dssize d).
  { split; [now apply inv_reset_frags|]. split; [discriminate|]. split; reflexivity. }
  destruct (negb (p0 / 8 =? 0)); [exact R|]. destruct (negb ((p0 / 4) mod 2 =? 0)); [exact R|].
  destruct (negb (p2 / 128 =? 0)); [exact R|]. destruct (negb ((p2 / 64) mod 2 =? 0)); [exact R|].
  destruct ((p2 / 16) mod 2 =? 1); destruct ((p2 / 8) mod 2 =? 1); cbn [andb].
  - split; [exact HI|]. split; [discriminate|]. split; reflexivity.
  - split; [|split; [discriminate|split; reflexivity]]. unfold Inv; cbn. rewrite app_nil_r. tauto.
  - destruct (dfsize d =? 0); [split; [exact HI|split; [discriminate|split; reflexivity]]|].
    destruct (negb (pseq p =? dfnext d)); [exact R|].
    replace (dfsize d + nlen body) with (nlen (concat (dfrags d ++ [body]))) by (rewrite concat_snoc, nlen_app; lia).
    rewrite join_exact. split; [unfold Inv; cbn; tauto|]. split; [discriminate|]. split; reflexivity.
  - destruct (dfsize d =? 0); [split; [exact HI|split; [discriminate|split; reflexivity]]|].
    destruct (negb (pseq p =? dfnext d)); [exact R|].
    split; [|split; [discriminate|split; reflexivity]]. unfold Inv; cbn. rewrite concat_snoc, nlen_app. splits; [lia|assumption|assumption].
Qed.

Lemma dec_inv d p : Inv d ->
  Inv (fst (dec d p)) /\ snd (dec d p) <> DPanic /\ (forall f, snd (dec d p) = DFrame f -> nlen f <= cap).
Proof.
  intros HI. unfold dec. pose proof (decode_slice_inv d p HI) as Hs.
  destruct (decode_slice d p) as [d1 r]. destruct Hs as (HI1 & Hnp & Hsl & Hss).
  destruct r as [s| | |]; cbn [fst snd]; try (split; [assumption|split; [discriminate|discriminate]]); [|contradiction].
  pose proof HI1 as (H1 & H2 & H3).
  destruct (N.ltb_spec cap (dssize d1 + nlen s)) as [Hov|Hfit]; cbn [fst snd].
  { split; [unfold Inv; cbn; splits; [assumption|reflexivity|unfold cap, mpeg1video_max_frame_size; lia]|]. split; discriminate. }
  destruct (pmarker p); cbn [negb fst snd].
  - cbn [dslices dssize].
    replace (dssize d1 + nlen s) with (nlen (concat (dslices d1 ++ [s]))) by (rewrite concat_snoc, nlen_app; lia).
    rewrite join_exact.
    assert (HI3 : Inv (mkD (dfrags d1) (dfsize d1) (dfnext d1) [] 0)).
    { unfold Inv; cbn. splits; [assumption|reflexivity|unfold cap, mpeg1video_max_frame_size; lia]. }
    destruct (validate _ _); cbn [fst snd]; (split; [exact HI3|]); (split; [discriminate|]); [|discriminate].
    intros f Hf. injection Hf as <-. rewrite concat_snoc, nlen_app. lia.
  - split; [|split; discriminate]. unfold Inv; cbn. rewrite concat_snoc, nlen_app. splits; [assumption|lia|lia].
Qed.

Lemma dec_run_inv ps : forall d, Inv d ->
  Inv (fst (dec_run d ps)) /\ ~ In DPanic (snd (dec_run d ps)) /\
  forall f, In (DFrame f) (snd (dec_run d ps)) -> nlen f <= cap.
Proof.
  induction ps as [|p t IH]; intros d HI; cbn [dec_run]; [cbn; tauto|].
  destruct (dec_inv d p HI) as (HI' & Hnp & Hfr). destruct (dec d p) as [d' r] eqn:E. cbn [fst snd] in *.
  destruct (IH d' HI') as (HI'' & Hnp' & Hfr'). destruct (dec_run d' t) as [d'' rs]. cbn [fst snd] in *.
  split; [assumption|]. split.
  - intros [H|H]; [congruence|contradiction].
  - intros f [H|H]; [now apply Hfr|now apply Hfr'].
Qed.

(* C08: totality; every returned frame <= maxFrameSize; the slice buffer holds <= maxFrameSize bytes *)
Theorem total hist : ~ In DPanic (snd (dec_run dinit hist)).
Proof. apply (dec_run_inv hist dinit inv_init). Qed.

Theorem output_bounded hist f : In (DFrame f) (snd (dec_run dinit hist)) -> nlen f <= cap.
Proof. apply (dec_run_inv hist dinit inv_init). Qed.

Theorem slicebuffer_bounded hist : nlen (concat (dslices (fst (dec_run dinit hist)))) <= cap.
Proof. destruct (dec_run_inv hist dinit inv_init) as ((_ & H2 & H3) & _). lia. Qed.

(* ---------- F5: the fragment table has no byte cap ---------- *)
Definition start1 : packet := mkPkt 0 0 false [0; 0; 16; 0; 9].           (* B=1, one body byte *)
Fixpoint mids (body : bytes) (seq : N) (k : nat) : list packet :=
  match k with O => [] | S k' => mkPkt seq 0 false ([0; 0; 0; 0] ++ body) :: mids body (seq_next seq) k' end.

Lemma mids_small body seq k : Forall (fun p => nlen (ppayload p) <= 4 + nlen body) (mids body seq k).
Proof.
  revert seq; induction k as [|k IH]; intros seq; cbn [mids]; constructor; [|apply IH].
  cbn [ppayload]. rewrite nlen_app. cbn [nlen]. lia.
Qed.

Lemma mids_grow body k : forall d, 0 < dfsize d ->
  let d' := fst (dec_run d (mids body (dfnext d) k)) in
  nlen (dfrags d') = nlen (dfrags d) + N.of_nat k /\ dfsize d' = dfsize d + N.of_nat k * nlen body /\
  nlen (concat (dfrags d')) = nlen (concat (dfrags d)) + N.of_nat k * nlen body /\
  dslices d' = dslices d.
Proof.
  induction k as [|k IH]; intros d Hs; cbn [mids dec_run]; [cbn; splits; try lia; reflexivity|].
  assert (E : dec d (mkPkt (dfnext d) 0 false ([0; 0; 0; 0] ++ body)) =
    (mkD (dfrags d ++ [body]) (dfsize d + nlen body) (seq_next (dfnext d)) (dslices d) (dssize d), DMore)).
  { unfold dec, decode_slice. cbn [ppayload pseq app nlen].
    destruct (N.ltb_spec (N.succ (N.succ (N.succ (N.succ (nlen body))))) 4); [lia|].
    cbn [nnth N.eqb N.pred Pos.pred_N]. 
    replace (nsub (0 :: 0 :: 0 :: 0 :: body) 4 (N.succ (N.succ (N.succ (N.succ (nlen body)))))) with (Some body).
    2:{ unfold nsub. cbn [nlen]. destruct (N.leb_spec 4 (N.succ (N.succ (N.succ (N.succ (nlen body)))))); [|lia].
        rewrite N.leb_refl. cbn [andb ndrop N.eqb N.pred Pos.pred_N]. rewrite ndrop_0. f_equal. symmetry. apply ntake_all. lia. }
    cbn. destruct (N.eqb_spec (dfsize d) 0); [lia|]. rewrite N.eqb_refl. cbn. reflexivity. }
  rewrite E. set (d2 := mkD _ _ _ _ _).
  specialize (IH d2). replace (seq_next (dfnext d)) with (dfnext d2) by reflexivity.
  destruct (dec_run d2 (mids body (dfnext d2) k)) as [d3 rs]. cbn [fst] in *.
  destruct IH as (I1 & I2 & I3 & I4); [unfold d2; cbn; lia|]. unfold d2 in *; cbn [dfrags dfsize dslices] in *.
  rewrite nlen_app in I1. rewrite concat_snoc, nlen_app in I3. cbn [nlen] in I1.
  rewrite Nat2N.inj_succ, N.mul_succ_l. splits; try lia; assumption.
Qed.

Definition after_start1 : dstate := mkD [[9]] 1 1 [] 0.
Lemma dec_start1 : dec dinit start1 = (after_start1, DMore).
Proof. vm_compute. reflexivity. Qed.

(* for every B: a history of packets of at most 5 payload bytes after which more than B bytes are retained *)
Theorem bytes_bounded_refuted : forall B, exists hist,
  Forall (fun p => nlen (ppayload p) <= 5) hist /\ B < fst (retained (fst (dec_run dinit hist))).
Proof.
  intros B. exists (start1 :: mids [7] 1 (N.to_nat B)). split.
  - constructor; [cbn; lia|]. apply (mids_small [7]).
  - cbn [dec_run]. rewrite dec_start1.
    pose proof (mids_grow [7] (N.to_nat B) after_start1 ltac:(cbn; lia)) as H. cbn [dfnext after_start1] in H.
    destruct (dec_run after_start1 (mids [7] 1 (N.to_nat B))) as [d rs]. cbn [fst] in *.
    destruct H as (_ & _ & H3 & _). unfold retained; cbn [fst]. rewrite H3, N2Nat.id.
    cbn [after_start1 dfrags concat nlen app]. lia.
Qed.

(* ---------- F6: empty entries are appended without bound ---------- *)
(* (a) empty middle fragments: every packet has a 4-byte payload (header only) *)
Theorem slices_bounded_refuted_fragments : forall B, exists hist,
  Forall (fun p => nlen (ppayload p) <= 5) hist /\
  B < snd (retained (fst (dec_run dinit hist))) /\ fst (retained (fst (dec_run dinit hist))) = 1.
Proof.
  intros B. exists (start1 :: mids [] 1 (N.to_nat B)). split.
  - constructor; [cbn; lia|]. eapply Forall_impl; [|apply (mids_small [])]. cbn. intros p. lia.
  - cbn [dec_run]. rewrite dec_start1.
    pose proof (mids_grow [] (N.to_nat B) after_start1 ltac:(cbn; lia)) as H. cbn [dfnext after_start1] in H.
    destruct (dec_run after_start1 (mids [] 1 (N.to_nat B))) as [d rs]. cbn [fst] in *.
    destruct H as (H1 & _ & H3 & H4). unfold retained; cbn [fst snd]. rewrite H1, H3, H4, N2Nat.id.
    cbn [after_start1 dfrags dslices concat nlen app]. lia.
Qed.

(* (b) complete but empty slices (B=E=1, header only, no marker) fill the slice buffer *)
Definition empty_slice (seq : N) : packet := mkPkt seq 0 false [0; 0; 24; 0].
Lemma dec_empty_slice d seq : dec d (empty_slice seq) =
  (mkD (dfrags d) (dfsize d) (dfnext d) (dslices d ++ [[]]) (dssize d + 0), DMore) \/ cap < dssize d.
Proof.
  unfold dec. replace (decode_slice d (empty_slice seq)) with (d, SlSlice []) by (unfold decode_slice; cbn; reflexivity).
  cbn [nlen pmarker empty_slice negb]. destruct (N.ltb_spec cap (dssize d + 0)); [right; lia|left; reflexivity].
Qed.

Theorem slices_bounded_refuted_empty_slices : forall B, exists hist,
  Forall (fun p => nlen (ppayload p) = 4) hist /\
  B < snd (retained (fst (dec_run dinit hist))) /\ fst (retained (fst (dec_run dinit hist))) = 0.
Proof.
  intros B. exists (repeat (empty_slice 0) (S (N.to_nat B))). split; [apply Forall_forall; intros p Hp; apply repeat_spec in Hp; now subst|].
  assert (G : forall k d, dssize d = 0 -> let d' := fst (dec_run d (repeat (empty_slice 0) k)) in
    nlen (dslices d') = nlen (dslices d) + N.of_nat k /\ nlen (concat (dslices d')) = nlen (concat (dslices d)) /\
    dfrags d' = dfrags d).
  { induction k as [|k IH]; intros d Hz; cbn [repeat dec_run]; [cbn; splits; try lia; reflexivity|].
    destruct (dec_empty_slice d 0) as [->|Hbad]; [|unfold cap, mpeg1video_max_frame_size in Hbad; lia].
    set (d2 := mkD _ _ _ _ _). specialize (IH d2). destruct (dec_run d2 (repeat (empty_slice 0) k)) as [d3 rs].
    cbn [fst] in *. destruct IH as (I1 & I2 & I3); [unfold d2; cbn; lia|]. unfold d2 in *; cbn [dslices dfrags] in *.
    rewrite nlen_app in I1. rewrite concat_snoc, app_nil_r in I2. cbn [nlen] in I1. splits; [lia|assumption|assumption]. }
  specialize (G (S (N.to_nat B)) dinit eq_refl). destruct (dec_run dinit _) as [d rs]. cbn [fst] in *.
  destruct G as (G1 & G2 & G3). unfold retained; cbn [fst snd]. rewrite G1, G2, G3. rewrite Nat2N.inj_succ, N2Nat.id. cbn [dinit dslices dfrags concat nlen]. lia.
Qed.

(* Executable model of pkg/format/rtpmpeg1video (encoder.go, decoder.go; RFC 2250). Proof-free.
   A frame is a byte string that the encoder cuts into slices at every 00 00 01 start code found at
   offset >= 4 of the remaining input; slices are batched into packets (4-byte header + slices) while
   they fit, a slice that does not fit a packet is fragmented (B/E bits).  The decoder reassembles
   fragments into slices (d.fragments) and slices into the frame (d.sliceBuffer) until the marker.
   Faithful to the pinned tree, including: fragments accumulate without any size check (F5); empty
   fragments / empty b=e=1 slices are appended without bound (F6). *)
From GVL Require Import NList Wire Chunks Rtp.
From GVG Require Import Consts.
Open Scope N_scope.

Definition cap : N := mpeg1video_max_frame_size.      (* maxFrameSize = 1 MiB *)

(* ---------- bytes.Index(l, {0,0,1}) ---------- *)
Definition starts001 (l : bytes) : bool :=
  match l with
  | a :: b :: c :: _ => (a =? 0) && (b =? 0) && (c =? 1)
  | _ => false
  end.
Fixpoint index001 (l : bytes) : option N :=
  match l with
  | [] => None
  | _ :: t => if starts001 l then Some 0 else option_map N.succ (index001 t)
  end.

(* ---------- encoder ---------- *)
Inductive sres := SOk (slices : list bytes) | SErr | SPanic.

(* slice[3] == 0 (picture start code) needs 6 bytes: "invalid slice" error; slice[3] is a checked access *)
Definition picture_check (s : bytes) : sres :=
  match nnth 3 s with
  | None => SPanic
  | Some x => if (x =? 0) && (nlen s <? 6) then SErr else SOk [s]
  end.

(* the slicing loop: frame[4:] panics below 4 bytes; the picture check of slice k comes before the
   split of slice k+1 *)
Fixpoint scan (fuel : bytes) (frame : bytes) : sres :=
  match fuel with
  | [] => SPanic
  | _ :: fuel' =>
      if nlen frame <? 4 then SPanic else
      match index001 (ndrop 4 frame) with
      | Some e =>
          let s := ntake (e + 4) frame in
          match picture_check s with
          | SOk _ =>
              match scan fuel' (ndrop (e + 4) frame) with
              | SOk l => SOk (s :: l)
              | r => r
              end
          | r => r
          end
      | None => picture_check frame
      end
  end.

(* header fields carried from slice to slice *)
Record hdr := mkH { htr : N; hbos : N; hft : N }.
Definition upd (h : hdr) (s : bytes) : hdr :=
  match nnth 3 s with
  | Some x =>
      if x =? 0 then
        match nnth 4 s, nnth 5 s with
        | Some s4, Some s5 => mkH (s4 * 4 + s5 / 64) (hbos h) ((s5 / 8) mod 8)
        | _, _ => h
        end
      else if x =? 184 then mkH (htr h) 1 (hft h)           (* 0xB8: group start code *)
      else h
  | None => h
  end.

Definition total (batch : list bytes) : N := nlen (concat batch).

(* the batching decision is taken BEFORE the header fields are updated with the current slice; a
   flush inside the loop clears beginOfSequence; the last batch is written after the loop *)
Fixpoint batching (max : N) (slices : list bytes) (batch : list bytes) (h : hdr) : list (list bytes * hdr) :=
  match slices with
  | [] => [(batch, h)]
  | s :: t =>
      if 4 + nlen s + total batch <=? max then batching max t (batch ++ [s]) (upd h s)
      else match batch with
           | [] => batching max t [s] (upd h s)
           | _ => (batch, h) :: batching max t [s] (upd (mkH (htr h) 0 (hft h)) s)
           end
  end.

Definition header (h : hdr) (bos start stop : N) : bytes :=
  [htr h / 256; htr h mod 256; bos * 32 + start * 16 + stop * 8 + hft h; 0].

(* fragments of one slice: B on the first, E on the last, beginOfSequence only on the first *)
Fixpoint frag_payloads (h : hdr) (first : bool) (cs : list bytes) : list bytes :=
  match cs with
  | [] => []
  | c :: t =>
      (header h (if first then hbos h else 0) (if first then 1 else 0) (match t with [] => 1 | _ => 0 end) ++ c)
      :: frag_payloads h false t
  end.

(* writeBatch: aggregated unless a single slice with 4+len >= max *)
Definition batch_payloads (max : N) (bh : list bytes * hdr) : list bytes :=
  let '(batch, h) := bh in
  match batch with
  | [s] => if 4 + nlen s <? max then [header h (hbos h) 1 1 ++ s]
           else frag_payloads h true (chunks (max - 4) s)
  | _ => [header h (hbos h) 1 1 ++ concat batch]
  end.

Fixpoint mk_pkts (seq : N) (pls : list bytes) : list packet :=
  match pls with
  | [] => []
  | c :: t => mkPkt seq 0 (match t with [] => true | _ => false end) c :: mk_pkts (seq_next seq) t
  end.

Inductive eres := EOk (ps : list packet) (seq' : N) | EErr | EPanic.

(* With PayloadMaxSize <= 4 every write panics (avail <= 0); what comes first is then the split and
   picture check of the first slice. *)
Definition enc (max seq : N) (frame : bytes) : eres :=
  match scan frame frame with
  | SPanic => EPanic
  | SErr =>
      if max <=? 4 then
        (* an error in a later slice is preceded by the panicking flush of the first batch *)
        if nlen frame <? 4 then EPanic else
        match index001 (ndrop 4 frame) with
        | Some e => match picture_check (ntake (e + 4) frame) with SErr => EErr | _ => EPanic end
        | None => EErr
        end
      else EErr
  | SOk slices =>
      if max <=? 4 then EPanic else
      let pls := concat (map (batch_payloads max) (batching max slices [] (mkH 0 0 0))) in
      EOk (mk_pkts seq pls) (seq_add seq (nlen pls))
  end.

Fixpoint enc_many (max seq : N) (frames : list bytes) : option (list (list packet)) :=
  match frames with
  | [] => Some []
  | f :: t =>
      match enc max seq f with
      | EOk ps seq' => option_map (cons ps) (enc_many max seq' t)
      | _ => None
      end
  end.

(* ---------- decoder ---------- *)
Record dstate := mkD {
  dfrags : list bytes; dfsize : N; dfnext : N;     (* fragments, fragmentsSize, fragmentNextSeqNum *)
  dslices : list bytes; dssize : N }.              (* sliceBuffer, sliceBufferSize *)
Definition dinit : dstate := mkD [] 0 0 [] 0.
Definition reset_frags (d : dstate) : dstate := mkD [] 0 (dfnext d) (dslices d) (dssize d).

(* joinFragments: ret := make([]byte, size); n += copy(ret[n:], p) *)
Fixpoint join_aux (frags : list bytes) (size n : N) (acc : bytes) : option bytes :=
  match frags with
  | [] => Some (acc ++ nrep 0 (size - n))
  | p :: t =>
      if size <? n then None else
      let c := ntake (size - n) p in
      join_aux t size (n + nlen c) (acc ++ c)
  end.
Definition join (frags : list bytes) (size : N) : option bytes := join_aux frags size 0 [].

Inductive sl := SlSlice (s : bytes) | SlMore | SlErr | SlPanic.

Definition decode_slice (d : dstate) (p : packet) : dstate * sl :=
  let pl := ppayload p in
  if nlen pl <? 4 then (reset_frags d, SlErr) else
  match nnth 0 pl, nnth 2 pl, nsub pl 4 (nlen pl) with
  | Some p0, Some p2, Some body =>
      if negb (p0 / 8 =? 0) then (reset_frags d, SlErr) else            (* MBZ *)
      if negb ((p0 / 4) mod 2 =? 0) then (reset_frags d, SlErr) else    (* T *)
      if negb (p2 / 128 =? 0) then (reset_frags d, SlErr) else          (* AN *)
      if negb ((p2 / 64) mod 2 =? 0) then (reset_frags d, SlErr) else   (* N *)
      let b := (p2 / 16) mod 2 =? 1 in
      let e := (p2 / 8) mod 2 =? 1 in
      if b && e then (d, SlSlice body)
      else if b then (mkD [body] (nlen body) (seq_next (pseq p)) (dslices d) (dssize d), SlMore)
      else if e then
        if dfsize d =? 0 then (d, SlErr) else
        if negb (pseq p =? dfnext d) then (reset_frags d, SlErr) else
        let frags := dfrags d ++ [body] in
        let size := dfsize d + nlen body in
        match join frags size with
        | Some s => (mkD [] 0 (dfnext d) (dslices d) (dssize d), SlSlice s)
        | None => (d, SlPanic)
        end
      else
        if dfsize d =? 0 then (d, SlErr) else
        if negb (pseq p =? dfnext d) then (reset_frags d, SlErr) else
        (mkD (dfrags d ++ [body]) (dfsize d + nlen body) (seq_next (dfnext d)) (dslices d) (dssize d), SlMore)
  | _, _, _ => (d, SlPanic)
  end.

(* validateFrame *)
Fixpoint validate (fuel : bytes) (frame : bytes) : bool :=
  match fuel with
  | [] => false
  | _ :: fuel' =>
      if nlen frame <? 4 then false else
      match index001 (ndrop 4 frame) with
      | Some e => validate fuel' (ndrop (e + 4) frame)
      | None => true
      end
  end.

Definition dec (d : dstate) (p : packet) : dstate * dres bytes :=
  match decode_slice d p with
  | (d1, SlPanic) => (d1, DPanic)
  | (d1, SlErr) => (d1, DErr)
  | (d1, SlMore) => (d1, DMore)
  | (d1, SlSlice s) =>
      if cap <? dssize d1 + nlen s then (mkD (dfrags d1) (dfsize d1) (dfnext d1) [] 0, DErr) else
      let d2 := mkD (dfrags d1) (dfsize d1) (dfnext d1) (dslices d1 ++ [s]) (dssize d1 + nlen s) in
      if negb (pmarker p) then (d2, DMore) else
      match join (dslices d2) (dssize d2) with
      | None => (d2, DPanic)
      | Some ret =>
          let d3 := mkD (dfrags d2) (dfsize d2) (dfnext d2) [] 0 in
          if validate ret ret then (d3, DFrame ret) else (d3, DErr)
      end
  end.

Fixpoint dec_run (d : dstate) (ps : list packet) : dstate * list (dres bytes) :=
  match ps with
  | [] => (d, [])
  | p :: t => let '(d', r) := dec d p in let '(d'', rs) := dec_run d' t in (d'', r :: rs)
  end.

(* retained: logical bytes and slice headers of both tables.  The returned frame is a fresh array
   (make in joinFragments); the decoder never writes into an array it has handed out. *)
Definition retained (d : dstate) : N * N :=
  (nlen (concat (dfrags d)) + nlen (concat (dslices d)), nlen (dfrags d) + nlen (dslices d)).

(* ---------- wire ---------- *)
Definition put_res (r : dres bytes) : list N :=
  match r with
  | DFrame f => 1 :: 1 :: putl f
  | DMore => [0]
  | DErr => [2]
  | DPanic => [77]
  end.

Fixpoint get_uframes (fuel : list N) (k : N) (l : list N) : option (list bytes) :=
  if k =? 0 then Some [] else
  match fuel with
  | [] => None
  | _ :: fuel' =>
    match l with
    | 1 :: r0 =>
      match getl r0 with
      | None => None
      | Some (f, r) => option_map (cons f) (get_uframes fuel' (N.pred k) r)
      end
    | _ => None
    end
  end.

Definition run (c : list N) : list N :=
  match c with
  | 1 :: _ :: max :: seq :: k :: t =>
      match get_uframes c k t with
      | Some frames =>
          match enc_many max seq frames with
          | Some pss => put_pkts (concat pss)
          | None => [77]
          end
      | None => bad_case
      end
  | 2 :: _ :: t =>
      match get_pkts t with
      | Some (ps, _) =>
          let '(d, rs) := dec_run dinit ps in
          concat (map put_res rs) ++ [fst (retained d); snd (retained d)]
      | None => bad_case
      end
  | _ => bad_case
  end.

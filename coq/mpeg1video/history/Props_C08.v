(* C08, rtpmpeg1video — statements only *)
From GVL Require Import NList Rtp.
From GV_mpeg1video Require Import Model Proofs.
Open Scope N_scope.

(* any packet history: a frame, "more" or an error - never a panic *)
Theorem C08_mpeg1video_total : forall hist, ~ In DPanic (snd (dec_run dinit hist)).
Proof. exact total. Qed.
Print Assumptions C08_mpeg1video_total.

(* no returned frame exceeds maxFrameSize (1 MiB).  Returned frames are fresh arrays (make in
   joinFragments); the decoder holds no reference to them, so later calls cannot alter them. *)
Theorem C08_mpeg1video_output_bounded : forall hist f,
  In (DFrame f) (snd (dec_run dinit hist)) -> nlen f <= cap.
Proof. exact output_bounded. Qed.
Print Assumptions C08_mpeg1video_output_bounded.

(* FINDING F5: retained bytes have no bound: for EVERY B a history of packets of at most 5 payload
   bytes (a start fragment, then middle fragments with consecutive sequence numbers) after which
   more than B bytes are retained in d.fragments *)
Theorem C08_mpeg1video_bounded_refuted : forall B, exists hist,
  Forall (fun p => nlen (ppayload p) <= 5) hist /\ B < fst (retained (fst (dec_run dinit hist))).
Proof. exact bytes_bounded_refuted. Qed.
Print Assumptions C08_mpeg1video_bounded_refuted.

(* FINDING F6: slice headers have no bound even when (almost) no bytes are retained:
   (a) empty middle fragments after a 1-byte start fragment, (b) empty B=E=1 slices without marker *)
Theorem C08_mpeg1video_slices_bounded_refuted_fragments : forall B, exists hist,
  Forall (fun p => nlen (ppayload p) <= 5) hist /\
  B < snd (retained (fst (dec_run dinit hist))) /\ fst (retained (fst (dec_run dinit hist))) = 1.
Proof. exact slices_bounded_refuted_fragments. Qed.
Print Assumptions C08_mpeg1video_slices_bounded_refuted_fragments.

Theorem C08_mpeg1video_slices_bounded_refuted_empty_slices : forall B, exists hist,
  Forall (fun p => nlen (ppayload p) = 4) hist /\
  B < snd (retained (fst (dec_run dinit hist))) /\ fst (retained (fst (dec_run dinit hist))) = 0.
Proof. exact slices_bounded_refuted_empty_slices. Qed.
Print Assumptions C08_mpeg1video_slices_bounded_refuted_empty_slices.

(* what holds of retained memory: the slice buffer never holds more than maxFrameSize bytes.
   MISSING: any bound on d.fragments (bytes: F5) and on the entry count of both tables (F6). *)
Theorem C08_mpeg1video_bounded_partial : forall hist,
  nlen (concat (dslices (fst (dec_run dinit hist)))) <= cap.
Proof. exact slicebuffer_bounded. Qed.
Print Assumptions C08_mpeg1video_bounded_partial.

Example C08_mpeg1video_example :
  snd (dec_run dinit [mkPkt 1 0 true [0;0;16;0;1;2]; mkPkt 2 0 true [0;0;8;0;3;4]; mkPkt 9 0 true [0;0;24;0;0;0;1]])
  = [DMore; DFrame [1;2;3;4]; DErr].
Proof. vm_compute. reflexivity. Qed.

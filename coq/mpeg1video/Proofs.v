From GVL Require Import NList Wire Chunks Rtp.
From GV_mpeg1video Require Import Model.

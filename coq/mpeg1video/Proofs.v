(* rtpmpeg1video: the proofs are split over PEnc.v (encoder, C06), PDec.v (arbitrary histories, C08)
   and PRT.v (round trip C03, resynchronisation C07); this file only re-exports them. *)
From GV_mpeg1video Require Export Model PEnc PDec PRT.

From Coq Require Extraction ExtrOcamlBasic.
From GV_pipeline Require Import Model.
Extraction Language OCaml.
Extraction "model.ml" run.

(* C01 - statements only.  Each theorem is closed by [exact] of a lemma proved in Proofs.v / Theorems.v
   and followed by Print Assumptions.  [reach c rs st]: st is reached from the initial state with readers
   rs (any number; each TCP or UDP; each with any set of set-up medias on pairwise distinct channels /
   ports) by SOME list of steps - writes, control steps of PLAY / PAUSE / TEARDOWN on any reader, queue
   drains, arrivals, UDP losses - in any interleaving.  c holds the queue capacity and, per media, the
   formats as (payload type, SSRC); the number of medias and formats is arbitrary. *)
From Coq Require Import Permutation.
From GVL Require Import NList.
From GV_pipeline Require Import Model Proofs Theorems.
Open Scope N_scope.

(* What a callback receives was written to that same media and format, identical in sequence number,
   timestamp, marker, payload type and payload; only the SSRC is the stream's SSRC of that format. *)
Theorem C01_delivered_identical : forall c rs st, reach c rs st -> forall r d,
  In r (s_readers st) -> In d (r_deliv r) ->
  exists p0 s, nnth (d_idx d) (s_written st) = Some (d_m d, d_f d, p0) /\
               ssrc_of c (d_m d) (d_f d) = Some s /\ d_pkt d = set_ssrc p0 s.
Proof. exact delivered_identical. Qed.
Print Assumptions C01_delivered_identical.

(* At most once: no written packet reaches the same reader twice, on any transport. *)
Theorem C01_delivered_at_most_once : forall c rs st, reach c rs st -> forall r,
  In r (s_readers st) -> NoDup (didxs (r_deliv r)).
Proof. exact delivered_at_most_once. Qed.
Print Assumptions C01_delivered_at_most_once.

(* In the order written - full strength for TCP-based transports (interleaved, tunnels, TLS): per media and
   format the received packets are an order-preserving subsequence of the written ones.
   (Before commit e586e4c "detach the writer before closing it" this was false: packets pushed between
   asyncprocessor.Close and writer = nil were run from the ring buffer's stale read index; the old model and
   its refutation witness - a TCP reader receiving write indices 4,5,2,3 - are in history/.  The harness
   keeps the deterministic reproduction as a regression case, class tcp-reorder-push-after-close.) *)
Theorem C01_tcp_delivered_is_subsequence : forall c rs st r m f s,
  reach c rs st -> In r (s_readers st) -> r_tcp r = true -> ssrc_of c m f = Some s ->
  Subseq (deliv_mf r m f) (map (fun p => set_ssrc p s) (written_mf (s_written st) m f)).
Proof. exact tcp_delivered_is_subsequence. Qed.
Print Assumptions C01_tcp_delivered_is_subsequence.

Theorem C01_tcp_delivered_in_order : forall c rs st r m f,
  reach c rs st -> In r (s_readers st) -> r_tcp r = true ->
  sinc (didxs (filter (same_mf m f) (r_deliv r))).
Proof. exact tcp_delivered_in_order. Qed.
Print Assumptions C01_tcp_delivered_in_order.

(* UDP (and, uniformly, every reader): the same statement for the deliveries without the ghost flag d_late.
   Over TCP no delivery carries it (that is the two theorems above).  Over UDP it marks what is delivered
   from the first position reset of the reader's rtpreceiver on: the receiver gives up its position after
   more than BufferSize consecutive packets older than the last delivered one and restarts from such a packet.
   PARTIAL: missing for the full UDP statement are exactly the deliveries after such a reset; until then
   everything is in order (C01_udp_in_order_until_reset) and a reset needs that many consecutive late arrivals
   (C01_udp_reset_needs_late_run), which loopback never produces by itself. *)
Theorem C01_delivered_is_subsequence_partial : forall c rs st, reach c rs st -> forall r m f s,
  In r (s_readers st) -> ssrc_of c m f = Some s ->
  Subseq (deliv_mf_ord r m f) (map (fun p => set_ssrc p s) (written_mf (s_written st) m f)).
Proof. exact delivered_is_subsequence_partial. Qed.
Print Assumptions C01_delivered_is_subsequence_partial.

Theorem C01_delivered_in_order_partial : forall c rs st, reach c rs st -> forall r m f,
  In r (s_readers st) -> sinc (didxs (filter (same_mf m f) (ordered_part r))).
Proof. exact delivered_in_order_partial. Qed.
Print Assumptions C01_delivered_in_order_partial.

(* a detached (nil but not yet closed) writer exists only while a stop of that reader is being processed *)
Theorem C01_closed_writer_only_when_stopping : forall c rs st, reach c rs st -> forall r b,
  In r (s_readers st) -> r_w r = WClosed b -> r_ph r = PhStopReq.
Proof. exact closed_writer_only_when_stopping. Qed.
Print Assumptions C01_closed_writer_only_when_stopping.

Theorem C01_delivered_only_known_formats : forall c rs st, reach c rs st -> forall r m f,
  In r (s_readers st) -> ssrc_of c m f = None -> deliv_mf r m f = [].
Proof. exact delivered_only_known_formats. Qed.
Print Assumptions C01_delivered_only_known_formats.

(* A packet written to (m, f) never reaches the callback of another media or format. *)
Theorem C01_no_cross_delivery : forall c rs st, reach c rs st -> forall r d m f p0,
  In r (s_readers st) -> In d (r_deliv r) -> nnth (d_idx d) (s_written st) = Some (m, f, p0) ->
  d_m d = m /\ d_f d = f.
Proof. exact no_cross_delivery. Qed.
Print Assumptions C01_no_cross_delivery.

(* The SSRC of the SETUP response (present iff the media has exactly one format) is the SSRC of every
   packet then delivered for that media. *)
Theorem C01_announced_ssrc : forall c rs st, reach c rs st -> forall r d m s,
  In r (s_readers st) -> In d (r_deliv r) -> d_m d = m -> announce c m = Some s -> p_ssrc (d_pkt d) = s.
Proof. exact announced_ssrc. Qed.
Print Assumptions C01_announced_ssrc.

(* Over TCP all formats of all medias arrive in the one global order of writing. *)
Theorem C01_tcp_global_order : forall c rs st r,
  reach c rs st -> In r (s_readers st) -> r_tcp r = true -> sinc (didxs (r_deliv r)).
Proof. exact tcp_global_order. Qed.
Print Assumptions C01_tcp_global_order.

(* A UDP reader whose receiver never reset its position has received every format in order. *)
Theorem C01_udp_in_order_until_reset : forall c rs st r m f,
  reach c rs st -> In r (s_readers st) -> r_tcp r = false -> r_resets r = 0 ->
  sinc (didxs (filter (same_mf m f) (r_deliv r))).
Proof. exact udp_in_order_until_reset. Qed.
Print Assumptions C01_udp_in_order_until_reset.

Theorem C01_udp_reset_needs_late_run : forall c st s st' k r r',
  step c st s = Some st' -> nnth k (s_readers st) = Some r -> nnth k (s_readers st') = Some r' ->
  r_resets r' <> r_resets r ->
  exists i o m f last neg, s = SArrive k i o /\ r_tcp r = false /\
    rx_get (r_rx r) m f = Some (last, neg) /\ c_B c <= neg.
Proof. exact udp_reset_needs_late_run. Qed.
Print Assumptions C01_udp_reset_needs_late_run.

(* Conservation: the packets a reader's queue accepted are exactly those delivered, those still in the
   transport or in the queue, and those explicitly discarded. *)
Theorem C01_conservation : forall c rs st, reach c rs st -> forall r,
  In r (s_readers st) ->
  Permutation (r_hist r) (didxs (r_deliv r) ++ r_lost r ++ idxs (r_wire r) ++ idxs (r_queue r)).
Proof. exact conservation. Qed.
Print Assumptions C01_conservation.

Theorem C01_queue_bounded : forall c rs st, reach c rs st -> forall r,
  In r (s_readers st) -> nlen (r_queue r) <= c_Q c.
Proof. exact queue_bounded. Qed.
Print Assumptions C01_queue_bounded.

(* A write made after the reader's PLAY completed (and before any stop was requested) either reports
   queue-full for that reader - and then the queue does hold Q items - or is accepted by its queue. *)
Theorem C01_write_while_playing : forall c rs st m p full st' k r ch,
  reach c rs st -> nnth k (s_readers st) = Some r ->
  r_ph r = PhPlaying -> chan_of (r_setup r) m = Some ch ->
  step c st (SWrite m p full) = Some st' ->
  exists r', nnth k (s_readers st') = Some r' /\
    ((In k full /\ r' = r /\ c_Q c <= nlen (r_queue r)) \/
     (~ In k full /\ r_hist r' = r_hist r ++ [nlen (s_written st)] /\ nlen (r_queue r) < c_Q c)).
Proof. exact write_while_playing. Qed.
Print Assumptions C01_write_while_playing.

(* Over TCP an accepted packet is discarded only by a step of an explicit stop (PAUSE / TEARDOWN / close
   in progress): asyncprocessor.Close dropping what is still queued, or the client closing its end.  These are the
   "packets in flight at PAUSE/TEARDOWN". *)
Theorem C01_tcp_loss_only_when_stopping : forall c st s st' k r r',
  sinv c st -> step c st s = Some st' ->
  nnth k (s_readers st) = Some r -> r_tcp r = true -> nnth k (s_readers st') = Some r' ->
  r_lost r' = r_lost r \/ (r_ph r = PhStopReq /\ exists kk, s = SCtl kk k /\ is_discard kk).
Proof. exact tcp_loss_only_when_stopping. Qed.
Print Assumptions C01_tcp_loss_only_when_stopping.

(* TCP completeness: in every run in which TCP reader k is never asked to stop, nothing its queue
   accepted is missing: it has been delivered or is still in flight, and everything delivered arrived in
   the one global order of writing ... *)
Theorem C01_tcp_complete : forall c rs steps st k su,
  readers_ok rs -> nnth k rs = Some (new_reader true su) ->
  exec c (init rs) steps = Some st ->
  Forall (fun s => s <> SCtl CStopReq k) steps ->
  exists r, nnth k (s_readers st) = Some r /\ r_tcp r = true /\ r_lost r = [] /\
    sinc (didxs (r_deliv r)) /\
    forall idx, In idx (r_hist r) ->
      In idx (didxs (r_deliv r)) \/ In idx (idxs (r_wire r)) \/ In idx (idxs (r_queue r)).
Proof. exact tcp_complete. Qed.
Print Assumptions C01_tcp_complete.

(* ... and once queue and transport have drained, the delivered packets are exactly the accepted ones,
   in the order of writing. *)
Theorem C01_tcp_complete_drained : forall c rs steps st k su,
  readers_ok rs -> nnth k rs = Some (new_reader true su) ->
  exec c (init rs) steps = Some st ->
  Forall (fun s => s <> SCtl CStopReq k) steps ->
  exists r, nnth k (s_readers st) = Some r /\
    (r_wire r = [] -> r_queue r = [] -> Permutation (r_hist r) (didxs (r_deliv r)) /\ sinc (didxs (r_deliv r))).
Proof. exact tcp_complete_drained. Qed.
Print Assumptions C01_tcp_complete_drained.

(* every step preserves the invariant all of the above rest on *)
Theorem C01_invariant : forall c st s st', sinv c st -> step c st s = Some st' -> sinv c st'.
Proof. exact step_inv. Qed.
Print Assumptions C01_invariant.

(* ---- non-vacuity: 2 medias (one with 2 formats), a TCP and a UDP reader, capacity 2 ---- *)
Definition ex_cfg := mkCfg 2 64 [[(96, 1000); (97, 1001)]; [(8, 2000)]].
Definition ex_rs := [new_reader true [(0, 0); (1, 2)]; new_reader false [(1, 5000)]].
Definition ex_p (seq pt : N) := mkP seq (seq * 90) false pt 7 [seq; 1; 2].
Definition ex_steps :=
  [ SCtl CPlayReq 0; SCtl CCreate 0; SCtl CActivate 0; SCtl CPlayDone 0;
    SCtl CPlayReq 1; SCtl CCreate 1; SCtl CStart 1; SCtl CActivate 1; SCtl CPlayDone 1;
    SWrite 0 (ex_p 65535 97) [];          (* idx 0: only reader 0 has media 0 *)
    SWrite 1 (ex_p 10 8) [];              (* idx 1: both *)
    SWrite 1 (ex_p 11 8) [0];             (* idx 2: reader 0's queue is full (writer not started yet) *)
    SCtl CStart 0; SCtl CDrain 0; SCtl CDrain 0;
    SArrive 0 0 (Some (mkObs 0 1 0 (set_ssrc (ex_p 65535 97) 1001)));
    SArrive 0 0 (Some (mkObs 1 0 1 (set_ssrc (ex_p 10 8) 2000)));
    SCtl CDrain 1; SCtl CDrain 1;
    SArrive 1 1 (Some (mkObs 1 0 2 (set_ssrc (ex_p 11 8) 2000)));   (* reordered on UDP *)
    SArrive 1 0 None;                                                (* the late one is dropped *)
    SCtl CStopReq 1; SCtl CCloseW 1; SCtl CNilW 1; SCtl CDeact 1; SCtl CStopDone 1 ].

Example C01_example_run :
  exists st, exec ex_cfg (init ex_rs) ex_steps = Some st /\
    map (fun r => didxs (r_deliv r)) (s_readers st) = [[0; 1]; [2]] /\
    map r_lost (s_readers st) = [[]; [1]] /\
    announce ex_cfg 1 = Some 2000 /\ announce ex_cfg 0 = None.
Proof. vm_compute. eexists. repeat split. Qed.

Example C01_example_readers_ok : readers_ok ex_rs.
Proof.
  repeat constructor; eexists; eexists; (split; [reflexivity|]); cbn; repeat constructor; cbn; intuition lia.
Qed.

(* a gap in the middle of a TCP stream is not a behaviour of the model: after idx 0 and 1 were pushed,
   delivering 1 first is rejected *)
Example C01_example_gap_rejected :
  first_reject ex_cfg (init ex_rs)
    [ SCtl CPlayReq 0; SCtl CCreate 0; SCtl CActivate 0; SCtl CStart 0; SCtl CPlayDone 0;
      SWrite 1 (ex_p 10 8) []; SWrite 1 (ex_p 11 8) []; SCtl CDrain 0; SCtl CDrain 0;
      SArrive 0 0 (Some (mkObs 1 0 1 (set_ssrc (ex_p 11 8) 2000))) ] 0 = Some 9.
Proof. vm_compute. reflexivity. Qed.

(* regression for e586e4c: the schedule that used to reorder (two packets queued, writer detached, four more
   written before the processor is closed, consumer still alive) now delivers the two queued packets in order
   and nothing else: what is written to a detached writer is dropped without a queue-full report *)
Example C01_regression_write_to_detached_writer :
  exists st, exec (mkCfg 4 64 [[(96, 7)]]) (init [new_reader true [(0, 0)]])
    [ SCtl CPlayReq 0; SCtl CCreate 0; SCtl CActivate 0; SCtl CStart 0; SCtl CPlayDone 0;
      SWrite 0 (ex_p 100 96) []; SWrite 0 (ex_p 101 96) [];
      SCtl CStopReq 0; SCtl CCloseW 0;
      SWrite 0 (ex_p 102 96) []; SWrite 0 (ex_p 103 96) []; SWrite 0 (ex_p 104 96) []; SWrite 0 (ex_p 105 96) [];
      SWrite 0 (ex_p 106 96) [];
      SCtl CDrain 0; SCtl CDrain 0;
      SArrive 0 0 (Some (mkObs 0 0 0 (set_ssrc (ex_p 100 96) 7)));
      SArrive 0 0 (Some (mkObs 0 0 1 (set_ssrc (ex_p 101 96) 7)));
      SCtl CNilW 0; SCtl CDeact 0; SCtl CStopDone 0 ] = Some st /\
    map (fun r => (didxs (r_deliv r), r_hist r, r_lost r)) (s_readers st) = [([0; 1], [0; 1], [])].
Proof. vm_compute. eexists. split; reflexivity. Qed.

(* Proofs about the pipeline model: a per-reader invariant preserved by every step, for any number of
   medias, formats, readers and any interleaving of steps. *)
From Coq Require Import Permutation.
From Coq Require Import ZifyBool ZifyNat ZifyN.
From GVL Require Import NList Wire.
From GV_pipeline Require Import Model.
Open Scope N_scope.

Ltac prj := cbn [r_tcp r_setup r_ph r_active r_w r_queue r_wire r_con r_deliv r_hist r_lost upd_ctl upd_data].
Ltac prjin H := cbn [r_tcp r_setup r_ph r_active r_w r_queue r_wire r_con r_deliv r_hist r_lost upd_ctl upd_data] in H.

(* ---------- small list facts ---------- *)
Lemma nnth_Some_lt {A} (l : list A) i x : nnth i l = Some x -> i < nlen l.
Proof.
  destruct (N.ltb_spec i (nlen l)) as [H|H]; [auto|]. rewrite (nnth_ge l i H). discriminate.
Qed.

Lemma nnth_app_l {A} (l l2 : list A) i x : nnth i l = Some x -> nnth i (l ++ l2) = Some x.
Proof.
  revert i; induction l as [|y t IH]; intros i H; cbn [nnth app] in *; [discriminate|].
  destruct (i =? 0); [assumption|]. now apply IH.
Qed.

Lemma nnth_app_len {A} (l : list A) x : nnth (nlen l) (l ++ [x]) = Some x.
Proof. apply nnth_app_last. Qed.

(* strictly increasing *)
Fixpoint sinc (l : list N) : Prop :=
  match l with [] => True | x :: t => Forall (fun y => x < y) t /\ sinc t end.

Lemma sinc_app l1 l2 :
  sinc (l1 ++ l2) <-> sinc l1 /\ sinc l2 /\ Forall (fun x => Forall (fun y => x < y) l2) l1.
Proof.
  induction l1 as [|a t IH]; cbn [app sinc].
  - split; [intros H; repeat split; auto|intros (_ & H & _); exact H].
  - rewrite IH, Forall_app. split.
    + intros ((Ha1 & Ha2) & H1 & H2 & H3). repeat split; auto.
    + intros ((Ha1 & H1) & H2 & H3). inversion H3; subst. repeat split; auto.
Qed.

Lemma sinc_snoc l x : sinc (l ++ [x]) <-> sinc l /\ Forall (fun y => y < x) l.
Proof.
  rewrite sinc_app. cbn [sinc]. split.
  - intros (H1 & _ & H3). split; [exact H1|].
    eapply Forall_impl; [|exact H3]. intros a Ha. now inversion Ha.
  - intros (H1 & H2). repeat split; auto.
    eapply Forall_impl; [|exact H2]. intros a Ha. constructor; auto.
Qed.

Lemma sinc_drop_mid l1 l2 l3 : sinc (l1 ++ l2 ++ l3) -> sinc (l1 ++ l3).
Proof.
  rewrite !sinc_app. intros (H1 & (H2 & H3 & _) & H4). repeat split; auto.
  eapply Forall_impl; [|exact H4]. intros a Ha. apply Forall_app in Ha. tauto.
Qed.

Lemma sinc_drop_tail l1 l2 : sinc (l1 ++ l2) -> sinc l1.
Proof. rewrite sinc_app. tauto. Qed.

Definition cnt (n : N) (l : list N) : nat := count_occ N.eq_dec l n.
Lemma cnt_app n a b : cnt n (a ++ b) = (cnt n a + cnt n b)%nat.
Proof. apply count_occ_app. Qed.
Lemma cnt_nil n : cnt n [] = 0%nat.
Proof. reflexivity. Qed.
Lemma cnt_cons n x l : cnt n (x :: l) = (cnt n [x] + cnt n l)%nat.
Proof. change (x :: l) with ([x] ++ l). apply cnt_app. Qed.
Lemma cnt_in n l : (0 < cnt n l)%nat <-> In n l.
Proof. unfold cnt. symmetry. apply count_occ_In. Qed.

(* ---------- take_nth ---------- *)
Lemma take_nth_split {A} i (l : list A) x l' :
  take_nth i l = Some (x, l') -> exists a b, l = a ++ x :: b /\ l' = a ++ b /\ nlen a = i.
Proof.
  revert i l'; induction l as [|y t IH]; intros i l' H; cbn [take_nth] in H; [discriminate|].
  destruct (N.eqb_spec i 0) as [->|Hi].
  - inversion H; subst. exists [], l'. repeat split.
  - destruct (take_nth (N.pred i) t) as [[z t']|] eqn:E; [|discriminate].
    inversion H; subst. destruct (IH _ _ E) as (a & b & -> & -> & Hl).
    exists (y :: a), b. repeat split. cbn [nlen]. lia.
Qed.

Lemma take_nth_0 {A} (l : list A) x l' : take_nth 0 l = Some (x, l') -> l = x :: l'.
Proof. destruct l; cbn; [discriminate|]. intros H; now inversion H. Qed.

(* ---------- lookups ---------- *)
Lemma find_fmt_aux_spec fs pt i acc f s :
  find_fmt_aux fs pt i acc = Some (f, s) ->
  acc = Some (f, s) \/ (i <= f /\ nnth (f - i) fs = Some (pt, s)).
Proof.
  revert i acc; induction fs as [|[pt' s'] t IH]; intros i acc H; cbn [find_fmt_aux] in H.
  - now left.
  - apply IH in H. destruct H as [H|(Hle & Hn)].
    + destruct (N.eqb_spec pt' pt) as [->|Hne]; [|now left].
      inversion H; subst. right. split; [lia|]. replace (f - f) with 0 by lia. reflexivity.
    + right. split; [lia|]. cbn [nnth]. destruct (N.eqb_spec (f - i) 0); [lia|].
      replace (N.pred (f - i)) with (f - (i + 1)) by lia. exact Hn.
Qed.

Lemma find_fmt_nnth fs pt f s : find_fmt fs pt = Some (f, s) -> nnth f fs = Some (pt, s).
Proof.
  unfold find_fmt. intros H. apply find_fmt_aux_spec in H. destruct H as [H|(_ & H)]; [discriminate|].
  now rewrite N.sub_0_r in H.
Qed.

Lemma chan_media su m ch :
  NoDup (map snd su) -> chan_of su m = Some ch -> media_of su ch = Some m.
Proof.
  induction su as [|[m' ch'] t IH]; cbn [chan_of media_of map snd]; [discriminate|].
  intros Hnd H. inversion Hnd as [|? ? Hni Hnd']; subst.
  destruct (N.eqb_spec m' m) as [->|Hm].
  - inversion H; subst. now rewrite N.eqb_refl.
  - destruct (N.eqb_spec ch' ch) as [->|Hc]; [|now apply IH].
    exfalso. apply Hni. clear -H. induction t as [|[a b] t IH]; cbn in *; [discriminate|].
    destruct (a =? m); [inversion H; now left|right; now apply IH].
Qed.

(* the SSRC the stream uses for format f of media m *)
Definition ssrc_of (c : cfg) (m f : N) : option N :=
  match nnth m (c_medias c) with
  | Some fs => match nnth f fs with Some (_, s) => Some s | None => None end
  | None => None
  end.

(* ---------- the invariant ---------- *)
Definition wlist := list (N * N * packet).

Definition item_ok (c : cfg) (W : wlist) (su : list (N * N)) (x : item) : Prop :=
  exists p0 fs s, nnth (i_idx x) W = Some (i_m x, i_f x, p0) /\ nnth (i_m x) (c_medias c) = Some fs /\
    find_fmt fs (p_pt p0) = Some (i_f x, s) /\ i_pkt x = set_ssrc p0 s /\
    chan_of su (i_m x) = Some (i_chan x).

Definition dentry_ok (c : cfg) (W : wlist) (d : dentry) : Prop :=
  exists p0 fs s, nnth (d_idx d) W = Some (d_m d, d_f d, p0) /\ nnth (d_m d) (c_medias c) = Some fs /\
    find_fmt fs (p_pt p0) = Some (d_f d, s) /\ d_pkt d = set_ssrc p0 s.

(* per format, deliveries carry strictly increasing write indices *)
Inductive inc_mf : list dentry -> Prop :=
| inc_nil : inc_mf []
| inc_snoc l d : inc_mf l -> newer l (d_m d) (d_f d) (d_idx d) = true -> inc_mf (l ++ [d]).

Definition ph_inv (r : rstate) : Prop :=
  match r_ph r with
  | PhPlaying => r_active r = true /\ exists b, r_w r = WOpen b
  | _ => True
  end.

Definition didxs (l : list dentry) : list N := map d_idx l.

Record rinv (c : cfg) (W : wlist) (r : rstate) : Prop := mkRinv {
  ri_su : NoDup (map snd (r_setup r));
  ri_q : Forall (item_ok c W (r_setup r)) (r_queue r);
  ri_w : Forall (item_ok c W (r_setup r)) (r_wire r);
  ri_d : Forall (dentry_ok c W) (r_deliv r);
  ri_inc : inc_mf (r_deliv r);
  ri_tcp : r_tcp r = true -> sinc (didxs (r_deliv r) ++ idxs (r_wire r) ++ idxs (r_queue r));
  ri_cap : nlen (r_queue r) <= c_Q c;
  ri_ph : ph_inv r;
  ri_cons : forall n, cnt n (r_hist r) =
     (cnt n (didxs (r_deliv r)) + cnt n (r_lost r) + cnt n (idxs (r_wire r)) + cnt n (idxs (r_queue r)))%nat;
  ri_hist : Forall (fun i => i < nlen W) (r_hist r) }.

Definition sinv (c : cfg) (st : state) : Prop := Forall (rinv c (s_written st)) (s_readers st).

(* ---------- monotonicity in the written list ---------- *)
Lemma item_ok_mono c W e su x : item_ok c W su x -> item_ok c (W ++ [e]) su x.
Proof.
  intros (p0 & fs & s & H1 & H2). exists p0, fs, s. split; [now apply nnth_app_l|exact H2].
Qed.
Lemma dentry_ok_mono c W e d : dentry_ok c W d -> dentry_ok c (W ++ [e]) d.
Proof.
  intros (p0 & fs & s & H1 & H2). exists p0, fs, s. split; [now apply nnth_app_l|exact H2].
Qed.

Lemma rinv_mono c W e r : rinv c W r -> rinv c (W ++ [e]) r.
Proof.
  intros [H1 H2 H3 H4 H5 H6 H7 H8 H9 H10]. constructor; auto.
  - eapply Forall_impl; [|exact H2]. intros; now apply item_ok_mono.
  - eapply Forall_impl; [|exact H3]. intros; now apply item_ok_mono.
  - eapply Forall_impl; [|exact H4]. intros; now apply dentry_ok_mono.
  - eapply Forall_impl; [|exact H10]. intros a Ha. cbv beta in Ha. rewrite nlen_app. cbn [nlen]. lia.
Qed.

(* ---------- control steps ---------- *)
Lemma rinv_ctl_same c W r ph a w con :
  rinv c W r ->
  (ph = PhPlaying -> a = true /\ exists b, w = WOpen b) ->
  rinv c W (upd_ctl r ph a w con).
Proof.
  intros [H1 H2 H3 H4 H5 H6 H7 H8 H9 H10] Hp. constructor; prj; auto.
  unfold ph_inv; prj. destruct ph; auto.
Qed.

Lemma idxs_app a b : idxs (a ++ b) = idxs a ++ idxs b.
Proof. apply map_app. Qed.
Lemma didxs_app a b : didxs (a ++ b) = didxs a ++ didxs b.
Proof. apply map_app. Qed.

Lemma rinv_ctl c W k r r' : rinv c W r -> r_ctl k r = Some r' -> rinv c W r'.
Proof.
  intros Hi H. pose proof Hi as [H1 H2 H3 H4 H5 H6 H7 H8 H9 H10].
  destruct k; cbn [r_ctl] in H.
  - (* playreq *) unfold r_playreq in H. destruct (r_ph r), (r_w r); try discriminate.
    destruct (r_active r); [discriminate|]. inversion H; subst. apply rinv_ctl_same; auto. discriminate.
  - unfold r_create in H. destruct (r_ph r), (r_w r); try discriminate.
    inversion H; subst. apply rinv_ctl_same; auto. discriminate.
  - unfold r_activate in H. destruct (r_ph r), (r_w r) as [|st|st]; try discriminate.
    destruct (r_tcp r || st); [|discriminate]. inversion H; subst. apply rinv_ctl_same; auto. discriminate.
  - unfold r_start in H. destruct (r_w r) as [|[|]|] eqn:Ew; try discriminate.
    inversion H; subst. apply rinv_ctl_same; auto.
    intros Hp. unfold ph_inv in H8. rewrite Hp in H8. destruct H8 as (Ha & _). split; [exact Ha|eauto].
  - unfold r_playdone in H. destruct (r_ph r), (r_w r) as [|st|st]; try discriminate.
    destruct (r_active r); [|discriminate]. inversion H; subst. apply rinv_ctl_same; auto.
    intros _. split; eauto.
  - unfold r_stopreq in H. destruct (r_ph r); try discriminate; inversion H; subst;
      apply rinv_ctl_same; auto; discriminate.
  - (* drain *) unfold r_drain in H.
    destruct (r_w r) as [|[|]|[|]], (r_queue r) as [|x q] eqn:Eq; try discriminate; inversion H; subst;
      (inversion H2; subst; constructor; prj; auto;
       [ apply Forall_app; split; auto
       | intros Ht; specialize (H6 Ht); rewrite idxs_app; cbn [idxs map app] in *; now rewrite <- !app_assoc
       | cbn [nlen] in H7; lia
       | intros n; rewrite (H9 n), idxs_app, !cnt_app; cbn [idxs map];
         rewrite (cnt_cons n (i_idx x) (map i_idx q)); fold (idxs q); lia ]).
  - (* closew *) unfold r_closew in H. destruct (r_ph r) eqn:Ep, (r_w r) as [|st|st]; try discriminate.
    inversion H; subst. constructor; prj; auto.
    + intros Ht. specialize (H6 Ht). rewrite app_nil_r. rewrite app_assoc in H6. now apply sinc_drop_tail in H6.
    + cbn [nlen]; lia.
    + unfold ph_inv; prj. auto.
    + intros n. rewrite (H9 n), !cnt_app. cbn [idxs map cnt count_occ]. lia.
  - (* nilw *) unfold r_nilw in H. destruct (r_ph r) eqn:Ep, (r_w r) as [|st|st]; try discriminate.
    inversion H; subst. constructor; prj; auto.
    + intros Ht. specialize (H6 Ht). rewrite app_nil_r. rewrite app_assoc in H6. now apply sinc_drop_tail in H6.
    + cbn [nlen]; lia.
    + unfold ph_inv; prj. auto.
    + intros n. rewrite (H9 n), !cnt_app. cbn [idxs map cnt count_occ]. lia.
  - unfold r_deact in H. destruct (r_ph r); try discriminate. inversion H; subst.
    apply rinv_ctl_same; auto. discriminate.
  - unfold r_stopdone in H. destruct (r_ph r), (r_w r); try discriminate.
    destruct (r_active r); [discriminate|].
    destruct (r_tcp r); [destruct (r_wire r); [|discriminate]|]; inversion H; subst;
      apply rinv_ctl_same; auto; discriminate.
  - (* cclose *) unfold r_cclose in H. destruct (r_ph r) eqn:Ep; try discriminate.
    inversion H; subst. constructor; prj; auto.
    + intros Ht. specialize (H6 Ht). cbn [idxs map app]. now apply sinc_drop_mid in H6.
    + unfold ph_inv; prj. auto.
    + intros n. rewrite (H9 n), !cnt_app. cbn [idxs map cnt count_occ]. lia.
Qed.

(* ---------- arrival, loss ---------- *)
Lemma item_idx_lt c W su x : item_ok c W su x -> i_idx x < nlen W.
Proof. intros (p0 & fs & s & H & _). now apply nnth_Some_lt in H. Qed.
Lemma dentry_idx_lt c W d : dentry_ok c W d -> d_idx d < nlen W.
Proof. intros (p0 & fs & s & H & _). now apply nnth_Some_lt in H. Qed.

Lemma items_idx_lt c W su l : Forall (item_ok c W su) l -> Forall (fun i => i < nlen W) (idxs l).
Proof.
  induction 1 as [|x t Hx _ IH]; cbn [idxs map]; constructor; [now apply item_idx_lt in Hx|exact IH].
Qed.
Lemma dentries_idx_lt c W l : Forall (dentry_ok c W) l -> Forall (fun i => i < nlen W) (didxs l).
Proof.
  induction 1 as [|x t Hx _ IH]; cbn [didxs map]; constructor; [now apply dentry_idx_lt in Hx|exact IH].
Qed.

(* the demultiplexer finds exactly the media and format the packet was written to *)
Lemma demux_ok c W su x :
  NoDup (map snd su) -> item_ok c W su x ->
  exists fs s, media_of su (i_chan x) = Some (i_m x) /\ nnth (i_m x) (c_medias c) = Some fs /\
    find_fmt fs (p_pt (i_pkt x)) = Some (i_f x, s) /\
    dentry_ok c W (mkD (i_m x) (i_f x) (i_idx x) (i_pkt x)).
Proof.
  intros Hnd (p0 & fs & s & H1 & H2 & H3 & H4 & H5). exists fs, s.
  split; [now apply chan_media|]. split; [exact H2|]. split.
  - rewrite H4. cbn [set_ssrc p_pt]. exact H3.
  - exists p0, fs, s. cbn [d_idx d_m d_f d_pkt]. auto.
Qed.

Lemma newer_of_all_lt dl m f idx : Forall (fun j => j < idx) (didxs dl) -> newer dl m f idx = true.
Proof.
  unfold newer. induction dl as [|d t IH]; cbn [didxs map forallb]; [reflexivity|].
  intros H. inversion H; subst. rewrite IH by assumption.
  destruct (N.ltb_spec (d_idx d) idx); [|lia]. now rewrite orb_true_r.
Qed.

Lemma rinv_arrive c W i r r' od : rinv c W r -> r_arrive c i r = Some (r', od) -> rinv c W r'.
Proof.
  intros Hi H. pose proof Hi as [H1 H2 H3 H4 H5 H6 H7 H8 H9 H10].
  unfold r_arrive in H. destruct (r_con r); cbn [negb] in H; [|discriminate].
  destruct (r_tcp r && negb (i =? 0)) eqn:Eti; [discriminate|].
  destruct (take_nth i (r_wire r)) as [[x wi]|] eqn:Et; [|discriminate].
  destruct (take_nth_split _ _ _ _ Et) as (a & b & Ew & -> & Hla).
  assert (Ha0 : r_tcp r = true -> a = []).
  { intros Ht. rewrite Ht in Eti. cbn in Eti. destruct (N.eqb_spec i 0) as [->|]; [|discriminate].
    now apply nlen_nil_iff. }
  rewrite Ew in H3. apply Forall_app in H3. destruct H3 as (H3a & H3b). inversion H3b as [|? ? Hx H3b']; subst.
  assert (Hdrop : rinv c W (upd_data r (r_queue r) (a ++ b) (r_deliv r) (r_hist r) (r_lost r ++ [i_idx x]))).
  { constructor; prj; auto.
    - apply Forall_app; auto.
    - intros Ht. specialize (H6 Ht). rewrite Ew in H6. rewrite (Ha0 Ht) in *. cbn [app idxs map] in *.
      exact (sinc_drop_mid _ [i_idx x] _ H6).
    - intros n. rewrite (H9 n), Ew, !idxs_app, !cnt_app. cbn [idxs map].
      rewrite (cnt_cons n (i_idx x) (map i_idx b)). unfold idxs. lia. }
  destruct (demux_ok _ _ _ _ H1 Hx) as (fs & s & D1 & D2 & D3 & D4).
  rewrite D1, D2, D3 in H.
  destruct (r_tcp r || newer (r_deliv r) (i_m x) (i_f x) (i_idx x)) eqn:Enew;
    inversion H; subst; [|exact Hdrop].
  constructor; prj; auto.
  - apply Forall_app; auto.
  - apply Forall_app; auto.
  - apply (inc_snoc _ (mkD (i_m x) (i_f x) (i_idx x) (i_pkt x))); [exact H5|]. cbn [d_m d_f d_idx].
    destruct (r_tcp r) eqn:Et'; [|exact Enew].
    apply newer_of_all_lt. specialize (H6 eq_refl). rewrite Ew, (Ha0 eq_refl) in H6.
    cbn [app idxs map] in H6. apply sinc_app in H6. destruct H6 as (_ & _ & H6).
    eapply Forall_impl; [|exact H6]. intros j Hj. cbv beta in Hj. now inversion Hj.
  - intros Ht. specialize (H6 Ht). rewrite Ew, (Ha0 Ht) in H6. rewrite (Ha0 Ht).
    rewrite didxs_app. cbn [app idxs map didxs d_idx] in *. now rewrite <- app_assoc.
  - intros n. rewrite (H9 n), Ew, !idxs_app, didxs_app, !cnt_app. cbn [idxs map didxs d_idx].
    rewrite (cnt_cons n (i_idx x) (map i_idx b)). unfold idxs. lia.
Qed.

Lemma rinv_lose c W i r r' : rinv c W r -> r_lose i r = Some r' -> rinv c W r'.
Proof.
  intros Hi H. pose proof Hi as [H1 H2 H3 H4 H5 H6 H7 H8 H9 H10].
  unfold r_lose in H. destruct (r_tcp r) eqn:Et; [discriminate|].
  destruct (take_nth i (r_wire r)) as [[x wi]|] eqn:E; [|discriminate].
  destruct (take_nth_split _ _ _ _ E) as (a & b & Ew & -> & Hla). inversion H; subst.
  rewrite Ew in H3. apply Forall_app in H3. destruct H3 as (H3a & H3b). inversion H3b; subst.
  constructor; prj; auto.
  - apply Forall_app; auto.
  - intros Ht. congruence.
  - intros n. rewrite (H9 n), Ew, !idxs_app, !cnt_app. cbn [idxs map].
    rewrite (cnt_cons n (i_idx x) (map i_idx b)). unfold idxs. lia.
Qed.

(* ---------- write ---------- *)
Lemma rinv_push c W m f p s fs r r' full :
  rinv c W r ->
  nnth m (c_medias c) = Some fs -> find_fmt fs (p_pt p) = Some (f, s) ->
  r_push c m f (nlen W) (set_ssrc p s) r = (r', full) ->
  rinv c (W ++ [(m, f, p)]) r'.
Proof.
  intros Hi Hm Hf H. unfold r_push in H.
  destruct (r_active r); [|inversion H; subst; now apply rinv_mono].
  destruct (chan_of (r_setup r) m) as [ch|] eqn:Ech; [|inversion H; subst; now apply rinv_mono].
  assert (Hpush : nlen (r_queue r) <? c_Q c = true ->
    rinv c (W ++ [(m, f, p)])
      (upd_data r (r_queue r ++ [mkItem ch m f (nlen W) (set_ssrc p s)]) (r_wire r) (r_deliv r)
                (r_hist r ++ [nlen W]) (r_lost r))).
  { intros Hlt. pose proof Hi as [_ G2 G3 G4 _ G6 _ _ _ _].
    apply (rinv_mono _ _ (m, f, p)) in Hi.
    pose proof Hi as [H1 H2 H3 H4 H5 H6 H7 H8 H9 H10].
    assert (Hnew : item_ok c (W ++ [(m, f, p)]) (r_setup r) (mkItem ch m f (nlen W) (set_ssrc p s))).
    { exists p, fs, s. cbn [i_idx i_m i_f i_pkt i_chan]. split; [apply nnth_app_len|auto]. }
    constructor; prj; auto.
    - apply Forall_app; auto.
    - intros Ht. specialize (G6 Ht). rewrite idxs_app, !app_assoc. cbn [idxs map i_idx].
      apply sinc_snoc. split; [now rewrite <- !app_assoc|].
      rewrite !Forall_app. repeat split.
      + now apply dentries_idx_lt in G4.
      + now apply items_idx_lt in G3.
      + now apply items_idx_lt in G2.
    - rewrite nlen_app. cbn [nlen]. lia.
    - intros n. rewrite idxs_app, !cnt_app, (H9 n). cbn [idxs map i_idx]. lia.
    - apply Forall_app; split; [exact H10|]. constructor; [|constructor]. rewrite nlen_app. cbn [nlen]. lia. }
  destruct (r_w r); [inversion H; subst; now apply rinv_mono| |];
    (destruct (nlen (r_queue r) <? c_Q c) eqn:Elt; inversion H; subst; [now apply Hpush|now apply rinv_mono]).
Qed.

(* Proofs about the pipeline model: a per-reader invariant preserved by every step, for any number of
   medias, formats, readers and any interleaving of steps. *)
From Coq Require Import Permutation.
From Coq Require Import ZifyBool ZifyNat ZifyN.
From GVL Require Import NList Wire.
From GV_pipeline Require Import Model.
Open Scope N_scope.

Ltac prj := cbn [r_tcp r_setup r_ph r_active r_w r_queue r_ring r_rp r_wp r_wire r_con r_deliv r_hist r_lost r_rx r_resets upd_ctl upd_data upd_ring upd_rx].
Ltac prjin H := cbn [r_tcp r_setup r_ph r_active r_w r_queue r_ring r_rp r_wp r_wire r_con r_deliv r_hist r_lost r_rx r_resets upd_ctl upd_data upd_ring upd_rx] in H.

(* ---------- small list facts ---------- *)
Lemma nnth_Some_lt {A} (l : list A) i x : nnth i l = Some x -> i < nlen l.
Proof.
  destruct (N.ltb_spec i (nlen l)) as [H|H]; [auto|]. rewrite (nnth_ge l i H). discriminate.
Qed.

Lemma nnth_app_l {A} (l l2 : list A) i x : nnth i l = Some x -> nnth i (l ++ l2) = Some x.
Proof.
  revert i; induction l as [|y t IH]; intros i H; cbn [nnth app] in *; [discriminate|].
  destruct (i =? 0); [assumption|]. now apply IH.
Qed.

Lemma nnth_app_len {A} (l : list A) x : nnth (nlen l) (l ++ [x]) = Some x.
Proof. apply nnth_app_last. Qed.

(* strictly increasing *)
Fixpoint sinc (l : list N) : Prop :=
  match l with [] => True | x :: t => Forall (fun y => x < y) t /\ sinc t end.

Lemma sinc_app l1 l2 :
  sinc (l1 ++ l2) <-> sinc l1 /\ sinc l2 /\ Forall (fun x => Forall (fun y => x < y) l2) l1.
Proof.
  induction l1 as [|a t IH]; cbn [app sinc].
  - split; [intros H; repeat split; auto|intros (_ & H & _); exact H].
  - rewrite IH, Forall_app. split.
    + intros ((Ha1 & Ha2) & H1 & H2 & H3). repeat split; auto.
    + intros ((Ha1 & H1) & H2 & H3). inversion H3; subst. repeat split; auto.
Qed.

Lemma sinc_snoc l x : sinc (l ++ [x]) <-> sinc l /\ Forall (fun y => y < x) l.
Proof.
  rewrite sinc_app. cbn [sinc]. split.
  - intros (H1 & _ & H3). split; [exact H1|].
    eapply Forall_impl; [|exact H3]. intros a Ha. now inversion Ha.
  - intros (H1 & H2). repeat split; auto.
    eapply Forall_impl; [|exact H2]. intros a Ha. constructor; auto.
Qed.

Lemma sinc_drop_mid l1 l2 l3 : sinc (l1 ++ l2 ++ l3) -> sinc (l1 ++ l3).
Proof.
  rewrite !sinc_app. intros (H1 & (H2 & H3 & _) & H4). repeat split; auto.
  eapply Forall_impl; [|exact H4]. intros a Ha. apply Forall_app in Ha. tauto.
Qed.

Lemma sinc_drop_tail l1 l2 : sinc (l1 ++ l2) -> sinc l1.
Proof. rewrite sinc_app. tauto. Qed.

Definition cnt (n : N) (l : list N) : nat := count_occ N.eq_dec l n.
Lemma cnt_app n a b : cnt n (a ++ b) = (cnt n a + cnt n b)%nat.
Proof. apply count_occ_app. Qed.
Lemma cnt_nil n : cnt n [] = 0%nat.
Proof. reflexivity. Qed.
Lemma cnt_cons n x l : cnt n (x :: l) = (cnt n [x] + cnt n l)%nat.
Proof. change (x :: l) with ([x] ++ l). apply cnt_app. Qed.
Lemma cnt_in n l : (0 < cnt n l)%nat <-> In n l.
Proof. unfold cnt. symmetry. apply count_occ_In. Qed.

(* ---------- take_nth ---------- *)
Lemma take_nth_split {A} i (l : list A) x l' :
  take_nth i l = Some (x, l') -> exists a b, l = a ++ x :: b /\ l' = a ++ b /\ nlen a = i.
Proof.
  revert i l'; induction l as [|y t IH]; intros i l' H; cbn [take_nth] in H; [discriminate|].
  destruct (N.eqb_spec i 0) as [->|Hi].
  - inversion H; subst. exists [], l'. repeat split.
  - destruct (take_nth (N.pred i) t) as [[z t']|] eqn:E; [|discriminate].
    inversion H; subst. destruct (IH _ _ E) as (a & b & -> & -> & Hl).
    exists (y :: a), b. repeat split. cbn [nlen]. lia.
Qed.

Lemma take_nth_0 {A} (l : list A) x l' : take_nth 0 l = Some (x, l') -> l = x :: l'.
Proof. destruct l; cbn; [discriminate|]. intros H; now inversion H. Qed.

(* ---------- lookups ---------- *)
Lemma find_fmt_aux_spec fs pt i acc f s :
  find_fmt_aux fs pt i acc = Some (f, s) ->
  acc = Some (f, s) \/ (i <= f /\ nnth (f - i) fs = Some (pt, s)).
Proof.
  revert i acc; induction fs as [|[pt' s'] t IH]; intros i acc H; cbn [find_fmt_aux] in H.
  - now left.
  - apply IH in H. destruct H as [H|(Hle & Hn)].
    + destruct (N.eqb_spec pt' pt) as [->|Hne]; [|now left].
      inversion H; subst. right. split; [lia|]. replace (f - f) with 0 by lia. reflexivity.
    + right. split; [lia|]. cbn [nnth]. destruct (N.eqb_spec (f - i) 0); [lia|].
      replace (N.pred (f - i)) with (f - (i + 1)) by lia. exact Hn.
Qed.

Lemma find_fmt_nnth fs pt f s : find_fmt fs pt = Some (f, s) -> nnth f fs = Some (pt, s).
Proof.
  unfold find_fmt. intros H. apply find_fmt_aux_spec in H. destruct H as [H|(_ & H)]; [discriminate|].
  now rewrite N.sub_0_r in H.
Qed.

Lemma chan_media su m ch :
  NoDup (map snd su) -> chan_of su m = Some ch -> media_of su ch = Some m.
Proof.
  induction su as [|[m' ch'] t IH]; cbn [chan_of media_of map snd]; [discriminate|].
  intros Hnd H. inversion Hnd as [|? ? Hni Hnd']; subst.
  destruct (N.eqb_spec m' m) as [->|Hm].
  - inversion H; subst. now rewrite N.eqb_refl.
  - destruct (N.eqb_spec ch' ch) as [->|Hc]; [|now apply IH].
    exfalso. apply Hni. clear -H. induction t as [|[a b] t IH]; cbn in *; [discriminate|].
    destruct (a =? m); [inversion H; now left|right; now apply IH].
Qed.

(* the SSRC the stream uses for format f of media m *)
Definition ssrc_of (c : cfg) (m f : N) : option N :=
  match nnth m (c_medias c) with
  | Some fs => match nnth f fs with Some (_, s) => Some s | None => None end
  | None => None
  end.

(* ---------- the invariant ---------- *)
Definition wlist := list (N * N * packet).

Definition item_ok (c : cfg) (W : wlist) (su : list (N * N)) (x : item) : Prop :=
  exists p0 fs s, nnth (i_idx x) W = Some (i_m x, i_f x, p0) /\ nnth (i_m x) (c_medias c) = Some fs /\
    find_fmt fs (p_pt p0) = Some (i_f x, s) /\ i_pkt x = set_ssrc p0 s /\
    chan_of su (i_m x) = Some (i_chan x).

Definition dentry_ok (c : cfg) (W : wlist) (d : dentry) : Prop :=
  exists p0 fs s, nnth (d_idx d) W = Some (d_m d, d_f d, p0) /\ nnth (d_m d) (c_medias c) = Some fs /\
    find_fmt fs (p_pt p0) = Some (d_f d, s) /\ d_pkt d = set_ssrc p0 s.

(* every earlier delivery of that format has a smaller write index *)
Definition newer (dl : list dentry) (m f idx : N) : bool :=
  forallb (fun d => negb (same_mf m f d) || (d_idx d <? idx)) dl.

(* per format, deliveries carry strictly increasing write indices *)
Inductive inc_mf : list dentry -> Prop :=
| inc_nil : inc_mf []
| inc_snoc l d : inc_mf l -> newer l (d_m d) (d_f d) (d_idx d) = true -> inc_mf (l ++ [d]).

Definition ph_inv (r : rstate) : Prop :=
  match r_ph r with
  | PhPlaying => r_active r = true /\ exists b, r_w r = WOpen b
  | PhStopReq => True
  | _ => forall b, r_w r <> WClosed b
  end.

Definition didxs (l : list dentry) : list N := map d_idx l.

(* the packets that were pushed while the writer was open ("not late") *)
Definition nl_i (l : list item) : list item := filter (fun x => negb (i_late x)) l.
Definition nl_d (l : list dentry) : list dentry := filter (fun d => negb (d_late d)) l.

(* the part of the deliveries that is ordered: those without the ghost flag d_late.  Over TCP the flag
   marks packets pushed after the writer was closed; over UDP it marks what is delivered from the
   receiver's first position reset on. *)
Definition ordered_part (r : rstate) : list dentry := nl_d (r_deliv r).

Record rinv (c : cfg) (W : wlist) (r : rstate) : Prop := mkRinv {
  ri_su : NoDup (map snd (r_setup r));
  ri_q : Forall (item_ok c W (r_setup r)) (r_queue r) /\ Forall (fun x => i_late x = false) (r_queue r);
  ri_r : Forall (item_ok c W (r_setup r)) (ritems (r_ring r)) /\ Forall (fun x => i_late x = true) (ritems (r_ring r));
  ri_w : Forall (item_ok c W (r_setup r)) (r_wire r);
  ri_d : Forall (dentry_ok c W) (r_deliv r);
  ri_inc : inc_mf (ordered_part r);
  ri_tcp : r_tcp r = true -> sinc (didxs (nl_d (r_deliv r)) ++ idxs (nl_i (r_wire r)) ++ idxs (r_queue r));
  ri_cap : nlen (r_queue r) <= c_Q c;
  ri_ph : ph_inv r;
  ri_cons : forall n, cnt n (r_hist r) =
     (cnt n (didxs (r_deliv r)) + cnt n (r_lost r) + cnt n (idxs (r_wire r)) + cnt n (idxs (r_queue r))
      + cnt n (idxs (ritems (r_ring r))))%nat;
  ri_hist : Forall (fun i => i < nlen W) (r_hist r) /\ sinc (r_hist r);
  ri_ropen : (forall b, r_w r <> WClosed b) -> ritems (r_ring r) = [];
  ri_udp : r_tcp r = false -> r_resets r = 0 -> Forall (fun d => d_late d = false) (r_deliv r);
  ri_rx : r_tcp r = false -> r_resets r = 0 -> forall d, In d (r_deliv r) ->
          exists last neg, rx_get (r_rx r) (d_m d) (d_f d) = Some (last, neg) /\ d_idx d <= last }.

Definition sinv (c : cfg) (st : state) : Prop := Forall (rinv c (s_written st)) (s_readers st).

(* ---------- ring slots ---------- *)
Lemma ritems_repeat k : ritems (repeat None k) = [].
Proof. induction k; cbn; auto. Qed.
Lemma ritems_nrep n : ritems (nrep None n) = [].
Proof. rewrite nrep_repeat. apply ritems_repeat. Qed.

Lemma ritems_nset_some ring i x :
  nnth i ring = Some None ->
  (forall n, cnt n (idxs (ritems (nset i (Some x) ring))) = (cnt n [i_idx x] + cnt n (idxs (ritems ring)))%nat) /\
  (forall P : item -> Prop, P x -> Forall P (ritems ring) -> Forall P (ritems (nset i (Some x) ring))).
Proof.
  revert i; induction ring as [|o t IH]; intros i H; cbn [nnth] in H; [discriminate|].
  cbn [nset]. destruct (N.eqb_spec i 0) as [Hi|Hi].
  - inversion H; subst o. cbn [ritems]. split.
    + intros n. cbn [idxs map]. now rewrite (cnt_cons n (i_idx x)).
    + intros P Hx HF. now constructor.
  - destruct (IH _ H) as (IH1 & IH2). destruct o as [y|]; cbn [ritems].
    + split.
      * intros n. cbn [idxs map]. rewrite (cnt_cons n (i_idx y)), (cnt_cons n (i_idx y) (map i_idx (ritems t))).
        specialize (IH1 n). unfold idxs in IH1. lia.
      * intros P Hx HF. inversion HF; subst. constructor; auto.
    + split; auto.
Qed.

Lemma ritems_nset_none ring i x :
  nnth i ring = Some (Some x) ->
  (forall n, cnt n (idxs (ritems ring)) = (cnt n [i_idx x] + cnt n (idxs (ritems (nset i None ring))))%nat) /\
  (forall P : item -> Prop, Forall P (ritems ring) -> P x /\ Forall P (ritems (nset i None ring))).
Proof.
  revert i; induction ring as [|o t IH]; intros i H; cbn [nnth] in H; [discriminate|].
  cbn [nset]. destruct (N.eqb_spec i 0) as [Hi|Hi].
  - inversion H; subst o. cbn [ritems]. split.
    + intros n. cbn [idxs map]. now rewrite (cnt_cons n (i_idx x)).
    + intros P HF. now inversion HF.
  - destruct (IH _ H) as (IH1 & IH2). destruct o as [y|]; cbn [ritems].
    + split.
      * intros n. cbn [idxs map]. rewrite (cnt_cons n (i_idx y)), (cnt_cons n (i_idx y) (map i_idx (ritems (nset (N.pred i) None t)))).
        specialize (IH1 n). unfold idxs in IH1. lia.
      * intros P HF. inversion HF; subst. destruct (IH2 P H3). split; auto.
    + split; auto.
Qed.

Lemma nl_i_snoc l x : nl_i (l ++ [x]) = nl_i l ++ (if i_late x then [] else [x]).
Proof. unfold nl_i. rewrite filter_app. cbn [filter]. now destruct (i_late x). Qed.
Lemma nl_d_snoc l d : nl_d (l ++ [d]) = nl_d l ++ (if d_late d then [] else [d]).
Proof. unfold nl_d. rewrite filter_app. cbn [filter]. now destruct (d_late d). Qed.
Lemma nl_i_all l : Forall (fun x => i_late x = false) l -> nl_i l = l.
Proof.
  unfold nl_i. induction 1 as [|x t Hx _ IH]; cbn [filter]; [reflexivity|]. rewrite Hx. cbn. now rewrite IH.
Qed.

(* ---------- monotonicity in the written list ---------- *)
Lemma item_ok_mono c W e su x : item_ok c W su x -> item_ok c (W ++ [e]) su x.
Proof.
  intros (p0 & fs & s & H1 & H2). exists p0, fs, s. split; [now apply nnth_app_l|exact H2].
Qed.
Lemma dentry_ok_mono c W e d : dentry_ok c W d -> dentry_ok c (W ++ [e]) d.
Proof.
  intros (p0 & fs & s & H1 & H2). exists p0, fs, s. split; [now apply nnth_app_l|exact H2].
Qed.

Lemma items_mono c W e su l : Forall (item_ok c W su) l -> Forall (item_ok c (W ++ [e]) su) l.
Proof. intros H. eapply Forall_impl; [|exact H]. intros; now apply item_ok_mono. Qed.

Lemma rinv_mono c W e r : rinv c W r -> rinv c (W ++ [e]) r.
Proof.
  intros [H1 (H2 & H2') (Hr & Hr') H3 H4 H5 H6 H7 H8 H9 (H10 & H10') H11 H12 H13]. constructor; auto.
  - split; [now apply items_mono|exact H2'].
  - split; [now apply items_mono|exact Hr'].
  - now apply items_mono.
  - eapply Forall_impl; [|exact H4]. intros; now apply dentry_ok_mono.
  - split; [|exact H10']. eapply Forall_impl; [|exact H10]. intros a Ha. cbv beta in Ha. rewrite nlen_app. cbn [nlen]. lia.
Qed.

(* ---------- control steps ---------- *)
Lemma rinv_ctl_same c W r ph a w con :
  rinv c W r ->
  ph_inv (upd_ctl r ph a w con) ->
  ((forall b, r_w r <> WClosed b) \/ w = r_w r) ->
  rinv c W (upd_ctl r ph a w con).
Proof.
  intros [H1 H2 Hr H3 H4 H5 H6 H7 H8 H9 H10 H11 H12 H13] Hp Hw. constructor; prj; auto.
  intros Hn. destruct Hw as [Hw| ->]; auto.
Qed.

Lemma idxs_app a b : idxs (a ++ b) = idxs a ++ idxs b.
Proof. apply map_app. Qed.
Lemma didxs_app a b : didxs (a ++ b) = didxs a ++ didxs b.
Proof. apply map_app. Qed.

Ltac phi := unfold ph_inv; prj; auto; try (intros; discriminate).
Ltac fin H5 H11 := try (unfold ordered_part in *; prj; exact H5); try (intros _; apply H11; intros; discriminate).
Ltac nc E := left; intros ?; rewrite E; discriminate.

Lemma rinv_ctl c W k r r' : rinv c W r -> r_ctl c k r = Some r' -> rinv c W r'.
Proof.
  intros Hi H. pose proof Hi as [H1 (H2 & H2') (Hr & Hr') H3 H4 H5 H6 H7 H8 H9 (H10 & H10') H11 H12 H13].
  destruct k; cbn [r_ctl] in H.
  - (* playreq *) unfold r_playreq in H. destruct (r_ph r), (r_w r) eqn:Ew; try discriminate.
    destruct (r_active r); [discriminate|]. inversion H; subst. apply rinv_ctl_same; auto. phi.
  - unfold r_create in H. destruct (r_ph r), (r_w r) eqn:Ew; try discriminate.
    inversion H; subst. apply rinv_ctl_same; auto; [phi|nc Ew].
  - unfold r_activate in H. destruct (r_ph r), (r_w r) as [|st|st] eqn:Ew; try discriminate.
    destruct (r_tcp r || st); [|discriminate]. inversion H; subst. apply rinv_ctl_same; auto. phi.
  - unfold r_start in H. destruct (r_w r) as [|[|]|] eqn:Ew; try discriminate.
    inversion H; subst. apply rinv_ctl_same; auto; [|nc Ew].
    unfold ph_inv in *. prj. destruct (r_ph r); auto; try discriminate.
    destruct H8 as (Ha & _). split; eauto.
  - unfold r_playdone in H. destruct (r_ph r), (r_w r) as [|st|st] eqn:Ew; try discriminate.
    destruct (r_active r); [|discriminate]. inversion H; subst. apply rinv_ctl_same; auto.
    unfold ph_inv; prj. split; eauto.
  - unfold r_stopreq in H. destruct (r_ph r); try discriminate; inversion H; subst;
      apply rinv_ctl_same; auto; phi.
  - (* drain *) unfold r_drain in H. destruct (r_w r) as [|[|]|[|]] eqn:Ew; try discriminate.
    + destruct (r_queue r) as [|x q] eqn:Eq; [discriminate|]. inversion H; subst.
      inversion H2; subst. inversion H2'; subst. constructor; prj; auto; fin H5 H11.
      * apply Forall_app; split; auto.
      * intros Ht. specialize (H6 Ht). rewrite nl_i_snoc. match goal with Hl : i_late x = false |- _ => rewrite Hl end.
        rewrite idxs_app. cbn [idxs map app] in *. now rewrite <- !app_assoc.
      * cbn [nlen] in H7. lia.
      * intros n. rewrite (H9 n), idxs_app, !cnt_app. cbn [idxs map].
        rewrite (cnt_cons n (i_idx x) (map i_idx q)). unfold idxs. lia.
    + destruct (nnth (r_rp r) (r_ring r)) as [[x|]|] eqn:En; try discriminate. inversion H; subst.
      destruct (ritems_nset_none _ _ _ En) as (C1 & C2).
      destruct (C2 _ Hr) as (Hx & Hr2). destruct (C2 _ Hr') as (Hx' & Hr2').
      constructor; prj; auto; fin H5 H11.
      * apply Forall_app; split; auto.
      * intros Ht. specialize (H6 Ht). rewrite nl_i_snoc, Hx'. now rewrite app_nil_r.
      * intros n. rewrite (H9 n), (C1 n), idxs_app, !cnt_app. cbn [idxs map]. unfold idxs. lia.
      * intros Hn. exfalso. apply (Hn true). exact Ew.
  - (* closew *) unfold r_closew in H. destruct (r_ph r) eqn:Ep, (r_w r) as [|st|st] eqn:Ew; try discriminate.
    inversion H; subst. constructor; prj; auto; fin H5 H11.
    + rewrite ritems_nrep. split; constructor.
    + intros Ht. specialize (H6 Ht). cbn [idxs map]. rewrite app_nil_r. rewrite app_assoc in H6. now apply sinc_drop_tail in H6.
    + cbn [nlen]. lia.
    + phi.
    + intros n. rewrite (H9 n), !cnt_app, ritems_nrep. rewrite (H11 ltac:(intros b; discriminate)).
      cbn [idxs map cnt count_occ]. lia.
    + intros Hn. apply ritems_nrep.
  - (* nilw *) unfold r_nilw in H. destruct (r_ph r) eqn:Ep, (r_w r) as [|st|st] eqn:Ew; try discriminate.
    inversion H; subst. constructor; prj; auto; fin H5 H11.
    + cbn [ritems]. split; constructor.
    + phi.
    + intros n. rewrite (H9 n), !cnt_app. cbn [ritems idxs map cnt count_occ]. lia.
  - unfold r_deact in H. destruct (r_ph r) eqn:Ep; try discriminate. inversion H; subst.
    apply rinv_ctl_same; auto. phi.
  - unfold r_stopdone in H. destruct (r_ph r), (r_w r) eqn:Ew; try discriminate.
    destruct (r_active r); [discriminate|].
    destruct (r_tcp r); [destruct (r_wire r); [|discriminate]|]; inversion H; subst;
      apply rinv_ctl_same; auto; phi.
  - (* cclose *) unfold r_cclose in H. destruct (r_ph r) eqn:Ep; try discriminate.
    inversion H; subst. constructor; prj; auto; fin H5 H11.
    + intros Ht. specialize (H6 Ht). cbn [nl_i filter idxs map app]. now apply sinc_drop_mid in H6.
    + phi.
    + intros n. rewrite (H9 n), !cnt_app. cbn [idxs map cnt count_occ]. lia.
Qed.

(* ---------- arrival, loss ---------- *)
Lemma item_idx_lt c W su x : item_ok c W su x -> i_idx x < nlen W.
Proof. intros (p0 & fs & s & H & _). now apply nnth_Some_lt in H. Qed.
Lemma dentry_idx_lt c W d : dentry_ok c W d -> d_idx d < nlen W.
Proof. intros (p0 & fs & s & H & _). now apply nnth_Some_lt in H. Qed.

Lemma items_idx_lt c W su l : Forall (item_ok c W su) l -> Forall (fun i => i < nlen W) (idxs l).
Proof.
  induction 1 as [|x t Hx _ IH]; cbn [idxs map]; constructor; [now apply item_idx_lt in Hx|exact IH].
Qed.
Lemma dentries_idx_lt c W l : Forall (dentry_ok c W) l -> Forall (fun i => i < nlen W) (didxs l).
Proof.
  induction 1 as [|x t Hx _ IH]; cbn [didxs map]; constructor; [now apply dentry_idx_lt in Hx|exact IH].
Qed.
Lemma Forall_filter {A} (P : A -> Prop) g l : Forall P l -> Forall P (filter g l).
Proof. induction 1; cbn [filter]; [constructor|]. destruct (g x); auto. Qed.

(* the demultiplexer finds exactly the media and format the packet was written to *)
Lemma demux_ok c W su x :
  NoDup (map snd su) -> item_ok c W su x ->
  exists fs s, media_of su (i_chan x) = Some (i_m x) /\ nnth (i_m x) (c_medias c) = Some fs /\
    find_fmt fs (p_pt (i_pkt x)) = Some (i_f x, s) /\
    dentry_ok c W (mkD (i_m x) (i_f x) (i_idx x) (i_late x) (i_pkt x)).
Proof.
  intros Hnd (p0 & fs & s & H1 & H2 & H3 & H4 & H5). exists fs, s.
  split; [now apply chan_media|]. split; [exact H2|]. split.
  - rewrite H4. cbn [set_ssrc p_pt]. exact H3.
  - exists p0, fs, s. cbn [d_idx d_m d_f d_pkt]. auto.
Qed.

Lemma newer_of_all_lt dl m f idx : Forall (fun j => j < idx) (didxs dl) -> newer dl m f idx = true.
Proof.
  unfold newer. induction dl as [|d t IH]; cbn [didxs map forallb]; [reflexivity|].
  intros H. inversion H; subst. rewrite IH by assumption.
  destruct (N.ltb_spec (d_idx d) idx); [|lia]. now rewrite orb_true_r.
Qed.

Lemma rx_get_set_same rx m f v : rx_get (rx_set rx m f v) m f = Some v.
Proof.
  induction rx as [|[[m' f'] v'] t IH]; cbn [rx_set rx_get].
  - now rewrite !N.eqb_refl.
  - destruct ((m' =? m) && (f' =? f)) eqn:E; cbn [rx_get]; [now rewrite !N.eqb_refl|]. rewrite E. exact IH.
Qed.

Lemma rx_get_set_other rx m f v m2 f2 :
  (m2 =? m) && (f2 =? f) = false -> rx_get (rx_set rx m f v) m2 f2 = rx_get rx m2 f2.
Proof.
  intros Hne. induction rx as [|[[m' f'] v'] t IH]; cbn [rx_set rx_get].
  - rewrite (N.eqb_sym m), (N.eqb_sym f), Hne. reflexivity.
  - destruct ((m' =? m) && (f' =? f)) eqn:E; cbn [rx_get].
    + apply andb_prop in E. destruct E as (E1 & E2).
      assert (m' = m) by lia. assert (f' = f) by lia. subst m' f'.
      rewrite (N.eqb_sym m), (N.eqb_sym f), Hne. reflexivity.
    + destruct ((m' =? m2) && (f' =? f2)); [reflexivity|exact IH].
Qed.

(* the receiver state keeps covering every delivery when the entry of (m, f) moves to a value that is
   not below what it covered *)
Lemma rx_cover_set (dl : list dentry) rx m f v :
  (forall d, In d dl -> exists last neg, rx_get rx (d_m d) (d_f d) = Some (last, neg) /\ d_idx d <= last) ->
  (forall d last neg, In d dl -> d_m d = m -> d_f d = f -> rx_get rx m f = Some (last, neg) -> d_idx d <= last -> d_idx d <= fst v) ->
  forall d, In d dl -> exists last neg, rx_get (rx_set rx m f v) (d_m d) (d_f d) = Some (last, neg) /\ d_idx d <= last.
Proof.
  intros Hc Hv d Hd. destruct (Hc d Hd) as (last & neg & Hg & Hle).
  destruct ((d_m d =? m) && (d_f d =? f)) eqn:Ek.
  - apply andb_prop in Ek. destruct Ek as (E1 & E2). assert (Hm : d_m d = m) by lia. assert (Hf : d_f d = f) by lia.
    rewrite Hm, Hf, rx_get_set_same. destruct v as [v1 v2]. exists v1, v2. split; [reflexivity|].
    rewrite Hm, Hf in Hg. exact (Hv d last neg Hd Hm Hf Hg Hle).
  - rewrite (rx_get_set_other _ _ _ _ _ _ Ek). eauto.
Qed.

Lemma rinv_arrive c W i r r' od : rinv c W r -> r_arrive c i r = Some (r', od) -> rinv c W r'.
Proof.
  intros Hi H. pose proof Hi as [H1 (H2 & H2') (Hr & Hr') H3 H4 H5 H6 H7 H8 H9 (H10 & H10') H11 H12 H13].
  unfold r_arrive in H. destruct (r_con r); cbn [negb] in H; [|discriminate].
  destruct (r_tcp r && negb (i =? 0)) eqn:Eti; [discriminate|].
  destruct (take_nth i (r_wire r)) as [[x wi]|] eqn:Et; [|discriminate].
  destruct (take_nth_split _ _ _ _ Et) as (a & b & Ew & -> & Hla).
  assert (Ha0 : r_tcp r = true -> a = []).
  { intros Ht. rewrite Ht in Eti. cbn in Eti. destruct (N.eqb_spec i 0) as [->|]; [|discriminate].
    now apply nlen_nil_iff. }
  rewrite Ew in H3. apply Forall_app in H3. destruct H3 as (H3a & H3b). inversion H3b as [|? ? Hx H3b']; subst.
  assert (Hdrop : rinv c W (upd_data r (r_queue r) (a ++ b) (r_deliv r) (r_hist r) (r_lost r ++ [i_idx x]))).
  { constructor; prj; auto.
    - apply Forall_app; auto.
    - intros Ht. specialize (H6 Ht). rewrite Ew in H6. rewrite (Ha0 Ht) in *. cbn [app] in *.
      unfold nl_i in *. cbn [filter] in H6. destruct (i_late x); cbn [negb] in H6; [exact H6|].
      cbn [idxs map app] in H6. exact (sinc_drop_mid _ [i_idx x] _ H6).
    - intros n. rewrite (H9 n), Ew, !idxs_app, !cnt_app. cbn [idxs map].
      rewrite (cnt_cons n (i_idx x) (map i_idx b)). unfold idxs. lia. }
  destruct (demux_ok _ _ _ _ H1 Hx) as (fs & s & D1 & D2 & D3 & D4).
  rewrite D1, D2, D3 in H.
  assert (D4' : forall late, dentry_ok c W (mkD (i_m x) (i_f x) (i_idx x) late (i_pkt x))).
  { intros late. destruct D4 as (p0 & fs' & s' & E1 & E2). exists p0, fs', s'. exact (conj E1 E2). }
  assert (Hcons : forall n, cnt n (r_hist r) =
     (cnt n (didxs (r_deliv r) ++ [i_idx x]) + cnt n (r_lost r) + cnt n (idxs (a ++ b)) + cnt n (idxs (r_queue r))
      + cnt n (idxs (ritems (r_ring r))))%nat).
  { intros n. rewrite (H9 n), Ew, !idxs_app, !cnt_app. cbn [idxs map].
    rewrite (cnt_cons n (i_idx x) (map i_idx b)). unfold idxs. lia. }
  destruct (r_tcp r) eqn:Et'.
  - (* TCP: delivered as is *)
    inversion H; subst. constructor; prj; auto; try (intros; congruence).
    + apply Forall_app; auto.
    + apply Forall_app; auto.
    + unfold ordered_part in *; prj. rewrite nl_d_snoc. cbn [d_late]. destruct (i_late x) eqn:El; [now rewrite app_nil_r|].
      apply (inc_snoc _ (mkD (i_m x) (i_f x) (i_idx x) false (i_pkt x))); [exact H5|]. cbn [d_m d_f d_idx].
      apply newer_of_all_lt. specialize (H6 eq_refl). rewrite Ew, (Ha0 eq_refl) in H6.
      cbn [app] in H6. unfold nl_i in H6. cbn [filter] in H6. rewrite El in H6. cbn [negb idxs map] in H6.
      apply sinc_app in H6. destruct H6 as (_ & _ & H6).
      eapply Forall_impl; [|exact H6]. intros j Hj. cbv beta in Hj. now inversion Hj.
    + intros _. specialize (H6 eq_refl). rewrite Ew, (Ha0 eq_refl) in H6. rewrite (Ha0 eq_refl).
      rewrite nl_d_snoc. cbn [d_late app] in *. unfold nl_i in *. cbn [filter] in H6.
      destruct (i_late x); cbn [negb] in H6; [now rewrite app_nil_r|].
      rewrite didxs_app. cbn [idxs map didxs d_idx app] in *. now rewrite <- app_assoc.
    + intros n. rewrite didxs_app. exact (Hcons n).
  - (* UDP: the receiver's filter *)
    assert (Hdeliver : forall resets,
      (resets = r_resets r /\
         (rx_get (r_rx r) (i_m x) (i_f x) = None \/
          exists last neg, rx_get (r_rx r) (i_m x) (i_f x) = Some (last, neg) /\ last < i_idx x)) \/
      resets = r_resets r + 1 ->
      rinv c W (upd_rx (upd_data r (r_queue r) (a ++ b)
                 (r_deliv r ++ [mkD (i_m x) (i_f x) (i_idx x) (negb (resets =? 0)) (i_pkt x)]) (r_hist r) (r_lost r))
                 (rx_set (r_rx r) (i_m x) (i_f x) (i_idx x, 0)) resets)).
    { intros resets Hres. constructor; prj; auto; try (intros; congruence).
      - apply Forall_app; auto.
      - apply Forall_app; auto.
      - unfold ordered_part in *; prj. rewrite nl_d_snoc. cbn [d_late].
        destruct (N.eqb_spec resets 0) as [Hz|Hz]; cbn [negb]; [|now rewrite app_nil_r].
        destruct Hres as [(Hr0 & Hrx)|Hr0]; [|lia].
        apply (inc_snoc _ (mkD (i_m x) (i_f x) (i_idx x) false (i_pkt x))); [exact H5|]. cbn [d_m d_f d_idx].
        unfold newer. apply forallb_forall. intros d' Hd'. unfold nl_d in Hd'. apply filter_In in Hd'. destruct Hd' as (Hd' & _).
        destruct (same_mf (i_m x) (i_f x) d') eqn:Es; [|reflexivity]. cbn [negb orb].
        unfold same_mf in Es. apply andb_prop in Es. destruct Es as (Em & Ef).
        assert (Hm : d_m d' = i_m x) by lia. assert (Hf : d_f d' = i_f x) by lia.
        destruct (H13 eq_refl ltac:(lia) d' Hd') as (last & neg & Hg & Hle).
        rewrite Hm, Hf in Hg.
        destruct Hrx as [Hn|(last' & neg' & Hg' & Hlt)]; [congruence|]. rewrite Hg in Hg'. inversion Hg'; subst. lia.
      - intros n. rewrite didxs_app. exact (Hcons n).
      - intros _ Hz. apply Forall_app; split; [apply H12; auto; destruct Hres as [(-> & _)| ->]; lia|].
        constructor; [|constructor]. cbn [d_late]. subst resets. reflexivity.
      - intros _ Hz. destruct Hres as [(Hr0 & Hrx)|Hr0]; [|lia]. subst resets.
        intros d' Hd'. apply in_app_or in Hd'. destruct Hd' as [Hd'|[<-|[]]].
        + apply (rx_cover_set (r_deliv r) (r_rx r) (i_m x) (i_f x) (i_idx x, 0)); auto.
          intros d last neg Hd Hm Hf Hg Hle. cbn [fst].
          destruct Hrx as [Hn|(last' & neg' & Hg' & Hlt)]; [congruence|]. rewrite Hg in Hg'. inversion Hg'; subst. lia.
        + cbn [d_m d_f d_idx]. rewrite rx_get_set_same. exists (i_idx x), 0. split; [reflexivity|lia]. }
    destruct (rx_get (r_rx r) (i_m x) (i_f x)) as [[last neg]|] eqn:Eg.
    + destruct (N.ltb_spec last (i_idx x)).
      * inversion H; subst. apply Hdeliver. left. split; [reflexivity|]. right. eauto.
      * destruct (c_B c <? neg + 1).
        -- inversion H; subst. apply Hdeliver. now right.
        -- inversion H; subst. cbn [fst].
           pose proof Hdrop as [K1 K2 K3 K4 K5 K6 K7 K8 K9 K10 K11 K12 K13 K14].
           constructor; prj; auto. intros Ht Hz.
           apply (rx_cover_set (r_deliv r) (r_rx r) (i_m x) (i_f x) (last, neg + 1)); auto.
           intros d l' n' Hd Hm Hf Hg Hle. cbn [fst]. rewrite Eg in Hg. inversion Hg; subst. exact Hle.
    + inversion H; subst. apply Hdeliver. left. split; [reflexivity|]. now left.
Qed.

Lemma rinv_lose c W i r r' : rinv c W r -> r_lose i r = Some r' -> rinv c W r'.
Proof.
  intros Hi H. pose proof Hi as [H1 (H2 & H2') (Hr & Hr') H3 H4 H5 H6 H7 H8 H9 (H10 & H10') H11 H12 H13].
  unfold r_lose in H. destruct (r_tcp r) eqn:Et; [discriminate|].
  destruct (take_nth i (r_wire r)) as [[x wi]|] eqn:E; [|discriminate].
  destruct (take_nth_split _ _ _ _ E) as (a & b & Ew & -> & Hla). inversion H; subst.
  rewrite Ew in H3. apply Forall_app in H3. destruct H3 as (H3a & H3b). inversion H3b; subst.
  constructor; prj; auto; fin H5 H11.
  - apply Forall_app; auto.
  - intros Ht. congruence.
  - intros n. rewrite (H9 n), Ew, !idxs_app, !cnt_app. cbn [idxs map].
    rewrite (cnt_cons n (i_idx x) (map i_idx b)). unfold idxs. lia.
Qed.

(* ---------- write ---------- *)
Lemma rinv_push c W m f p s fs r r' full :
  rinv c W r ->
  nnth m (c_medias c) = Some fs -> find_fmt fs (p_pt p) = Some (f, s) ->
  r_push c m f (nlen W) (set_ssrc p s) r = (r', full) ->
  rinv c (W ++ [(m, f, p)]) r'.
Proof.
  intros Hi Hm Hf H. unfold r_push in H.
  destruct (r_active r); [|inversion H; subst; now apply rinv_mono].
  destruct (chan_of (r_setup r) m) as [ch|] eqn:Ech; [|inversion H; subst; now apply rinv_mono].
  pose proof Hi as [_ (G2 & _) _ G3 G4 _ G6 _ _ _ (G10 & _) _ _ _].
  assert (Hnew : forall late, item_ok c (W ++ [(m, f, p)]) (r_setup r) (mkItem ch m f (nlen W) late (set_ssrc p s))).
  { intros late. exists p, fs, s. cbn [i_idx i_m i_f i_pkt i_chan]. split; [apply nnth_app_len|auto]. }
  assert (Hhist : forall h, Forall (fun i => i < nlen W) h -> sinc h ->
            Forall (fun i => i < nlen (W ++ [(m, f, p)])) (h ++ [nlen W]) /\ sinc (h ++ [nlen W])).
  { intros h Hb Hs. split.
    - apply Forall_app; split.
      + eapply Forall_impl; [|exact Hb]. intros a Ha. cbv beta in Ha. rewrite nlen_app. cbn [nlen]. lia.
      + constructor; [|constructor]. rewrite nlen_app. cbn [nlen]. lia.
    - apply sinc_snoc. split; assumption. }
  apply (rinv_mono _ _ (m, f, p)) in Hi.
  pose proof Hi as [H1 (H2 & H2') (Hr & Hr') H3 H4 H5 H6 H7 H8 H9 (H10 & H10') H11 H12 H13].
  destruct (r_w r) as [|st|st] eqn:Ew; [inversion H; subst; exact Hi| |].
  - destruct (nlen (r_queue r) <? c_Q c) eqn:Elt; inversion H; subst; [|exact Hi].
    constructor; prj; auto; fin H5 H11.
    + split; apply Forall_app; split; auto.
    + intros Ht. specialize (G6 Ht). rewrite idxs_app, !app_assoc. cbn [idxs map i_idx].
      apply sinc_snoc. split; [now rewrite <- !app_assoc|].
      rewrite !Forall_app. repeat split.
      * apply dentries_idx_lt with (c := c). unfold nl_d. now apply Forall_filter.
      * apply items_idx_lt with (c := c) (su := r_setup r). unfold nl_i. now apply Forall_filter.
      * now apply items_idx_lt in G2.
    + rewrite nlen_app. cbn [nlen]. lia.
    + intros n. rewrite idxs_app, !cnt_app, (H9 n). cbn [idxs map i_idx]. lia.
  - destruct (nnth (r_wp r) (r_ring r)) as [[y|]|] eqn:En; inversion H; subst; try exact Hi.
    destruct (ritems_nset_some _ _ (mkItem ch m f (nlen W) true (set_ssrc p s)) En) as (C1 & C2).
    constructor; prj; auto; fin H5 H11.
    + intros n. rewrite !cnt_app, (H9 n), (C1 n). cbn [i_idx]. lia.
    + intros Hn. exfalso. apply (Hn st). exact Ew.
Qed.

(* ---------- lifting to the reader list ---------- *)
Lemma upd_nth_Forall {A} (P Q : A -> Prop) i g l l' :
  upd_nth i g l = Some l' -> Forall P l -> (forall x, P x -> Q x) ->
  (forall x y, P x -> g x = Some y -> Q y) -> Forall Q l'.
Proof.
  revert i l'; induction l as [|x t IH]; intros i l' H HF HPQ Hg; cbn [upd_nth] in H; [discriminate|].
  inversion HF as [|? ? Hx Ht]; subst.
  destruct (i =? 0).
  - destruct (g x) as [y|] eqn:E; [|discriminate]. inversion H; subst. constructor; eauto.
    eapply Forall_impl; [|exact Ht]. auto.
  - destruct (upd_nth (N.pred i) g t) as [t'|] eqn:E; [|discriminate]. inversion H; subst.
    constructor; eauto.
Qed.

Lemma Forall_nnth {A} (P : A -> Prop) l i x : Forall P l -> nnth i l = Some x -> P x.
Proof.
  revert i; induction l as [|y t IH]; intros i HF H; cbn [nnth] in H; [discriminate|].
  inversion HF; subst. destruct (i =? 0); [inversion H; now subst|eauto].
Qed.

Lemma upd_nth_nnth {A} i (g : A -> option A) l l' k :
  upd_nth i g l = Some l' ->
  nnth k l' = if k =? i then match nnth i l with Some x => g x | None => None end else nnth k l.
Proof.
  revert i l' k; induction l as [|x t IH]; intros i l' k H; cbn [upd_nth] in H; [discriminate|].
  destruct (N.eqb_spec i 0) as [->|Hi].
  - destruct (g x) as [y|] eqn:E; [|discriminate]. inversion H; subst. cbn [nnth].
    change (0 =? 0) with true. cbv iota.
    destruct (N.eqb_spec k 0) as [->|Hk]; [now rewrite E|reflexivity].
  - destruct (upd_nth (N.pred i) g t) as [t'|] eqn:E; [|discriminate]. inversion H; subst.
    cbn [nnth]. destruct (N.eqb_spec i 0); [lia|].
    destruct (N.eqb_spec k 0) as [->|Hk].
    + destruct (N.eqb_spec 0 i); [lia|reflexivity].
    + rewrite (IH _ _ (N.pred k) E).
      destruct (N.eqb_spec (N.pred k) (N.pred i)), (N.eqb_spec k i); try lia; reflexivity.
Qed.

Lemma fanout_inv c W m f p s fs k rs rs' fl :
  Forall (rinv c W) rs ->
  nnth m (c_medias c) = Some fs -> find_fmt fs (p_pt p) = Some (f, s) ->
  fanout c m f (nlen W) (set_ssrc p s) k rs = (rs', fl) ->
  Forall (rinv c (W ++ [(m, f, p)])) rs'.
Proof.
  intros HF Hm Hf. revert k rs' fl; induction HF as [|r t Hr _ IH]; intros k rs' fl H; cbn [fanout] in H.
  - inversion H; subst. constructor.
  - destruct (r_push c m f (nlen W) (set_ssrc p s) r) as [r' full] eqn:Ep.
    destruct (fanout c m f (nlen W) (set_ssrc p s) (k + 1) t) as [t' fl'] eqn:Et.
    inversion H; subst. constructor; [eapply rinv_push; eauto|eapply IH; eauto].
Qed.

Lemma fanout_nth c m f idx p k0 rs rs' fl :
  fanout c m f idx p k0 rs = (rs', fl) ->
  Forall (fun j => k0 <= j) fl /\
  forall k, nnth k rs' = option_map (fun r => fst (r_push c m f idx p r)) (nnth k rs) /\
            forall r, nnth k rs = Some r -> (In (k0 + k) fl <-> snd (r_push c m f idx p r) = true).
Proof.
  revert k0 rs' fl; induction rs as [|r t IH]; intros k0 rs' fl H; cbn [fanout] in H.
  - inversion H; subst. split; [constructor|]. intros k. split; [reflexivity|discriminate].
  - destruct (r_push c m f idx p r) as [r' full] eqn:Ep.
    destruct (fanout c m f idx p (k0 + 1) t) as [t' fl'] eqn:Et.
    destruct (IH _ _ _ Et) as (Hge & Hk). inversion H; subst. split.
    + assert (Forall (fun j => k0 <= j) fl') by (eapply Forall_impl; [|exact Hge]; intros; cbv beta in *; lia).
      destruct full; [constructor; [lia|assumption]|assumption].
    + intros k. cbn [nnth]. destruct (N.eqb_spec k 0) as [->|Hk0].
      * cbn [option_map]. rewrite Ep. split; [reflexivity|]. intros r0 Hr0. inversion Hr0; subst.
        rewrite Ep. cbn [snd]. rewrite N.add_0_r. split.
        -- intros Hin. destruct full; [reflexivity|]. exfalso.
           rewrite Forall_forall in Hge. specialize (Hge _ Hin). lia.
        -- intros ->. now left.
      * destruct (Hk (N.pred k)) as (Hk1 & Hk2). split; [exact Hk1|].
        intros r0 Hr0. specialize (Hk2 _ Hr0). replace (k0 + 1 + N.pred k) with (k0 + k) in Hk2 by lia.
        rewrite <- Hk2. destruct full; [|reflexivity]. split; [intros [Heq|Hin]; [lia|exact Hin]|now right].
Qed.

Lemma list_eqb_eq a b : list_eqb a b = true -> a = b.
Proof.
  unfold list_eqb. revert b; induction a as [|x t IH]; intros [|y u]; cbn [nlen combine forallb]; intros H;
    try reflexivity; try (apply andb_prop in H; destruct H as (H & _); exfalso; lia).
  apply andb_prop in H. destruct H as (Hl & H). apply andb_prop in H. destruct H as (Hxy & H).
  cbn [fst snd] in Hxy. f_equal; [lia|]. apply IH. apply andb_true_intro. split; [lia|exact H].
Qed.

(* ---------- every step preserves the invariant ---------- *)
Theorem step_inv c st s st' : sinv c st -> step c st s = Some st' -> sinv c st'.
Proof.
  unfold sinv. intros Hi H. destruct s as [m p full|k r|r i o|r i]; cbn [step] in H.
  - unfold write in H. destruct (nnth m (c_medias c)) as [fs|] eqn:Em; [|discriminate].
    destruct (find_fmt fs (p_pt p)) as [[f s]|] eqn:Ef; [|discriminate].
    destruct (fanout c m f (nlen (s_written st)) (set_ssrc p s) 0 (s_readers st)) as [rs fl] eqn:Efo.
    destruct (list_eqb full fl); [|discriminate]. inversion H; subst. cbn [s_written s_readers].
    eapply fanout_inv; eauto.
  - destruct (upd_nth r (r_ctl c k) (s_readers st)) as [rs|] eqn:E; [|discriminate]. inversion H; subst.
    cbn [s_written s_readers]. eapply upd_nth_Forall; [exact E|exact Hi|auto|]. intros; eapply rinv_ctl; eauto.
  - destruct (nnth r (s_readers st)) as [x|] eqn:En; [|discriminate].
    destruct (r_arrive c i x) as [[x' d]|] eqn:Ea; [|discriminate].
    destruct (obs_match o d); [|discriminate].
    destruct (upd_nth r (fun _ => Some x') (s_readers st)) as [rs|] eqn:E; [|discriminate]. inversion H; subst.
    cbn [s_written s_readers]. pose proof (Forall_nnth _ _ _ _ Hi En) as Hx.
    pose proof (rinv_arrive _ _ _ _ _ _ Hx Ea) as Hx'.
    eapply upd_nth_Forall; [exact E|exact Hi|auto|]. intros ? y _ Hy. inversion Hy; now subst.
  - destruct (upd_nth r (r_lose i) (s_readers st)) as [rs|] eqn:E; [|discriminate]. inversion H; subst.
    cbn [s_written s_readers]. eapply upd_nth_Forall; [exact E|exact Hi|auto|]. intros; eapply rinv_lose; eauto.
Qed.

Theorem exec_inv c steps : forall st st', sinv c st -> exec c st steps = Some st' -> sinv c st'.
Proof.
  induction steps as [|s t IH]; intros st st' Hi H; cbn [exec] in H; [inversion H; now subst|].
  destruct (step c st s) as [st1|] eqn:E; [|discriminate]. eapply IH; [|exact H]. eapply step_inv; eauto.
Qed.

(* initial states: any number of readers, each with any transport and any set of set-up medias whose
   channels (ports) are pairwise distinct *)
Definition readers_ok (rs : list rstate) : Prop :=
  Forall (fun r => exists tcp su, r = new_reader tcp su /\ NoDup (map snd su)) rs.

Lemma init_inv c rs : readers_ok rs -> sinv c (init rs).
Proof.
  unfold sinv, init, readers_ok. cbn [s_written s_readers]. intros H.
  eapply Forall_impl; [|exact H]. intros r (tcp & su & -> & Hnd).
  constructor; cbn; auto; try constructor; try lia; try (intros; discriminate); try (intros; contradiction).
Qed.

Definition reach (c : cfg) (rs : list rstate) (st : state) : Prop :=
  readers_ok rs /\ exists steps, exec c (init rs) steps = Some st.

Lemma reach_inv c rs st : reach c rs st -> sinv c st.
Proof. intros (Hok & steps & H). eapply exec_inv; [|exact H]. now apply init_inv. Qed.

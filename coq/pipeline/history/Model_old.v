(* Executable model of the gortsplib media pipeline (property C01). Proof-free.

   One writer (ServerStream.WritePacketRTP, or Client.WritePacketRTP of a publisher) fans packets out
   to readers.  Per reader the code has
     - membership in activeUnicastReaders                     (server_stream.go readerSetActive/Inactive)
     - the session/client writer: nil | asyncprocessor (started or not) | closed-but-not-yet-nil
                                                              (server_session.go createWriter/startWriter/
                                                               destroyWriter, client.go idem)
     - the bounded FIFO of the writer (pkg/ringbuffer; C16 proves it refines the bounded queue used here)
     - the transport ("wire": TCP byte stream = FIFO, UDP = bag with loss and reordering, followed by the
       receiver's in-order filter of pkg/rtpreceiver, abstracted as "delivers only newer packets")
     - the demultiplexer: channel / port -> media, payload type -> format
                                                              (client_reader.go, client_media.go readPacketRTP,
                                                               server_conn_reader.go, server_session_media.go)
     - the control phase of the reader as seen from outside: idle, PLAY requested, PLAY completed,
       stop (PAUSE / TEARDOWN / close) requested.
   Ghost fields (media, format, global write index carried by every item; hist; lost) do not influence
   any decision; they are what the theorems talk about. *)
From GVL Require Import NList Wire.
Open Scope N_scope.

Record packet := mkP {
  p_seq : N; p_ts : N; p_mk : bool; p_pt : N; p_ssrc : N; p_pay : list N }.

Definition set_ssrc (p : packet) (s : N) : packet :=
  mkP (p_seq p) (p_ts p) (p_mk p) (p_pt p) s (p_pay p).

(* static configuration: queue capacity, size of the UDP receiver's reorder buffer (rtpreceiver.BufferSize)
   and, per media, its formats as (payload type, local SSRC) *)
Record cfg := mkCfg { c_Q : N; c_B : N; c_medias : list (list (N * N)) }.

(* formats[pt]: a Go map filled in description order, so the last format with that payload type wins *)
Fixpoint find_fmt_aux (fs : list (N * N)) (pt i : N) (acc : option (N * N)) : option (N * N) :=
  match fs with
  | [] => acc
  | (pt', s) :: t => find_fmt_aux t pt (i + 1) (if pt' =? pt then Some (i, s) else acc)
  end.
Definition find_fmt (fs : list (N * N)) (pt : N) : option (N * N) := find_fmt_aux fs pt 0 None.

(* setuppedMedias[media] -> channel (TCP) or client port (UDP) *)
Fixpoint chan_of (setup : list (N * N)) (m : N) : option N :=
  match setup with
  | [] => None
  | (m', ch) :: t => if m' =? m then Some ch else chan_of t m
  end.
(* tcpCallbackByChannel[channel] / the UDP listener that owns the port -> media *)
Fixpoint media_of (setup : list (N * N)) (ch : N) : option N :=
  match setup with
  | [] => None
  | (m, ch') :: t => if ch' =? ch then Some m else media_of t ch
  end.

Inductive wst := WNone | WOpen (started : bool) | WClosed (started : bool).
Inductive phase := PhIdle | PhPlayReq | PhPlaying | PhStopReq.

(* i_late / d_late (ghost): the packet was pushed after the writer had been closed (see r_push) *)
Record item := mkItem { i_chan : N; i_m : N; i_f : N; i_idx : N; i_late : bool; i_pkt : packet }.
Record dentry := mkD { d_m : N; d_f : N; d_idx : N; d_late : bool; d_pkt : packet }.

Record rstate := mkR {
  r_tcp : bool;
  r_setup : list (N * N);
  r_ph : phase;
  r_active : bool;
  r_w : wst;
  r_queue : list item;        (* the writer's ring buffer while it is open: a bounded FIFO (C16) *)
  r_ring : list (option item); (* the same ring buffer after Close(): its slots, cleared by Close ... *)
  r_rp : N;                   (* ... and its read and write positions, which Close does NOT reset *)
  r_wp : N;                   (*     (positions relative to the read index at the time of Close) *)
  r_wire : list item;
  r_con : bool;               (* client side accepts media (allowInterleavedFrames / listeners running) *)
  r_deliv : list dentry;      (* callbacks invoked, oldest first *)
  r_hist : list N;            (* ghost: write indices accepted by the queue, oldest first *)
  r_lost : list N;            (* ghost: write indices removed without a callback *)
  r_rx : list (N * N * (N * N)); (* UDP receiver per (media, format): (last delivered, consecutive late arrivals) *)
  r_resets : N }.             (* ghost: how often a UDP receiver gave up its position ("stream has been resetted") *)

Record state := mkS { s_written : list (N * N * packet); s_readers : list rstate }.

Definition new_reader (tcp : bool) (setup : list (N * N)) : rstate :=
  mkR tcp setup PhIdle false WNone [] [] 0 0 [] false [] [] [] [] 0.

(* --- field updates --- *)
Definition upd_ctl (r : rstate) (ph : phase) (a : bool) (w : wst) (con : bool) : rstate :=
  mkR (r_tcp r) (r_setup r) ph a w (r_queue r) (r_ring r) (r_rp r) (r_wp r) (r_wire r) con (r_deliv r) (r_hist r) (r_lost r)
      (r_rx r) (r_resets r).
Definition upd_data (r : rstate) (q wi : list item) (dl : list dentry) (h l : list N) : rstate :=
  mkR (r_tcp r) (r_setup r) (r_ph r) (r_active r) (r_w r) q (r_ring r) (r_rp r) (r_wp r) wi (r_con r) dl h l
      (r_rx r) (r_resets r).
Definition upd_ring (r : rstate) (ring : list (option item)) (rp wp : N) : rstate :=
  mkR (r_tcp r) (r_setup r) (r_ph r) (r_active r) (r_w r) (r_queue r) ring rp wp (r_wire r) (r_con r)
      (r_deliv r) (r_hist r) (r_lost r) (r_rx r) (r_resets r).
Definition upd_rx (r : rstate) (rx : list (N * N * (N * N))) (resets : N) : rstate :=
  mkR (r_tcp r) (r_setup r) (r_ph r) (r_active r) (r_w r) (r_queue r) (r_ring r) (r_rp r) (r_wp r) (r_wire r)
      (r_con r) (r_deliv r) (r_hist r) (r_lost r) rx resets.

Fixpoint rx_get (rx : list (N * N * (N * N))) (m f : N) : option (N * N) :=
  match rx with
  | [] => None
  | (m', f', v) :: t => if (m' =? m) && (f' =? f) then Some v else rx_get t m f
  end.
Fixpoint rx_set (rx : list (N * N * (N * N))) (m f : N) (v : N * N) : list (N * N * (N * N)) :=
  match rx with
  | [] => [(m, f, v)]
  | (m', f', v') :: t => if (m' =? m) && (f' =? f) then (m, f, v) :: t else (m', f', v') :: rx_set t m f v
  end.

(* the closures sitting in the slots of a ring *)
Fixpoint ritems (ring : list (option item)) : list item :=
  match ring with
  | [] => []
  | Some x :: t => x :: ritems t
  | None :: t => ritems t
  end.

Definition idxs (l : list item) : list N := map i_idx l.

(* --- per-reader operations; None = the step is not enabled in this state --- *)

(* the client calls Play()/Record(): startTransportRoutines precedes the request *)
Definition r_playreq (r : rstate) : option rstate :=
  match r_ph r, r_w r with
  | PhIdle, WNone => if r_active r then None else Some (upd_ctl r PhPlayReq false WNone true)
  | _, _ => None
  end.
(* createWriter *)
Definition r_create (r : rstate) : option rstate :=
  match r_ph r, r_w r with
  | PhPlayReq, WNone => Some (upd_ctl r PhPlayReq (r_active r) (WOpen false) (r_con r))
  | _, _ => None
  end.
(* readerSetActive: createWriter precedes it; over UDP startWriter precedes it as well *)
Definition r_activate (r : rstate) : option rstate :=
  match r_ph r, r_w r with
  | PhPlayReq, WOpen st =>
      if r_tcp r || st then Some (upd_ctl r PhPlayReq true (WOpen st) (r_con r)) else None
  | _, _ => None
  end.
(* startWriter (over TCP it runs after the PLAY response has been sent, possibly after the client
   has already asked for the next thing) *)
Definition r_start (r : rstate) : option rstate :=
  match r_w r with
  | WOpen false => Some (upd_ctl r (r_ph r) (r_active r) (WOpen true) (r_con r))
  | _ => None
  end.
(* Play() returned successfully: the server has handled PLAY, so the reader is active *)
Definition r_playdone (r : rstate) : option rstate :=
  match r_ph r, r_w r with
  | PhPlayReq, WOpen st => if r_active r then Some (upd_ctl r PhPlaying true (WOpen st) (r_con r)) else None
  | _, _ => None
  end.
(* Pause()/Close()/TEARDOWN/stream or server close has been initiated *)
Definition r_stopreq (r : rstate) : option rstate :=
  match r_ph r with
  | PhPlayReq | PhPlaying => Some (upd_ctl r PhStopReq (r_active r) (r_w r) (r_con r))
  | _ => None
  end.
(* the consumer goroutine runs one queued closure: queue head -> transport.  After Close() of the
   processor the consumer is still alive until it finds the slot at its read index empty, or until it is
   joined (= r_nilw): it runs whatever is pushed into that slot meanwhile (RingBuffer.Pull tests the slot
   before it tests closed). *)
Definition r_drain (c : cfg) (r : rstate) : option rstate :=
  match r_w r with
  | WOpen true =>
      match r_queue r with
      | x :: q => Some (upd_data r q (r_wire r ++ [x]) (r_deliv r) (r_hist r) (r_lost r))
      | [] => None
      end
  | WClosed true =>
      match nnth (r_rp r) (r_ring r) with
      | Some (Some x) =>
          Some (upd_ring (upd_data r (r_queue r) (r_wire r ++ [x]) (r_deliv r) (r_hist r) (r_lost r))
                         (nset (r_rp r) None (r_ring r)) ((r_rp r + 1) mod c_Q c) (r_wp r))
      | _ => None
      end
  | _ => None
  end.
(* destroyWriter, first half: asyncprocessor.Close -> ringbuffer.Close sets every slot to nil (dropping
   every queued closure) but leaves readIndex and writeIndex where they are: with n closures queued the
   write position is n slots ahead of the read position. *)
Definition r_closew (c : cfg) (r : rstate) : option rstate :=
  match r_ph r, r_w r with
  | PhStopReq, WOpen st =>
      Some (upd_ring (upd_data (upd_ctl r PhStopReq (r_active r) (WClosed st) (r_con r))
                               [] (r_wire r) (r_deliv r) (r_hist r) (r_lost r ++ idxs (r_queue r)))
                     (nrep None (c_Q c)) 0 (nlen (r_queue r) mod c_Q c))
  | _, _ => None
  end.
(* destroyWriter, second half: the consumer has been joined, writer = nil (what was pushed after Close
   and not run by then is never run) *)
Definition r_nilw (r : rstate) : option rstate :=
  match r_ph r, r_w r with
  | PhStopReq, WClosed _ =>
      Some (upd_ring (upd_data (upd_ctl r PhStopReq (r_active r) WNone (r_con r))
                               (r_queue r) (r_wire r) (r_deliv r) (r_hist r) (r_lost r ++ idxs (ritems (r_ring r))))
                     [] 0 0)
  | _, _ => None
  end.
(* readerSetInactive *)
Definition r_deact (r : rstate) : option rstate :=
  match r_ph r with
  | PhStopReq => Some (upd_ctl r PhStopReq false (r_w r) (r_con r))
  | _ => None
  end.
(* Pause() returned: the writer is gone and the reader inactive.  Over TCP every frame precedes the PAUSE
   response on the connection, so nothing is left on the wire. *)
Definition r_stopdone (r : rstate) : option rstate :=
  match r_ph r, r_w r with
  | PhStopReq, WNone =>
      if r_active r then None else
      if r_tcp r then
        match r_wire r with [] => Some (upd_ctl r PhIdle false WNone false) | _ => None end
      else Some (upd_ctl r PhIdle false WNone false)
  | _, _ => None
  end.
(* the client closed its end: whatever is still in the transport is gone *)
Definition r_cclose (r : rstate) : option rstate :=
  match r_ph r with
  | PhStopReq =>
      Some (upd_data (upd_ctl r PhStopReq (r_active r) (r_w r) false)
                     (r_queue r) [] (r_deliv r) (r_hist r) (r_lost r ++ idxs (r_wire r)))
  | _ => None
  end.

(* remove the i-th element *)
Fixpoint take_nth {A} (i : N) (l : list A) : option (A * list A) :=
  match l with
  | [] => None
  | x :: t =>
      if i =? 0 then Some (x, t)
      else match take_nth (N.pred i) t with
           | Some (y, t') => Some (y, x :: t')
           | None => None
           end
  end.

Definition same_mf (m f : N) (d : dentry) : bool := (d_m d =? m) && (d_f d =? f).

(* one unit leaves the transport at the reading end.  Returns the new reader state and the callback
   that was invoked, if any.
   TCP: the head of the byte stream; the receiver hands every packet on (reliable transport).
   UDP: any datagram (reordering); rtpreceiver.reorder in abstract form - the write index stands for the
   sequence number, and the choice of the datagram stands for its reorder buffer: a packet newer than the
   last delivered one of that format is delivered; an older one is dropped, unless it is the (B+1)-th
   older one in a row, in which case the receiver assumes that the stream was reset and restarts from it. *)
Definition r_arrive (c : cfg) (i : N) (r : rstate) : option (rstate * option dentry) :=
  if negb (r_con r) then None else
  if r_tcp r && negb (i =? 0) then None else
  match take_nth i (r_wire r) with
  | None => None
  | Some (x, wi) =>
      let drop := (upd_data r (r_queue r) wi (r_deliv r) (r_hist r) (r_lost r ++ [i_idx x]), None) in
      match media_of (r_setup r) (i_chan x) with
      | None => Some drop
      | Some m =>
          match nnth m (c_medias c) with
          | None => Some drop
          | Some fs =>
              match find_fmt fs (p_pt (i_pkt x)) with
              | None => Some drop
              | Some (f, _) =>
                  if r_tcp r then
                    let d := mkD m f (i_idx x) (i_late x) (i_pkt x) in
                    Some (upd_data r (r_queue r) wi (r_deliv r ++ [d]) (r_hist r) (r_lost r), Some d)
                  else
                    let deliver (resets : N) :=
                      let d := mkD m f (i_idx x) (negb (resets =? 0)) (i_pkt x) in
                      Some (upd_rx (upd_data r (r_queue r) wi (r_deliv r ++ [d]) (r_hist r) (r_lost r))
                                   (rx_set (r_rx r) m f (i_idx x, 0)) resets, Some d) in
                    match rx_get (r_rx r) m f with
                    | None => deliver (r_resets r)
                    | Some (last, neg) =>
                        if last <? i_idx x then deliver (r_resets r)
                        else if c_B c <? neg + 1 then deliver (r_resets r + 1)
                        else Some (upd_rx (fst drop) (rx_set (r_rx r) m f (last, neg + 1)) (r_resets r), None)
                    end
              end
          end
      end
  end.

(* a datagram is lost *)
Definition r_lose (i : N) (r : rstate) : option rstate :=
  if r_tcp r then None else
  match take_nth i (r_wire r) with
  | None => None
  | Some (x, wi) => Some (upd_data r (r_queue r) wi (r_deliv r) (r_hist r) (r_lost r ++ [i_idx x]))
  end.

(* writePacketRTPEncoded for one reader: returns the new state and whether queue-full is reported.
   Push does not look at the closed flag: between Close() and writer = nil a closure is accepted whenever
   the slot at the write index is free. *)
Definition r_push (c : cfg) (m f idx : N) (p : packet) (r : rstate) : rstate * bool :=
  if r_active r then
    match chan_of (r_setup r) m with
    | None => (r, false)
    | Some ch =>
        match r_w r with
        | WNone => (r, false)
        | WOpen _ =>
            if nlen (r_queue r) <? c_Q c
            then (upd_data r (r_queue r ++ [mkItem ch m f idx false p]) (r_wire r) (r_deliv r)
                           (r_hist r ++ [idx]) (r_lost r), false)
            else (r, true)
        | WClosed _ =>
            match nnth (r_wp r) (r_ring r) with
            | Some None =>
                (upd_ring (upd_data r (r_queue r) (r_wire r) (r_deliv r) (r_hist r ++ [idx]) (r_lost r))
                          (nset (r_wp r) (Some (mkItem ch m f idx true p)) (r_ring r))
                          (r_rp r) ((r_wp r + 1) mod c_Q c), false)
            | _ => (r, true)
            end
        end
    end
  else (r, false).

Fixpoint fanout (c : cfg) (m f idx : N) (p : packet) (k : N) (rs : list rstate) : list rstate * list N :=
  match rs with
  | [] => ([], [])
  | r :: t =>
      let '(r', full) := r_push c m f idx p r in
      let '(t', fl) := fanout c m f idx p (k + 1) t in
      (r' :: t', if full then k :: fl else fl)
  end.

Inductive wres := WOk (st : state) (full : list N) | WPanic.

(* ServerStream.WritePacketRTP(media, pkt): sm.formats[pkt.PayloadType] is dereferenced unchecked *)
Definition write (c : cfg) (st : state) (m : N) (p : packet) : wres :=
  match nnth m (c_medias c) with
  | None => WPanic
  | Some fs =>
      match find_fmt fs (p_pt p) with
      | None => WPanic
      | Some (f, ssrc) =>
          let p' := set_ssrc p ssrc in
          let idx := nlen (s_written st) in
          let '(rs, full) := fanout c m f idx p' 0 (s_readers st) in
          WOk (mkS (s_written st ++ [(m, f, p)]) rs) full
      end
  end.

(* --- steps --- *)
Inductive ctl := CPlayReq | CCreate | CActivate | CStart | CPlayDone | CStopReq | CDrain
               | CCloseW | CNilW | CDeact | CStopDone | CCClose.

Record obs := mkObs { o_m : N; o_f : N; o_idx : N; o_pkt : packet }.

Inductive stepT :=
| SWrite (m : N) (p : packet) (full : list N)      (* observed: readers that got a queue-full report *)
| SCtl (k : ctl) (r : N)
| SArrive (r i : N) (o : option obs)               (* observed: the callback that was invoked, if any *)
| SLose (r i : N).

Definition r_ctl (c : cfg) (k : ctl) : rstate -> option rstate :=
  match k with
  | CPlayReq => r_playreq | CCreate => r_create | CActivate => r_activate | CStart => r_start
  | CPlayDone => r_playdone | CStopReq => r_stopreq | CDrain => r_drain c | CCloseW => r_closew c
  | CNilW => r_nilw | CDeact => r_deact | CStopDone => r_stopdone | CCClose => r_cclose
  end.

Fixpoint upd_nth {A} (i : N) (g : A -> option A) (l : list A) : option (list A) :=
  match l with
  | [] => None
  | x :: t =>
      if i =? 0 then match g x with Some y => Some (y :: t) | None => None end
      else match upd_nth (N.pred i) g t with Some t' => Some (x :: t') | None => None end
  end.

Definition list_eqb (a b : list N) : bool :=
  (nlen a =? nlen b) && forallb (fun p => fst p =? snd p) (combine a b).

Definition pkt_eqb (a b : packet) : bool :=
  (p_seq a =? p_seq b) && (p_ts a =? p_ts b) && Bool.eqb (p_mk a) (p_mk b) && (p_pt a =? p_pt b)
  && (p_ssrc a =? p_ssrc b) && list_eqb (p_pay a) (p_pay b).

Definition obs_match (o : option obs) (d : option dentry) : bool :=
  match o, d with
  | None, None => true
  | Some o, Some d => (o_m o =? d_m d) && (o_f o =? d_f d) && (o_idx o =? d_idx d) && pkt_eqb (o_pkt o) (d_pkt d)
  | _, _ => false
  end.

(* None = the step (with its observation) is not a behaviour of the model in this state *)
Definition step (c : cfg) (st : state) (s : stepT) : option state :=
  match s with
  | SWrite m p full =>
      match write c st m p with
      | WOk st' full' => if list_eqb full full' then Some st' else None
      | WPanic => None
      end
  | SCtl k r =>
      match upd_nth r (r_ctl c k) (s_readers st) with
      | Some rs => Some (mkS (s_written st) rs)
      | None => None
      end
  | SArrive r i o =>
      match nnth r (s_readers st) with
      | None => None
      | Some x =>
          match r_arrive c i x with
          | None => None
          | Some (x', d) =>
              if obs_match o d then
                match upd_nth r (fun _ => Some x') (s_readers st) with
                | Some rs => Some (mkS (s_written st) rs)
                | None => None
                end
              else None
          end
      end
  | SLose r i =>
      match upd_nth r (r_lose i) (s_readers st) with
      | Some rs => Some (mkS (s_written st) rs)
      | None => None
      end
  end.

Fixpoint exec (c : cfg) (st : state) (steps : list stepT) : option state :=
  match steps with
  | [] => Some st
  | s :: t => match step c st s with Some st' => exec c st' t | None => None end
  end.

(* index (from 0) of the first step that is not accepted; None = all accepted *)
Fixpoint first_reject (c : cfg) (st : state) (steps : list stepT) (i : N) : option N :=
  match steps with
  | [] => None
  | s :: t => match step c st s with Some st' => first_reject c st' t (i + 1) | None => Some i end
  end.

(* SETUP response: the Transport header carries an SSRC only for single-format medias
   (server_session.go: len(stream.medias[medi].formats) == 1) *)
Definition announce (c : cfg) (m : N) : option N :=
  match nnth m (c_medias c) with
  | Some [(_, s)] => Some s
  | _ => None
  end.

Definition init (rs : list rstate) : state := mkS [] rs.

(* ================= wire protocol =================
   case 1:  Q  B  nmedias {nformats {pt ssrc}}  nreaders {tcp nsetup {m chan has ssrc}}  steps...
            (has: 1 = the SETUP response carried ssrc, 0 = it carried none, 2 = not applicable)
     steps:  1 m seq ts mk pt ssrc npay pay.. nfull full..        write
             2 k r                                                 control step k (0..11) on reader r
             3 r i 1 m f idx seq ts mk pt ssrc npay pay..          arrival, callback observed
             3 r i 0                                               arrival, no callback observed
             4 r i                                                 loss
   answer:  1                       every step accepted and the announced SSRCs are the model's
            0 i                     step i is the first one that is not a behaviour of the model
            2 r j                   announcement j of reader r differs from the model's
   case 2:  Q nmedias {..} m pt                -> 77 if WritePacketRTP(media m, payload type pt) panics, else 1
*)
(* length-prefixed list without measuring the rest of the line (GVL.Wire.getl does, which is quadratic
   on traces of 10^5 tokens) *)
Fixpoint take_n (n : N) (l : list N) {struct l} : option (list N * list N) :=
  match l with
  | [] => if n =? 0 then Some ([], []) else None
  | x :: t =>
      if n =? 0 then Some ([], l)
      else match take_n (N.pred n) t with
           | Some (a, b) => Some (x :: a, b)
           | None => None
           end
  end.
Definition getl' (l : list N) : option (list N * list N) :=
  match l with [] => None | n :: t => take_n n t end.

Definition get_pkt (l : list N) : option (packet * list N) :=
  match l with
  | s :: t :: mk :: pt :: ss :: r =>
      match getl' r with
      | Some (pay, r') => Some (mkP s t (getb mk) pt ss pay, r')
      | None => None
      end
  | _ => None
  end.

Fixpoint get_pairs (fuel : list N) (k : N) (l : list N) : option (list (N * N) * list N) :=
  if k =? 0 then Some ([], l) else
  match fuel with
  | [] => None
  | _ :: fuel' =>
      match l with
      | a :: b :: r =>
          match get_pairs fuel' (N.pred k) r with
          | Some (ps, r') => Some ((a, b) :: ps, r')
          | None => None
          end
      | _ => None
      end
  end.

Fixpoint get_medias (fuel : list N) (k : N) (l : list N) : option (list (list (N * N)) * list N) :=
  if k =? 0 then Some ([], l) else
  match fuel with
  | [] => None
  | _ :: fuel' =>
      match l with
      | nf :: r =>
          match get_pairs r nf r with
          | Some (fs, r') =>
              match get_medias fuel' (N.pred k) r' with
              | Some (ms, r'') => Some (fs :: ms, r'')
              | None => None
              end
          | None => None
          end
      | _ => None
      end
  end.

(* setup entries with the observed announcement: (m, chan, has, ssrc) *)
Fixpoint get_setup (fuel : list N) (k : N) (l : list N) : option (list (N * N * (N * N)) * list N) :=
  if k =? 0 then Some ([], l) else
  match fuel with
  | [] => None
  | _ :: fuel' =>
      match l with
      | m :: ch :: has :: ss :: r =>
          match get_setup fuel' (N.pred k) r with
          | Some (ps, r') => Some ((m, ch, (has, ss)) :: ps, r')
          | None => None
          end
      | _ => None
      end
  end.

Fixpoint get_readers (fuel : list N) (k : N) (l : list N)
  : option (list (bool * list (N * N * (N * N))) * list N) :=
  if k =? 0 then Some ([], l) else
  match fuel with
  | [] => None
  | _ :: fuel' =>
      match l with
      | tcp :: ns :: r =>
          match get_setup r ns r with
          | Some (su, r') =>
              match get_readers fuel' (N.pred k) r' with
              | Some (rs, r'') => Some ((getb tcp, su) :: rs, r'')
              | None => None
              end
          | None => None
          end
      | _ => None
      end
  end.

Definition ctl_of (k : N) : option ctl :=
  match k with
  | 0 => Some CPlayReq | 1 => Some CCreate | 2 => Some CActivate | 3 => Some CStart
  | 4 => Some CPlayDone | 5 => Some CStopReq | 6 => Some CDrain | 7 => Some CCloseW
  | 8 => Some CNilW | 9 => Some CDeact | 10 => Some CStopDone | 11 => Some CCClose
  | _ => None
  end.

Fixpoint get_steps (fuel : list N) (l : list N) : option (list stepT) :=
  match fuel with
  | [] => match l with [] => Some [] | _ => None end
  | _ :: fuel' =>
      match l with
      | [] => Some []
      | 1 :: m :: r =>
          match get_pkt r with
          | Some (p, r') =>
              match getl' r' with
              | Some (full, r'') => option_map (cons (SWrite m p full)) (get_steps fuel' r'')
              | None => None
              end
          | None => None
          end
      | 2 :: k :: r :: t =>
          match ctl_of k with
          | Some k' => option_map (cons (SCtl k' r)) (get_steps fuel' t)
          | None => None
          end
      | 3 :: r :: i :: 0 :: t => option_map (cons (SArrive r i None)) (get_steps fuel' t)
      | 3 :: r :: i :: 1 :: m :: f :: idx :: t =>
          match get_pkt t with
          | Some (p, t') => option_map (cons (SArrive r i (Some (mkObs m f idx p)))) (get_steps fuel' t')
          | None => None
          end
      | 4 :: r :: i :: t => option_map (cons (SLose r i)) (get_steps fuel' t)
      | _ => None
      end
  end.

Definition strip_setup (su : list (N * N * (N * N))) : list (N * N) := map (fun e => fst e) su.

(* index of the first announcement that differs from the model's *)
Fixpoint check_announce (c : cfg) (su : list (N * N * (N * N))) (j : N) : option N :=
  match su with
  | [] => None
  | (m, _, (has, ss)) :: t =>
      let ok := if has =? 2 then true   (* record direction: SETUP announces nothing about the writer *)
                else match announce c m with
                     | Some s => getb has && (s =? ss)
                     | None => negb (getb has)
                     end in
      if ok then check_announce c t (j + 1) else Some j
  end.
Fixpoint check_announces (c : cfg) (rs : list (bool * list (N * N * (N * N)))) (r : N) : option (N * N) :=
  match rs with
  | [] => None
  | (_, su) :: t =>
      match check_announce c su 0 with
      | Some j => Some (r, j)
      | None => check_announces c t (r + 1)
      end
  end.

Definition run (cs : list N) : list N :=
  match cs with
  | 1 :: q :: b :: nm :: t =>
      match get_medias t nm t with
      | Some (ms, nr :: t') =>
          match get_readers t' nr t' with
          | Some (rs, t'') =>
              match get_steps t'' t'' with
              | Some steps =>
                  let c := mkCfg q b ms in
                  match check_announces c rs 0 with
                  | Some (r, j) => [2; r; j]
                  | None =>
                      match first_reject c (init (map (fun x => new_reader (fst x) (strip_setup (snd x))) rs)) steps 0 with
                      | None => [1]
                      | Some i => [0; i]
                      end
                  end
              | None => bad_case
              end
          | None => bad_case
          end
      | _ => bad_case
      end
  | 2 :: q :: nm :: t =>
      match get_medias t nm t with
      | Some (ms, [m; pt]) =>
          match write (mkCfg q 0 ms) (init []) m (mkP 0 0 false pt 0 []) with
          | WPanic => [77]
          | WOk _ _ => [1]
          end
      | _ => bad_case
      end
  | _ => bad_case
  end.

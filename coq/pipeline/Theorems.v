(* The C01 theorems over the pipeline model, derived from the invariant of Proofs.v. *)
From Coq Require Import Permutation.
From Coq Require Import ZifyBool ZifyNat ZifyN.
From GVL Require Import NList Wire.
From GV_pipeline Require Import Model Proofs.
Open Scope N_scope.

Ltac prj := cbn [r_tcp r_setup r_ph r_active r_w r_queue r_wire r_con r_deliv r_hist r_lost r_rx r_resets upd_ctl upd_data upd_rx].

(* ---------- subsequences ---------- *)
Inductive Subseq {A} : list A -> list A -> Prop :=
| ss_nil l : Subseq [] l
| ss_skip x l1 l2 : Subseq l1 l2 -> Subseq l1 (x :: l2)
| ss_take x l1 l2 : Subseq l1 l2 -> Subseq (x :: l1) (x :: l2).

Definition is_mf (m f : N) (e : N * N * packet) : bool := (fst (fst e) =? m) && (snd (fst e) =? f).
(* the packets written to format f of media m, in the order written *)
Definition written_mf (W : wlist) (m f : N) : list packet := map snd (filter (is_mf m f) W).
(* the packets reader r's callback for (m, f) received, in the order received *)
Definition deliv_mf (r : rstate) (m f : N) : list packet := map d_pkt (filter (same_mf m f) (r_deliv r)).

Lemma subseq_indexed (g : packet -> packet) m f :
  forall (W : wlist) (k : N) (D : list dentry),
    sinc (didxs D) ->
    Forall (fun d => k <= d_idx d /\ exists p0, nnth (d_idx d - k) W = Some (m, f, p0) /\ d_pkt d = g p0) D ->
    Subseq (map d_pkt D) (map g (written_mf W m f)).
Proof.
  induction W as [|e W' IH]; intros k D Hs HF.
  - destruct D as [|d D']; [constructor|]. inversion HF as [|? ? (_ & p0 & Hn & _) _]; subst. discriminate.
  - destruct D as [|d D']; [constructor|].
    inversion HF as [|? ? (Hk & p0 & Hn & Hg) HF']; subst.
    cbn [didxs map sinc] in Hs. destruct Hs as (Hlt & Hs').
    assert (Hshift : forall (L : list dentry) k', k < k' ->
      Forall (fun d' => k' <= d_idx d' /\ exists p0, nnth (d_idx d' - k) (e :: W') = Some (m, f, p0) /\ d_pkt d' = g p0) L ->
      Forall (fun d' => k + 1 <= d_idx d' /\ exists p0, nnth (d_idx d' - (k + 1)) W' = Some (m, f, p0) /\ d_pkt d' = g p0) L).
    { intros L k' Hkk HH. eapply Forall_impl; [|exact HH]. intros d' (Hk' & p1 & Hn' & Hg'). split; [lia|].
      exists p1. split; [|exact Hg']. cbn [nnth] in Hn'.
      destruct (N.eqb_spec (d_idx d' - k) 0); [lia|].
      replace (d_idx d' - (k + 1)) with (N.pred (d_idx d' - k)) by lia. exact Hn'. }
    destruct (N.eq_dec (d_idx d) k) as [Heq|Hne].
    + (* the head of W is this delivery *)
      rewrite Heq, N.sub_diag in Hn. cbn [nnth] in Hn. change (0 =? 0) with true in Hn. cbv iota in Hn.
      inversion Hn; subst e. unfold written_mf. cbn [filter]. unfold is_mf at 1. cbn [fst snd]. rewrite !N.eqb_refl. cbn [andb map snd].
      rewrite Hg. apply ss_take. apply (IH (k + 1)); [exact Hs'|].
      apply (Hshift _ (k + 1)); [lia|].
      assert (HF2 : Forall (fun y => d_idx d < y) (didxs D')) by exact Hlt.
      clear -HF' HF2 Heq. induction D' as [|d' t IHt]; [constructor|].
      inversion HF' as [|? ? (Hk' & Hr) HF'']; subst. cbn [didxs map] in HF2. inversion HF2; subst.
      constructor; [split; [lia|exact Hr]|now apply IHt].
    + assert (HD : Subseq (map d_pkt (d :: D')) (map g (written_mf W' m f))).
      { apply (IH (k + 1)); [cbn [didxs map sinc]; split; assumption|].
        apply (Hshift _ (k + 1)); [lia|]. constructor.
        - split; [lia|]. exists p0. split; assumption.
        - assert (HF2 : Forall (fun y => d_idx d < y) (didxs D')) by exact Hlt.
          clear -HF' HF2 Hk Hne. induction D' as [|d' t IHt]; [constructor|].
          inversion HF' as [|? ? (Hk' & Hr) HF'']; subst. cbn [didxs map] in HF2. inversion HF2; subst.
          constructor; [split; [lia|exact Hr]|now apply IHt]. }
      unfold written_mf. cbn [filter]. destruct (is_mf m f e); [cbn [map]; now apply ss_skip|exact HD].
Qed.

Lemma inc_mf_sinc dl : inc_mf dl -> forall m f, sinc (didxs (filter (same_mf m f) dl)).
Proof.
  induction 1 as [|l d Hl IH Hn]; intros m f; [exact I|].
  rewrite filter_app. cbn [filter]. destruct (same_mf m f d) eqn:Es; [|rewrite app_nil_r; apply IH].
  rewrite didxs_app. cbn [didxs map]. apply sinc_snoc. split; [apply IH|].
  unfold same_mf in Es. apply andb_prop in Es. destruct Es as (Em & Ef).
  assert (d_m d = m) by lia. assert (d_f d = f) by lia. subst m f.
  unfold newer in Hn. rewrite forallb_forall in Hn.
  clear -Hn. induction l as [|d' t IHt]; cbn [filter]; [constructor|].
  assert (Ht : forall x, In x t -> negb (same_mf (d_m d) (d_f d) x) || (d_idx x <? d_idx d) = true)
    by (intros; apply Hn; now right).
  destruct (same_mf (d_m d) (d_f d) d') eqn:E; [|now apply IHt].
  cbn [didxs map]. constructor; [|now apply IHt].
  specialize (Hn d' (or_introl eq_refl)). rewrite E in Hn. cbn in Hn. lia.
Qed.

(* ---------- C01: delivered packets ---------- *)
Lemma sinc_NoDup l : sinc l -> NoDup l.
Proof.
  induction l as [|x t IH]; cbn [sinc]; intros H; constructor.
  - destruct H as (H & _). intros Hin. rewrite Forall_forall in H. specialize (H _ Hin). lia.
  - apply IH. tauto.
Qed.

(* the deliveries of (m, f) within the ordered part *)
Definition deliv_mf_ord (r : rstate) (m f : N) : list packet :=
  map d_pkt (filter (same_mf m f) (ordered_part r)).

Section Reach.
Variable c : cfg.
Variable rs : list rstate.
Variable st : state.
Hypothesis Hreach : reach c rs st.

Let W := s_written st.

(* every callback got a packet that was written to that very media and format, with every field
   identical except the SSRC, which is the stream's SSRC for that format *)
Theorem delivered_identical r d :
  In r (s_readers st) -> In d (r_deliv r) ->
  exists p0 s, nnth (d_idx d) W = Some (d_m d, d_f d, p0) /\ ssrc_of c (d_m d) (d_f d) = Some s /\
               d_pkt d = set_ssrc p0 s.
Proof.
  intros Hr Hd. pose proof (reach_inv _ _ _ Hreach) as Hi. unfold sinv in Hi. rewrite Forall_forall in Hi.
  destruct (Hi _ Hr) as [_ _ _ H4 _ _ _ _ _ _ _ _ _]. rewrite Forall_forall in H4.
  destruct (H4 _ Hd) as (p0 & fs & s & H1 & H2 & H3 & H5). exists p0, s. repeat split; auto.
  unfold ssrc_of. rewrite H2. now rewrite (find_fmt_nnth _ _ _ _ H3).
Qed.

(* at most once: no written packet is delivered twice to the same reader, on any transport *)
Theorem delivered_at_most_once r : In r (s_readers st) -> NoDup (didxs (r_deliv r)).
Proof.
  intros Hr. pose proof (reach_inv _ _ _ Hreach) as Hi. unfold sinv in Hi. rewrite Forall_forall in Hi.
  destruct (Hi _ Hr) as [_ _ _ _ _ _ _ _ H9 (_ & Hs) _ _ _].
  apply (NoDup_count_occ N.eq_dec). intros n.
  pose proof (proj1 (NoDup_count_occ N.eq_dec _) (sinc_NoDup _ Hs) n) as Hn.
  specialize (H9 n). unfold cnt in H9. lia.
Qed.

(* in the order written: for UDP readers always; for TCP readers among the packets that were pushed
   while the reader's writer was open *)
Theorem delivered_in_order_partial r m f :
  In r (s_readers st) -> sinc (didxs (filter (same_mf m f) (ordered_part r))).
Proof.
  intros Hr. pose proof (reach_inv _ _ _ Hreach) as Hi. unfold sinv in Hi. rewrite Forall_forall in Hi.
  destruct (Hi _ Hr) as [_ _ _ _ H5 _ _ _ _ _ _ _ _]. now apply inc_mf_sinc.
Qed.

Lemma ordered_part_incl r d : In d (ordered_part r) -> In d (r_deliv r).
Proof.
  unfold ordered_part, nl_d. intros H. apply filter_In in H. tauto.
Qed.

Theorem delivered_is_subsequence_partial r m f s :
  In r (s_readers st) -> ssrc_of c m f = Some s ->
  Subseq (deliv_mf_ord r m f) (map (fun p => set_ssrc p s) (written_mf W m f)).
Proof.
  intros Hr Hs. unfold deliv_mf_ord. apply (subseq_indexed (fun p => set_ssrc p s) m f W 0).
  - now apply delivered_in_order_partial.
  - apply Forall_forall. intros d Hd. apply filter_In in Hd. destruct Hd as (Hd & Hmf).
    apply ordered_part_incl in Hd.
    unfold same_mf in Hmf. apply andb_prop in Hmf. destruct Hmf as (Em & Ef).
    assert (d_m d = m) by lia. assert (d_f d = f) by lia.
    destruct (delivered_identical r d Hr Hd) as (p0 & s' & H1 & H2 & H3). subst m f.
    rewrite Hs in H2. inversion H2; subst s'. split; [lia|]. exists p0. rewrite N.sub_0_r. auto.
Qed.

(* a format the stream does not have never sees a callback *)
Theorem delivered_only_known_formats r m f :
  In r (s_readers st) -> ssrc_of c m f = None -> deliv_mf r m f = [].
Proof.
  intros Hr Hs. unfold deliv_mf. destruct (filter (same_mf m f) (r_deliv r)) as [|d t] eqn:E; [reflexivity|].
  exfalso. assert (Hd : In d (filter (same_mf m f) (r_deliv r))) by (rewrite E; now left).
  apply filter_In in Hd. destruct Hd as (Hd & Hmf).
  unfold same_mf in Hmf. apply andb_prop in Hmf. destruct Hmf as (Em & Ef).
  assert (d_m d = m) by lia. assert (d_f d = f) by lia. subst m f.
  destruct (delivered_identical r d Hr Hd) as (p0 & s' & _ & H2 & _). congruence.
Qed.

(* a packet written to (m, f) never reaches the callback of another media or format *)
Theorem no_cross_delivery r d m f p0 :
  In r (s_readers st) -> In d (r_deliv r) -> nnth (d_idx d) W = Some (m, f, p0) -> d_m d = m /\ d_f d = f.
Proof.
  intros Hr Hd Hn. destruct (delivered_identical r d Hr Hd) as (p1 & s & H1 & _). rewrite Hn in H1.
  inversion H1; auto.
Qed.

(* the SSRC announced in the SETUP response is the SSRC of every packet delivered for that media *)
Theorem announced_ssrc r d m s :
  In r (s_readers st) -> In d (r_deliv r) -> d_m d = m -> announce c m = Some s -> p_ssrc (d_pkt d) = s.
Proof.
  intros Hr Hd Hm Ha. pose proof (reach_inv _ _ _ Hreach) as Hi. unfold sinv in Hi. rewrite Forall_forall in Hi.
  destruct (Hi _ Hr) as [_ _ _ H4 _ _ _ _ _ _ _ _ _]. rewrite Forall_forall in H4.
  destruct (H4 _ Hd) as (p0 & fs & s' & H1 & H2 & H3 & H5). subst m.
  unfold announce in Ha. rewrite H2 in Ha. destruct fs as [|[pt0 s0] [|? ?]]; try discriminate.
  inversion Ha; subst s0. unfold find_fmt in H3. cbn [find_fmt_aux] in H3.
  destruct (pt0 =? p_pt p0); [|discriminate]. inversion H3; subst. rewrite H5. reflexivity.
Qed.

(* the writer's queue never exceeds its capacity (the bounded FIFO of C16) *)
Theorem queue_bounded r : In r (s_readers st) -> nlen (r_queue r) <= c_Q c.
Proof.
  intros Hr. pose proof (reach_inv _ _ _ Hreach) as Hi. unfold sinv in Hi. rewrite Forall_forall in Hi.
  now destruct (Hi _ Hr).
Qed.

(* conservation: what the queue accepted is exactly what was delivered, what is still in flight and
   what was explicitly discarded *)
Theorem conservation r :
  In r (s_readers st) ->
  Permutation (r_hist r)
    (didxs (r_deliv r) ++ r_lost r ++ idxs (r_wire r) ++ idxs (r_queue r)).
Proof.
  intros Hr. pose proof (reach_inv _ _ _ Hreach) as Hi. unfold sinv in Hi. rewrite Forall_forall in Hi.
  destruct (Hi _ Hr) as [_ _ _ _ _ _ _ _ H9 _ _ _ _].
  apply (Permutation_count_occ N.eq_dec). intros n. specialize (H9 n). unfold cnt in H9.
  rewrite !count_occ_app. lia.
Qed.

Theorem accepted_delivered_inflight_or_discarded r idx :
  In r (s_readers st) -> In idx (r_hist r) ->
  In idx (didxs (r_deliv r)) \/ In idx (idxs (r_wire r)) \/ In idx (idxs (r_queue r)) \/ In idx (r_lost r).
Proof.
  intros Hr Hin. pose proof (Permutation_in _ (conservation r Hr) Hin) as H.
  rewrite !in_app_iff in H. tauto.
Qed.

(* over TCP the reader sees all formats in one global order, the order of writing - among the packets
   pushed while its writer was open *)
Theorem tcp_global_order_partial r :
  In r (s_readers st) -> r_tcp r = true -> sinc (didxs (nl_d (r_deliv r))).
Proof.
  intros Hr Ht. pose proof (reach_inv _ _ _ Hreach) as Hi. unfold sinv in Hi. rewrite Forall_forall in Hi.
  destruct (Hi _ Hr) as [_ _ _ _ _ H6 _ _ _ _ _ _ _]. specialize (H6 Ht). now apply sinc_drop_tail in H6.
Qed.

(* once PLAY has completed (and until a stop is requested) the reader is active and has a writer *)
Theorem playing_is_active r :
  In r (s_readers st) -> r_ph r = PhPlaying -> r_active r = true /\ exists b, r_w r = WOpen b.
Proof.
  intros Hr Hp. pose proof (reach_inv _ _ _ Hreach) as Hi. unfold sinv in Hi. rewrite Forall_forall in Hi.
  destruct (Hi _ Hr) as [_ _ _ _ _ _ _ H8 _ _ _ _ _]. unfold ph_inv in H8. now rewrite Hp in H8.
Qed.

(* a writer that is closed but not yet dropped exists only while a stop is being processed *)
Theorem closed_writer_only_when_stopping r b :
  In r (s_readers st) -> r_w r = WClosed b -> r_ph r = PhStopReq.
Proof.
  intros Hr Hw. pose proof (reach_inv _ _ _ Hreach) as Hi. unfold sinv in Hi. rewrite Forall_forall in Hi.
  destruct (Hi _ Hr) as [_ _ _ _ _ _ _ H8 _ _ _ _ _]. unfold ph_inv in H8.
  destruct (r_ph r); auto; try (exfalso; now apply (H8 b)).
  destruct H8 as (_ & b' & H8). congruence.
Qed.
End Reach.

(* ---------- how one step changes one reader ---------- *)
Lemma upd_nth_enabled {A} j (g : A -> option A) l l' x :
  upd_nth j g l = Some l' -> nnth j l = Some x -> exists y, g x = Some y.
Proof.
  revert j l'; induction l as [|a t IH]; intros j l' H Hn; cbn [upd_nth nnth] in *; [discriminate|].
  destruct (j =? 0).
  - inversion Hn; subst. destruct (g x) as [y|]; [eauto|discriminate].
  - destruct (upd_nth (N.pred j) g t) as [t'|] eqn:E; [|discriminate]. eapply IH; eauto.
Qed.

Lemma nnth_In {A} (l : list A) k x : nnth k l = Some x -> In x l.
Proof.
  revert k; induction l as [|a t IH]; intros k H; cbn [nnth] in H; [discriminate|].
  destruct (k =? 0); [inversion H; now left|right; eauto].
Qed.

(* the step addresses reader k (a write addresses every reader) *)
Definition targets (s : stepT) (k : N) : Prop :=
  match s with
  | SWrite _ _ _ => True
  | SCtl _ j | SArrive j _ _ | SLose j _ => j = k
  end.

Lemma step_reader c st s st' k r :
  step c st s = Some st' -> nnth k (s_readers st) = Some r ->
  exists r', nnth k (s_readers st') = Some r' /\
   ( (r' = r /\ ~ targets s k)
   \/ (exists kk, s = SCtl kk k /\ r_ctl c kk r = Some r')
   \/ (exists m p full f ss fs, s = SWrite m p full /\ nnth m (c_medias c) = Some fs /\
         find_fmt fs (p_pt p) = Some (f, ss) /\
         r' = fst (r_push c m f (nlen (s_written st)) (set_ssrc p ss) r) /\
         (In k full <-> snd (r_push c m f (nlen (s_written st)) (set_ssrc p ss) r) = true))
   \/ (exists i o d, s = SArrive k i o /\ r_arrive c i r = Some (r', d))
   \/ (exists i, s = SLose k i /\ r_lose i r = Some r') ).
Proof.
  intros H Hk. destruct s as [m p full|kk j|j i o|j i]; cbn [step] in H.
  - unfold write in H. destruct (nnth m (c_medias c)) as [fs|] eqn:Em; [|discriminate].
    destruct (find_fmt fs (p_pt p)) as [[f ss]|] eqn:Ef; [|discriminate].
    destruct (fanout c m f (nlen (s_written st)) (set_ssrc p ss) 0 (s_readers st)) as [rs' fl] eqn:Efo.
    destruct (list_eqb full fl) eqn:El; [|discriminate]. apply list_eqb_eq in El. subst fl.
    inversion H; subst. cbn [s_readers]. destruct (fanout_nth _ _ _ _ _ _ _ _ _ Efo) as (_ & Hn).
    destruct (Hn k) as (Hn1 & Hn2). rewrite Hk in Hn1. cbn [option_map] in Hn1.
    eexists; split; [exact Hn1|]. right; right; left. exists m, p, full, f, ss, fs.
    repeat split; auto; apply (Hn2 _ Hk).
  - destruct (upd_nth j (r_ctl c kk) (s_readers st)) as [rs'|] eqn:E; [|discriminate]. inversion H; subst.
    cbn [s_readers]. rewrite (upd_nth_nnth _ _ _ _ k E).
    destruct (N.eqb_spec k j) as [->|Hne]; [|exists r; split; [exact Hk|left; split; [reflexivity|cbn; congruence]]].
    rewrite Hk. destruct (upd_nth_enabled _ _ _ _ _ E Hk) as (r' & Ec). rewrite Ec.
    exists r'. split; [reflexivity|]. right; left. eauto.
  - destruct (nnth j (s_readers st)) as [x|] eqn:En; [|discriminate].
    destruct (r_arrive c i x) as [[x' d]|] eqn:Ea; [|discriminate].
    destruct (obs_match o d); [|discriminate].
    destruct (upd_nth j (fun _ => Some x') (s_readers st)) as [rs'|] eqn:E; [|discriminate]. inversion H; subst.
    cbn [s_readers]. rewrite (upd_nth_nnth _ _ _ _ k E).
    destruct (N.eqb_spec k j) as [->|Hne]; [|exists r; split; [exact Hk|left; split; [reflexivity|cbn; congruence]]].
    rewrite En. exists x'. split; [reflexivity|]. right; right; right; left.
    rewrite Hk in En. inversion En; subst. eauto.
  - destruct (upd_nth j (r_lose i) (s_readers st)) as [rs'|] eqn:E; [|discriminate]. inversion H; subst.
    cbn [s_readers]. rewrite (upd_nth_nnth _ _ _ _ k E).
    destruct (N.eqb_spec k j) as [->|Hne]; [|exists r; split; [exact Hk|left; split; [reflexivity|cbn; congruence]]].
    rewrite Hk. destruct (upd_nth_enabled _ _ _ _ _ E Hk) as (r' & Ec). rewrite Ec.
    exists r'. split; [reflexivity|]. right; right; right; right. eauto.
Qed.

Definition is_discard (kk : ctl) : Prop := kk = CCloseW \/ kk = CNilW \/ kk = CCClose.

(* nothing in the transport or among the deliveries carries the late flag *)
Definition clean (r : rstate) : Prop :=
  Forall (fun x => i_late x = false) (r_wire r) /\ Forall (fun d => d_late d = false) (r_deliv r).

Lemma ctl_effect c W kk r r' :
  rinv c W r -> r_ctl c kk r = Some r' ->
  r_tcp r' = r_tcp r /\ r_setup r' = r_setup r /\
  (r_lost r' = r_lost r \/ (r_ph r = PhStopReq /\ is_discard kk)) /\
  (r_ph r' = PhStopReq -> r_ph r = PhStopReq \/ kk = CStopReq) /\
  (r_ph r <> PhStopReq -> clean r -> clean r').
Proof.
  unfold is_discard, clean. intros Hi H.
  pose proof Hi as [_ (_ & Hq) _ _ _ _ _ Hph _ _ _ _ _].
  destruct kk; cbn [r_ctl] in H.
  - unfold r_playreq in H. destruct (r_ph r), (r_w r), (r_active r); try discriminate; inversion H; subst; prj;
      repeat split; auto; try discriminate; tauto.
  - unfold r_create in H. destruct (r_ph r), (r_w r); try discriminate; inversion H; subst; prj;
      repeat split; auto; try discriminate; tauto.
  - unfold r_activate in H. destruct (r_ph r), (r_w r) as [|b|b]; try discriminate.
    destruct (r_tcp r || b); [|discriminate]. inversion H; subst; prj. repeat split; auto; try discriminate; tauto.
  - unfold r_start in H. destruct (r_w r) as [|[|]|]; try discriminate; inversion H; subst; prj.
    repeat split; auto; tauto.
  - unfold r_playdone in H. destruct (r_ph r), (r_w r) as [|b|b]; try discriminate.
    destruct (r_active r); [|discriminate]. inversion H; subst; prj. repeat split; auto; try discriminate; tauto.
  - unfold r_stopreq in H. destruct (r_ph r); try discriminate; inversion H; subst; prj; repeat split; auto; tauto.
  - unfold r_drain in H. destruct (r_w r) as [|[|]|[|]] eqn:Ew; try discriminate.
    + destruct (r_queue r) as [|x q]; [discriminate|]. inversion H; subst; prj. repeat split; auto; try tauto.
      match goal with Hc : Forall _ (r_wire r) /\ _ |- _ => destruct Hc as (C1 & _) end.
      apply Forall_app; split; auto. inversion Hq; subst. auto.
    + destruct (r_queue r) as [|x q]; [discriminate|]. inversion H; subst; prj.
      assert (Hp : r_ph r = PhStopReq).
      { unfold ph_inv in Hph. destruct (r_ph r); auto; try (exfalso; now apply (Hph true)).
        destruct Hph as (_ & b & Hb). congruence. }
      repeat split; auto; congruence.
  - unfold r_closew in H. destruct (r_ph r) eqn:E, (r_w r); try discriminate; inversion H; subst; prj.
    repeat split; auto; congruence.
  - unfold r_nilw in H. destruct (r_ph r) eqn:E, (r_w r); try discriminate; inversion H; subst; prj.
    repeat split; auto; congruence.
  - unfold r_deact in H. destruct (r_ph r) eqn:E; try discriminate; inversion H; subst; prj. repeat split; auto; tauto.
  - unfold r_stopdone in H. destruct (r_ph r) eqn:E, (r_w r); try discriminate.
    destruct (r_active r); [discriminate|].
    destruct (r_tcp r) eqn:Etcp; [destruct (r_wire r); [|discriminate]|]; inversion H; subst; prj;
      repeat split; auto; try discriminate; congruence.
  - unfold r_cclose in H. destruct (r_ph r) eqn:E; try discriminate; inversion H; subst; prj.
    repeat split; auto; congruence.
Qed.

Lemma push_effect c W m f idx p r :
  rinv c W r ->
  let r' := fst (r_push c m f idx p r) in
  r_tcp r' = r_tcp r /\ r_setup r' = r_setup r /\ r_lost r' = r_lost r /\ r_ph r' = r_ph r /\
  (r_ph r <> PhStopReq -> clean r -> clean r').
Proof.
  intros Hi. pose proof Hi as [_ _ _ _ _ _ _ Hph _ _ _ _ _]. unfold clean.
  unfold r_push. destruct (r_active r); [|cbn; tauto].
  destruct (chan_of (r_setup r) m); [|cbn; tauto].
  destruct (r_w r) as [|b|b] eqn:Ew; [cbn; tauto| |].
  - destruct (nlen (r_queue r) <? c_Q c); cbn; tauto.
  - cbn; tauto.
Qed.

Lemma arrive_effect c W i r r' d :
  rinv c W r -> r_arrive c i r = Some (r', d) ->
  r_tcp r' = r_tcp r /\ r_setup r' = r_setup r /\ r_ph r' = r_ph r /\
  (r_tcp r = true -> r_lost r' = r_lost r /\ d <> None /\ (clean r -> clean r')).
Proof.
  intros Hi H. pose proof Hi as [H1 _ H3 _ _ _ _ _ _ _ _ _ _]. unfold clean.
  unfold r_arrive in H. destruct (r_con r); cbn [negb] in H; [|discriminate].
  destruct (r_tcp r && negb (i =? 0)); [discriminate|].
  destruct (take_nth i (r_wire r)) as [[x wi]|] eqn:Et; [|discriminate].
  destruct (take_nth_split _ _ _ _ Et) as (a & b & Ew & -> & _).
  assert (Hcl : Forall (fun x => i_late x = false) (r_wire r) ->
                Forall (fun x => i_late x = false) (a ++ b) /\ i_late x = false).
  { rewrite Ew. intros HF. apply Forall_app in HF. destruct HF as (Ha & Hb). inversion Hb; subst.
    split; [apply Forall_app; split; auto|auto]. }
  rewrite Ew in H3. apply Forall_app in H3. destruct H3 as (_ & H3b). inversion H3b as [|? ? Hx _]; subst.
  destruct (demux_ok _ _ _ _ H1 Hx) as (fs & s & D1 & D2 & D3 & _). rewrite D1, D2, D3 in H.
  destruct (r_tcp r) eqn:Etcp.
  - inversion H; subst; prj. repeat split; auto; try discriminate.
    + apply Hcl; tauto.
    + apply Forall_app; split; [tauto|]. constructor; [|constructor]. cbn [d_late]. apply Hcl; tauto.
  - destruct (rx_get (r_rx r) (i_m x) (i_f x)) as [[last neg]|].
    + destruct (last <? i_idx x); [inversion H; subst; prj; repeat split; auto; discriminate|].
      destruct (c_B c <? neg + 1); inversion H; subst; prj; repeat split; auto; discriminate.
    + inversion H; subst; prj; repeat split; auto; discriminate.
Qed.

Lemma lose_effect i r r' :
  r_lose i r = Some r' -> r_tcp r = false /\ r_tcp r' = r_tcp r /\ r_setup r' = r_setup r /\ r_ph r' = r_ph r.
Proof.
  unfold r_lose. destruct (r_tcp r) eqn:E; [discriminate|].
  destruct (take_nth i (r_wire r)) as [[x wi]|]; [|discriminate]. intros H; inversion H; subst; prj. auto.
Qed.

(* over TCP a reader loses accepted packets only in steps of an explicit stop (PAUSE, TEARDOWN, close):
   the writer being closed, the writer being dropped, the client closing its end *)
Theorem tcp_loss_only_when_stopping c st s st' k r r' :
  sinv c st -> step c st s = Some st' ->
  nnth k (s_readers st) = Some r -> r_tcp r = true -> nnth k (s_readers st') = Some r' ->
  r_lost r' = r_lost r \/ (r_ph r = PhStopReq /\ exists kk, s = SCtl kk k /\ is_discard kk).
Proof.
  intros Hi H Hk Ht Hk'. destruct (step_reader _ _ _ _ _ _ H Hk) as (r1 & Hr1 & Hc).
  rewrite Hk' in Hr1. inversion Hr1; subst r1.
  destruct Hc as [(-> & _)|[(kk & -> & Hc)|[(m & p & full & f & ss & fs & -> & _ & _ & -> & _)|[(i & o & d & -> & Hc)|(i & -> & Hc)]]]].
  - now left.
  - unfold sinv in Hi. pose proof (Forall_nnth _ _ _ _ Hi Hk) as Hr.
    destruct (ctl_effect _ _ _ _ _ Hr Hc) as (_ & _ & [Hl|(Hp & Hd)] & _); [now left|right; eauto].
  - left. unfold sinv in Hi. pose proof (Forall_nnth _ _ _ _ Hi Hk) as Hr. now apply (push_effect _ _ m f _ _ _ Hr).
  - left. unfold sinv in Hi. pose proof (Forall_nnth _ _ _ _ Hi Hk) as Hr.
    destruct (arrive_effect _ _ _ _ _ _ Hr Hc) as (_ & _ & _ & Hl). now apply Hl.
  - apply lose_effect in Hc. destruct Hc as (Hc & _). congruence.
Qed.

(* a write while PLAY is complete either reports queue-full for that reader (the queue holds Q items)
   or the reader's queue accepts the packet *)
Theorem write_while_playing c rs st m p full st' k r ch :
  reach c rs st -> nnth k (s_readers st) = Some r ->
  r_ph r = PhPlaying -> chan_of (r_setup r) m = Some ch ->
  step c st (SWrite m p full) = Some st' ->
  exists r', nnth k (s_readers st') = Some r' /\
    ((In k full /\ r' = r /\ c_Q c <= nlen (r_queue r)) \/
     (~ In k full /\ r_hist r' = r_hist r ++ [nlen (s_written st)] /\ nlen (r_queue r) < c_Q c)).
Proof.
  intros Hre Hk Hp Hch H. destruct (step_reader _ _ _ _ _ _ H Hk) as (r' & Hr' & Hc).
  exists r'. split; [exact Hr'|].
  destruct (playing_is_active _ _ _ Hre _ (nnth_In _ _ _ Hk) Hp) as (Ha & b & Hw).
  assert (Hpush : forall f ss,
     r_push c m f (nlen (s_written st)) (set_ssrc p ss) r =
       if nlen (r_queue r) <? c_Q c
       then (upd_data r (r_queue r ++ [mkItem ch m f (nlen (s_written st)) false (set_ssrc p ss)]) (r_wire r) (r_deliv r)
                      (r_hist r ++ [nlen (s_written st)]) (r_lost r), false)
       else (r, true)).
  { intros f ss. unfold r_push. now rewrite Ha, Hch, Hw. }
  destruct Hc as [(_ & Hnt)|[(kk & Hs & _)|[(m' & p' & full' & f & ss & fs & Hs & _ & _ & -> & Hfull)|[(i & o & d & Hs & _)|(i & Hs & _)]]]];
    try discriminate.
  - exfalso. apply Hnt. exact I.
  - inversion Hs; subst m' p' full'. rewrite Hpush in *.
    destruct (nlen (r_queue r) <? c_Q c) eqn:El; cbn [fst snd] in *.
    + right. split; [|split; [reflexivity|lia]]. intros Hin'. apply Hfull in Hin'. discriminate.
    + left. split; [now apply Hfull|]. split; [reflexivity|lia].
Qed.

(* ---------- TCP completeness along a whole run ---------- *)
Lemma exec_nostop c k : forall steps st st' r,
  sinv c st -> exec c st steps = Some st' ->
  nnth k (s_readers st) = Some r -> r_tcp r = true -> r_ph r <> PhStopReq -> clean r ->
  Forall (fun s => s <> SCtl CStopReq k) steps ->
  exists r', nnth k (s_readers st') = Some r' /\ r_tcp r' = true /\ r_setup r' = r_setup r /\
             r_ph r' <> PhStopReq /\ r_lost r' = r_lost r /\ clean r'.
Proof.
  induction steps as [|s t IH]; intros st st' r Hi H Hk Ht Hp Hcl HF; cbn [exec] in H.
  - inversion H; subst. exists r. repeat split; auto; apply Hcl.
  - destruct (step c st s) as [st1|] eqn:E; [|discriminate]. inversion HF as [|? ? Hs HF']; subst.
    destruct (step_reader _ _ _ _ _ _ E Hk) as (r1 & Hr1 & Hc).
    pose proof (Forall_nnth _ _ _ _ Hi Hk) as Hr.
    assert (Hstep : r_tcp r1 = true /\ r_setup r1 = r_setup r /\ r_ph r1 <> PhStopReq /\ r_lost r1 = r_lost r /\ clean r1).
    { destruct Hc as [(-> & _)|[(kk & -> & Hc)|[(m & p & full & f & ss & fs & -> & _ & _ & -> & _)|[(i & o & d & -> & Hc)|(i & -> & Hc)]]]].
      - auto.
      - destruct (ctl_effect _ _ _ _ _ Hr Hc) as (H1 & H2 & H3 & H4 & H5). repeat split; try congruence; auto.
        + intros Hq. destruct (H4 Hq) as [Hq1|Hq1]; [contradiction|]. subst kk. now apply Hs.
        + destruct H3 as [Hq1|(Hq1 & _)]; [assumption|contradiction].
        + now apply H5.
        + now apply H5.
      - destruct (push_effect c _ m f (nlen (s_written st)) (set_ssrc p ss) r Hr) as (H1 & H2 & H3 & H4 & H5).
        repeat split; try congruence; now apply H5.
      - destruct (arrive_effect _ _ _ _ _ _ Hr Hc) as (H1 & H2 & H3 & H4). destruct (H4 Ht) as (H6 & _ & H5).
        repeat split; try congruence; now apply H5.
      - apply lose_effect in Hc. destruct Hc as (Hc & _). congruence. }
    destruct Hstep as (G1 & G2 & G3 & G4 & G5).
    destruct (IH _ _ _ (step_inv _ _ _ _ Hi E) H Hr1 G1 G3 G5 HF') as (r' & Q1 & Q2 & Q3 & Q4 & Q5 & Q6).
    exists r'. repeat split; try congruence; apply Q6.
Qed.

Lemma nl_d_clean dl : Forall (fun d => d_late d = false) dl -> nl_d dl = dl.
Proof.
  unfold nl_d. induction 1 as [|d t Hd _ IH]; cbn [filter]; [reflexivity|]. rewrite Hd. cbn. now rewrite IH.
Qed.

(* For a TCP reader that was never asked to stop (no PAUSE, TEARDOWN or close), in every run: nothing
   the queue accepted is lost - it has been delivered or is still in flight - and everything delivered
   arrived in the order of writing. *)
Theorem tcp_complete c rs steps st k su :
  readers_ok rs -> nnth k rs = Some (new_reader true su) ->
  exec c (init rs) steps = Some st ->
  Forall (fun s => s <> SCtl CStopReq k) steps ->
  exists r, nnth k (s_readers st) = Some r /\ r_tcp r = true /\ r_lost r = [] /\
    sinc (didxs (r_deliv r)) /\
    forall idx, In idx (r_hist r) ->
      In idx (didxs (r_deliv r)) \/ In idx (idxs (r_wire r)) \/ In idx (idxs (r_queue r)).
Proof.
  intros Hok Hk H HF.
  assert (Hcl0 : clean (new_reader true su)) by (repeat split; constructor).
  destruct (exec_nostop c k steps (init rs) st (new_reader true su) (init_inv c rs Hok) H Hk eq_refl) as
    (r & Q1 & Q2 & _ & _ & Q5 & (Q6 & Q7)); [discriminate|exact Hcl0|exact HF|].
  assert (Hre : reach c rs st) by (split; eauto).
  exists r. repeat split; auto.
  - pose proof (tcp_global_order_partial _ _ _ Hre r (nnth_In _ _ _ Q1) Q2) as Ho. now rewrite (nl_d_clean _ Q7) in Ho.
  - intros idx Hin.
    destruct (accepted_delivered_inflight_or_discarded _ _ _ Hre r idx (nnth_In _ _ _ Q1) Hin) as [?|[?|[?|Hl]]]; auto.
    rewrite Q5 in Hl. cbn in Hl. contradiction.
Qed.

(* ... and once its queue and transport have drained, everything accepted has been delivered *)
Corollary tcp_complete_drained c rs steps st k su :
  readers_ok rs -> nnth k rs = Some (new_reader true su) ->
  exec c (init rs) steps = Some st ->
  Forall (fun s => s <> SCtl CStopReq k) steps ->
  exists r, nnth k (s_readers st) = Some r /\
    (r_wire r = [] -> r_queue r = [] -> Permutation (r_hist r) (didxs (r_deliv r)) /\ sinc (didxs (r_deliv r))).
Proof.
  intros Hok Hk H HF.
  assert (Hcl0 : clean (new_reader true su)) by (repeat split; constructor).
  destruct (exec_nostop c k steps (init rs) st (new_reader true su) (init_inv c rs Hok) H Hk eq_refl) as
    (r & Q1 & Q2 & _ & _ & Q5 & (Q6 & Q7)); [discriminate|exact Hcl0|exact HF|].
  destruct (tcp_complete _ _ _ _ _ _ Hok Hk H HF) as (r0 & Q1' & _ & Q3 & Q4 & _).
  rewrite Q1 in Q1'. inversion Q1'; subst r0.
  exists r. split; [exact Q1|]. intros Hw Hq.
  assert (Hre : reach c rs st) by (split; eauto). split; [|exact Q4].
  pose proof (conservation _ _ _ Hre r (nnth_In _ _ _ Q1)) as HP. rewrite Q3, Hw, Hq in HP.
  cbn [idxs map app] in HP. now rewrite app_nil_r in HP.
Qed.

(* ---------- UDP ---------- *)
(* a UDP reader whose receiver never reset its position has received everything in order *)
Theorem udp_in_order_until_reset c rs st r m f :
  reach c rs st -> In r (s_readers st) -> r_tcp r = false -> r_resets r = 0 ->
  sinc (didxs (filter (same_mf m f) (r_deliv r))).
Proof.
  intros Hre Hr Ht Hz. pose proof (delivered_in_order_partial _ _ _ Hre r m f Hr) as H.
  pose proof (reach_inv _ _ _ Hre) as Hi. unfold sinv in Hi. rewrite Forall_forall in Hi.
  destruct (Hi _ Hr) as [_ _ _ _ _ _ _ _ _ _ _ H12 _].
  unfold ordered_part in H. now rewrite (nl_d_clean _ (H12 Ht Hz)) in H.
Qed.

(* the receiver resets its position only on an arrival that follows at least B consecutive arrivals
   older than the last delivered packet of that format (B = the size of its reorder buffer) *)
Theorem udp_reset_needs_late_run c st s st' k r r' :
  step c st s = Some st' -> nnth k (s_readers st) = Some r -> nnth k (s_readers st') = Some r' ->
  r_resets r' <> r_resets r ->
  exists i o m f last neg, s = SArrive k i o /\ r_tcp r = false /\
    rx_get (r_rx r) m f = Some (last, neg) /\ c_B c <= neg.
Proof.
  intros H Hk Hk' Hne. destruct (step_reader _ _ _ _ _ _ H Hk) as (r1 & Hr1 & Hc).
  rewrite Hk' in Hr1. inversion Hr1; subst r1.
  destruct Hc as [(-> & _)|[(kk & -> & Hc)|[(m & p & full & f & ss & fs & -> & _ & _ & -> & _)|[(i & o & d & -> & Hc)|(i & -> & Hc)]]]].
  - congruence.
  - exfalso. apply Hne. destruct kk; cbn [r_ctl] in Hc.
    + unfold r_playreq in Hc. destruct (r_ph r), (r_w r), (r_active r); try discriminate; now inversion Hc.
    + unfold r_create in Hc. destruct (r_ph r), (r_w r); try discriminate; now inversion Hc.
    + unfold r_activate in Hc. destruct (r_ph r), (r_w r) as [|b|b]; try discriminate.
      destruct (r_tcp r || b); [|discriminate]. now inversion Hc.
    + unfold r_start in Hc. destruct (r_w r) as [|[|]|]; try discriminate; now inversion Hc.
    + unfold r_playdone in Hc. destruct (r_ph r), (r_w r) as [|b|b]; try discriminate.
      destruct (r_active r); [|discriminate]. now inversion Hc.
    + unfold r_stopreq in Hc. destruct (r_ph r); try discriminate; now inversion Hc.
    + unfold r_drain in Hc. destruct (r_w r) as [|[|]|[|]]; try discriminate.
      * destruct (r_queue r); [discriminate|]. now inversion Hc.
      * destruct (r_queue r); [discriminate|]. now inversion Hc.
    + unfold r_closew in Hc. destruct (r_ph r), (r_w r); try discriminate; now inversion Hc.
    + unfold r_nilw in Hc. destruct (r_ph r), (r_w r); try discriminate; now inversion Hc.
    + unfold r_deact in Hc. destruct (r_ph r); try discriminate; now inversion Hc.
    + unfold r_stopdone in Hc. destruct (r_ph r), (r_w r); try discriminate.
      destruct (r_active r); [discriminate|].
      destruct (r_tcp r); [destruct (r_wire r); [|discriminate]|]; now inversion Hc.
    + unfold r_cclose in Hc. destruct (r_ph r); try discriminate; now inversion Hc.
  - exfalso. apply Hne. unfold r_push. destruct (r_active r); [|reflexivity].
    destruct (chan_of (r_setup r) m); [|reflexivity].
    destruct (r_w r); [reflexivity| |reflexivity].
    destruct (nlen (r_queue r) <? c_Q c); reflexivity.
  - unfold r_arrive in Hc. destruct (r_con r); cbn [negb] in Hc; [|discriminate].
    destruct (r_tcp r && negb (i =? 0)); [discriminate|].
    destruct (take_nth i (r_wire r)) as [[x wi]|]; [|discriminate].
    destruct (media_of (r_setup r) (i_chan x)) as [m|]; [|inversion Hc; subst; exfalso; now apply Hne].
    destruct (nnth m (c_medias c)) as [fs|]; [|inversion Hc; subst; exfalso; now apply Hne].
    destruct (find_fmt fs (p_pt (i_pkt x))) as [[f ss]|]; [|inversion Hc; subst; exfalso; now apply Hne].
    destruct (r_tcp r) eqn:Et; [inversion Hc; subst; exfalso; now apply Hne|].
    destruct (rx_get (r_rx r) m f) as [[last neg]|] eqn:Eg; [|inversion Hc; subst; exfalso; now apply Hne].
    destruct (last <? i_idx x); [inversion Hc; subst; exfalso; now apply Hne|].
    destruct (N.ltb_spec (c_B c) (neg + 1)); [|inversion Hc; subst; exfalso; now apply Hne].
    exists i, o, m, f, last, neg. repeat split; auto. lia.
  - exfalso. apply Hne. unfold r_lose in Hc. destruct (r_tcp r); [discriminate|].
    destruct (take_nth i (r_wire r)) as [[x wi]|]; [|discriminate]. now inversion Hc.
Qed.


(* ---------- with the repair: TCP readers receive everything in the order written, unconditionally ---------- *)
Lemma nl_d_all dl : Forall (fun d => d_late d = false) dl -> nl_d dl = dl.
Proof.
  unfold nl_d. induction 1 as [|d t Hd _ IH]; cbn [filter]; [reflexivity|]. rewrite Hd. cbn. now rewrite IH.
Qed.

Theorem tcp_delivered_in_order c rs st r m f :
  reach c rs st -> In r (s_readers st) -> r_tcp r = true ->
  sinc (didxs (filter (same_mf m f) (r_deliv r))).
Proof.
  intros Hre Hr Ht. pose proof (delivered_in_order_partial _ _ _ Hre r m f Hr) as H.
  pose proof (reach_inv _ _ _ Hre) as Hi. unfold sinv in Hi. rewrite Forall_forall in Hi.
  destruct (Hi _ Hr) as [_ _ _ _ _ _ _ _ _ _ (_ & Hnl) _ _].
  unfold ordered_part in H. now rewrite (nl_d_all _ (Hnl Ht)) in H.
Qed.

Theorem tcp_delivered_is_subsequence c rs st r m f s :
  reach c rs st -> In r (s_readers st) -> r_tcp r = true -> ssrc_of c m f = Some s ->
  Subseq (deliv_mf r m f) (map (fun p => set_ssrc p s) (written_mf (s_written st) m f)).
Proof.
  intros Hre Hr Ht Hs. pose proof (delivered_is_subsequence_partial _ _ _ Hre r m f s Hr Hs) as H.
  pose proof (reach_inv _ _ _ Hre) as Hi. unfold sinv in Hi. rewrite Forall_forall in Hi.
  destruct (Hi _ Hr) as [_ _ _ _ _ _ _ _ _ _ (_ & Hnl) _ _].
  unfold deliv_mf_ord, ordered_part in H. rewrite (nl_d_all _ (Hnl Ht)) in H. exact H.
Qed.

Theorem tcp_global_order c rs st r :
  reach c rs st -> In r (s_readers st) -> r_tcp r = true -> sinc (didxs (r_deliv r)).
Proof.
  intros Hre Hr Ht. pose proof (tcp_global_order_partial _ _ _ Hre r Hr Ht) as H.
  pose proof (reach_inv _ _ _ Hre) as Hi. unfold sinv in Hi. rewrite Forall_forall in Hi.
  destruct (Hi _ Hr) as [_ _ _ _ _ _ _ _ _ _ (_ & Hnl) _ _].
  now rewrite (nl_d_all _ (Hnl Ht)) in H.
Qed.

(* C11 (domain serverhostile) — statements only.  Each theorem is closed by [exact] of a lemma proved in
   Inv.v / Handlers.v / Step.v / Proofs.v and followed by Print Assumptions.

   The model (Model.v) is the validation + resource-ledger layer of the server: parsed requests in,
   one outcome per event out; every nil-able Go field is an option and every dereference is checked,
   a failed check makes the step return None (= the Go code would panic). *)
From GVL Require Import NList.
From GV_serverhostile Require Import Model Basics Inv FindFree Handlers Step Frame Proofs Release WriterErr.
Open Scope N_scope.

(* hostile_no_panic: for every configuration whose served stream has at least one media, NO list of
   events (accepts, requests with arbitrary parsed contents, frames, responses, garbage, closes, timer
   expiries, writer errors, on any number of connections) drives a step to Panic; one outcome per event;
   the nil-safety invariant [Inv] holds afterwards. *)
Theorem C11_serverhostile_hostile_no_panic : forall g evs,
  0 < c_nmedias g ->
  exists s os, run_events g srv0 evs = Some (s, os) /\ Inv s /\ length os = length evs.
Proof. exact hostile_no_panic. Qed.
Print Assumptions C11_serverhostile_hostile_no_panic.

(* the same from any state that satisfies the invariant *)
Theorem C11_serverhostile_step_preserves_invariant : forall g s ev,
  Inv s -> 0 < c_nmedias g ->
  exists s' o, step g s ev = Some (s', o) /\ Inv s' /\ v_next s <= v_next s'.
Proof. exact step_ok. Qed.
Print Assumptions C11_serverhostile_step_preserves_invariant.

(* always_answers_or_closes: on a connection that exists, a request gets exactly one response (and if
   that response carries an error the connection is gone afterwards); a response from the peer,
   unparsable bytes and EOF close the connection; an interleaved frame is either consumed by a running
   TCP session or closes the connection. *)
Theorem C11_serverhostile_always_answers_or_closes : forall g s c e s' o,
  Inv s -> In c (v_conns s) -> 0 < c_nmedias g -> conn_event g s c e = Some (s', o) ->
  match e with
  | EReq _ => exists st cl adv, o = OResp st cl adv /\ (cl = true -> find_conn (c_id c) (v_conns s') = None)
  | EFrame _ => (c_tcp c = true /\ o = OIgnored /\ s' = s) \/
                (c_tcp c = false /\ o = OClosed /\ find_conn (c_id c) (v_conns s') = None)
  | _ => o = OClosed /\ find_conn (c_id c) (v_conns s') = None
  end.
Proof. exact always_answers_or_closes. Qed.
Print Assumptions C11_serverhostile_always_answers_or_closes.

(* validation before use: an accepted SETUP has a transport the configuration supports, consistent
   with what the session already negotiated, with client ports when it is UDP, never multicast for a
   publisher; a refused one is answered 400 (and the connection closed) or 461 (connection kept). *)
Theorem C11_serverhostile_validate_setup_sound : forall g c ss r,
  match validate_setup g c ss r with
  | SetupAccept th p path trk =>
      (s_state ss = SInitial \/ s_state ss = SPrePlay \/ s_state ss = SPreRecord) /\
      is_supported g c th = true /\ p = proto_of th /\
      (forall old, s_tr ss = Some old -> old = (p, t_secure th)) /\
      (p = SPUDP -> t_cports th <> None) /\
      (playing ss = false -> p <> SPMcast)
  | SetupReject st err => (st = 400 /\ err = true) \/ (st = 461 /\ err = false)
  end.
Proof. exact validate_setup_sound. Qed.
Print Assumptions C11_serverhostile_validate_setup_sound.

Theorem C11_serverhostile_supported_transport_needs : forall g c th,
  is_supported g c th = true ->
  (t_secure th = true -> c_tls g = true) /\
  (t_proto th = PUDP -> c_tunnel c = false /\ (t_mcast th = true -> c_mcast g = true) /\
                        (t_mcast th = false -> c_udp g = true) /\ (c_tls g = true -> t_secure th = true)).
Proof. exact supported_transport_needs. Qed.
Print Assumptions C11_serverhostile_supported_transport_needs.

(* findFreeChannelPair terminates whatever channels the peer asked for before *)
Theorem C11_serverhostile_find_free_terminates : forall ms, find_free ms <> None.
Proof. exact find_free_some. Qed.
Print Assumptions C11_serverhostile_find_free_terminates.

(* others_unaffected, partial: a step on connection cid leaves untouched every session that the
   connection is not paired with and that the request does not name (session ids are unguessable
   secrets): the session record (state, transport, medias, attached connections, TCP connection,
   writer, timer) is identical and its reader / active-reader slots in the stream are unchanged.
   Missing for the full statement: the session's UDP registrations, which CAN still be taken over by a
   session of the same IP that uses the same client ports (NOT fixed in /repo; refuted below).  That the
   session's own control connections survive follows from the record being identical (s_conns) and
   from C11_serverhostile_sessions_mortal's pairing invariant; it is not stated separately. *)
Theorem C11_serverhostile_others_unaffected_partial : forall g s cid e s' o x ssx,
  Inv s -> step g s (SConn cid e) = Some (s', o) ->
  find_sess x (v_sess s) = Some ssx ->
  (forall c, find_conn cid (v_conns s) = Some c -> c_sess c <> Some x) ->
  (forall r, e = EReq r -> r_sess r <> Some x) ->
  find_sess x (v_sess s') = Some ssx /\
  (In x (v_readers s') <-> In x (v_readers s)) /\ (In x (v_active s') <-> In x (v_active s)).
Proof. exact others_unaffected_partial. Qed.
Print Assumptions C11_serverhostile_others_unaffected_partial.

(* resources_released (after fix ba05e77 every session is mortal): in EVERY reachable state in which no
   connection is left, every remaining session has its check timer armed (it is a UDP / multicast
   session that is playing or recording), and once those timers have fired Server.sessions is empty,
   the multicast reader count is 0 and the multicast writers are released.  [drain] fires the timer of
   every listed session. *)
Theorem C11_serverhostile_resources_released : forall g evs s os,
  0 < c_nmedias g -> run_events g srv0 evs = Some (s, os) -> v_conns s = [] ->
  (forall ss, In ss (v_sess s) -> s_timer ss = true) /\
  exists s', drain g s (v_sess s) = Some s' /\
             v_conns s' = [] /\ v_sess s' = [] /\ v_mcount s' = 0 /\ v_mwriters s' = false.
Proof. exact resources_released. Qed.
Print Assumptions C11_serverhostile_resources_released.

(* no immortal session: in every reachable state every session can be ended, by its armed timer or by
   closing a connection that exists, is attached to it and is paired with it *)
Theorem C11_serverhostile_sessions_mortal : forall g evs s os ss,
  0 < c_nmedias g -> run_events g srv0 evs = Some (s, os) -> In ss (v_sess s) ->
  s_timer ss = true \/ exists c, In c (v_conns s) /\ In (c_id c) (s_conns ss) /\ c_sess c = Some (s_id ss).
Proof. exact sessions_mortal. Qed.
Print Assumptions C11_serverhostile_sessions_mortal.

(* resources_released, the stream and UDP slots (partial): when a session ends it leaves
   Server.sessions, every connection attached to it is closed, and (if it had joined the stream) its
   reader slot and its active-reader slot are gone.  Not proved: that the reader / active-reader lists
   and the two UDP client maps are EMPTY in the quiescent state of the theorem above (needs the
   slot-ownership invariant "every entry is owned by a live session", true of the model but not
   carried through the handlers here); the harness measures exactly that after every scenario. *)
Theorem C11_serverhostile_resources_released_partial : forall s sid ss s',
  find_sess sid (v_sess s) = Some ss -> end_session s sid = Some s' ->
  find_sess sid (v_sess s') = None /\
  (forall c, In c (v_conns s') -> ~ In (c_id c) (s_conns ss)) /\
  (s_stream ss = true -> ~ In sid (v_readers s') /\ (is_mcast ss = false -> ~ In sid (v_active s'))).
Proof. exact end_session_leaves. Qed.
Print Assumptions C11_serverhostile_resources_released_partial.

(* others_unaffected is FALSE of the unchanged code for peers that share an IP address: a session
   set up with the client ports of another recording session takes over its UDP registrations and
   deletes them when it leaves.  Events of the second list are all on connection 3 and never name
   session 2, yet session 2 loses its registration. *)
Theorem C11_serverhostile_others_unaffected_refuted :
  exists evs_victim evs_hostile s1 os1 s2 os2 victim,
    run_events cfg_all srv0 evs_victim = Some (s1, os1) /\
    (forall e, In e evs_hostile -> match e with SConn c _ => c = 3 | SNew _ _ => True | _ => False end) /\
    run_events cfg_all s1 evs_hostile = Some (s2, os2) /\
    find_sess 2 (v_sess s1) = Some victim /\ find_sess 2 (v_sess s2) = Some victim /\ s_state victim = SRecord /\
    In ((1, 5000), 2) (v_rtp s1) /\ v_rtp s2 = [].
Proof. exact others_unaffected_refuted. Qed.
Print Assumptions C11_serverhostile_others_unaffected_refuted.

(* ---- the writer-error path (chWriterError) and PAUSE (destroyWriter inside the handler) ----
   The model is sequential: [SWriterErr sid] is the moment at which the session goroutine consumes the
   error that its writer reported (for a session that plays over TCP towards a peer that has stopped
   reading: the write timeout).  The goroutine-level fact that destroyWriter never waits for a writer
   that is itself waiting for the session goroutine is NOT expressible in this model; it is exercised on
   the implementation by the slow-reader stage of the harness (oracle classes named slow-reader-...). *)

(* writer_error_releases: in every reachable state, the writer error of a session that has a writer
   does not panic, answers nothing, preserves the invariant and releases everything tied to the
   session: the session leaves Server.sessions, every connection attached to it is closed, its reader
   and active-reader slots are gone and (UDP) no registration keyed by its address and one of its
   client ports is left in either listener. *)
Theorem C11_serverhostile_writer_error_releases : forall g evs s os sid ss,
  0 < c_nmedias g -> run_events g srv0 evs = Some (s, os) ->
  find_sess sid (v_sess s) = Some ss -> s_writer ss = true ->
  exists s', step g s (SWriterErr sid) = Some (s', OIgnored) /\ Inv s' /\
    find_sess sid (v_sess s') = None /\
    (forall c, In c (v_conns s') -> ~ In (c_id c) (s_conns ss)) /\
    (s_stream ss = true -> ~ In sid (v_readers s') /\ (is_mcast ss = false -> ~ In sid (v_active s'))) /\
    (forall sec, s_tr ss = Some (SPUDP, sec) -> forall m, In m (s_medias ss) ->
       (forall e, In e (v_rtp s') -> fst e <> (s_ip ss, m_rtp m)) /\
       (forall e, In e (v_rtcp s') -> fst e <> (s_ip ss, m_rtcp m))).
Proof. exact writer_error_releases_reachable. Qed.
Print Assumptions C11_serverhostile_writer_error_releases.

(* a writer error that is consumed when the session has no writer any more (destroyWriter ran
   meanwhile) or when the session is gone changes nothing *)
Theorem C11_serverhostile_writer_error_without_writer_dropped : forall g s sid,
  (forall ss, find_sess sid (v_sess s) = Some ss -> s_writer ss = false) ->
  step g s (SWriterErr sid) = Some (s, OIgnored).
Proof. exact writer_error_without_writer_dropped. Qed.
Print Assumptions C11_serverhostile_writer_error_without_writer_dropped.

(* PAUSE accepted in state PLAY / RECORD over a unicast transport answers 200 without an error,
   moves the session to PrePlay / PreRecord and leaves it WITHOUT a writer: by the theorem above a
   write error raised while or after the PAUSE is handled is dropped and the session lives on *)
Theorem C11_serverhostile_pause_destroys_writer : forall g s ss r s1 ss1 st e p sec,
  sess_pause g s ss r = Some (s1, ss1, st, e) ->
  s_state ss = SPlay \/ s_state ss = SRecord ->
  r_verdict r = true -> s_tr ss = Some (p, sec) -> p <> SPMcast ->
  s_writer ss1 = false /\ s_id ss1 = s_id ss /\ st = 200 /\ e <> RErr /\
  (s_state ss = SPlay -> s_state ss1 = SPrePlay) /\ (s_state ss = SRecord -> s_state ss1 = SPreRecord).
Proof. exact pause_destroys_writer. Qed.
Print Assumptions C11_serverhostile_pause_destroys_writer.

(* ---- non-vacuity ---- *)
Example C11_example_invariant_initial : Inv srv0.
Proof. exact Inv_srv0. Qed.

(* SETUP over TCP, PLAY, a frame, a response from the peer: 200 + Session, 200 + Session (reader switches
   to TCP mode), frame consumed, connection closed; afterwards nothing is left *)
Example C11_example_play_tcp :
  let setup := mkReq MSetup true true None 1 true true CTMissing None
                     (Some [mkTr PTCP false false None (Some (0, 1)) None]) false (Some (1, TrNum 0)) None true in
  let play := mkReq MPlay true true (Some 2) 1 true true CTMissing None None false None None true in
  exists s, run_events cfg_all srv0
              [SNew 1 false; SConn 1 (EReq setup); SConn 1 (EReq play); SConn 1 (EFrame 1); SConn 1 EResponse]
            = Some (s, [OIgnored; OResp 200 false (Some 2); OResp 200 false (Some 2); OIgnored; OClosed])
            /\ v_conns s = [] /\ v_sess s = [] /\ v_readers s = [] /\ v_active s = [].
Proof. eexists. vm_compute. repeat split; reflexivity. Qed.

(* regression for fix ba05e77 (RECORD whose medias cannot be started): 400 + close, nothing is left *)
Example C11_example_record_start_failure_released :
  exists s os,
    run_events cfg_all srv0 [SNew 1 false; SConn 1 (EReq w_announce); SConn 1 (EReq (w_setup_rec 0 1));
                             SConn 1 (EReq (w_record false))] = Some (s, os) /\
    os = [OIgnored; OResp 200 false None; OResp 200 false (Some 2); OResp 400 true None] /\
    v_conns s = [] /\ v_sess s = [] /\ v_rtp s = [] /\ v_rtcp s = [].
Proof. exact record_start_failure_released. Qed.

(* a SETUP whose only transport is UDP on a server without UDP listeners: 461, connection kept *)
Example C11_example_unsupported_transport :
  let g := mkCfg true true true true true true true true false false false 2 in
  let setup := mkReq MSetup true true None 1 true true CTMissing None
                     (Some [mkTr PUDP false false (Some (5000, 5001)) None None]) false (Some (1, TrNum 0)) None true in
  exists s, run_events g srv0 [SNew 1 false; SConn 1 (EReq setup)] = Some (s, [OIgnored; OResp 461 false (Some 2)]).
Proof. eexists. vm_compute. reflexivity. Qed.

(* SETUP over TCP, PLAY, then the writer fails (the peer stopped reading: write timeout): nothing is
   answered, the session and its connection are gone, the stream has no reader left *)
Example C11_example_writer_error_releases :
  let setup := mkReq MSetup true true None 1 true true CTMissing None
                     (Some [mkTr PTCP false false None (Some (0, 1)) None]) false (Some (1, TrNum 0)) None true in
  let play := mkReq MPlay true true (Some 2) 1 true true CTMissing None None false None None true in
  exists s, run_events cfg_all srv0 [SNew 1 false; SConn 1 (EReq setup); SConn 1 (EReq play); SWriterErr 2]
            = Some (s, [OIgnored; OResp 200 false (Some 2); OResp 200 false (Some 2); OIgnored])
            /\ v_conns s = [] /\ v_sess s = [] /\ v_readers s = [] /\ v_active s = [].
Proof. eexists. vm_compute. repeat split; reflexivity. Qed.

(* ... and when a PAUSE is handled first, the late writer error is dropped: the session stays (PrePlay,
   no writer), its connection stays, its reader slot stays, it is no longer an active reader *)
Example C11_example_pause_then_writer_error_dropped :
  let setup := mkReq MSetup true true None 1 true true CTMissing None
                     (Some [mkTr PTCP false false None (Some (0, 1)) None]) false (Some (1, TrNum 0)) None true in
  let play := mkReq MPlay true true (Some 2) 1 true true CTMissing None None false None None true in
  let pause := mkReq MPause true true (Some 2) 1 true true CTMissing None None false None None true in
  exists s ss, run_events cfg_all srv0 [SNew 1 false; SConn 1 (EReq setup); SConn 1 (EReq play);
                                        SConn 1 (EReq pause); SWriterErr 2]
            = Some (s, [OIgnored; OResp 200 false (Some 2); OResp 200 false (Some 2); OResp 200 false (Some 2); OIgnored])
            /\ length (v_conns s) = 1%nat /\ v_sess s = [ss] /\ s_state ss = SPrePlay /\ s_writer ss = false
            /\ v_readers s = [2] /\ v_active s = [].
Proof. do 2 eexists. vm_compute. repeat split; reflexivity. Qed.

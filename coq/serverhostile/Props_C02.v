(* C02, the clause "a session ends when its last connection goes away unless it is streaming over UDP, where the
   session timeout applies instead" on the server model of this domain - the one whose alphabet has multicast sessions
   and connection departures (the serversm model of C02 covers unicast UDP and TCP).  Statements only. *)
From GVL Require Import NList.
From GV_serverhostile Require Import Model.
Open Scope N_scope.

(* the rule, for every server state, every connection cid that is attached to a session sid and is the LAST connection that
   session lists: when cid goes away the session is ended exactly when it is not streaming (state neither PLAY nor RECORD)
   or streams over interleaved TCP; a session streaming over unicast UDP or over MULTICAST stays (its timer decides) *)
Theorem C02_serverhostile_last_connection_rule : forall s cid c sid ss,
  find_conn cid (v_conns s) = Some c -> c_sess c = Some sid ->
  let s1 := mkSrv (del_conn cid (v_conns s)) (v_sess s) (v_readers s) (v_active s) (v_mcount s)
                  (v_mwriters s) (v_rtp s) (v_rtcp s) (v_next s) in
  find_sess sid (v_sess s1) = Some ss -> nremove cid (s_conns ss) = [] ->
  let s2 := set_sess s1 (ss_with_conns ss []) in
  close_conn s cid =
    match s_state ss, s_tr ss with
    | (SPlay | SRecord), Some (SPTCP, _) => end_session s2 sid
    | (SPlay | SRecord), Some ((SPUDP | SPMcast), _) => Some s2
    | (SPlay | SRecord), None => None
    | _, _ => end_session s2 sid
    end.
Proof.
  intros s cid c sid ss Hc Hs s1 Hf Hn s2. unfold close_conn. rewrite Hc, Hs. fold s1. rewrite Hf, Hn. fold s2.
  destruct ss as [i ip cs st tr ms pa sm an tc wr tm]; cbn [ss_with_conns s_state s_tr s_conns] in *.
  destruct st; cbn; try reflexivity; destruct tr as [[[| |] b]|]; reflexivity.
Qed.
Print Assumptions C02_serverhostile_last_connection_rule.

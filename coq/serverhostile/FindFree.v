(* findFreeChannelPair terminates: the search loop finds a free even channel within 3*|medias| steps. *)
From Coq Require Import ZifyBool ZifyNat ZifyN.
From GVL Require Import NList Wire.
From GV_serverhostile Require Import Model Basics.
Open Scope N_scope.

(* the values of (channel + 1) that a media blocks *)
Definition blocked (ms : list smedia) : list N :=
  concat (map (fun m => [m_chan m + 2; m_chan m + 1; m_chan m]) ms).

Lemma chan_in_use_blocked ms i : chan_in_use ms i = true <-> In (i + 1) (blocked ms).
Proof.
  unfold chan_in_use, blocked. rewrite existsb_exists, in_concat. split.
  - intros (m & Hm & H). exists [m_chan m + 2; m_chan m + 1; m_chan m]. split; [apply in_map_iff; exists m; split; [reflexivity | exact Hm]|].
    cbn [In]. rewrite !Bool.orb_true_iff, !N.eqb_eq in H. lia.
  - intros (l & Hl & H). apply in_map_iff in Hl. destruct Hl as (m & <- & Hm). exists m. split; [exact Hm|].
    cbn [In] in H. rewrite !Bool.orb_true_iff, !N.eqb_eq. lia.
Qed.

Lemma filter_length_lt {A} (p q : A -> bool) l a :
  (forall x, q x = true -> p x = true) -> In a l -> p a = true -> q a = false ->
  (length (filter q l) < length (filter p l))%nat.
Proof.
  intros Hqp. induction l as [|x t IH]; [intros []|]. intros [->|HI] Hp Hq; cbn [filter].
  - rewrite Hp, Hq. cbn [length].
    assert (length (filter q t) <= length (filter p t))%nat.
    { clear -Hqp. induction t as [|y t IH]; [apply Nat.le_refl|]. cbn [filter]. destruct (q y) eqn:Eq.
      - rewrite (Hqp y Eq). cbn [length]. apply le_n_S. exact IH.
      - destruct (p y); cbn [length]; [apply Nat.le_le_succ_r|]; exact IH. }
    apply Nat.lt_succ_r. exact H.
  - specialize (IH HI Hp Hq). destruct (q x) eqn:Eq.
    + rewrite (Hqp x Eq). cbn [length]. apply Nat.succ_lt_mono in IH. exact IH.
    + destruct (p x); cbn [length]; [apply Nat.lt_lt_succ_r|]; exact IH.
Qed.

Definition mu (ms : list smedia) (i : N) : nat := length (filter (fun b => i + 1 <=? b) (blocked ms)).

Lemma find_free_aux_some ms fuel i : (mu ms i <= length fuel)%nat -> find_free_aux fuel ms i <> None.
Proof.
  revert i. induction fuel as [|x f IH]; intros i H; cbn [find_free_aux]; destruct (chan_in_use ms i) eqn:E; try discriminate.
  - exfalso. apply chan_in_use_blocked in E. unfold mu in H.
    assert (In (i + 1) (filter (fun b => i + 1 <=? b) (blocked ms))) by (apply filter_In; split; [exact E | apply N.leb_refl]).
    destruct (filter (fun b => i + 1 <=? b) (blocked ms)); [destruct H0 | cbn in H; inversion H].
  - apply IH. apply chan_in_use_blocked in E.
    assert (mu ms (i + 2) < mu ms i)%nat.
    { unfold mu. apply (filter_length_lt _ _ _ (i + 1)); [| exact E | apply N.leb_refl | apply N.leb_gt; lia].
      intros b Hb. apply N.leb_le in Hb. apply N.leb_le. lia. }
    cbn [length] in H. apply Nat.lt_succ_r. eapply Nat.lt_le_trans; eassumption.
Qed.

Lemma blocked_length ms : length (blocked ms) = length (ms ++ ms ++ ms).
Proof.
  rewrite !app_length. unfold blocked. induction ms as [|m t IH]; [reflexivity|].
  cbn [map concat app length]. rewrite IH. lia.
Qed.

Lemma filter_len_le {A} (p : A -> bool) l : (length (filter p l) <= length l)%nat.
Proof.
  induction l as [|x t IH]; [apply Nat.le_refl|]. cbn [filter]. destruct (p x); cbn [length]; lia.
Qed.

Lemma find_free_some ms : find_free ms <> None.
Proof.
  unfold find_free. apply find_free_aux_some. rewrite <- blocked_length. unfold mu. apply filter_len_le.
Qed.

(* Release: once every connection has ended and every armed session timer has fired, nothing is left.
   (The repaired code: fix ba05e77 made every session mortal.) *)
From Coq Require Import ZifyBool ZifyNat ZifyN.
From GVL Require Import NList Wire.
From GV_serverhostile Require Import Model Basics Inv FindFree Handlers Step Frame Proofs.
Open Scope N_scope.

Definition nontcp_running (ss : session) : bool := running ss && negb (is_tcp ss).

(* a session that can outlive its connections has its check timer armed *)
Definition Qt (ss : session) : Prop := nontcp_running ss = true -> s_timer ss = true.

Lemma sess_setup_local g s c ss r s1 ss1 st e :
  sess_setup g s c ss r = Some (s1, ss1, st, e) ->
  s_conns ss1 = s_conns ss /\ s_ip ss1 = s_ip ss /\ (Qt ss -> Qt ss1).
Proof.
  intros H. unfold sess_setup in H.
  assert (Nr : forall a b c0 d, validate_setup g c ss r = SetupAccept a b c0 d -> running ss = false).
  { intros a b c0 d V. apply validate_setup_accept in V. destruct V as (Hst & _). unfold running.
    destruct Hst as [E|[E|E]]; rewrite E; reflexivity. }
  destruct (validate_setup g c ss r) eqn:V; [inv H; tauto|]. specialize (Nr _ _ _ _ eq_refl).
  dH H; [discriminate|]. dH H; [inv H; tauto|].
  dHas H ipattern:([mk|]) Elk; [|discriminate]. destruct mk as [k|]; [|inv H; tauto]. dH H; [inv H; tauto|].
  dHas H ipattern:([ra|]) Era; [|discriminate]. destruct ra as [sa|u]; [|inv H; tauto].
  dHas H ipattern:([sm|]) Esm; [|discriminate]. inv H.
  destruct (sstate_eqb (s_state ss) SInitial) eqn:Ei; cbn [s_conns s_ip]; repeat split; intros _ Hq;
    unfold nontcp_running, running in *; cbn [s_state] in *.
  - discriminate.
  - destruct (s_state ss); cbn in *; discriminate.
Qed.

Lemma sess_inner_local g s c ss r s1 ss1 st e :
  sess_inner g s c ss r = Some (s1, ss1, st, e) -> SessOK ss ->
  s_conns ss1 = s_conns ss /\ s_ip ss1 = s_ip ss /\ (Qt ss -> Qt ss1).
Proof.
  intros H OK. pose proof (ok_rec ss OK) as Hrec. unfold is_mcast in Hrec. unfold sess_inner in H.
  dH H; [inv H; tauto|]. dH H; [discriminate|].
  destruct (r_method r); try (inv H; tauto).
  - unfold sess_announce in H. repeat dmatch; try discriminate; inv H; try tauto;
    cbn [s_conns s_ip]; repeat split; intros _ Hq; unfold nontcp_running, running in Hq; cbn in Hq; discriminate.
  - eapply sess_setup_local; eassumption.
  - unfold sess_play in H. repeat dmatch; try discriminate; inv H; try tauto;
      cbn [s_conns s_ip ss_with_writer]; repeat split; unfold Qt, nontcp_running, running, is_tcp; cbn [s_state s_tr s_timer ss_with_writer];
      try tauto; intros Q0 Hq;
      repeat match goal with E : s_state _ = _ |- _ => rewrite E in * end;
      repeat match goal with E : s_tr _ = _ |- _ => rewrite E in * end; cbn in *; try discriminate; try reflexivity; try (apply Q0; assumption).
  - unfold sess_record in H. repeat dmatch; try discriminate; inv H; try tauto;
      cbn [s_conns s_ip ss_with_writer]; repeat split; unfold Qt, nontcp_running, running, is_tcp; cbn [s_state s_tr s_timer ss_with_writer];
      try tauto; intros Q0 Hq;
      repeat match goal with E : s_state _ = _ |- _ => rewrite E in * end;
      repeat match goal with E : s_tr _ = _ |- _ => rewrite E in * end; cbn in *; try discriminate; try reflexivity; try (apply Q0; assumption);
      try (exfalso; assert (true = false) by (apply Hrec; tauto); discriminate).
  - unfold sess_pause in H. repeat dmatch; try discriminate; inv H; try tauto;
      cbn [s_conns s_ip]; repeat split; unfold Qt, nontcp_running, running, is_tcp; cbn [s_state s_tr s_timer];
      intros Q0 Hq; cbn in *; try discriminate.
  - unfold sess_teardown in H. repeat dmatch; try discriminate; inv H; tauto.
  - dH H; inv H; tauto.
Qed.

(* ---- mortality invariant ----
   [pair] is the pairing of connections with sessions (c_sess, except for the connection whose request
   is being handled); [skip] exempts a session that is about to end from the in-use clause. *)
Record LInvP (pair : conn -> option N) (skip : option N) (s : server) : Prop := mkLInv {
  l_timer : forall ss, In ss (v_sess s) -> Qt ss;
  l_inuse : forall ss, In ss (v_sess s) -> Some (s_id ss) <> skip -> nontcp_running ss = false -> s_conns ss <> [];
  l_alive : forall ss cid, In ss (v_sess s) -> In cid (s_conns ss) ->
            exists c, In c (v_conns s) /\ c_id c = cid /\ pair c = Some (s_id ss) }.

Definition LInv (s : server) : Prop := LInvP c_sess None s.

Lemma LInv_srv0 : LInv srv0.
Proof. constructor; cbn; intros; contradiction. Qed.

Lemma LInvP_pair pair pair' skip s :
  LInvP pair skip s ->
  (forall c ss, In c (v_conns s) -> In ss (v_sess s) -> In (c_id c) (s_conns ss) -> pair c = Some (s_id ss) -> pair' c = Some (s_id ss)) ->
  LInvP pair' skip s.
Proof.
  intros L H. constructor; try apply L. intros ss cid Hs Hc.
  destruct (l_alive _ _ _ L ss cid Hs Hc) as (c & A & B & C). exists c. repeat split; try assumption.
  apply H; try assumption. rewrite B. exact Hc.
Qed.

Lemma LInvP_skip pair skip s : LInvP pair None s -> LInvP pair skip s.
Proof. intros L. constructor; try apply L. intros ss Hs _. apply (l_inuse _ _ _ L ss Hs). discriminate. Qed.

(* replacing one session record *)
Lemma LInvP_put pair skip skip' s ss ss' rd ac mc mw rtp rtcp :
  LInvP pair skip s -> NoDup (map s_id (v_sess s)) -> In ss (v_sess s) -> s_id ss' = s_id ss ->
  Qt ss' ->
  (Some (s_id ss) <> skip' -> nontcp_running ss' = false -> s_conns ss' <> []) ->
  (forall x, Some x <> skip' -> Some x <> skip) ->
  (forall cid, In cid (s_conns ss') -> exists c, In c (v_conns s) /\ c_id c = cid /\ pair c = Some (s_id ss)) ->
  LInvP pair skip' (mkSrv (v_conns s) (put_sess ss' (v_sess s)) rd ac mc mw rtp rtcp (v_next s)).
Proof.
  intros L ND HI E Q U Sk A. constructor; cbn [v_sess v_conns].
  - intros x Hx. apply In_put_sess in Hx. destruct Hx as [[-> _]|[Hx _]]; [exact Q | apply L; exact Hx].
  - intros x Hx Hs Hn. apply In_put_sess in Hx. destruct Hx as [[-> _]|[Hx Hne]].
    + apply U; [rewrite <- E; exact Hs | exact Hn].
    + apply (l_inuse _ _ _ L x Hx); [apply Sk; exact Hs | exact Hn].
  - intros x cid Hx Hc. apply In_put_sess in Hx. destruct Hx as [[-> _]|[Hx _]].
    + rewrite E. apply A. exact Hc.
    + apply (l_alive _ _ _ L x cid Hx Hc).
Qed.

(* ---- ending a session ---- *)
Lemma end_session_shape s t ss s' :
  find_sess t (v_sess s) = Some ss -> end_session s t = Some s' ->
  v_sess s' = del_sess t (v_sess s) /\
  v_conns s' = filter (fun c => negb (nmem (c_id c) (s_conns ss))) (v_conns s).
Proof.
  intros F E. unfold end_session in E. rewrite F in E.
  match type of E with context [mkSrv (filter ?f (v_conns s)) ?a ?b ?c ?d ?e ?f0 ?g ?h] =>
    set (s1 := mkSrv (filter f (v_conns s)) a b c d e f0 g h) in * end.
  assert (Mid : forall s3, (if s_stream ss then match reader_set_inactive s1 ss with Some s2 => reader_remove s2 ss | None => None end
                            else Some s1) = Some s3 -> v_sess s3 = v_sess s /\ v_conns s3 = v_conns s1).
  { intros s3 E3. destruct (s_stream ss).
    - destruct (reader_set_inactive s1 ss) as [s2|] eqn:E1; [|discriminate].
      apply reader_set_inactive_shape in E1. apply reader_remove_shape in E3.
      destruct E1 as (A1 & A2 & _), E3 as (B1 & B2 & _).
      assert (S1 : v_sess s1 = v_sess s) by reflexivity. split; congruence.
    - inv E3. tauto. }
  dHas E ipattern:([s3|]) Em; [|discriminate]. destruct (Mid s3 eq_refl) as [M1 M2].
  destruct (medias_stop s3 ss) as [s4|] eqn:E4; [|discriminate]. inv E.
  apply medias_stop_shape in E4. destruct E4 as (C1 & C2 & _). cbn [v_sess v_conns].
  assert (S1 : v_conns s1 = filter (fun c => negb (nmem (c_id c) (s_conns ss))) (v_conns s)) by reflexivity.
  split; congruence.
Qed.

Lemma end_session_LInv pair skip s t s' :
  LInvP pair skip s -> NoDup (map s_id (v_sess s)) -> NoDup (map c_id (v_conns s)) ->
  end_session s t = Some s' -> LInvP pair skip s'.
Proof.
  intros L ND NDc E. destruct (find_sess t (v_sess s)) as [st|] eqn:F.
  2:{ unfold end_session in E. rewrite F in E. inv E. exact L. }
  destruct (end_session_shape s t st s' F E) as [Hs Hc]. apply find_sess_In in F. destruct F as [Ht Hid].
  constructor; rewrite ?Hs, ?Hc.
  - intros x Hx. apply In_del_sess in Hx. apply L. tauto.
  - intros x Hx. apply In_del_sess in Hx. apply L. tauto.
  - intros x cid Hx Hcid. apply In_del_sess in Hx. destruct Hx as [Hx Hne].
    destruct (l_alive _ _ _ L x cid Hx Hcid) as (c & A & B & C). exists c. split; [|tauto].
    apply filter_In. split; [exact A|]. apply Bool.negb_true_iff, nmem_false. intros Hin.
    destruct (l_alive _ _ _ L st (c_id c) Ht Hin) as (c' & A' & B' & C').
    assert (c' = c) by (eapply NoDup_cid_eq; eassumption). subst c'. congruence.
Qed.

(* Release: once every connection has ended and every armed session timer has fired, nothing is left.
   (The repaired code: fix ba05e77 made every session mortal.) *)
From Coq Require Import ZifyBool ZifyNat ZifyN.
From GVL Require Import NList Wire.
From GV_serverhostile Require Import Model Basics Inv FindFree Handlers Step Frame Proofs.
Open Scope N_scope.

Definition nontcp_running (ss : session) : bool := running ss && negb (is_tcp ss).

(* a session that can outlive its connections has its check timer armed *)
Definition Qt (ss : session) : Prop := nontcp_running ss = true -> s_timer ss = true.

Lemma sess_setup_local g s c ss r s1 ss1 st e :
  sess_setup g s c ss r = Some (s1, ss1, st, e) ->
  s_conns ss1 = s_conns ss /\ s_ip ss1 = s_ip ss /\ (Qt ss -> Qt ss1).
Proof.
  intros H. unfold sess_setup in H.
  assert (Nr : forall a b c0 d, validate_setup g c ss r = SetupAccept a b c0 d -> running ss = false).
  { intros a b c0 d V. apply validate_setup_accept in V. destruct V as (Hst & _). unfold running.
    destruct Hst as [E|[E|E]]; rewrite E; reflexivity. }
  destruct (validate_setup g c ss r) eqn:V; [inv H; tauto|]. specialize (Nr _ _ _ _ eq_refl).
  dH H; [discriminate|]. dH H; [inv H; tauto|].
  dHas H ipattern:([mk|]) Elk; [|discriminate]. destruct mk as [k|]; [|inv H; tauto]. dH H; [inv H; tauto|].
  dHas H ipattern:([ra|]) Era; [|discriminate]. destruct ra as [sa|u]; [|inv H; tauto].
  dHas H ipattern:([sm|]) Esm; [|discriminate]. inv H.
  destruct (sstate_eqb (s_state ss) SInitial) eqn:Ei; cbn [s_conns s_ip]; repeat split; intros _ Hq;
    unfold nontcp_running, running in *; cbn [s_state] in *.
  - discriminate.
  - destruct (s_state ss); cbn in *; discriminate.
Qed.

Lemma sess_inner_local g s c ss r s1 ss1 st e :
  sess_inner g s c ss r = Some (s1, ss1, st, e) -> SessOK ss ->
  s_conns ss1 = s_conns ss /\ s_ip ss1 = s_ip ss /\ (Qt ss -> Qt ss1).
Proof.
  intros H OK. pose proof (ok_rec ss OK) as Hrec. unfold is_mcast in Hrec. unfold sess_inner in H.
  dH H; [inv H; tauto|]. dH H; [discriminate|].
  destruct (r_method r); try (inv H; tauto).
  - unfold sess_announce in H. repeat dmatch; try discriminate; inv H; try tauto;
    cbn [s_conns s_ip]; repeat split; intros _ Hq; unfold nontcp_running, running in Hq; cbn in Hq; discriminate.
  - eapply sess_setup_local; eassumption.
  - unfold sess_play in H. repeat dmatch; try discriminate; inv H; try tauto;
      cbn [s_conns s_ip ss_with_writer]; repeat split; unfold Qt, nontcp_running, running, is_tcp; cbn [s_state s_tr s_timer ss_with_writer];
      try tauto; intros Q0 Hq;
      repeat match goal with E : s_state _ = _ |- _ => rewrite E in * end;
      repeat match goal with E : s_tr _ = _ |- _ => rewrite E in * end; cbn in *; try discriminate; try reflexivity; try (apply Q0; assumption).
  - unfold sess_record in H. repeat dmatch; try discriminate; inv H; try tauto;
      cbn [s_conns s_ip ss_with_writer]; repeat split; unfold Qt, nontcp_running, running, is_tcp; cbn [s_state s_tr s_timer ss_with_writer];
      try tauto; intros Q0 Hq;
      repeat match goal with E : s_state _ = _ |- _ => rewrite E in * end;
      repeat match goal with E : s_tr _ = _ |- _ => rewrite E in * end; cbn in *; try discriminate; try reflexivity; try (apply Q0; assumption);
      try (exfalso; assert (true = false) by (apply Hrec; tauto); discriminate).
  - unfold sess_pause in H. repeat dmatch; try discriminate; inv H; try tauto;
      cbn [s_conns s_ip]; repeat split; unfold Qt, nontcp_running, running, is_tcp; cbn [s_state s_tr s_timer];
      intros Q0 Hq; cbn in *; try discriminate.
  - unfold sess_teardown in H. repeat dmatch; try discriminate; inv H; tauto.
  - dH H; inv H; tauto.
Qed.

(* ---- mortality invariant ----
   [pair] is the pairing of connections with sessions (c_sess, except for the connection whose request
   is being handled); [skip] exempts a session that is about to end from the in-use clause. *)
Record LInvP (pair : conn -> option N) (skip : option N) (s : server) : Prop := mkLInv {
  l_timer : forall ss, In ss (v_sess s) -> Qt ss;
  l_inuse : forall ss, In ss (v_sess s) -> Some (s_id ss) <> skip -> nontcp_running ss = false -> s_conns ss <> [];
  l_alive : forall ss cid, In ss (v_sess s) -> In cid (s_conns ss) ->
            exists c, In c (v_conns s) /\ c_id c = cid /\ pair c = Some (s_id ss) }.

Definition LInv (s : server) : Prop := LInvP c_sess None s.

Lemma LInv_srv0 : LInv srv0.
Proof. constructor; cbn; intros; contradiction. Qed.

Lemma LInvP_pair pair pair' skip s :
  LInvP pair skip s ->
  (forall c ss, In c (v_conns s) -> In ss (v_sess s) -> In (c_id c) (s_conns ss) -> pair c = Some (s_id ss) -> pair' c = Some (s_id ss)) ->
  LInvP pair' skip s.
Proof.
  intros L H. constructor; try apply L. intros ss cid Hs Hc.
  destruct (l_alive _ _ _ L ss cid Hs Hc) as (c & A & B & C). exists c. repeat split; try assumption.
  apply H; try assumption. rewrite B. exact Hc.
Qed.

Lemma LInvP_skip pair skip s : LInvP pair None s -> LInvP pair skip s.
Proof. intros L. constructor; try apply L. intros ss Hs _. apply (l_inuse _ _ _ L ss Hs). discriminate. Qed.

(* replacing one session record *)
Lemma LInvP_put pair skip skip' s ss ss' rd ac mc mw rtp rtcp :
  LInvP pair skip s -> NoDup (map s_id (v_sess s)) -> In ss (v_sess s) -> s_id ss' = s_id ss ->
  Qt ss' ->
  (Some (s_id ss) <> skip' -> nontcp_running ss' = false -> s_conns ss' <> []) ->
  (forall x, Some x <> skip' -> Some x <> skip) ->
  (forall cid, In cid (s_conns ss') -> exists c, In c (v_conns s) /\ c_id c = cid /\ pair c = Some (s_id ss)) ->
  LInvP pair skip' (mkSrv (v_conns s) (put_sess ss' (v_sess s)) rd ac mc mw rtp rtcp (v_next s)).
Proof.
  intros L ND HI E Q U Sk A. constructor; cbn [v_sess v_conns].
  - intros x Hx. apply In_put_sess in Hx. destruct Hx as [[-> _]|[Hx _]]; [exact Q | apply L; exact Hx].
  - intros x Hx Hs Hn. apply In_put_sess in Hx. destruct Hx as [[-> _]|[Hx Hne]].
    + apply U; [rewrite <- E; exact Hs | exact Hn].
    + apply (l_inuse _ _ _ L x Hx); [apply Sk; exact Hs | exact Hn].
  - intros x cid Hx Hc. apply In_put_sess in Hx. destruct Hx as [[-> _]|[Hx _]].
    + rewrite E. apply A. exact Hc.
    + apply (l_alive _ _ _ L x cid Hx Hc).
Qed.

(* ---- ending a session ---- *)
Lemma end_session_shape s t ss s' :
  find_sess t (v_sess s) = Some ss -> end_session s t = Some s' ->
  v_sess s' = del_sess t (v_sess s) /\
  v_conns s' = filter (fun c => negb (nmem (c_id c) (s_conns ss))) (v_conns s).
Proof.
  intros F E. unfold end_session in E. rewrite F in E.
  match type of E with context [mkSrv (filter ?f (v_conns s)) ?a ?b ?c ?d ?e ?f0 ?g ?h] =>
    set (s1 := mkSrv (filter f (v_conns s)) a b c d e f0 g h) in * end.
  assert (Mid : forall s3, (if s_stream ss then match reader_set_inactive s1 ss with Some s2 => reader_remove s2 ss | None => None end
                            else Some s1) = Some s3 -> v_sess s3 = v_sess s /\ v_conns s3 = v_conns s1).
  { intros s3 E3. destruct (s_stream ss).
    - destruct (reader_set_inactive s1 ss) as [s2|] eqn:E1; [|discriminate].
      apply reader_set_inactive_shape in E1. apply reader_remove_shape in E3.
      destruct E1 as (A1 & A2 & _), E3 as (B1 & B2 & _).
      assert (S1 : v_sess s1 = v_sess s) by reflexivity. split; congruence.
    - inv E3. tauto. }
  dHas E ipattern:([s3|]) Em; [|discriminate]. destruct (Mid s3 eq_refl) as [M1 M2].
  destruct (medias_stop s3 ss) as [s4|] eqn:E4; [|discriminate]. inv E.
  apply medias_stop_shape in E4. destruct E4 as (C1 & C2 & _). cbn [v_sess v_conns].
  assert (S1 : v_conns s1 = filter (fun c => negb (nmem (c_id c) (s_conns ss))) (v_conns s)) by reflexivity.
  split; congruence.
Qed.

Lemma end_session_LInv pair skip s t s' :
  LInvP pair skip s -> NoDup (map s_id (v_sess s)) -> NoDup (map c_id (v_conns s)) ->
  end_session s t = Some s' -> LInvP pair skip s'.
Proof.
  intros L ND NDc E. destruct (find_sess t (v_sess s)) as [st|] eqn:F.
  2:{ unfold end_session in E. rewrite F in E. inv E. exact L. }
  destruct (end_session_shape s t st s' F E) as [Hs Hc]. apply find_sess_In in F. destruct F as [Ht Hid].
  constructor; rewrite ?Hs, ?Hc.
  - intros x Hx. apply In_del_sess in Hx. apply L. tauto.
  - intros x Hx. apply In_del_sess in Hx. apply L. tauto.
  - intros x cid Hx Hcid. apply In_del_sess in Hx. destruct Hx as [Hx Hne].
    destruct (l_alive _ _ _ L x cid Hx Hcid) as (c & A & B & C). exists c. split; [|tauto].
    apply filter_In. split; [exact A|]. apply Bool.negb_true_iff, nmem_false. intros Hin.
    destruct (l_alive _ _ _ L st (c_id c) Ht Hin) as (c' & A' & B' & C').
    assert (c' = c) by (eapply NoDup_cid_eq; eassumption). subst c'. congruence.
Qed.

Lemma LInvP_unskip pair t s :
  LInvP pair (Some t) s ->
  (forall ss, In ss (v_sess s) -> s_id ss = t -> nontcp_running ss = false -> s_conns ss <> []) ->
  LInvP pair None s.
Proof.
  intros L H. constructor; try apply L. intros ss Hs _ Hn. destruct (N.eq_dec (s_id ss) t) as [E|E].
  - apply H; assumption.
  - apply (l_inuse _ _ _ L ss Hs); [congruence | exact Hn].
Qed.

(* ---- closing a connection ---- *)
Lemma close_conn_LInv s cid s' :
  LInv s -> NoDup (map s_id (v_sess s)) -> NoDup (map c_id (v_conns s)) ->
  close_conn s cid = Some s' -> LInv s'.
Proof.
  intros L ND NDc H. unfold close_conn in H. destruct (find_conn cid (v_conns s)) as [c|] eqn:F; [|inv H; exact L].
  apply find_conn_In in F. destruct F as [Hc Hcid]. subst cid.
  (* removing the connection does not hurt a session it is not paired with *)
  assert (Alive : forall x k, In x (v_sess s) -> c_sess c <> Some (s_id x) -> In k (s_conns x) ->
            exists c', In c' (del_conn (c_id c) (v_conns s)) /\ c_id c' = k /\ c_sess c' = Some (s_id x)).
  { intros x k Hx Hne Hk. destruct (l_alive _ _ _ L x k Hx Hk) as (c' & A & B & C). exists c'. split; [|tauto].
    apply In_del_conn. split; [exact A|]. intros E. assert (c' = c) by (eapply NoDup_cid_eq; eassumption). subst c'. congruence. }
  match type of H with context [mkSrv (del_conn (c_id c) (v_conns s)) ?a ?b ?c0 ?d ?e ?f0 ?g ?h] =>
    set (s1 := mkSrv (del_conn (c_id c) (v_conns s)) a b c0 d e f0 g h) in * end.
  assert (L1 : (forall x, In x (v_sess s) -> c_sess c <> Some (s_id x)) -> LInv s1).
  { intros Hn. constructor; cbn [v_sess v_conns s1]; try apply L. intros x k Hx Hk. apply Alive; auto. }
  destruct (c_sess c) as [sid|] eqn:Ecs; [|inv H; apply L1; discriminate].
  destruct (find_sess sid (v_sess s1)) as [ss|] eqn:Fs.
  2:{ inv H. apply L1. intros x Hx E. inv E. cbn [v_sess s1] in Fs. apply find_sess_None in Fs. apply Fs. apply in_map. exact Hx. }
  apply find_sess_In in Fs. destruct Fs as [Hs Hid]. subst sid. cbn [v_sess s1] in Hs.
  match type of H with context [set_sess s1 ?y] => set (ss' := y) in * end.
  assert (L2 : LInvP c_sess (Some (s_id ss)) (set_sess s1 ss')).
  { unfold set_sess. cbn [v_conns v_sess v_readers v_active v_mcount v_mwriters v_rtp v_rtcp v_next s1].
    constructor; cbn [v_sess v_conns].
    - intros x Hx. apply In_put_sess in Hx. destruct Hx as [[-> _]|[Hx _]]; [|apply L; exact Hx].
      pose proof (l_timer _ _ _ L ss Hs) as Q. exact Q.
    - intros x Hx Hk Hn. apply In_put_sess in Hx. destruct Hx as [[-> _]|[Hx Hne]]; [exfalso; apply Hk; reflexivity|].
      apply (l_inuse _ _ _ L x Hx); [discriminate | exact Hn].
    - intros x k Hx Hk. apply In_put_sess in Hx. destruct Hx as [[-> _]|[Hx Hne]].
      + cbn [s_conns ss' ss_with_conns] in Hk. apply In_nremove in Hk. destruct Hk as [Hk Hkc].
        destruct (l_alive _ _ _ L ss k Hs Hk) as (c' & A & B & C). exists c'. split; [|tauto].
        apply In_del_conn. split; [exact A | congruence].
      + apply Alive; try assumption. cbn in Hne. congruence. }
  assert (NDs : NoDup (map s_id (v_sess (set_sess s1 ss')))) by (cbn [set_sess v_sess]; rewrite map_id_put_sess; exact ND).
  assert (NDc' : NoDup (map c_id (v_conns (set_sess s1 ss')))) by (cbn [set_sess v_conns s1]; apply NoDup_map_filter; exact NDc).
  assert (End : forall s3, end_session (set_sess s1 ss') (s_id ss) = Some s3 -> LInv s3).
  { intros s3 E. pose proof (end_session_LInv _ _ _ _ _ L2 NDs NDc' E) as L3.
    apply (LInvP_unskip _ (s_id ss)); [exact L3|]. intros x Hx Ex. exfalso.
    assert (Fx : find_sess (s_id ss) (v_sess (set_sess s1 ss')) = Some ss').
    { cbn [set_sess v_sess s1]. change (s_id ss) with (s_id ss'). apply find_put_sess_same. cbn. apply in_map. exact Hs. }
    destruct (end_session_shape _ _ _ _ Fx E) as [Hse _]. rewrite Hse in Hx. apply In_del_sess in Hx. tauto. }
  assert (Keep : (nontcp_running ss' = false -> s_conns ss' <> []) -> LInv (set_sess s1 ss')).
  { intros Hk. apply (LInvP_unskip _ (s_id ss)); [exact L2|]. intros x Hx Ex Hn.
    cbn [set_sess v_sess s1] in Hx. apply In_put_sess in Hx. destruct Hx as [[-> _]|[_ Hne]]; [apply Hk; exact Hn|].
    exfalso. apply Hne. cbn. exact Ex. }
  unfold nontcp_running, running, is_tcp in Keep. cbn [s_state s_tr ss' ss_with_conns] in Keep, H.
  destruct (s_state ss) eqn:Est; cbn [negb] in H;
    try (destruct (s_conns ss') eqn:Ecn; [apply End; exact H | inv H; apply Keep; intros _; try rewrite Ecn; discriminate]).
  all: destruct (s_tr ss) as [[[] b]|] eqn:Etr; try discriminate;
       try (inv H; apply Keep; cbn; discriminate);
       try (destruct (s_conns ss') eqn:Ecn; [apply End; exact H | inv H; apply Keep; intros _; try rewrite Ecn; discriminate]).
Qed.

(* ---- a request handled by a session ---- *)
Lemma LInvP_ext pair skip s s' :
  v_sess s' = v_sess s -> v_conns s' = v_conns s -> LInvP pair skip s -> LInvP pair skip s'.
Proof. intros E1 E2 L. constructor; rewrite ?E1, ?E2; apply L. Qed.

Lemma put_put a b l : s_id a = s_id b -> put_sess a (put_sess b l) = put_sess a l.
Proof.
  intros E. unfold put_sess. rewrite map_map. apply map_ext. intros x.
  destruct (s_id x =? s_id b) eqn:E1.
  - rewrite <- E, N.eqb_refl. rewrite E, E1. reflexivity.
  - reflexivity.
Qed.

Lemma LInvP_put' pair skip skip' s s' ss ss' :
  LInvP pair skip s -> NoDup (map s_id (v_sess s)) -> In ss (v_sess s) -> s_id ss' = s_id ss ->
  v_conns s' = v_conns s -> v_sess s' = put_sess ss' (v_sess s) ->
  Qt ss' ->
  (Some (s_id ss) <> skip' -> nontcp_running ss' = false -> s_conns ss' <> []) ->
  (forall x, Some x <> skip' -> Some x <> skip) ->
  (forall cid, In cid (s_conns ss') -> exists c, In c (v_conns s) /\ c_id c = cid /\ pair c = Some (s_id ss)) ->
  LInvP pair skip' s'.
Proof.
  intros L ND HI E Ec Es Q U Sk A.
  pose proof (LInvP_put pair skip skip' s ss ss' (v_readers s) (v_active s) (v_mcount s) (v_mwriters s) (v_rtp s) (v_rtcp s)
                        L ND HI E Q U Sk A) as L'.
  eapply LInvP_ext; [| |exact L']; cbn [v_sess v_conns]; assumption.
Qed.

Definition repair (c : conn) (sess' : option N) : conn -> option N :=
  fun x => if c_id x =? c_id c then sess' else c_sess x.

Lemma sess_request_LInv ex p0 g s c ss0 r s2 st e sess' adv :
  InvX ex s -> LInvP p0 None s -> (forall x, c_id x <> c_id c -> p0 x = c_sess x) ->
  In c (v_conns s) -> In ss0 (v_sess s) ->
  (p0 c = None \/ p0 c = Some (s_id ss0)) ->
  sess_request g s c ss0 r = Some (s2, st, e, sess', adv) ->
  LInvP (repair c sess') None s2.
Proof.
  intros I L Hp0 Hc HI Hp H. unfold sess_request in H.
  pose proof (inv_nd _ s I) as ND. pose proof (inv_ndc _ s I) as NDc.
  match type of H with context [sess_inner g (set_sess s ?y) c ?y r] => set (ss := y) in * end.
  destruct (sess_inner g (set_sess s ss) c ss r) as [[[[s1 ss1] st1] e1]|] eqn:Ei; [|discriminate].
  assert (OK : SessOK ss) by (apply SessOK_with_conns; apply (inv_ok _ s I ss0 HI)).
  destruct (sess_inner_local _ _ _ _ _ _ _ _ _ Ei OK) as (Lc & Lip & Lq).
  apply (sess_inner_frame _ _ _ _ _ _ _ _ _ (N.succ (s_id ss))) in Ei; [|lia].
  destruct Ei as (Fs & Fc & _ & Fid & _). cbn [set_sess v_sess v_conns] in Fs, Fc.
  assert (Q1 : Qt ss1) by (apply Lq; exact (l_timer _ _ _ L ss0 HI)).
  (* no other session lists the connection *)
  assert (Uniq : forall u, In u (v_sess s) -> In (c_id c) (s_conns u) -> u = ss0).
  { intros u Hu Hin. destruct (l_alive _ _ _ L u (c_id c) Hu Hin) as (c' & A & B & C).
    assert (c' = c) by (eapply NoDup_cid_eq; eassumption). subst c'.
    destruct Hp as [Hp|Hp]; [congruence|]. eapply NoDup_id_eq; try eassumption. congruence. }
  assert (Old : forall cid, In cid (s_conns ss0) -> cid <> c_id c ->
            forall p, (forall x, c_id x <> c_id c -> p x = c_sess x) ->
            exists c', In c' (v_conns s) /\ c_id c' = cid /\ p c' = Some (s_id ss0)).
  { intros cid Hin Hne p Hpx. destruct (l_alive _ _ _ L ss0 cid HI Hin) as (c' & A & B & C).
    exists c'. repeat split; try assumption. rewrite Hpx by congruence. rewrite <- Hp0 by congruence. exact C. }
  (* the generic ending: the session stays, the connection is paired with it *)
  assert (Gen : forall a, Some (set_sess s1 ss1, st1, e1, Some (s_id ss1), a) = Some (s2, st, e, sess', adv) ->
                    LInvP (repair c sess') None s2).
  { intros a E0. inv E0.
    assert (Lp : LInvP (repair c (Some (s_id ss1))) None s).
    { apply (LInvP_pair p0); [exact L|]. intros c0 u Hc0 Hu Hin Hcs. unfold repair.
      destruct (c_id c0 =? c_id c) eqn:E0; [|apply N.eqb_neq in E0; rewrite <- Hp0 by exact E0; exact Hcs]. apply N.eqb_eq in E0.
      assert (c0 = c) by (eapply NoDup_cid_eq; eassumption). subst c0.
      rewrite (Uniq u Hu Hin). rewrite Fid. reflexivity. }
    apply (LInvP_put' _ None None s _ ss0 ss1).
    - exact Lp.
    - exact ND.
    - exact HI.
    - exact Fid.
    - cbn [set_sess v_conns]. exact Fc.
    - cbn [set_sess v_sess]. rewrite Fs. apply put_put. exact Fid.
    - exact Q1.
    - intros _ _. rewrite Lc. cbn [s_conns ss ss_with_conns]. intros E0.
      assert (Hmem : In (c_id c) (nadd (c_id c) (s_conns ss0))) by (apply In_nadd; tauto). rewrite E0 in Hmem. destruct Hmem.
    - tauto.
    - intros cid Hin. rewrite Lc in Hin. cbn [s_conns ss ss_with_conns] in Hin. apply In_nadd in Hin.
      destruct (N.eq_dec cid (c_id c)) as [->|Hne].
      + exists c. repeat split; try assumption. unfold repair. rewrite N.eqb_refl. rewrite Fid. reflexivity.
      + destruct Hin as [?|Hin]; [contradiction|]. apply (Old cid Hin Hne). intros x Hx. unfold repair.
        destruct (c_id x =? c_id c) eqn:E0; [apply N.eqb_eq in E0; contradiction | reflexivity]. }
  destruct (r_method r); try (eapply Gen; exact H).
  destruct (match e1 with RErr => false | _ => true end); [|eapply Gen; exact H].
  (* TEARDOWN: the connection leaves the session, the session ends *)
  match type of H with context [set_sess s1 ?y] => set (ss2 := y) in * end.
  destruct (end_session (set_sess s1 ss2) (s_id ss2)) as [s3|] eqn:E3; [|discriminate]. inv H.
  assert (Lm : LInvP p0 (Some (s_id ss0)) (set_sess s1 ss2)).
  { apply (LInvP_put' _ None (Some (s_id ss0)) s _ ss0 ss2).
    - exact L.
    - exact ND.
    - exact HI.
    - exact Fid.
    - cbn [set_sess v_conns]. exact Fc.
    - cbn [set_sess v_sess]. rewrite Fs. apply put_put. exact Fid.
    - exact Q1.
    - intros Hk. exfalso. apply Hk. reflexivity.
    - discriminate.
    - intros cid Hin. cbn [s_conns ss2 ss_with_conns] in Hin. apply In_nremove in Hin. destruct Hin as [Hin Hne].
      rewrite Lc in Hin. cbn [s_conns ss ss_with_conns] in Hin. apply In_nadd in Hin.
      destruct Hin as [?|Hin]; [contradiction|]. apply (Old cid Hin Hne). intros x Hx. apply Hp0. exact Hx. }
  assert (Lt : LInvP (repair c None) (Some (s_id ss0)) (set_sess s1 ss2)).
  { apply (LInvP_pair p0); [exact Lm|]. intros c0 u Hc0 Hu Hin Hcs. unfold repair.
    destruct (c_id c0 =? c_id c) eqn:E0; [|apply N.eqb_neq in E0; rewrite <- Hp0 by exact E0; exact Hcs]. apply N.eqb_eq in E0. exfalso.
    cbn [set_sess v_sess] in Hu. rewrite Fs, put_put in Hu by (cbn; rewrite Fid; reflexivity).
    apply In_put_sess in Hu. destruct Hu as [[-> _]|[Hu Hne]].
    - cbn [s_conns ss2 ss_with_conns] in Hin. apply In_nremove in Hin. tauto.
    - rewrite E0 in Hin. apply Hne. rewrite (Uniq u Hu Hin). cbn. rewrite Fid. reflexivity. }
  assert (NDs : NoDup (map s_id (v_sess (set_sess s1 ss2)))).
  { cbn [set_sess v_sess]. rewrite map_id_put_sess, Fs, map_id_put_sess. exact ND. }
  assert (NDc' : NoDup (map c_id (v_conns (set_sess s1 ss2)))) by (cbn [set_sess v_conns]; rewrite Fc; exact NDc).
  pose proof (end_session_LInv _ _ _ _ _ Lt NDs NDc' E3) as L3.
  apply (LInvP_unskip _ (s_id ss0)); [exact L3|]. intros x Hx Ex. exfalso.
  assert (Fx : find_sess (s_id ss2) (v_sess (set_sess s1 ss2)) = Some ss2).
  { cbn [set_sess v_sess]. apply find_put_sess_same. rewrite Fs, map_id_put_sess. cbn. rewrite Fid. change (s_id ss) with (s_id ss0). apply in_map. exact HI. }
  destruct (end_session_shape _ _ _ _ Fx E3) as [Hse _]. rewrite Hse in Hx. apply In_del_sess in Hx.
  destruct Hx as [_ Hx]. apply Hx. cbn. rewrite Fid. exact Ex.
Qed.


Lemma LInvP_same' c s sess' : LInv s -> In c (v_conns s) -> NoDup (map c_id (v_conns s)) -> sess' = c_sess c ->
  LInvP (repair c sess') None s.
Proof.
  intros L Hc ND ->. apply (LInvP_pair c_sess); [exact L|]. intros c0 u Hc0 Hu Hin Hcs. unfold repair.
  destruct (c_id c0 =? c_id c) eqn:E; [|exact Hcs]. apply N.eqb_eq in E.
  assert (c0 = c) by (eapply NoDup_cid_eq; eassumption). subst c0. exact Hcs.
Qed.

Lemma in_session_LInv g s c r create s1 st e sess' adv :
  Inv s -> LInv s -> In c (v_conns s) ->
  in_session g s c r create = Some (s1, st, e, sess', adv) ->
  LInvP (repair c sess') None s1.
Proof.
  intros I L Hc H. unfold in_session in H. pose proof (inv_ndc _ s I) as NDc.
  assert (Same : forall (st0 : N) (e0 : rerr) (a : option N),
            Some (s, st0, e0, c_sess c, a) = Some (s1, st, e, sess', adv) -> LInvP (repair c sess') None s1).
  { intros st0 e0 a E. inv E. apply LInvP_same'; auto. }
  destruct (c_sess c) as [sid|] eqn:Ecs.
  - dH H; [eapply Same; exact H|].
    destruct (find_sess sid (v_sess s)) as [ss|] eqn:F; [|eapply Same; exact H].
    apply find_sess_In in F. destruct F as [HI Hid]. subst sid.
    eapply (sess_request_LInv None c_sess); try eassumption; [reflexivity | right; exact Ecs].
  - dHas H ipattern:([ss|]) F.
    + assert (HI : In ss (v_sess s)) by (destruct (r_sess r); [apply find_sess_In in F; tauto | discriminate]).
      dH H.
      * inv H. apply LInvP_same'; auto.
      * eapply (sess_request_LInv None c_sess); try eassumption; [reflexivity | left; exact Ecs].
    + destruct create.
      2:{ inv H. apply LInvP_same'; auto. }
      match type of H with sess_request g ?sn c ?ssn r = _ => set (s0 := sn) in *; set (ssn0 := ssn) in * end.
      assert (I0 : InvX None s0) by (apply Inv_new_sess; exact I).
      (* the new session is paired with its author *)
      assert (L0 : LInvP (repair c (Some (v_next s))) None s0).
      { constructor; cbn [v_sess v_conns s0].
        - intros x [<-|Hx]; [|apply L; exact Hx]. intros Hq. unfold nontcp_running, running in Hq. cbn in Hq. discriminate.
        - intros x [<-|Hx] _ Hq; [cbn; discriminate | apply (l_inuse _ _ _ L x Hx); [discriminate | exact Hq]].
        - intros x k [<-|Hx] Hk.
          + cbn in Hk. destruct Hk as [<-|[]]. exists c. unfold repair. rewrite N.eqb_refl. cbn. tauto.
          + destruct (l_alive _ _ _ L x k Hx Hk) as (c' & A & B & C). exists c'. repeat split; try assumption.
            unfold repair. destruct (c_id c' =? c_id c) eqn:E0; [|exact C]. apply N.eqb_eq in E0.
            assert (c' = c) by (eapply NoDup_cid_eq; eassumption). subst c'. congruence. }
      eapply (sess_request_LInv None (repair c (Some (v_next s)))); try eassumption.
      * intros x Hx. unfold repair. destruct (c_id x =? c_id c) eqn:E0; [apply N.eqb_eq in E0; contradiction | reflexivity].
      * left. reflexivity.
      * right. unfold repair. rewrite N.eqb_refl. reflexivity.
Qed.

Lemma conn_request_LInv g s c r s1 st e sess' adv :
  Inv s -> LInv s -> In c (v_conns s) ->
  conn_request g s c r = Some (s1, st, e, sess', adv) ->
  LInvP (repair c sess') None s1.
Proof.
  intros I L Hc H. unfold conn_request in H. pose proof (inv_ndc _ s I) as NDc.
  assert (Same : forall (st0 : N) (e0 : rerr), Some (s, st0, e0, c_sess c, @None N) = Some (s1, st, e, sess', adv) ->
            LInvP (repair c sess') None s1).
  { intros st0 e0 E. inv E. apply LInvP_same'; auto. }
  dH H; [eapply Same; exact H|]. dH H; [eapply Same; exact H|]. cbv zeta in H.
  destruct (r_method r); repeat dmatch; try (eapply Same; exact H); try (eapply in_session_LInv; eassumption).
Qed.

Lemma LInvP_set_conn c c1 sess' s :
  LInvP (repair c sess') None s -> c_id c1 = c_id c -> c_sess c1 = sess' ->
  In (c_id c) (map c_id (v_conns s)) -> LInv (set_conn s c1).
Proof.
  intros L E Es Hin. constructor; cbn [set_conn v_sess v_conns]; try apply L.
  intros x k Hx Hk. destruct (l_alive _ _ _ L x k Hx Hk) as (c' & A & B & C).
  destruct (N.eq_dec (c_id c') (c_id c)) as [E0|E0].
  - exists c1. split; [apply In_put_conn_same; rewrite E; exact Hin|]. split; [congruence|].
    unfold repair in C. rewrite E0, N.eqb_refl in C. congruence.
  - exists c'. split; [apply In_put_conn_other; [exact A | congruence]|]. split; [exact B|].
    unfold repair in C. destruct (c_id c' =? c_id c) eqn:E1; [apply N.eqb_eq in E1; contradiction | exact C].
Qed.

Lemma LInvP_gone c sess' s : LInvP (repair c sess') None s -> find_conn (c_id c) (v_conns s) = None -> LInv s.
Proof.
  intros L F. apply (LInvP_pair (repair c sess')); [exact L|]. intros c0 u Hc0 Hu Hin Hcs. unfold repair in Hcs.
  destruct (c_id c0 =? c_id c) eqn:E; [|exact Hcs]. apply N.eqb_eq in E. exfalso.
  apply find_conn_None in F. apply F. rewrite <- E. apply in_map. exact Hc0.
Qed.

Theorem step_LInv g s ev s' o :
  Inv s -> LInv s -> 0 < c_nmedias g -> step g s ev = Some (s', o) -> LInv s'.
Proof.
  intros I L Hnm H. destruct ev as [ip tunnel|cid e|sid|sid]; cbn [step] in H.
  - inv H. constructor; cbn [v_sess v_conns]; try apply L. intros x k Hx Hk.
    destruct (l_alive _ _ _ L x k Hx Hk) as (c' & A & B & C). exists c'. split; [right; exact A | tauto].
  - destruct (find_conn cid (v_conns s)) as [c|] eqn:F; [|inv H; exact L].
    apply find_conn_In in F. destruct F as [Hc Hid]. subst cid.
    pose proof (inv_nd _ s I) as ND. pose proof (inv_ndc _ s I) as NDc.
    unfold conn_event in H.
    assert (Close : forall s1 o1, match close_conn s (c_id c) with None => None | Some s1 => Some (s1, OClosed) end = Some (s1, o1) -> LInv s1).
    { intros s1 o1 E. destruct (close_conn s (c_id c)) as [s2|] eqn:E2; [|discriminate]. inv E.
      eapply close_conn_LInv; eassumption. }
    destruct e as [r|ch| | |]; try (eapply Close; exact H).
    + destruct (conn_request_spec g c s r I Hc Hnm) as (s1 & st & err & sess' & adv & Er & I1 & _ & Hsub & _).
      rewrite Er in H. pose proof (conn_request_LInv _ _ _ _ _ _ _ _ _ I L Hc Er) as L1.
      destruct (find_conn (c_id c) (v_conns s1)) as [c0|] eqn:F0.
      2:{ inv H. eapply LInvP_gone; eassumption. }
      match type of H with context [set_conn s1 ?y] => set (c1 := y) in * end.
      assert (Hid0 : c_id c0 = c_id c) by (apply find_conn_In in F0; tauto).
      assert (L2 : LInv (set_conn s1 c1)).
      { apply (LInvP_set_conn c c1 sess'); [exact L1 | exact Hid0 | reflexivity|].
        apply find_conn_In in F0. destruct F0 as [F0 _]. rewrite <- Hid0. apply in_map. exact F0. }
      destruct err as [| |t].
      * inv H. exact L2.
      * destruct (close_conn (set_conn s1 c1) (c_id c)) as [s3|] eqn:E3; [|discriminate]. inv H.
        eapply close_conn_LInv; [exact L2 | | | exact E3]; cbn [set_conn v_sess v_conns].
        -- apply I1.
        -- rewrite map_id_put_conn. apply I1.
      * destruct t; [destruct sess'; [|discriminate]|]; inv H; exact L2.
    + destruct (c_tcp c); [destruct (c_sess c); [|discriminate]; inv H; exact L | eapply Close; exact H].
  - destruct (find_sess sid (v_sess s)) as [ss|]; [|inv H; exact L].
    destruct (s_timer ss); [|inv H; exact L].
    destruct (end_session s sid) as [s1|] eqn:E; [|discriminate]. inv H.
    eapply end_session_LInv; [exact L | apply I | apply I | exact E].
  - destruct (find_sess sid (v_sess s)) as [ss|]; [|inv H; exact L].
    destruct (s_writer ss); [|inv H; exact L].
    destruct (end_session s sid) as [s1|] eqn:E; [|discriminate]. inv H.
    eapply end_session_LInv; [exact L | apply I | apply I | exact E].
Qed.

(* ---- the theorem ---- *)
Lemma run_events_LInv g evs : forall s s' os,
  Inv s -> LInv s -> 0 < c_nmedias g -> run_events g s evs = Some (s', os) -> Inv s' /\ LInv s'.
Proof.
  induction evs as [|e t IH]; intros s s' os I L Hnm H; cbn [run_events] in H.
  - inv H. tauto.
  - destruct (step g s e) as [[s1 o]|] eqn:E; [|discriminate].
    destruct (run_events g s1 t) as [[s2 os2]|] eqn:E2; [|discriminate]. inv H.
    destruct (step_ok g s e I Hnm) as (s1' & o' & E' & I1 & _). rewrite E in E'. injection E' as <- <-.
    apply (IH s1 s' os2); [exact I1 | exact (step_LInv g s e s1 o I L Hnm E) | exact Hnm | exact E2].
Qed.

(* without connections, every remaining session has its timer armed *)
Lemma quiescent_timers s : LInv s -> v_conns s = [] -> forall ss, In ss (v_sess s) -> s_timer ss = true.
Proof.
  intros L Hc ss Hs. destruct (nontcp_running ss) eqn:E.
  - apply (l_timer _ _ _ L ss Hs). exact E.
  - exfalso. pose proof (l_inuse _ _ _ L ss Hs) as Hn. destruct (s_conns ss) as [|k l] eqn:Ek.
    + apply Hn; [discriminate | exact E | reflexivity].
    + destruct (l_alive _ _ _ L ss k Hs) as (c & A & _); [rewrite Ek; left; reflexivity|]. rewrite Hc in A. destruct A.
Qed.

Lemma drain_empties g sl : forall s,
  Inv s -> v_conns s = [] -> (forall ss, In ss (v_sess s) -> s_timer ss = true) ->
  exists s', drain g s sl = Some s' /\ Inv s' /\ v_conns s' = [] /\
             (forall x, In x (v_sess s') -> In x (v_sess s) /\ ~ In (s_id x) (map s_id sl)).
Proof.
  induction sl as [|x t IH]; intros s I Hc Ht; cbn [drain].
  - exists s. split; [reflexivity|]. split; [exact I|]. split; [exact Hc|]. intros y Hy. split; [exact Hy | intros []].
  - cbn [step]. destruct (find_sess (s_id x) (v_sess s)) as [ss|] eqn:F.
    + pose proof (find_sess_In _ _ _ F) as [Hs Hid]. rewrite (Ht ss Hs).
      destruct (end_session_ok None s (s_id x) I) as (s1 & E & I1 & _ & _). rewrite E.
      destruct (end_session_shape _ _ _ _ F E) as [Hse Hce].
      assert (Hc1 : v_conns s1 = []) by (rewrite Hce, Hc; reflexivity).
      destruct (IH s1 I1 Hc1) as (s' & D & I' & Hc' & Hx').
      { intros y Hy. rewrite Hse in Hy. apply In_del_sess in Hy. apply Ht. tauto. }
      exists s'. split; [exact D|]. split; [exact I'|]. split; [exact Hc'|].
      intros y Hy. destruct (Hx' y Hy) as [A B]. rewrite Hse in A. apply In_del_sess in A. destruct A as [A1 A2].
      split; [exact A1|]. cbn [map In]. intros [E0|Hin]; [apply A2; symmetry; exact E0 | exact (B Hin)].
    + destruct (IH s I Hc Ht) as (s' & D & I' & Hc' & Hx'). exists s'.
      split; [exact D|]. split; [exact I'|]. split; [exact Hc'|].
      intros y Hy. destruct (Hx' y Hy) as [A B]. split; [exact A|]. cbn [map In]. intros [E0|Hin]; [|exact (B Hin)].
      apply find_sess_None in F. apply F. rewrite E0. apply in_map. exact A.
Qed.

(* resources_released: in every reachable state without connections, every remaining session has its
   timer armed, and once those timers have fired no session is left, the multicast reader count is 0
   and the multicast writers are released *)
Theorem resources_released g evs s os :
  0 < c_nmedias g -> run_events g srv0 evs = Some (s, os) -> v_conns s = [] ->
  (forall ss, In ss (v_sess s) -> s_timer ss = true) /\
  exists s', drain g s (v_sess s) = Some s' /\
             v_conns s' = [] /\ v_sess s' = [] /\ v_mcount s' = 0 /\ v_mwriters s' = false.
Proof.
  intros Hnm H Hc. destruct (run_events_LInv g evs srv0 s os Inv_srv0 LInv_srv0 Hnm H) as [I L].
  pose proof (quiescent_timers s L Hc) as Ht. split; [exact Ht|].
  destruct (drain_empties g (v_sess s) s I Hc Ht) as (s' & D & I' & Hc' & Hx).
  exists s'. split; [exact D|]. split; [exact Hc'|].
  assert (Hs : v_sess s' = []).
  { destruct (v_sess s') as [|y l] eqn:E; [reflexivity|]. exfalso.
    destruct (Hx y (or_introl eq_refl)) as [A B]. apply B. apply in_map. exact A. }
  split; [exact Hs|]. pose proof (inv_mcount _ s' I') as Mc. rewrite Hs in Mc. cbn in Mc.
  split; [exact Mc|]. pose proof (inv_mwr _ s' I') as Mw. rewrite Mc in Mw.
  destruct (v_mwriters s'); [|reflexivity]. exfalso. destruct Mw as [Mw _]. specialize (Mw eq_refl). lia.
Qed.

(* every session of every reachable state can be ended: by its timer, or by closing a connection that
   exists and is paired with it *)
Theorem sessions_mortal g evs s os ss :
  0 < c_nmedias g -> run_events g srv0 evs = Some (s, os) -> In ss (v_sess s) ->
  s_timer ss = true \/ exists c, In c (v_conns s) /\ In (c_id c) (s_conns ss) /\ c_sess c = Some (s_id ss).
Proof.
  intros Hnm H Hs. destruct (run_events_LInv g evs srv0 s os Inv_srv0 LInv_srv0 Hnm H) as [I L].
  destruct (nontcp_running ss) eqn:E.
  - left. apply (l_timer _ _ _ L ss Hs). exact E.
  - right. pose proof (l_inuse _ _ _ L ss Hs) as Hn. destruct (s_conns ss) as [|k l] eqn:Ek.
    + exfalso. apply Hn; [discriminate | exact E | reflexivity].
    + destruct (l_alive _ _ _ L ss k Hs) as (c & A & B & C); [rewrite Ek; left; reflexivity|].
      exists c. split; [exact A|]. split; [rewrite B; left; reflexivity | exact C].
Qed.

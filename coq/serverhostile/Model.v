(* Executable model of the request-validation layer and of the resource ledger of the gortsplib
   server (C11).  Transcribed from server_conn.go (handleRequestInner, handleRequestInSession,
   handleRequestOuter), server_conn_reader.go (readFuncStandard / readFuncTCP), server_session.go
   (runInner, handleRequestInner: every early return with its status; run: the close path),
   server_stream.go (readerAdd / readerRemove / readerSetActive / readerSetInactive),
   server_session_media.go (start / stop) and server_udp_listener.go (addClient / removeClient).

   Requests are *parsed* requests: what the header / SDP / URL parsers hand to this layer.  Every
   nil-able Go field is an [option]/[bool] here and every dereference is checked: a step that would
   dereference nil, index out of range or fail an unchecked type assertion returns [None] (= Panic).
   Proof-free. *)
From GVL Require Import NList Wire.
From GVG Require Import Consts.
Open Scope N_scope.

(* status codes: pkg/base, regenerated from the Go source on every run *)
Notation st200 := shost_status_ok.
Notation st400 := shost_status_bad_request.
Notation st404 := shost_status_not_found.
Notation st454 := shost_status_session_not_found.
Notation st461 := shost_status_unsupported_transport.
Notation st501 := shost_status_not_implemented.

(* ------------------------------------------------------------------ configuration *)
Record cfg := mkCfg {
  h_describe : bool; h_announce : bool; h_setup : bool; h_play : bool;     (* handler implements ... *)
  h_record : bool; h_pause : bool; h_getparam : bool; h_setparam : bool;
  c_udp : bool;        (* s.udpRTPListener != nil *)
  c_mcast : bool;      (* s.MulticastIPRange != "" *)
  c_tls : bool;        (* s.TLSConfig != nil *)
  c_nmedias : N }.     (* len(stream.Desc.Medias) of the served stream *)

(* ------------------------------------------------------------------ parsed requests *)
Inductive method := MOptions | MDescribe | MAnnounce | MSetup | MPlay | MRecord | MPause
                  | MTeardown | MGetParam | MSetParam | MOther.

Inductive proto := PUDP | PTCP.                 (* headers.TransportProtocol *)
Inductive sproto := SPUDP | SPMcast | SPTCP.    (* gortsplib.Protocol *)
Inductive tmode := TMPlay | TMRecord.

Record transport := mkTr {
  t_proto : proto;
  t_mcast : bool;                 (* Delivery != nil && *Delivery == multicast *)
  t_secure : bool;                (* Profile == SAVP *)
  t_cports : option (N * N);      (* ClientPorts *)
  t_inter : option (N * N);       (* InterleavedIDs *)
  t_mode : option tmode }.

Inductive track := TrEmpty | TrNum (n : N) | TrBad.
Inductive ctype := CTMissing | CTOther | CTSdp.

Record req := mkReq {
  r_method : method;
  r_cseq : bool;                          (* exactly one CSeq header *)
  r_url : bool;                           (* req.URL != nil *)
  r_sess : option N;                      (* getSessionID: Some id iff exactly one non-empty Session header *)
  r_path : N;                             (* getPathAndQuery(req.URL).path, as an identifier *)
  r_verdict : bool;                       (* the application's handler answers 200 *)
  r_verdict_play : bool;                  (* SETUP in a playing session: the handler answers 200 *)
  r_ctype : ctype;                        (* ANNOUNCE: Content-Type *)
  r_sdp : option N;                       (* ANNOUNCE: media count of an SDP accepted by the SDP layers *)
  r_transports : option (list transport); (* SETUP: Transport header list; None = absent / unparsable *)
  r_keymgmt : bool;                       (* SETUP: KeyMgmt parses and mikeyToContext accepts it *)
  r_play_url : option (N * track);        (* SETUP: getPathAndQueryAndTrackID *)
  r_rec_media : option N;                 (* SETUP: findMediaByURL in the announced description *)
  r_udp_write_ok : bool }.                (* RECORD: the firewall-opening UDP writes succeed *)

Inductive event :=
| EReq (r : req)
| EFrame (ch : N)        (* an interleaved frame *)
| EResponse              (* an RTSP response sent by the peer *)
| EGarbage               (* bytes that conn.Read rejects *)
| EClose.                (* EOF, reset or read deadline *)

Inductive sevent :=
| SNew (ip : N) (tunnel : bool)     (* accept *)
| SConn (c : N) (e : event)
| STimeout (sid : N)                (* udpCheckStreamTimer fires and the peer was silent *)
| SWriterErr (sid : N).             (* the session's writer fails (chWriterError), e.g. its TCP connection is gone *)

Inductive outcome :=
| OResp (status : N) (closes : bool) (adv : option N)
                                       (* exactly one response; then the connection is closed or not;
                                          adv = the session id carried by the response's Session header *)
| OClosed                              (* no response, connection closed *)
| OIgnored.                            (* nothing to answer (frame in TCP mode, accept, timer) *)

(* ------------------------------------------------------------------ state *)
Inductive sstate := SInitial | SPrePlay | SPlay | SPreRecord | SRecord.

Record smedia := mkSM { m_idx : N; m_chan : N; m_rtp : N; m_rtcp : N }.

Record session := mkSess {
  s_id : N;                          (* secretID *)
  s_ip : N;                          (* author.ip() *)
  s_conns : list N;
  s_state : sstate;
  s_tr : option (sproto * bool);     (* setuppedTransport *)
  s_medias : list smedia;            (* setuppedMediasOrdered *)
  s_path : N;
  s_stream : bool;                   (* setuppedStream != nil *)
  s_announced : option N;            (* len(announcedDesc.Medias) *)
  s_tcpconn : option N;
  s_writer : bool;                   (* writer != nil *)
  s_timer : bool }.                  (* udpCheckStreamTimer armed *)

Record conn := mkConn {
  c_id : N; c_ip : N; c_tunnel : bool;
  c_sess : option N;                 (* sc.session *)
  c_tcp : bool }.                    (* reader is in readFuncTCP *)

Definition ukey := (N * N)%type.     (* clientAddr: ip, port *)

Record server := mkSrv {
  v_conns : list conn;               (* Server.conns *)
  v_sess : list session;             (* Server.sessions *)
  v_readers : list N;                (* stream.readers (session ids) *)
  v_active : list N;                 (* stream.activeUnicastReaders *)
  v_mcount : N;                      (* stream.multicastReaderCount *)
  v_mwriters : bool;                 (* multicast writers allocated *)
  v_rtp : list (ukey * N);           (* udpRTPListener.clients: key -> owner session *)
  v_rtcp : list (ukey * N);          (* udpRTCPListener.clients *)
  v_next : N }.                      (* fresh identifiers (sessions and connections) *)

Definition srv0 : server := mkSrv [] [] [] [] 0 false [] [] 1.

(* ------------------------------------------------------------------ small decidable things *)
Definition sstate_eqb (a b : sstate) : bool :=
  match a, b with
  | SInitial, SInitial | SPrePlay, SPrePlay | SPlay, SPlay | SPreRecord, SPreRecord | SRecord, SRecord => true
  | _, _ => false
  end.
Definition sproto_eqb (a b : sproto) : bool :=
  match a, b with SPUDP, SPUDP | SPMcast, SPMcast | SPTCP, SPTCP => true | _, _ => false end.
Definition tr_eqb (a b : sproto * bool) : bool := sproto_eqb (fst a) (fst b) && Bool.eqb (snd a) (snd b).
Definition key_eqb (a b : ukey) : bool := (fst a =? fst b) && (snd a =? snd b).
Definition opt_eqb (a : option N) (b : N) : bool := match a with Some x => x =? b | None => false end.
Fixpoint nmem (x : N) (l : list N) : bool :=
  match l with [] => false | y :: t => (x =? y) || nmem x t end.
Definition nremove (x : N) (l : list N) : list N := filter (fun y => negb (y =? x)) l.
Definition nadd (x : N) (l : list N) : list N := if nmem x l then l else x :: l.   (* map insert *)

(* ------------------------------------------------------------------ tables *)
Fixpoint find_sess (sid : N) (l : list session) : option session :=
  match l with [] => None | x :: t => if s_id x =? sid then Some x else find_sess sid t end.
Fixpoint find_conn (cid : N) (l : list conn) : option conn :=
  match l with [] => None | x :: t => if c_id x =? cid then Some x else find_conn cid t end.
Definition put_sess (ss : session) (l : list session) : list session :=
  map (fun x => if s_id x =? s_id ss then ss else x) l.
Definition put_conn (c : conn) (l : list conn) : list conn :=
  map (fun x => if c_id x =? c_id c then c else x) l.
Definition del_sess (sid : N) (l : list session) : list session := filter (fun x => negb (s_id x =? sid)) l.
Definition del_conn (cid : N) (l : list conn) : list conn := filter (fun x => negb (c_id x =? cid)) l.

(* serverUDPListener.addClient / removeClient: a Go map keyed by (ip, port) *)
Definition udp_del (k : ukey) (l : list (ukey * N)) : list (ukey * N) :=
  filter (fun e => negb (key_eqb (fst e) k)) l.
Definition udp_add (k : ukey) (owner : N) (l : list (ukey * N)) : list (ukey * N) :=
  (k, owner) :: udp_del k l.

Definition set_sess (s : server) (ss : session) : server :=
  mkSrv (v_conns s) (put_sess ss (v_sess s)) (v_readers s) (v_active s) (v_mcount s) (v_mwriters s)
        (v_rtp s) (v_rtcp s) (v_next s).
Definition set_conn (s : server) (c : conn) : server :=
  mkSrv (put_conn c (v_conns s)) (v_sess s) (v_readers s) (v_active s) (v_mcount s) (v_mwriters s)
        (v_rtp s) (v_rtcp s) (v_next s).

(* record updates of a session *)
Definition ss_with_conns (ss : session) (l : list N) : session :=
  mkSess (s_id ss) (s_ip ss) l (s_state ss) (s_tr ss) (s_medias ss) (s_path ss) (s_stream ss)
         (s_announced ss) (s_tcpconn ss) (s_writer ss) (s_timer ss).
Definition ss_with_writer (ss : session) (w : bool) : session :=
  mkSess (s_id ss) (s_ip ss) (s_conns ss) (s_state ss) (s_tr ss) (s_medias ss) (s_path ss) (s_stream ss)
         (s_announced ss) (s_tcpconn ss) w (s_timer ss).

(* ------------------------------------------------------------------ transport admission *)
(* isTransportSupported *)
Definition is_supported (g : cfg) (c : conn) (t : transport) : bool :=
  match t_proto t with
  | PUDP =>
      (if t_mcast t then c_mcast g else c_udp g)
      && negb (c_tunnel c)
      && (t_secure t || negb (c_tls g))
  | PTCP => true
  end
  && (negb (t_secure t) || c_tls g).

(* pickFirstSupportedTransport *)
Fixpoint pick_first (g : cfg) (c : conn) (ts : list transport) : option transport :=
  match ts with
  | [] => None
  | t :: r => if is_supported g c t then Some t else pick_first g c r
  end.

Definition proto_of (t : transport) : sproto :=
  match t_proto t with
  | PUDP => if t_mcast t then SPMcast else SPUDP
  | PTCP => SPTCP
  end.

(* isChannelPairInUse *)
Definition chan_in_use (ms : list smedia) (ch : N) : bool :=
  existsb (fun m => (m_chan m + 1 =? ch) || (m_chan m =? ch) || (m_chan m =? ch + 1)) ms.

(* findFreeChannelPair: for i := 0; ; i += 2.  The fuel (three times the media list) is enough for
   the loop to end (proved); running out of fuel would be a non-terminating Go loop. *)
Fixpoint find_free_aux (fuel : list smedia) (ms : list smedia) (i : N) : option N :=
  if chan_in_use ms i then
    match fuel with
    | [] => None
    | _ :: f => find_free_aux f ms (i + 2)
    end
  else Some i.
Definition find_free (ms : list smedia) : option N := find_free_aux (ms ++ ms ++ ms) ms 0.

(* findMediaByTrackID on a stream with n medias: the index of the media *)
Definition media_by_track (n : N) (t : track) : option (option N) :=   (* None = panic *)
  match t with
  | TrEmpty => if 0 <? n then Some (Some 0) else None                    (* medias[0] *)
  | TrNum k => Some (if k <? n then Some k else None)
  | TrBad => Some None
  end.

(* ------------------------------------------------------------------ the SETUP decision tree *)
Inductive setup_decision :=
| SetupReject (status : N) (err : bool)     (* err: the request error closes the connection *)
| SetupAccept (th : transport) (p : sproto) (path : N) (trk : track).

(* server_session.go:822-963, up to the call of the OnSetup handler *)
Definition validate_setup (g : cfg) (c : conn) (ss : session) (r : req) : setup_decision :=
  match s_state ss with
  | SPlay | SRecord => SetupReject st400 true                                   (* checkState *)
  | _ =>
  match r_transports r with
  | None => SetupReject st400 true                                              (* ErrServerTransportHeaderInvalid *)
  | Some ts =>
  match pick_first g c ts with
  | None => SetupReject st461 false                                             (* StatusUnsupportedTransport *)
  | Some th =>
  let playing := match s_state ss with SInitial | SPrePlay => true | _ => false end in
  let pathres :=
    if playing then
      match r_play_url r with
      | None => None                                                          (* ErrServerInvalidSetupPath *)
      | Some (p, trk) =>
          if sstate_eqb (s_state ss) SPrePlay && negb (p =? s_path ss)
          then None                                                           (* ErrServerMediasDifferentPaths *)
          else Some (p, trk)
      end
    else Some (s_path ss, TrBad) in
  match pathres with
  | None => SetupReject st400 true
  | Some (path, trk) =>
  let p := proto_of th in
  if t_secure th && negb (r_keymgmt r) then SetupReject st400 true              (* ErrServerInvalidKeyMgmtHeader *)
  else if match s_tr ss with Some old => negb (tr_eqb old (p, t_secure th)) | None => false end
  then SetupReject st400 true                                                   (* ErrServerMediasDifferentTransports *)
  else if match p with
          | SPUDP => match t_cports th with None => true | Some _ => false end          (* NoClientPorts *)
          | SPTCP => match t_inter th with
                     | Some (a, b) => negb (a + 1 =? b) || chan_in_use (s_medias ss) a  (* InvalidInterleavedIDs / InUse *)
                     | None => false
                     end
          | SPMcast => false
          end
  then SetupReject st400 true
  else if playing then
    match t_mode th with
    | Some TMRecord => SetupReject st400 true                                   (* ErrServerTransportHeaderInvalidMode *)
    | _ => SetupAccept th p path trk
    end
  else
    match p with
    | SPMcast => SetupReject st461 false
    | _ => match t_mode th with
           | Some TMRecord => SetupAccept th p path trk
           | _ => SetupReject st400 true
           end
    end
  end end end end.

(* ------------------------------------------------------------------ the ANNOUNCE decision tree *)
(* server_session.go:750-800, up to the call of the OnAnnounce handler; description.Unmarshal2
   rejects an SDP without medias (pkg/description/session.go:127) *)
Definition validate_announce (ss : session) (r : req) : option N :=     (* Some n: accepted, n medias *)
  match s_state ss with
  | SInitial =>
      match r_ctype r with
      | CTSdp => match r_sdp r with
                 | Some n => if 0 <? n then Some n else None
                 | None => None
                 end
      | _ => None
      end
  | _ => None
  end.

(* ------------------------------------------------------------------ ledger operations *)
(* stream.readerSetInactive *)
Definition reader_set_inactive (s : server) (ss : session) : option server :=
  match s_tr ss with
  | None => None                                             (* ss.setuppedTransport.Protocol *)
  | Some (SPMcast, _) => if v_mwriters s then Some s else None   (* multicastWriter.rtcpl.removeClient *)
  | Some _ =>
      Some (mkSrv (v_conns s) (v_sess s) (v_readers s) (nremove (s_id ss) (v_active s)) (v_mcount s)
                  (v_mwriters s) (v_rtp s) (v_rtcp s) (v_next s))
  end.

(* stream.readerSetActive *)
Definition reader_set_active (s : server) (ss : session) : option server :=
  match s_tr ss with
  | None => None
  | Some (SPMcast, _) => if v_mwriters s then Some s else None
  | Some _ =>
      Some (mkSrv (v_conns s) (v_sess s) (v_readers s) (nadd (s_id ss) (v_active s)) (v_mcount s)
                  (v_mwriters s) (v_rtp s) (v_rtcp s) (v_next s))
  end.

(* stream.readerRemove *)
Definition reader_remove (s : server) (ss : session) : option server :=
  match s_tr ss with
  | None => None
  | Some (SPMcast, _) =>
      let n := N.pred (v_mcount s) in                        (* multicastReaderCount-- *)
      if n =? 0 then
        if v_mwriters s                                      (* media.multicastWriter.close() *)
        then Some (mkSrv (v_conns s) (v_sess s) (nremove (s_id ss) (v_readers s)) (v_active s) n false
                         (v_rtp s) (v_rtcp s) (v_next s))
        else None
      else Some (mkSrv (v_conns s) (v_sess s) (nremove (s_id ss) (v_readers s)) (v_active s) n (v_mwriters s)
                       (v_rtp s) (v_rtcp s) (v_next s))
  | Some _ =>
      Some (mkSrv (v_conns s) (v_sess s) (nremove (s_id ss) (v_readers s)) (v_active s) (v_mcount s)
                  (v_mwriters s) (v_rtp s) (v_rtcp s) (v_next s))
  end.

(* stream.readerAdd: Some (inl s') = added, Some (inr tt) = refused (ports in use), None = panic.
   The loop over st.readers dereferences r.setuppedTransport of every reader. *)
Fixpoint ports_conflict (sl : list session) (ss : session) (port : N) (rs : list N) : option bool :=
  match rs with
  | [] => Some false
  | rid :: t =>
      match find_sess rid sl with
      | None => ports_conflict sl ss port t
      | Some r =>
          match s_tr r with
          | None => None                                     (* r.setuppedTransport.Protocol *)
          | Some (SPUDP, _) =>
              if (s_ip r =? s_ip ss) && existsb (fun m => m_rtp m =? port) (s_medias r)
              then Some true
              else ports_conflict sl ss port t
          | Some _ => ports_conflict sl ss port t
          end
      end
  end.

Definition reader_add (s : server) (ss : session) (cports : option (N * N)) : option (server + unit) :=
  match s_tr ss with
  | None => None
  | Some (SPUDP, _) =>
      match cports with
      | None => None                                          (* clientPorts[0] *)
      | Some (p0, _) =>
          match ports_conflict (v_sess s) ss p0 (v_readers s) with
          | None => None
          | Some true => Some (inr tt)
          | Some false =>
              Some (inl (mkSrv (v_conns s) (v_sess s) (nadd (s_id ss) (v_readers s)) (v_active s) (v_mcount s)
                               (v_mwriters s) (v_rtp s) (v_rtcp s) (v_next s)))
          end
      end
  | Some (SPMcast, _) =>
      Some (inl (mkSrv (v_conns s) (v_sess s) (nadd (s_id ss) (v_readers s)) (v_active s) (v_mcount s + 1)
                       (if v_mcount s =? 0 then true else v_mwriters s) (v_rtp s) (v_rtcp s) (v_next s)))
  | Some (SPTCP, _) =>
      Some (inl (mkSrv (v_conns s) (v_sess s) (nadd (s_id ss) (v_readers s)) (v_active s) (v_mcount s)
                       (v_mwriters s) (v_rtp s) (v_rtcp s) (v_next s)))
  end.

(* serverSessionMedia.stop for every setupped media *)
Fixpoint stop_medias (ip : N) (ms : list smedia) (rtp rtcp : list (ukey * N)) : list (ukey * N) * list (ukey * N) :=
  match ms with
  | [] => (rtp, rtcp)
  | m :: t => stop_medias ip t (udp_del (ip, m_rtp m) rtp) (udp_del (ip, m_rtcp m) rtcp)
  end.

Definition medias_stop (s : server) (ss : session) : option server :=
  match s_medias ss with
  | [] => Some s
  | _ =>
      match s_tr ss with
      | None => None                                         (* ssm.ss.setuppedTransport.Protocol *)
      | Some (SPUDP, _) =>
          let '(a, b) := stop_medias (s_ip ss) (s_medias ss) (v_rtp s) (v_rtcp s) in
          Some (mkSrv (v_conns s) (v_sess s) (v_readers s) (v_active s) (v_mcount s) (v_mwriters s) a b (v_next s))
      | Some _ => Some s
      end
  end.

(* serverSessionMedia.start in state PLAY over UDP: RTCP registration only *)
Fixpoint start_play (ip sid : N) (ms : list smedia) (rtcp : list (ukey * N)) : list (ukey * N) :=
  match ms with
  | [] => rtcp
  | m :: t => start_play ip sid t (udp_add (ip, m_rtcp m) sid rtcp)
  end.
(* ... in state RECORD over UDP: both registrations *)
Fixpoint start_record (ip sid : N) (ms : list smedia) (rtp rtcp : list (ukey * N)) : list (ukey * N) * list (ukey * N) :=
  match ms with
  | [] => (rtp, rtcp)
  | m :: t => start_record ip sid t (udp_add (ip, m_rtp m) sid rtp) (udp_add (ip, m_rtcp m) sid rtcp)
  end.

(* ServerSession.run after runInner returned: close the attached connections, leave the stream,
   close the medias, destroy the writer, leave Server.sessions *)
Definition end_session (s : server) (sid : N) : option server :=
  match find_sess sid (v_sess s) with
  | None => Some s
  | Some ss =>
      let s1 := mkSrv (filter (fun c => negb (nmem (c_id c) (s_conns ss))) (v_conns s)) (v_sess s) (v_readers s)
                      (v_active s) (v_mcount s) (v_mwriters s) (v_rtp s) (v_rtcp s) (v_next s) in
      match (if s_stream ss
             then match reader_set_inactive s1 ss with
                  | Some s2 => reader_remove s2 ss
                  | None => None
                  end
             else Some s1) with
      | None => None
      | Some s3 =>
          match medias_stop s3 ss with
          | None => None
          | Some s4 =>
              Some (mkSrv (v_conns s4) (del_sess sid (v_sess s4)) (v_readers s4) (v_active s4) (v_mcount s4)
                          (v_mwriters s4) (v_rtp s4) (v_rtcp s4) (v_next s4))
          end
      end
  end.

(* ServerConn.run after runInner returned: leave the session (chRemoveConn), leave Server.conns *)
Definition close_conn (s : server) (cid : N) : option server :=
  match find_conn cid (v_conns s) with
  | None => Some s
  | Some c =>
      let s1 := mkSrv (del_conn cid (v_conns s)) (v_sess s) (v_readers s) (v_active s) (v_mcount s)
                      (v_mwriters s) (v_rtp s) (v_rtcp s) (v_next s) in
      match c_sess c with
      | None => Some s1
      | Some sid =>
          match find_sess sid (v_sess s1) with
          | None => Some s1
          | Some ss =>
              let ss' := ss_with_conns ss (nremove cid (s_conns ss)) in
              let s2 := set_sess s1 ss' in
              let running := match s_state ss' with SRecord | SPlay => true | _ => false end in
              if negb running then
                (match s_conns ss' with [] => end_session s2 sid | _ => Some s2 end)
              else
                match s_tr ss' with
                | None => None                                 (* ss.setuppedTransport.Protocol *)
                | Some (SPTCP, _) => (match s_conns ss' with [] => end_session s2 sid | _ => Some s2 end)
                | Some _ => Some s2
                end
          end
      end
  end.

(* ------------------------------------------------------------------ session-level request handling *)
Inductive rerr := RNone | RErr | RSwitch (tcp : bool).     (* the error returned beside the response *)

Definition sres := option (server * session * N * rerr).   (* None = panic *)

Definition sess_setup (g : cfg) (s : server) (c : conn) (ss : session) (r : req) : sres :=
  match validate_setup g c ss r with
  | SetupReject st e => Some (s, ss, st, if e then RErr else RNone)
  | SetupAccept th p path trk =>
      if negb (h_setup g) then None else                                   (* Handler.(ServerHandlerOnSetup) *)
      let playing := match s_state ss with SInitial | SPrePlay => true | _ => false end in
      if negb (if playing then r_verdict_play r else r_verdict r) then Some (s, ss, st404, RNone) else
      match (if playing then media_by_track (c_nmedias g) trk
             else match s_announced ss with                                 (* ss.announcedDesc.Medias *)
                  | None => None
                  | Some n => Some (match r_rec_media r with
                                    | Some k => if k <? n then Some k else None
                                    | None => None
                                    end)
                  end) with
      | None => None
      | Some None => Some (s, ss, st400, RErr)                                (* ErrServerMediaNotFound *)
      | Some (Some k) =>
          if existsb (fun m => m_idx m =? k) (s_medias ss) then Some (s, ss, st400, RErr)   (* AlreadySetup *)
          else
          let ss1 := mkSess (s_id ss) (s_ip ss) (s_conns ss) (s_state ss) (Some (p, t_secure th)) (s_medias ss)
                            (s_path ss) (s_stream ss) (s_announced ss) (s_tcpconn ss) (s_writer ss) (s_timer ss) in
          match (if sstate_eqb (s_state ss) SInitial then reader_add s ss1 (t_cports th) else Some (inl s)) with
          | None => None
          | Some (inr _) => Some (s, ss, st400, RErr)             (* setuppedTransport = nil again; ports in use *)
          | Some (inl s1) =>
              match (match p with
                     | SPUDP =>
                         match t_cports th with
                         | Some (a, b) => if c_udp g then Some (mkSM k 0 a b) else None   (* udpRTPListener.port() *)
                         | None => None                                                   (* ClientPorts[0] *)
                         end
                     | SPMcast => if v_mwriters s1 then Some (mkSM k 0 0 0) else None     (* multicastWriter.ip *)
                     | SPTCP =>
                         match t_inter th with
                         | Some (a, _) => Some (mkSM k a 0 0)
                         | None => match find_free (s_medias ss) with
                                   | Some ch => Some (mkSM k ch 0 0)
                                   | None => None
                                   end
                         end
                     end) with
              | None => None
              | Some sm =>
                  let ss2 :=
                    if sstate_eqb (s_state ss) SInitial
                    then mkSess (s_id ss) (s_ip ss) (s_conns ss) SPrePlay (Some (p, t_secure th))
                                (s_medias ss ++ [sm]) path true (s_announced ss) (s_tcpconn ss) (s_writer ss) (s_timer ss)
                    else mkSess (s_id ss) (s_ip ss) (s_conns ss) (s_state ss) (Some (p, t_secure th))
                                (s_medias ss ++ [sm]) (s_path ss) (s_stream ss) (s_announced ss) (s_tcpconn ss)
                                (s_writer ss) (s_timer ss) in
                  Some (s1, ss2, st200, RNone)
              end
          end
      end
  end.

Definition sess_announce (g : cfg) (s : server) (ss : session) (r : req) : sres :=
  match validate_announce ss r with
  | None => Some (s, ss, st400, RErr)
  | Some n =>
      if negb (h_announce g) then None else                                (* Handler.(ServerHandlerOnAnnounce) *)
      if r_verdict r
      then Some (s, mkSess (s_id ss) (s_ip ss) (s_conns ss) SPreRecord (s_tr ss) (s_medias ss) (r_path r) (s_stream ss)
                           (Some n) (s_tcpconn ss) (s_writer ss) (s_timer ss), st200, RNone)
      else Some (s, ss, st404, RNone)
  end.

Definition sess_play (g : cfg) (s : server) (c : conn) (ss : session) (r : req) : sres :=
  match s_state ss with
  | SPrePlay | SPlay =>
      if sstate_eqb (s_state ss) SPrePlay && negb (r_path r =? s_path ss) then Some (s, ss, st400, RErr) else
      match s_tr ss with
      | None => None                                                       (* ss.setuppedTransport.Protocol *)
      | Some (p, _) =>
          let fresh := negb (sstate_eqb (s_state ss) SPlay) in
          let create := fresh && negb (sproto_eqb p SPMcast) in
          let w := if create then true else s_writer ss in                 (* createWriter *)
          if negb (h_play g) then None else
          if r_verdict r then
            if fresh then
              let rtcp' := match p with
                           | SPUDP => start_play (s_ip ss) (s_id ss) (s_medias ss) (v_rtcp s)
                           | _ => v_rtcp s
                           end in
              let s1 := mkSrv (v_conns s) (v_sess s) (v_readers s) (v_active s) (v_mcount s) (v_mwriters s)
                              (v_rtp s) rtcp' (v_next s) in
              if match p with SPUDP => negb w | _ => false end then None else   (* startWriter: ss.writer.Start() *)
              let ss1 := mkSess (s_id ss) (s_ip ss) (s_conns ss) SPlay (s_tr ss) (s_medias ss) (s_path ss) (s_stream ss)
                                (s_announced ss)
                                (match p with SPTCP => Some (c_id c) | _ => s_tcpconn ss end) w
                                (match p with SPTCP => s_timer ss | _ => true end) in
              if negb (s_stream ss) then None else                         (* ss.setuppedStream.readerSetActive *)
              match reader_set_active s1 ss1 with
              | None => None
              | Some s2 => Some (s2, ss1, st200, match p with SPTCP => RSwitch true | _ => RNone end)
              end
            else Some (s, ss_with_writer ss w, st200, RNone)
          else
            Some (s, ss_with_writer ss (if create then false else w), st404, RNone)   (* destroyWriter *)
      end
  | _ => Some (s, ss, st400, RErr)
  end.

Definition sess_record (g : cfg) (s : server) (c : conn) (ss : session) (r : req) : sres :=
  match s_state ss with
  | SPreRecord =>
      match s_announced ss with
      | None => None                                                       (* ss.announcedDesc.Medias *)
      | Some n =>
          if negb (nlen (s_medias ss) =? n) then Some (s, ss, st400, RErr) else      (* NotAllAnnouncedMediasSetup *)
          if negb (r_path r =? s_path ss) then Some (s, ss, st400, RErr) else         (* PathHasChanged *)
          if negb (h_record g) then None else
          if r_verdict r then
            match s_tr ss with
            | None => None                                                 (* ss.setuppedTransport.Protocol *)
            | Some (p, _) =>
                match p with
                | SPUDP =>
                    (* the firewall-opening writes go to the client ports the SESSION was set up with; sendto()
                       refuses port 0. (r_udp_write_ok, the harness's own guess, is not consulted: a mutation may
                       put "client_port=0-1" on a request other than the SETUP that counted) *)
                    if existsb (fun m => (m_rtp m =? 0) || (m_rtcp m =? 0)) (s_medias ss)
                    then (* sm.start() failed (medias are started before the state changes, fix ba05e77):
                            the started medias are stopped, the writer is destroyed, the state stays PreRecord *)
                      Some (s, ss_with_writer ss false, st400, RErr)
                    else
                      let '(a, b) := start_record (s_ip ss) (s_id ss) (s_medias ss) (v_rtp s) (v_rtcp s) in
                      Some (mkSrv (v_conns s) (v_sess s) (v_readers s) (v_active s) (v_mcount s) (v_mwriters s) a b (v_next s),
                            mkSess (s_id ss) (s_ip ss) (s_conns ss) SRecord (s_tr ss) (s_medias ss) (s_path ss)
                                   (s_stream ss) (s_announced ss) (s_tcpconn ss) true true, st200, RNone)
                | _ =>
                    Some (s, mkSess (s_id ss) (s_ip ss) (s_conns ss) SRecord (s_tr ss) (s_medias ss) (s_path ss)
                                    (s_stream ss) (s_announced ss) (Some (c_id c)) true (s_timer ss), st200, RSwitch true)
                end
            end
          else Some (s, ss_with_writer ss false, st404, RNone)               (* createWriter; destroyWriter *)
      end
  | _ => Some (s, ss, st400, RErr)
  end.

Definition sess_pause (g : cfg) (s : server) (ss : session) (r : req) : sres :=
  match s_state ss with
  | SInitial => Some (s, ss, st400, RErr)
  | _ =>
      if negb (h_pause g) then None else
      if negb (r_verdict r) then Some (s, ss, st404, RNone) else
      match s_state ss with
      | SPlay | SRecord =>
          match s_tr ss with
          | None => None
          | Some (p, _) =>
              if negb (sproto_eqb p SPMcast) && negb (s_writer ss) then None else    (* destroyWriter: ss.writer.Close() *)
              let w := if sproto_eqb p SPMcast then s_writer ss else false in
              match (if s_stream ss then reader_set_inactive s ss else Some s) with
              | None => None
              | Some s1 =>
                  match medias_stop s1 ss with
                  | None => None
                  | Some s2 =>
                      let st' := match s_state ss with SPlay => SPrePlay | _ => SPreRecord end in
                      let tcp := match s_state ss, p with
                                 | SPlay, SPTCP => true
                                 | SPlay, _ => false
                                 | _, SPUDP => false
                                 | _, _ => true
                                 end in
                      Some (s2, mkSess (s_id ss) (s_ip ss) (s_conns ss) st' (s_tr ss) (s_medias ss) (s_path ss)
                                       (s_stream ss) (s_announced ss) (if tcp then None else s_tcpconn ss) w
                                       (if tcp then s_timer ss else false),
                            st200, if tcp then RSwitch false else RNone)
                  end
              end
          end
      | _ => Some (s, ss, st200, RNone)
      end
  end.

Definition sess_teardown (s : server) (ss : session) : sres :=
  match s_state ss with
  | SPlay | SRecord =>
      match s_tr ss with
      | None => None
      | Some (SPTCP, _) => Some (s, ss, st200, RSwitch false)
      | Some _ => Some (s, ss, st200, RNone)
      end
  | _ => Some (s, ss, st200, RNone)
  end.

(* ServerSession.handleRequestInner *)
Definition sess_inner (g : cfg) (s : server) (c : conn) (ss : session) (r : req) : sres :=
  if match s_tcpconn ss with Some t => negb (t =? c_id c) | None => false end
  then Some (s, ss, st400, RErr)                                             (* SessionLinkedToOtherConn *)
  else
  if match r_method r with
     | MAnnounce | MPause | MGetParam | MSetParam | MPlay | MRecord | MSetup => negb (r_url r)
     | _ => false
     end then None else                                                    (* getPathAndQuery(req.URL) *)
  match r_method r with
  | MOptions => Some (s, ss, st200, RNone)
  | MAnnounce => sess_announce g s ss r
  | MSetup => sess_setup g s c ss r
  | MPlay => sess_play g s c ss r
  | MRecord => sess_record g s c ss r
  | MPause => sess_pause g s ss r
  | MTeardown => sess_teardown s ss
  | MGetParam => Some (s, ss, st200, RNone)
  | MSetParam => if h_setparam g then Some (s, ss, st200, RNone) else Some (s, ss, st501, RNone)
  | _ => Some (s, ss, st501, RNone)
  end.

(* what a request step reports: the response, the error beside it and the session the connection is
   paired with afterwards *)
Definition cres := option (server * N * rerr * option N * option N).
(* (state, status, error, session paired with the connection afterwards, advertised session id) *)

(* ServerSession.runInner, case chHandleRequest *)
Definition sess_request (g : cfg) (s : server) (c : conn) (ss0 : session) (r : req) : cres :=
  let ss := ss_with_conns ss0 (nadd (c_id c) (s_conns ss0)) in     (* ss.conns[req.sc] = struct{}{} *)
  match sess_inner g (set_sess s ss) c ss r with
  | None => None
  | Some (s1, ss1, st, e) =>
      let ok := match e with RErr => false | _ => true end in
      match r_method r with
      | MTeardown =>
          if ok then
            let ss2 := ss_with_conns ss1 (nremove (c_id c) (s_conns ss1)) in
            match end_session (set_sess s1 ss2) (s_id ss2) with
            | None => None
            | Some s2 => Some (s2, st, e, None, None)
            end
          else Some (set_sess s1 ss1, st, e, Some (s_id ss1), None)
      | MAnnounce => Some (set_sess s1 ss1, st, e, Some (s_id ss1), None)   (* no Session header *)
      | _ => Some (set_sess s1 ss1, st, e, Some (s_id ss1), if ok then Some (s_id ss1) else None)
      end
  end.

(* ServerConn.handleRequestInSession *)
Definition in_session (g : cfg) (s : server) (c : conn) (r : req) (create : bool) : cres :=
  match c_sess c with
  | None =>
      match (match r_sess r with Some id => find_sess id (v_sess s) | None => None end) with
      | Some ss =>
          if negb (c_ip c =? s_ip ss) then Some (s, st400, RErr, None, None)  (* CannotUseSessionCreatedByOtherIP *)
          else sess_request g s c ss r
      | None =>
          if create then
            let ss := mkSess (v_next s) (c_ip c) [c_id c] SInitial None [] 0 false None None false false in
            let s1 := mkSrv (v_conns s) (ss :: v_sess s) (v_readers s) (v_active s) (v_mcount s) (v_mwriters s)
                            (v_rtp s) (v_rtcp s) (v_next s + 1) in
            sess_request g s1 c ss r
          else Some (s, st454, RErr, None, None)                              (* StatusSessionNotFound *)
      end
  | Some sid =>
      if match r_sess r with Some id => negb (id =? sid) | None => false end
      then Some (s, st400, RErr, Some sid, None)                              (* LinkedToOtherSession *)
      else
        match find_sess sid (v_sess s) with
        | Some ss => sess_request g s c ss r
        | None => Some (s, st400, RErr, Some sid, None)                       (* session terminated *)
        end
  end.

(* ServerConn.handleRequestInner *)
Definition conn_request (g : cfg) (s : server) (c : conn) (r : req) : cres :=
  if negb (r_cseq r) then Some (s, st400, RErr, c_sess c, None) else
  if match r_method r with MOptions => false | _ => negb (r_url r) end then Some (s, st400, RErr, c_sess c, None) else
  let has_sess := match r_sess r with Some _ => true | None => false end in
  let plain st := Some (s, st, RNone, c_sess c, None) in
  match r_method r with
  | MOptions => if has_sess then in_session g s c r false else plain st200
  | MDescribe => if h_describe g then plain (if r_verdict r then st200 else st404) else plain st501
  | MAnnounce => if h_announce g then in_session g s c r true else plain st501
  | MSetup => if h_setup g then in_session g s c r true else plain st501
  | MPlay => if has_sess && h_play g then in_session g s c r false else plain st501
  | MRecord => if has_sess && h_record g then in_session g s c r false else plain st501
  | MPause => if has_sess && h_pause g then in_session g s c r false else plain st501
  | MTeardown => if has_sess then in_session g s c r false else plain st501
  | MGetParam => if has_sess then in_session g s c r false else if h_getparam g then plain st200 else plain st501
  | MSetParam => if has_sess then in_session g s c r false else if h_setparam g then plain st200 else plain st501
  | MOther => plain st501
  end.

(* one event on one connection: handleRequestOuter writes exactly one response; a plain error ends
   the read loop (the connection closes after the response), a switch error changes the read function *)
Definition conn_event (g : cfg) (s : server) (c : conn) (e : event) : option (server * outcome) :=
  match e with
  | EReq r =>
      match conn_request g s c r with
      | None => None
      | Some (s1, st, err, sess', adv) =>
          match find_conn (c_id c) (v_conns s1) with
          | None => Some (s1, OResp st true adv)        (* the session closed this connection meanwhile *)
          | Some c0 =>
              let c1 := mkConn (c_id c0) (c_ip c0) (c_tunnel c0) sess'
                               (match err with RSwitch t => t | _ => c_tcp c0 end) in
              let s2 := set_conn s1 c1 in
              match err with
              | RErr => match close_conn s2 (c_id c) with
                        | None => None
                        | Some s3 => Some (s3, OResp st true adv)
                        end
              | RSwitch true =>
                  match sess' with
                  | None => None                         (* readFuncTCP: cr.sc.session.asyncStartWriter() *)
                  | Some _ => Some (s2, OResp st false adv)
                  end
              | _ => Some (s2, OResp st false adv)
              end
          end
      end
  | EFrame _ =>
      if c_tcp c then
        match c_sess c with
        | None => None                                   (* cr.sc.session.tcpCallbackByChannel *)
        | Some _ => Some (s, OIgnored)
        end
      else match close_conn s (c_id c) with None => None | Some s1 => Some (s1, OClosed) end
  | EResponse | EGarbage | EClose =>
      match close_conn s (c_id c) with None => None | Some s1 => Some (s1, OClosed) end
  end.

Definition step (g : cfg) (s : server) (ev : sevent) : option (server * outcome) :=
  match ev with
  | SNew ip tunnel =>
      Some (mkSrv (mkConn (v_next s) ip tunnel None false :: v_conns s) (v_sess s) (v_readers s) (v_active s)
                  (v_mcount s) (v_mwriters s) (v_rtp s) (v_rtcp s) (v_next s + 1), OIgnored)
  | SConn cid e =>
      match find_conn cid (v_conns s) with
      | None => Some (s, OIgnored)
      | Some c => conn_event g s c e
      end
  | STimeout sid =>
      match find_sess sid (v_sess s) with
      | Some ss => if s_timer ss
                   then match end_session s sid with None => None | Some s1 => Some (s1, OIgnored) end
                   else Some (s, OIgnored)
      | None => Some (s, OIgnored)
      end
  | SWriterErr sid =>
      match find_sess sid (v_sess s) with
      | Some ss => if s_writer ss
                   then match end_session s sid with None => None | Some s1 => Some (s1, OIgnored) end
                   else Some (s, OIgnored)
      | None => Some (s, OIgnored)
      end
  end.

Fixpoint run_events (g : cfg) (s : server) (evs : list sevent) : option (server * list outcome) :=
  match evs with
  | [] => Some (s, [])
  | e :: t =>
      match step g s e with
      | None => None
      | Some (s1, o) =>
          match run_events g s1 t with
          | None => None
          | Some (s2, os) => Some (s2, o :: os)
          end
      end
  end.

(* ------------------------------------------------------------------ wire protocol *)
Definition dec_method (n : N) : method :=
  match n with
  | 0 => MOptions | 1 => MDescribe | 2 => MAnnounce | 3 => MSetup | 4 => MPlay | 5 => MRecord
  | 6 => MPause | 7 => MTeardown | 8 => MGetParam | 9 => MSetParam | _ => MOther
  end.

(* option N as  0 | 1 x *)
Definition get_optn (l : list N) : option (option N * list N) :=
  match l with
  | 0 :: t => Some (None, t)
  | 1 :: x :: t => Some (Some x, t)
  | _ => None
  end.
Definition get_optnn (l : list N) : option (option (N * N) * list N) :=
  match l with
  | 0 :: t => Some (None, t)
  | 1 :: x :: y :: t => Some (Some (x, y), t)
  | _ => None
  end.

(* transport: proto mcast secure cports inter mode(0 none,1 play,2 record) *)
Definition get_transport (l : list N) : option (transport * list N) :=
  match l with
  | pr :: mc :: sec :: t =>
      match get_optnn t with
      | Some (cp, t1) =>
          match get_optnn t1 with
          | Some (il, m :: t2) =>
              Some (mkTr (if pr =? 0 then PUDP else PTCP) (getb mc) (getb sec) cp il
                         (match m with 1 => Some TMPlay | 2 => Some TMRecord | _ => None end), t2)
          | _ => None
          end
      | None => None
      end
  | _ => None
  end.

Fixpoint get_transports (fuel : list N) (k : N) (l : list N) : option (list transport * list N) :=
  if k =? 0 then Some ([], l) else
  match fuel with
  | [] => None
  | _ :: f =>
      match get_transport l with
      | Some (t, r) =>
          match get_transports f (N.pred k) r with
          | Some (ts, r') => Some (t :: ts, r')
          | None => None
          end
      | None => None
      end
  end.

(* ---- events on the wire.  Session references are symbolic, because the implementation's ids are
   random: 0 = no Session header, 1 x = the literal (unknown) id x, 2 = the id last advertised on this
   connection, 3 k = the id last advertised on connection k.
   1 ip tunnel | 2 conn 0 req | 2 conn 1 ch | 2 conn 2 | 2 conn 3 | 2 conn 4 | 3 = every armed
   session timer fires | 5 = print the ledger *)
Inductive wevent :=
| WEv (e : sevent) (sref : N) (k : N)    (* sref: 0 = as decoded, 2 = own, 3 = connection k *)
| WDrain
| WSnap.

Definition get_sref (l : list N) : option (N * N * option N * list N) :=   (* kind, k, literal, rest *)
  match l with
  | 0 :: t => Some (0, 0, None, t)
  | 1 :: x :: t => Some (0, 0, Some x, t)
  | 2 :: t => Some (2, 0, None, t)
  | 3 :: k :: t => Some (3, k, None, t)
  | _ => None
  end.

(* request: method cseq url sess(sref) path verdict verdictplay ctype sdp(opt) transports(0 | 1 k {transport})
            keymgmt playurl(0 | 1 path trackkind trackn) recmedia(opt) udpwriteok *)
Definition get_req (l : list N) : option (req * N * N * list N) :=
  match l with
  | m :: cs :: u :: t =>
      match get_sref t with
      | Some (sk, skk, sess, p :: v :: vp :: ct :: t1) =>
          match get_optn t1 with
          | Some (sdp, t2) =>
              match (match t2 with
                     | 0 :: t3 => Some (None, t3)
                     | 1 :: k :: t3 => match get_transports t3 k t3 with
                                       | Some (ts, t4) => Some (Some ts, t4)
                                       | None => None
                                       end
                     | _ => None
                     end) with
              | Some (trs, km :: t5) =>
                  match (match t5 with
                         | 0 :: t6 => Some (None, t6)
                         | 1 :: pp :: tk :: tn :: t6 =>
                             Some (Some (pp, match tk with 0 => TrEmpty | 1 => TrNum tn | _ => TrBad end), t6)
                         | _ => None
                         end) with
                  | Some (pu, t7) =>
                      match get_optn t7 with
                      | Some (rm, w :: t8) =>
                          Some (mkReq (dec_method m) (getb cs) (getb u) sess p (getb v) (getb vp)
                                      (match ct with 0 => CTMissing | 1 => CTOther | _ => CTSdp end)
                                      sdp trs (getb km) pu rm (getb w), sk, skk, t8)
                      | _ => None
                      end
                  | None => None
                  end
              | _ => None
              end
          | None => None
          end
      | _ => None
      end
  | _ => None
  end.

Definition get_wevent (l : list N) : option (wevent * list N) :=
  match l with
  | 1 :: ip :: tu :: t => Some (WEv (SNew ip (getb tu)) 0 0, t)
  | 2 :: c :: 0 :: t => match get_req t with
                        | Some (r, sk, k, t') => Some (WEv (SConn c (EReq r)) sk k, t')
                        | None => None
                        end
  | 2 :: c :: 1 :: ch :: t => Some (WEv (SConn c (EFrame ch)) 0 0, t)
  | 2 :: c :: 2 :: t => Some (WEv (SConn c EResponse) 0 0, t)
  | 2 :: c :: 3 :: t => Some (WEv (SConn c EGarbage) 0 0, t)
  | 2 :: c :: 4 :: t => Some (WEv (SConn c EClose) 0 0, t)
  | 3 :: t => Some (WDrain, t)
  | 5 :: t => Some (WSnap, t)
  | _ => None
  end.

Fixpoint get_wevents (fuel : list N) (l : list N) : option (list wevent) :=
  match l with
  | [] => Some []
  | _ =>
    match fuel with
    | [] => None
    | _ :: f =>
        match get_wevent l with
        | Some (e, r) => option_map (cons e) (get_wevents f r)
        | None => None
        end
    end
  end.

Definition get_cfg (l : list N) : option (cfg * list N) :=
  match l with
  | a :: b :: c :: d :: e :: f :: h :: i :: u :: m :: t :: n :: r =>
      Some (mkCfg (getb a) (getb b) (getb c) (getb d) (getb e) (getb f) (getb h) (getb i)
                  (getb u) (getb m) (getb t) n, r)
  | _ => None
  end.

Definition put_outcome (o : outcome) : list N :=
  match o with
  | OResp st cl adv => [1; st; putb cl; match adv with Some _ => 1 | None => 0 end]
  | OClosed => [2]
  | OIgnored => [3]
  end.

(* the ledger as the harness can measure it: #conns #sessions #readers #active mcount #rtp #rtcp
   multicast-writers-allocated *)
Definition put_ledger (s : server) : list N :=
  [nlen (v_conns s); nlen (v_sess s); nlen (v_readers s); nlen (v_active s); v_mcount s;
   nlen (v_rtp s); nlen (v_rtcp s); putb (v_mwriters s)].

Fixpoint lookup_adv (c : N) (l : list (N * N)) : option N :=
  match l with [] => None | (k, v) :: t => if k =? c then Some v else lookup_adv c t end.

Definition resolve (advs : list (N * N)) (e : sevent) (sref k : N) : sevent :=
  match e with
  | SConn c (EReq r) =>
      let sess := match sref with
                  | 2 => lookup_adv c advs
                  | 3 => lookup_adv k advs
                  | _ => r_sess r
                  end in
      SConn c (EReq (mkReq (r_method r) (r_cseq r) (r_url r) sess (r_path r) (r_verdict r) (r_verdict_play r)
                           (r_ctype r) (r_sdp r)
                           (r_transports r) (r_keymgmt r) (r_play_url r) (r_rec_media r) (r_udp_write_ok r)))
  | _ => e
  end.

(* every armed timer fires (sessions are visited in table order) *)
Fixpoint drain (g : cfg) (s : server) (sl : list session) : option server :=
  match sl with
  | [] => Some s
  | x :: t =>
      match step g s (STimeout (s_id x)) with
      | None => None
      | Some (s1, _) => drain g s1 t
      end
  end.

(* the harness feeds the served stream continuously: the writer of a session that plays over a TCP
   connection that is gone fails at the next packet *)
Fixpoint feed_closure (g : cfg) (s : server) (sl : list session) : option server :=
  match sl with
  | [] => Some s
  | x :: t =>
      let dead := match s_state x, s_tr x, s_tcpconn x with
                  | SPlay, Some (SPTCP, _), Some c =>
                      match find_conn c (v_conns s) with None => true | Some _ => false end
                  (* ... and so does the writer of a session that plays over UDP towards client port 0:
                     sendto() refuses the destination (thorough-tier observation 2026-09-23) *)
                  | SPlay, Some (SPUDP, _), _ => existsb (fun m => m_rtp m =? 0) (s_medias x)
                  | _, _, _ => false
                  end in
      if dead then
        match step g s (SWriterErr (s_id x)) with
        | None => None
        | Some (s1, _) => feed_closure g s1 t
        end
      else feed_closure g s t
  end.

Fixpoint run_wire (g : cfg) (s : server) (advs : list (N * N)) (evs : list wevent) : list N :=
  match evs with
  | [] => []
  | WSnap :: t => 9 :: put_ledger s ++ run_wire g s advs t
  | WDrain :: t =>
      match drain g s (v_sess s) with
      | None => [77]
      | Some s1 => run_wire g s1 advs t
      end
  | WEv e sref k :: t =>
      let e' := resolve advs e sref k in
      match step g s e' with
      | None => [77]
      | Some (s1, o) =>
          let advs' := match e', o with
                       | SConn c _, OResp _ _ (Some id) => (c, id) :: advs
                       | _, _ => advs
                       end in
          match feed_closure g s1 (v_sess s1) with
          | None => [77]
          | Some s2 =>
              (* what the peer sees: the connection is closed after the response also when the session that
                 owns it died of a writer error right after answering *)
              let o' := match e', o with
                        | SConn c _, OResp st false adv =>
                            match find_conn c (v_conns s1), find_conn c (v_conns s2) with
                            | Some _, None => OResp st true adv
                            | _, _ => o
                            end
                        | _, _ => o
                        end in
              put_outcome o' ++ run_wire g s2 advs' t
          end
      end
  end.

(* case 1: cfg events...  -> the outcome of every event (1 status closes advertised | 2 | 3), the
   ledger where asked (9 ...); 77 = a step panicked *)
Definition run (c : list N) : list N :=
  match c with
  | 1 :: t =>
      match get_cfg t with
      | Some (g, t1) =>
          match get_wevents t1 t1 with
          | Some evs => run_wire g srv0 [] evs
          | None => bad_case
          end
      | None => bad_case
      end
  | _ => bad_case
  end.

(* The representation invariant of the server model and its preservation by the table updates. *)
From Coq Require Import ZifyBool ZifyNat ZifyN.
From GVL Require Import NList Wire.
From GV_serverhostile Require Import Model Basics.
Open Scope N_scope.

Definition running (ss : session) : bool := match s_state ss with SPlay | SRecord => true | _ => false end.
Definition is_mcast (ss : session) : bool := match s_tr ss with Some (SPMcast, _) => true | _ => false end.
Definition is_tcp (ss : session) : bool := match s_tr ss with Some (SPTCP, _) => true | _ => false end.
Definition mreader (ss : session) : bool := s_stream ss && is_mcast ss.

(* per session: every nil-able field is set in the states where the code dereferences it *)
Record SessOK (ss : session) : Prop := mkSessOK {
  ok_init : s_state ss = SInitial -> s_stream ss = false /\ s_tr ss = None;
  ok_rec : s_state ss = SPreRecord \/ s_state ss = SRecord -> is_mcast ss = false;
  ok_tr : s_state ss = SPrePlay \/ s_state ss = SPlay \/ s_state ss = SRecord -> s_tr ss <> None;
  ok_stream : s_state ss = SPrePlay \/ s_state ss = SPlay -> s_stream ss = true;
  ok_ann : s_state ss = SPreRecord \/ s_state ss = SRecord -> exists n, s_announced ss = Some n /\ 0 < n;
  ok_medias : s_medias ss <> [] -> s_tr ss <> None;
  ok_stream_tr : s_stream ss = true -> s_tr ss <> None;
  ok_writer : running ss = true -> is_mcast ss = false -> s_writer ss = true }.

(* a connection whose reader is in readFuncTCP is the TCP connection of a running TCP session *)
Definition TcpOK (ex : option N) (conns : list conn) (sl : list session) : Prop :=
  forall c, In c conns -> Some (c_id c) <> ex -> c_tcp c = true ->
    exists ss, In ss sl /\ c_sess c = Some (s_id ss) /\ s_tcpconn ss = Some (c_id c) /\
               In (c_id c) (s_conns ss) /\ running ss = true /\ is_tcp ss = true.

(* [ex]: a connection whose request is being handled is exempted from the TCP clause until its own
   record has been updated (the session changes first) *)
Record InvX (ex : option N) (s : server) : Prop := mkInv {
  inv_nd : NoDup (map s_id (v_sess s));
  inv_ndc : NoDup (map c_id (v_conns s));
  inv_fresh : forall ss, In ss (v_sess s) -> s_id ss < v_next s;
  inv_freshc : forall c, In c (v_conns s) -> c_id c < v_next s;
  inv_ok : forall ss, In ss (v_sess s) -> SessOK ss;
  inv_mcount : v_mcount s = nlen (filter mreader (v_sess s));
  inv_mwr : v_mwriters s = true <-> 0 < v_mcount s;
  inv_readers : forall rid r, In rid (v_readers s) -> find_sess rid (v_sess s) = Some r -> s_tr r <> None;
  inv_rfresh : forall rid, In rid (v_readers s) -> rid < v_next s;
  inv_tcp : TcpOK ex (v_conns s) (v_sess s) }.

Definition Inv (s : server) : Prop := InvX None s.

Lemma Inv_srv0 : Inv srv0.
Proof.
  constructor; cbn; try constructor; try tauto; try lia; try discriminate.
  intros c [].
Qed.

Lemma NoDup_id_eq l a b : NoDup (map s_id l) -> In a l -> In b l -> s_id a = s_id b -> a = b.
Proof.
  intros ND Ha Hb E. pose proof (In_find_sess l a ND Ha) as Fa. pose proof (In_find_sess l b ND Hb) as Fb.
  rewrite E in Fa. congruence.
Qed.

Lemma NoDup_cid_eq l a b : NoDup (map c_id l) -> In a l -> In b l -> c_id a = c_id b -> a = b.
Proof.
  intros ND Ha Hb E. pose proof (In_find_conn l a ND Ha) as Fa. pose proof (In_find_conn l b ND Hb) as Fb.
  rewrite E in Fa. congruence.
Qed.

(* ---- counting ---- *)
Definition b2n (b : bool) : N := if b then 1 else 0.

Lemma count_put (p : session -> bool) l ss ss' :
  NoDup (map s_id l) -> In ss l -> s_id ss' = s_id ss ->
  nlen (filter p (put_sess ss' l)) + b2n (p ss) = nlen (filter p l) + b2n (p ss').
Proof.
  intros ND HI E. induction l as [|x t IH]; [destruct HI|].
  cbn [put_sess map]. fold (put_sess ss' t). inv ND. destruct HI as [->|HI].
  - rewrite E, N.eqb_refl. rewrite put_sess_notin by (rewrite E; assumption).
    cbn [filter]. destruct (p ss), (p ss'); cbn [nlen b2n]; lia.
  - destruct (s_id x =? s_id ss') eqn:Ex.
    + apply N.eqb_eq in Ex. exfalso. apply H1. rewrite Ex, E. apply in_map. exact HI.
    + specialize (IH H2 HI). cbn [filter]. destruct (p x); cbn [nlen]; lia.
Qed.

Lemma count_del (p : session -> bool) l ss :
  NoDup (map s_id l) -> In ss l ->
  nlen (filter p (del_sess (s_id ss) l)) + b2n (p ss) = nlen (filter p l).
Proof.
  intros ND HI. induction l as [|x t IH]; [destruct HI|].
  cbn [del_sess filter]. fold (del_sess (s_id ss) t). inv ND. destruct HI as [->|HI].
  - rewrite N.eqb_refl. cbn [negb].
    rewrite (del_sess_notin _ _ H1). destruct (p ss); cbn [nlen b2n]; lia.
  - destruct (s_id x =? s_id ss) eqn:Ex.
    + apply N.eqb_eq in Ex. exfalso. apply H1. rewrite Ex. apply in_map. exact HI.
    + cbn [negb filter]. specialize (IH H2 HI). destruct (p x); cbn [nlen]; lia.
Qed.

(* ---- the general update lemma: one session changes, the ledger changes, connections stay ---- *)
Lemma Inv_update ex s ss ss' readers' active' mcount' mwriters' rtp' rtcp' :
  InvX ex s -> In ss (v_sess s) -> s_id ss' = s_id ss -> SessOK ss' ->
  mcount' + b2n (mreader ss) = v_mcount s + b2n (mreader ss') ->
  (mwriters' = true <-> 0 < mcount') ->
  (forall rid, In rid readers' -> rid = s_id ss \/ In rid (v_readers s)) ->
  (In (s_id ss) readers' -> s_tr ss' <> None) ->
  (forall c, In c (v_conns s) -> Some (c_id c) <> ex -> c_tcp c = true -> c_sess c = Some (s_id ss) ->
     s_tcpconn ss' = Some (c_id c) /\ In (c_id c) (s_conns ss') /\ running ss' = true /\ is_tcp ss' = true) ->
  InvX ex (mkSrv (v_conns s) (put_sess ss' (v_sess s)) readers' active' mcount' mwriters' rtp' rtcp' (v_next s)).
Proof.
  intros I HI E OK Hc Hw Hr Hrs Ht.
  assert (Hid : In (s_id ss') (map s_id (v_sess s))) by (rewrite E; apply in_map; exact HI).
  constructor; cbn [v_conns v_sess v_readers v_active v_mcount v_mwriters v_rtp v_rtcp v_next].
  - rewrite map_id_put_sess. apply I.
  - apply I.
  - intros x Hx. apply In_put_sess in Hx. destruct Hx as [[-> _]|[Hx _]].
    + rewrite E. apply I. exact HI.
    + apply I. exact Hx.
  - apply I.
  - intros x Hx. apply In_put_sess in Hx. destruct Hx as [[-> _]|[Hx _]]; [exact OK | apply I; exact Hx].
  - pose proof (count_put mreader (v_sess s) ss ss' (inv_nd ex s I) HI E) as C.
    rewrite (inv_mcount ex s I) in Hc. lia.
  - exact Hw.
  - intros rid r Hrid Hf. destruct (N.eq_dec rid (s_id ss)) as [->|Hn].
    + rewrite <- E in Hf. rewrite find_put_sess_same in Hf by exact Hid. inv Hf. apply Hrs. exact Hrid.
    + rewrite find_put_sess_other in Hf by (rewrite E; exact Hn).
      destruct (Hr rid Hrid) as [?|Ho]; [contradiction|]. eapply (inv_readers ex s I); eassumption.
  - intros rid Hrid. destruct (Hr rid Hrid) as [->|Ho]; [apply I; exact HI | apply I; exact Ho].
  - intros c Hcn Hex Htc. destruct (inv_tcp ex s I c Hcn Hex Htc) as (sc & Hsc & Hcs & Htcp & Hin & Hrun & Htr).
    destruct (N.eq_dec (s_id sc) (s_id ss)) as [Heq|Hn].
    + assert (sc = ss) by (eapply NoDup_id_eq; try eassumption; apply I). subst sc.
      destruct (Ht c Hcn Hex Htc Hcs) as (A & B & C & D).
      exists ss'. rewrite E. repeat split; try assumption. apply In_put_sess_same. exact Hid.
    + exists sc. repeat split; try assumption. apply In_put_sess_other; [exact Hsc | rewrite E; exact Hn].
Qed.

(* ---- the stream-side ledger operations ---- *)
Lemma reader_set_inactive_some s ss :
  s_tr ss <> None -> (is_mcast ss = true -> v_mwriters s = true) ->
  exists act', reader_set_inactive s ss =
    Some (mkSrv (v_conns s) (v_sess s) (v_readers s) act' (v_mcount s) (v_mwriters s) (v_rtp s) (v_rtcp s) (v_next s))
    /\ (forall x, In x act' -> In x (v_active s)).
Proof.
  intros Ht Hm. unfold reader_set_inactive, is_mcast in *. destruct (s_tr ss) as [[[] b]|]; try congruence.
  - eexists. split; [reflexivity|]. intros x Hx. apply In_nremove in Hx. tauto.
  - pose proof (Hm eq_refl) as Hmw. destruct s. cbn in *. subst. eexists. split; [reflexivity | tauto].
  - eexists. split; [reflexivity|]. intros x Hx. apply In_nremove in Hx. tauto.
Qed.

Lemma reader_set_active_some s ss :
  s_tr ss <> None -> (is_mcast ss = true -> v_mwriters s = true) ->
  exists act', reader_set_active s ss =
    Some (mkSrv (v_conns s) (v_sess s) (v_readers s) act' (v_mcount s) (v_mwriters s) (v_rtp s) (v_rtcp s) (v_next s)).
Proof.
  intros Ht Hm. unfold reader_set_active, is_mcast in *. destruct (s_tr ss) as [[[] b]|]; try congruence.
  - eexists. reflexivity.
  - pose proof (Hm eq_refl) as Hmw. destruct s. cbn in *. subst. eexists. reflexivity.
  - eexists. reflexivity.
Qed.

Lemma reader_remove_some s ss :
  s_tr ss <> None -> (is_mcast ss = true -> v_mwriters s = true /\ 0 < v_mcount s) ->
  (v_mwriters s = true <-> 0 < v_mcount s) ->
  exists mc' mw', reader_remove s ss =
    Some (mkSrv (v_conns s) (v_sess s) (nremove (s_id ss) (v_readers s)) (v_active s) mc' mw' (v_rtp s) (v_rtcp s) (v_next s))
    /\ mc' + b2n (is_mcast ss) = v_mcount s /\ (mw' = true <-> 0 < mc').
Proof.
  intros Ht Hm Hw. unfold reader_remove, is_mcast in *. destruct (s_tr ss) as [[[] b]|]; try congruence.
  - do 2 eexists. split; [reflexivity|]. cbn [b2n]. split; [lia | exact Hw].
  - destruct (Hm eq_refl) as [Hmw Hpos]. destruct s. cbn in *. subst.
    destruct (N.pred v_mcount =? 0) eqn:E.
    + do 2 eexists. split; [reflexivity|]. cbn [b2n]. apply N.eqb_eq in E. split; [lia|]. split; [discriminate | lia].
    + do 2 eexists. split; [reflexivity|]. cbn [b2n]. apply N.eqb_neq in E. split; [lia|]. split; [lia | reflexivity].
  - do 2 eexists. split; [reflexivity|]. cbn [b2n]. split; [lia | exact Hw].
Qed.

Lemma medias_stop_some s ss :
  (s_medias ss <> [] -> s_tr ss <> None) ->
  exists a b, medias_stop s ss =
    Some (mkSrv (v_conns s) (v_sess s) (v_readers s) (v_active s) (v_mcount s) (v_mwriters s) a b (v_next s)).
Proof.
  intros H. unfold medias_stop. destruct (s_medias ss) as [|m t] eqn:Em.
  - exists (v_rtp s), (v_rtcp s). destruct s; reflexivity.
  - destruct (s_tr ss) as [[[] b]|] eqn:Et.
    + destruct (stop_medias (s_ip ss) (m :: t) (v_rtp s) (v_rtcp s)) as [a b0]. exists a, b0. reflexivity.
    + exists (v_rtp s), (v_rtcp s). destruct s; reflexivity.
    + exists (v_rtp s), (v_rtcp s). destruct s; reflexivity.
    + exfalso. apply H; congruence.
Qed.

(* a multicast reader is counted *)
Lemma mreader_counted ex s ss : InvX ex s -> In ss (v_sess s) -> mreader ss = true -> 0 < v_mcount s /\ v_mwriters s = true.
Proof.
  intros I HI Hm. assert (0 < v_mcount s).
  { rewrite (inv_mcount ex s I). assert (In ss (filter mreader (v_sess s))) by (apply filter_In; tauto).
    destruct (filter mreader (v_sess s)); [destruct H | cbn [nlen]; lia]. }
  split; [assumption | apply (inv_mwr ex s I); assumption].
Qed.

(* ---- ending a session ---- *)
Lemma end_session_ok ex s sid :
  InvX ex s -> exists s', end_session s sid = Some s' /\ InvX ex s' /\ v_next s' = v_next s
                        /\ (forall c, In c (v_conns s') -> In c (v_conns s)).
Proof.
  intros I. unfold end_session. destruct (find_sess sid (v_sess s)) as [ss|] eqn:F.
  2:{ exists s. tauto. }
  apply find_sess_In in F. destruct F as [HI Hid]. subst sid.
  pose proof (inv_ok ex s I ss HI) as OK.
  set (s1 := mkSrv (filter (fun c => negb (nmem (c_id c) (s_conns ss))) (v_conns s)) (v_sess s) (v_readers s)
                   (v_active s) (v_mcount s) (v_mwriters s) (v_rtp s) (v_rtcp s) (v_next s)).
  (* the stream part *)
  assert (S3 : exists rd act mc mw,
    (if s_stream ss
     then match reader_set_inactive s1 ss with Some s2 => reader_remove s2 ss | None => None end
     else Some s1) = Some (mkSrv (v_conns s1) (v_sess s) rd act mc mw (v_rtp s) (v_rtcp s) (v_next s))
    /\ mc + b2n (mreader ss) = v_mcount s /\ (mw = true <-> 0 < mc)
    /\ (forall x, In x rd -> In x (v_readers s))).
  { destruct (s_stream ss) eqn:Es.
    - pose proof (ok_stream_tr ss OK Es) as Ht.
      assert (Hm : is_mcast ss = true -> v_mwriters s = true /\ 0 < v_mcount s).
      { intros Hm. assert (mreader ss = true) by (unfold mreader; rewrite Es, Hm; reflexivity).
        destruct (mreader_counted ex s ss I HI H). tauto. }
      destruct (reader_set_inactive_some s1 ss Ht) as (act' & -> & _); [intros H; apply Hm in H; tauto|].
      match goal with |- context [reader_remove ?x ss] => set (s2 := x) end.
      destruct (reader_remove_some s2 ss Ht) as (mc' & mw' & -> & Hc & Hw); [exact Hm | apply I|].
      do 4 eexists. split; [reflexivity|]. unfold mreader. rewrite Es. cbn [andb].
      cbn [v_mcount s2] in Hc. repeat split; try tauto. intros x Hx. cbn in Hx. apply In_nremove in Hx. tauto.
    - do 4 eexists. split; [reflexivity|]. unfold mreader. rewrite Es. cbn [andb b2n].
      repeat split; try apply I; try lia. tauto. }
  destruct S3 as (rd & act & mc & mw & -> & Hc & Hw & Hrd).
  match goal with |- context [medias_stop ?x ss] => set (s3 := x) end.
  destruct (medias_stop_some s3 ss (ok_medias ss OK)) as (a & b & ->).
  eexists. split; [reflexivity|]. split; [|split; [reflexivity|]].
  2:{ cbn [v_conns s3 s1]. intros c0 Hc0. apply filter_In in Hc0. tauto. }
  cbn [v_conns v_sess v_readers v_active v_mcount v_mwriters v_rtp v_rtcp v_next s3 s1].
  constructor; cbn [v_conns v_sess v_readers v_active v_mcount v_mwriters v_rtp v_rtcp v_next].
  - apply NoDup_map_filter. apply I.
  - apply NoDup_map_filter. apply I.
  - intros x Hx. apply In_del_sess in Hx. apply I. tauto.
  - intros x Hx. apply filter_In in Hx. apply I. tauto.
  - intros x Hx. apply In_del_sess in Hx. apply I. tauto.
  - pose proof (count_del mreader (v_sess s) ss (inv_nd ex s I) HI) as C. rewrite (inv_mcount ex s I) in Hc. lia.
  - exact Hw.
  - intros rid r Hrid Hf. destruct (N.eq_dec rid (s_id ss)) as [->|Hn].
    + rewrite find_del_sess_same in Hf. discriminate.
    + rewrite find_del_sess_other in Hf by exact Hn. eapply (inv_readers ex s I); [apply Hrd|]; eassumption.
  - intros rid Hrid. apply I. apply Hrd. exact Hrid.
  - intros c Hcn Hex Htc. apply filter_In in Hcn. destruct Hcn as [Hcn Hnm].
    destruct (inv_tcp ex s I c Hcn Hex Htc) as (sc & Hsc & Hcs & Htcp & Hin & Hrun & Htr).
    exists sc. repeat split; try assumption. apply In_del_sess. split; [exact Hsc|].
    intros Heq. assert (sc = ss) by (eapply NoDup_id_eq; try eassumption; apply I). subst sc.
    apply Bool.negb_true_iff, nmem_false in Hnm. contradiction.
Qed.

(* ---- closing a connection ---- *)
Lemma Inv_del_conn ex s cid :
  InvX ex s -> InvX ex (mkSrv (del_conn cid (v_conns s)) (v_sess s) (v_readers s) (v_active s) (v_mcount s)
                      (v_mwriters s) (v_rtp s) (v_rtcp s) (v_next s)).
Proof.
  intros I. constructor; cbn [v_conns v_sess v_readers v_active v_mcount v_mwriters v_rtp v_rtcp v_next]; try apply I.
  - apply NoDup_map_filter. apply I.
  - intros c Hc. apply In_del_conn in Hc. apply I. tauto.
  - intros c Hc Hex Ht. apply In_del_conn in Hc. apply (inv_tcp ex s I c); tauto.
Qed.

Lemma SessOK_with_conns ss l : SessOK ss -> SessOK (ss_with_conns ss l).
Proof. intros []. constructor; assumption. Qed.

Lemma find_conn_incl cid l l' : (forall c, In c l' -> In c l) -> find_conn cid l = None -> find_conn cid l' = None.
Proof.
  intros H F. apply find_conn_None. apply find_conn_None in F. intros HI. apply F.
  apply in_map_iff in HI. destruct HI as (c & <- & Hc). apply in_map. apply H. exact Hc.
Qed.

Lemma find_del_conn_same cid l : find_conn cid (del_conn cid l) = None.
Proof.
  apply find_conn_None. rewrite in_map_iff. intros (x & Hx & HI). apply In_del_conn in HI. tauto.
Qed.

Lemma close_conn_ok ex s cid :
  InvX ex s -> exists s', close_conn s cid = Some s' /\ InvX ex s' /\ v_next s' = v_next s
                        /\ (forall c, In c (v_conns s') -> In c (v_conns s) /\ c_id c <> cid).
Proof.
  intros I. unfold close_conn. destruct (find_conn cid (v_conns s)) as [c|] eqn:F.
  2:{ exists s. split; [reflexivity|]. split; [exact I|]. split; [reflexivity|].
      intros c Hc. split; [exact Hc|]. apply find_conn_None in F. intros <-. apply F. apply in_map. exact Hc. }
  apply find_conn_In in F. destruct F as [Hc Hcid]. subst cid.
  pose proof (Inv_del_conn ex s (c_id c) I) as I1.
  set (s1 := mkSrv (del_conn (c_id c) (v_conns s)) (v_sess s) (v_readers s) (v_active s) (v_mcount s)
                   (v_mwriters s) (v_rtp s) (v_rtcp s) (v_next s)) in *.
  assert (D1 : forall x, In x (v_conns s1) -> In x (v_conns s) /\ c_id x <> c_id c).
  { intros x Hx. cbn [v_conns s1] in Hx. apply In_del_conn in Hx. exact Hx. }
  destruct (c_sess c) as [sid|] eqn:Ecs.
  2:{ exists s1. tauto. }
  destruct (find_sess sid (v_sess s1)) as [ss|] eqn:F.
  2:{ exists s1. tauto. }
  apply find_sess_In in F. destruct F as [HI Hid]. subst sid. cbn [v_sess s1] in HI.
  pose proof (inv_ok ex s I ss HI) as OK.
  set (ss' := ss_with_conns ss (nremove (c_id c) (s_conns ss))).
  assert (I2 : InvX ex (set_sess s1 ss')).
  { unfold set_sess. apply (Inv_update ex s1 ss ss').
    - exact I1.
    - exact HI.
    - reflexivity.
    - apply SessOK_with_conns. exact OK.
    - reflexivity.
    - apply I.
    - tauto.
    - intros H. cbn. eapply (inv_readers ex s I); [exact H|]. apply In_find_sess; [apply I | exact HI].
    - intros c' Hc' Hex Ht Hs. apply D1 in Hc'. destruct Hc' as [Hc' Hne].
      destruct (inv_tcp ex s I c' Hc' Hex Ht) as (sc & Hsc & Hcs & Htcp & Hin & Hrun & Htr).
      assert (sc = ss). { eapply NoDup_id_eq; try eassumption; [apply I | congruence]. } subst sc.
      cbn. repeat split; try assumption. apply In_nremove. tauto. }
  assert (E2 : exists s', end_session (set_sess s1 ss') (s_id ss) = Some s' /\ InvX ex s' /\ v_next s' = v_next s
                 /\ (forall x, In x (v_conns s') -> In x (v_conns s) /\ c_id x <> c_id c)).
  { destruct (end_session_ok ex (set_sess s1 ss') (s_id ss) I2) as (s' & Hs' & I' & Hn & Hsub).
    exists s'. split; [exact Hs'|]. split; [exact I'|]. split; [exact Hn|].
    intros x Hx. apply D1. apply Hsub in Hx. exact Hx. }
  assert (K2 : exists s', Some (set_sess s1 ss') = Some s' /\ InvX ex s' /\ v_next s' = v_next s
                 /\ (forall x, In x (v_conns s') -> In x (v_conns s) /\ c_id x <> c_id c)).
  { eexists. split; [reflexivity|]. split; [exact I2|]. split; [reflexivity | exact D1]. }
  assert (Hrun : s_state ss' = s_state ss) by reflexivity.
  destruct (negb match s_state ss' with SRecord | SPlay => true | _ => false end) eqn:Er.
  - destruct (s_conns ss'); [exact E2 | exact K2].
  - assert (Ht : s_tr ss' <> None).
    { apply (ok_tr ss'); [apply SessOK_with_conns; exact OK|]. rewrite Hrun in *.
      destruct (s_state ss); cbn in Er; try discriminate; tauto. }
    destruct (s_tr ss') as [[[] b]|]; try congruence; try exact K2.
    destruct (s_conns ss'); [exact E2 | exact K2].
Qed.

(* Every session-level request handler preserves the invariant and never dereferences nil. *)
From Coq Require Import ZifyBool ZifyNat ZifyN.
From GVL Require Import NList Wire.
From GV_serverhostile Require Import Model Basics Inv FindFree.
Open Scope N_scope.

(* the session handles a request of connection c only if it is not tied to another TCP connection *)
Definition tcp_pre (c : conn) (ss : session) : Prop :=
  s_tcpconn ss = None \/ s_tcpconn ss = Some (c_id c).

Definition tcp_triple (c : conn) (ss : session) : Prop :=
  s_tcpconn ss = Some (c_id c) /\ running ss = true /\ is_tcp ss = true.

(* what a handler guarantees about its result *)
Record Post (c : conn) (s : server) (ss : session) (s1 : server) (ss1 : session) (e : rerr) : Prop := mkPost {
  p_inv : InvX (Some (c_id c)) (set_sess s1 ss1);
  p_conns : v_conns s1 = v_conns s;
  p_sess : v_sess s1 = v_sess s;
  p_next : v_next s1 = v_next s;
  p_id : s_id ss1 = s_id ss;
  p_sconns : s_conns ss1 = s_conns ss;
  p_switch : e = RSwitch true -> tcp_triple c ss1;
  p_keep : e = RNone -> tcp_triple c ss -> tcp_triple c ss1 }.

Lemma Inv_update_req c s ss ss' readers' active' mcount' mwriters' rtp' rtcp' :
  InvX (Some (c_id c)) s -> In ss (v_sess s) -> tcp_pre c ss -> s_id ss' = s_id ss -> SessOK ss' ->
  mcount' + b2n (mreader ss) = v_mcount s + b2n (mreader ss') ->
  (mwriters' = true <-> 0 < mcount') ->
  (forall rid, In rid readers' -> rid = s_id ss \/ In rid (v_readers s)) ->
  (In (s_id ss) readers' -> s_tr ss' <> None) ->
  InvX (Some (c_id c)) (mkSrv (v_conns s) (put_sess ss' (v_sess s)) readers' active' mcount' mwriters' rtp' rtcp' (v_next s)).
Proof.
  intros I HI Hpre E OK Hc Hw Hr Hrs. apply (Inv_update _ s ss ss'); try assumption.
  intros c' Hc' Hex Ht Hs.
  destruct (inv_tcp _ s I c' Hc' Hex Ht) as (sc & Hsc & Hcs & Htcp & Hin & Hrun & Htr).
  assert (sc = ss). { eapply NoDup_id_eq; try eassumption; [apply I | congruence]. } subst sc.
  exfalso. destruct Hpre as [Hp|Hp]; rewrite Hp in Htcp; [discriminate|]. inv Htcp. apply Hex. congruence.
Qed.

(* the same, when only the session record changes *)
Lemma Inv_sess_only c s ss ss' :
  InvX (Some (c_id c)) s -> In ss (v_sess s) -> tcp_pre c ss -> s_id ss' = s_id ss -> SessOK ss' ->
  mreader ss' = mreader ss -> (s_tr ss <> None -> s_tr ss' <> None) ->
  InvX (Some (c_id c)) (set_sess s ss').
Proof.
  intros I HI Hpre E OK Hm Ht. unfold set_sess. apply (Inv_update_req c s ss ss'); try assumption.
  - rewrite Hm. reflexivity.
  - apply I.
  - tauto.
  - intros H. apply Ht. eapply (inv_readers _ s I); [exact H|]. apply In_find_sess; [apply I | exact HI].
Qed.

Ltac sess_simpl :=
  cbn [s_id s_ip s_conns s_state s_tr s_medias s_path s_stream s_announced s_tcpconn s_writer s_timer
       ss_with_writer ss_with_conns] in *.
Ltac sess_ok OK :=
  destruct OK as [O1 O1b O2 O3 O4 O5 O6 O7]; unfold running, is_mcast in *;
  constructor; sess_simpl; unfold running, is_mcast; sess_simpl; intros; sess_simpl;
  repeat match goal with E : s_state _ = _ |- _ => rewrite E in * end;
  repeat match goal with H : ?a = ?a -> _ |- _ => specialize (H eq_refl) end;
  repeat match goal with H : _ /\ _ |- _ => destruct H end;
  repeat match goal with E : s_tr _ = _ |- _ => rewrite E in * end;
  try congruence; try tauto; try (intuition (try discriminate; try congruence)).

(* ---- ANNOUNCE ---- *)
Lemma sess_announce_ok g c s ss r s1 ss1 st e :
  InvX (Some (c_id c)) s -> In ss (v_sess s) -> tcp_pre c ss ->
  sess_announce g s ss r = Some (s1, ss1, st, e) -> Post c s ss s1 ss1 e.
Proof.
  intros I HI Hpre H. pose proof (inv_ok _ s I ss HI) as OK. unfold sess_announce in H.
  assert (Same : Post c s ss s ss e -> (s1, ss1) = (s, ss) -> Post c s ss s1 ss1 e) by (intros P E; inv E; exact P).
  assert (P0 : forall e0, e0 <> RSwitch true -> Post c s ss s ss e0).
  { intros e0 He0. constructor; [|reflexivity|reflexivity|reflexivity|reflexivity|reflexivity|tauto|tauto].
    apply (Inv_sess_only c s ss ss); [assumption|assumption|assumption|reflexivity|assumption|reflexivity|tauto]. }
  destruct (validate_announce ss r) as [n|] eqn:V.
  2:{ injection H as <- <- <- <-. apply P0. discriminate. }
  destruct (negb (h_announce g)); [discriminate|].
  destruct (r_verdict r).
  2:{ injection H as <- <- <- <-. apply P0. discriminate. }
  injection H as <- <- <- <-. unfold validate_announce in V.
  destruct (s_state ss) eqn:Es; try discriminate.
  destruct (r_ctype r); try discriminate. destruct (r_sdp r) as [k|]; try discriminate.
  destruct (0 <? k) eqn:Ek; try discriminate. inv V. apply N.ltb_lt in Ek.
  constructor; [|reflexivity|reflexivity|reflexivity|reflexivity|reflexivity|discriminate|].
  - apply (Inv_sess_only c s ss); [assumption|assumption|assumption|reflexivity| | |].
    + sess_ok OK. eexists; split; [reflexivity | assumption].
    + unfold mreader, is_mcast. cbn. reflexivity.
    + cbn. tauto.
  - intros _ (A & B & C). unfold running in B. rewrite Es in B. discriminate.
Qed.

Lemma sess_announce_some g s ss r : h_announce g = true -> sess_announce g s ss r <> None.
Proof.
  intros H. unfold sess_announce. rewrite H. cbn [negb].
  destruct (validate_announce ss r); [|discriminate]. destruct (r_verdict r); discriminate.
Qed.

Lemma Post_same c s ss e0 :
  InvX (Some (c_id c)) s -> In ss (v_sess s) -> tcp_pre c ss -> e0 <> RSwitch true -> Post c s ss s ss e0.
Proof.
  intros I HI Hpre He0. pose proof (inv_ok _ s I ss HI) as OK.
  constructor; [|reflexivity|reflexivity|reflexivity|reflexivity|reflexivity|tauto|tauto].
  apply (Inv_sess_only c s ss ss); [assumption|assumption|assumption|reflexivity|assumption|reflexivity|tauto].
Qed.

(* ---- PLAY ---- *)
Lemma sess_play_spec g c s ss r :
  InvX (Some (c_id c)) s -> In ss (v_sess s) -> tcp_pre c ss -> h_play g = true ->
  exists s1 ss1 st e, sess_play g s c ss r = Some (s1, ss1, st, e) /\ Post c s ss s1 ss1 e.
Proof.
  intros I HI Hpre Hh. pose proof (inv_ok _ s I ss HI) as OK. unfold sess_play.
  assert (Bad : exists s1 ss1 st e, Some (s, ss, 400, RErr) = Some (s1, ss1, st, e) /\ Post c s ss s1 ss1 e).
  { do 4 eexists. split; [reflexivity|]. apply Post_same; try assumption. discriminate. }
  destruct (s_state ss) eqn:Es; try exact Bad.
  - (* PrePlay *)
    cbn [sstate_eqb andb negb].
    destruct (negb (r_path r =? s_path ss)); [exact Bad|].
    pose proof (ok_tr ss OK) as Ht. rewrite Es in Ht. specialize (Ht (or_introl eq_refl)).
    pose proof (ok_stream ss OK) as Hst. rewrite Es in Hst. specialize (Hst (or_introl eq_refl)).
    destruct (s_tr ss) as [[p sec]|] eqn:Etr; [|congruence]. rewrite Hh. cbn [negb].
    destruct (r_verdict r).
    + (* accepted: the session starts playing *)
      set (w := if negb (sproto_eqb p SPMcast) then true else s_writer ss).
      assert (Hw : match p with SPUDP => negb w | _ => false end = false) by (destruct p; reflexivity).
      rewrite Hw. rewrite Hst. cbn [negb].
      match goal with |- context [reader_set_active ?a ?b] => set (s1 := a); set (ss1 := b) end.
      assert (Htr1 : s_tr ss1 = Some (p, sec)) by reflexivity.
      destruct (reader_set_active_some s1 ss1) as (act' & ->).
      { rewrite Htr1. discriminate. }
      { intros Hm. cbn [v_mwriters s1]. eapply mreader_counted; [exact I | exact HI|].
        unfold mreader, is_mcast in *. rewrite Hst, Etr. rewrite Htr1 in Hm. exact Hm. }
      do 4 eexists. split; [reflexivity|].
      constructor; [|reflexivity|reflexivity|reflexivity|reflexivity|reflexivity| |].
      * unfold set_sess. cbn [v_conns v_sess v_readers v_active v_mcount v_mwriters v_rtp v_rtcp v_next s1].
        apply (Inv_update_req c s ss ss1); [assumption|assumption|assumption|reflexivity| | |apply I|tauto|].
        -- subst ss1 w. sess_ok OK; destruct p; cbn in *; congruence.
        -- unfold mreader, is_mcast. cbn [s_stream s_tr ss1]. rewrite Etr, Hst. reflexivity.
        -- intros _. rewrite Htr1. discriminate.
      * intros He. destruct p; try discriminate. repeat split; unfold is_tcp; rewrite ?Htr1; reflexivity.
      * intros He (A & B & C). destruct p; try discriminate; unfold is_tcp in C; rewrite Etr in C; discriminate.
    + (* refused by the application: the writer is destroyed again *)
      do 4 eexists. split; [reflexivity|].
      constructor; [|reflexivity|reflexivity|reflexivity|reflexivity|reflexivity|discriminate|].
      * apply (Inv_sess_only c s ss); [assumption|assumption|assumption|reflexivity| |reflexivity|cbn; tauto].
        sess_ok OK.
      * intros _ (A & B & C). unfold running in B. rewrite Es in B. discriminate.
  - (* Play: a second PLAY changes nothing *)
    cbn [sstate_eqb andb negb].
    pose proof (ok_tr ss OK) as Ht. rewrite Es in Ht. specialize (Ht (or_intror (or_introl eq_refl))).
    destruct (s_tr ss) as [[p sec]|] eqn:Etr; [|congruence]. rewrite Hh. cbn [negb andb].
    assert (Hsame : ss_with_writer ss (s_writer ss) = ss) by (destruct ss; reflexivity).
    destruct (r_verdict r); rewrite Hsame; do 4 eexists; (split; [reflexivity|]); apply Post_same; try assumption; discriminate.
Qed.

(* ---- TEARDOWN ---- *)
Lemma sess_teardown_spec c s ss :
  SessOK ss ->
  exists e, sess_teardown s ss = Some (s, ss, 200, e) /\ e <> RSwitch true /\ e <> RErr /\
            (tcp_triple c ss -> e = RSwitch false).
Proof.
  intros OK. unfold sess_teardown, tcp_triple, running, is_tcp.
  pose proof (ok_tr ss OK) as Ht.
  destruct (s_state ss) eqn:Es;
    try (exists RNone; split; [reflexivity|]; split; [discriminate|]; split; [discriminate|];
         intros (_ & B & _); discriminate).
  - destruct (s_tr ss) as [[[] b]|] eqn:Et; [| |eexists; split; [reflexivity|]; repeat split; try discriminate|exfalso; apply Ht; tauto].
    + exists RNone. repeat split; try discriminate. intros (_ & _ & C). discriminate.
    + exists RNone. repeat split; try discriminate. intros (_ & _ & C). discriminate.
  - destruct (s_tr ss) as [[[] b]|] eqn:Et; [| |eexists; split; [reflexivity|]; repeat split; try discriminate|exfalso; apply Ht; tauto].
    + exists RNone. repeat split; try discriminate. intros (_ & _ & C). discriminate.
    + exists RNone. repeat split; try discriminate. intros (_ & _ & C). discriminate.
Qed.

(* ---- PAUSE ---- *)
Lemma sess_pause_spec g c s ss r :
  InvX (Some (c_id c)) s -> In ss (v_sess s) -> tcp_pre c ss -> h_pause g = true ->
  exists s1 ss1 st e, sess_pause g s ss r = Some (s1, ss1, st, e) /\ Post c s ss s1 ss1 e.
Proof.
  intros I HI Hpre Hh. pose proof (inv_ok _ s I ss HI) as OK. unfold sess_pause.
  assert (Same : forall (st : N) (e : rerr), e <> RSwitch true ->
            exists s1 ss1 st' e', Some (s, ss, st, e) = Some (s1, ss1, st', e') /\ Post c s ss s1 ss1 e').
  { intros st e He. do 4 eexists. split; [reflexivity|]. apply Post_same; assumption. }
  rewrite Hh. cbn [negb].
  assert (Run : forall st0, s_state ss = st0 -> (st0 = SPlay \/ st0 = SRecord) ->
    exists s1 ss1 st e,
      (match s_tr ss with
      | None => None
      | Some (p, _) =>
          if negb (sproto_eqb p SPMcast) && negb (s_writer ss) then None else
          let w := if sproto_eqb p SPMcast then s_writer ss else false in
          match (if s_stream ss then reader_set_inactive s ss else Some s) with
          | None => None
          | Some s1 =>
              match medias_stop s1 ss with
              | None => None
              | Some s2 =>
                  let st' := match st0 with SPlay => SPrePlay | _ => SPreRecord end in
                  let tcp := match st0, p with
                             | SPlay, SPTCP => true
                             | SPlay, _ => false
                             | _, SPUDP => false
                             | _, _ => true
                             end in
                  Some (s2, mkSess (s_id ss) (s_ip ss) (s_conns ss) st' (s_tr ss) (s_medias ss) (s_path ss)
                                   (s_stream ss) (s_announced ss) (if tcp then None else s_tcpconn ss) w
                                   (if tcp then s_timer ss else false),
                        200, if tcp then RSwitch false else RNone)
              end
          end
      end : sres) = Some (s1, ss1, st, e) /\ Post c s ss s1 ss1 e).
  { intros st0 Es Hst0.
    assert (Ht : s_tr ss <> None) by (apply (ok_tr ss OK); rewrite Es; tauto).
    destruct (s_tr ss) as [[p sec]|] eqn:Etr; [|congruence].
    assert (Hrun : running ss = true) by (unfold running; rewrite Es; destruct Hst0 as [-> | ->]; reflexivity).
    assert (Hw : negb (sproto_eqb p SPMcast) && negb (s_writer ss) = false).
    { destruct p; cbn; try reflexivity; rewrite (ok_writer ss OK Hrun); unfold is_mcast; rewrite ?Etr; reflexivity. }
    rewrite Hw.
    assert (S1 : exists act', (if s_stream ss then reader_set_inactive s ss else Some s) =
              Some (mkSrv (v_conns s) (v_sess s) (v_readers s) act' (v_mcount s) (v_mwriters s) (v_rtp s) (v_rtcp s) (v_next s))).
    { destruct (s_stream ss) eqn:Est.
      - destruct (reader_set_inactive_some s ss) as (act' & -> & _); [congruence| |eexists; reflexivity].
        intros Hm. eapply mreader_counted; [exact I | exact HI|]. unfold mreader. rewrite Est, Hm. reflexivity.
      - exists (v_active s). destruct s; reflexivity. }
    destruct S1 as (act' & ->).
    match goal with |- context [medias_stop ?x ss] => set (s1 := x) end.
    destruct (medias_stop_some s1 ss (ok_medias ss OK)) as (a & b & ->).
    do 4 eexists. split; [reflexivity|].
    constructor; [|reflexivity|reflexivity|reflexivity|reflexivity|reflexivity| |].
    - unfold set_sess. cbn [v_conns v_sess v_readers v_active v_mcount v_mwriters v_rtp v_rtcp v_next s1].
      match goal with |- context [put_sess ?x _] => set (ss1 := x) end.
      apply (Inv_update_req c s ss ss1); [assumption|assumption|assumption|reflexivity| | |apply I|tauto|].
      + subst ss1. destruct Hst0; subst st0; sess_ok OK.
      + unfold mreader, is_mcast. subst ss1. cbn [s_stream s_tr]. rewrite Etr. reflexivity.
      + intros _. subst ss1. cbn [s_tr]. congruence.
    - intros He. destruct Hst0 as [-> | ->]; destruct p; cbn in He; discriminate.
    - intros He (A & B & C). unfold is_tcp in C. rewrite Etr in C. destruct p; try discriminate.
      destruct Hst0 as [-> | ->]; cbn in He; discriminate. }
  destruct (s_state ss) eqn:Es.
  - apply Same. discriminate.
  - destruct (r_verdict r); cbn [negb]; apply Same; discriminate.
  - destruct (r_verdict r); cbn [negb]; [|apply Same; discriminate]. apply (Run SPlay); tauto.
  - destruct (r_verdict r); cbn [negb]; apply Same; discriminate.
  - destruct (r_verdict r); cbn [negb]; [|apply Same; discriminate]. apply (Run SRecord); tauto.
Qed.

(* ---- RECORD ---- *)
Lemma nlen_pos_nonnil {A} (l : list A) n : nlen l = n -> 0 < n -> l <> [].
Proof. intros H Hn ->. cbn in H. lia. Qed.

Lemma sess_record_spec g c s ss r :
  InvX (Some (c_id c)) s -> In ss (v_sess s) -> tcp_pre c ss -> h_record g = true ->
  exists s1 ss1 st e, sess_record g s c ss r = Some (s1, ss1, st, e) /\ Post c s ss s1 ss1 e.
Proof.
  intros I HI Hpre Hh. pose proof (inv_ok _ s I ss HI) as OK. unfold sess_record.
  assert (Same : forall (st : N) (e : rerr), e <> RSwitch true ->
            exists s1 ss1 st' e', Some (s, ss, st, e) = Some (s1, ss1, st', e') /\ Post c s ss s1 ss1 e').
  { intros st e He. do 4 eexists. split; [reflexivity|]. apply Post_same; assumption. }
  destruct (s_state ss) eqn:Es; try (apply Same; discriminate).
  destruct (ok_ann ss OK) as (n & Han & Hn); [rewrite Es; tauto|]. rewrite Han.
  destruct (negb (nlen (s_medias ss) =? n)) eqn:En; [apply Same; discriminate|].
  apply Bool.negb_false_iff, N.eqb_eq in En.
  destruct (negb (r_path r =? s_path ss)); [apply Same; discriminate|].
  rewrite Hh. cbn [negb].
  assert (Hnr : running ss = false) by (unfold running; rewrite Es; reflexivity).
  assert (Hnm : is_mcast ss = false) by (apply (ok_rec ss OK); rewrite Es; tauto).
  destruct (r_verdict r).
  2:{ do 4 eexists. split; [reflexivity|].
      constructor; [|reflexivity|reflexivity|reflexivity|reflexivity|reflexivity|discriminate|].
      - apply (Inv_sess_only c s ss); [assumption|assumption|assumption|reflexivity| |reflexivity|cbn; tauto].
        sess_ok OK.
      - intros _ (A & B & C). congruence. }
  assert (Ht : s_tr ss <> None) by (apply (ok_medias ss OK); eapply nlen_pos_nonnil; eassumption).
  destruct (s_tr ss) as [[p sec]|] eqn:Etr; [|congruence].
  assert (Pm : p <> SPMcast) by (intros ->; unfold is_mcast in Hnm; rewrite Etr in Hnm; discriminate).
  assert (Fin : forall ss1 rtp' rtcp' (e : rerr),
            s_id ss1 = s_id ss -> s_conns ss1 = s_conns ss -> s_state ss1 = SRecord -> s_tr ss1 = s_tr ss ->
            s_stream ss1 = s_stream ss -> s_announced ss1 = s_announced ss -> s_writer ss1 = true ->
            (e = RSwitch true -> s_tcpconn ss1 = Some (c_id c) /\ p = SPTCP) -> (e = RNone -> p = SPUDP) ->
            Post c s ss (mkSrv (v_conns s) (v_sess s) (v_readers s) (v_active s) (v_mcount s) (v_mwriters s) rtp' rtcp' (v_next s)) ss1 e).
  { intros ss1 rtp' rtcp' e H1 H2 H3 H4 H5 H6 H7 H8 H9.
    constructor; [|reflexivity|reflexivity|reflexivity|assumption|assumption| |].
    - unfold set_sess. cbn [v_conns v_sess v_readers v_active v_mcount v_mwriters v_rtp v_rtcp v_next].
      apply (Inv_update_req c s ss ss1); [assumption|assumption|assumption|assumption| | |apply I|tauto|].
      + destruct OK as [O1 O1b O2 O3 O4 O5 O6 O7]. unfold is_mcast, running in *.
        constructor; unfold is_mcast, running; rewrite ?H3, ?H4, ?H5, ?H6, ?H7, ?Etr in *; intros;
          try congruence; try tauto; try (intuition discriminate);
          try (destruct p; try reflexivity; congruence); try (exists n; tauto).
      + unfold mreader, is_mcast. rewrite H4, H5. reflexivity.
      + intros _. congruence.
    - intros He. destruct (H8 He) as [A ->]. repeat split; [assumption | unfold running; rewrite H3; reflexivity | unfold is_tcp; rewrite H4, Etr; reflexivity].
    - intros He (A & B & C). congruence. }
  destruct p; [|congruence|].
  - destruct (existsb _ (s_medias ss)).
    + (* the medias could not be started: nothing but the writer flag changes *)
      do 4 eexists. split; [reflexivity|].
      constructor; [|reflexivity|reflexivity|reflexivity|reflexivity|reflexivity|discriminate|discriminate].
      apply (Inv_sess_only c s ss); [assumption|assumption|assumption|reflexivity| |reflexivity|cbn; tauto].
      clear Fin. sess_ok OK.
    + destruct (start_record (s_ip ss) (s_id ss) (s_medias ss) (v_rtp s) (v_rtcp s)) as [a b].
      do 4 eexists. split; [reflexivity|]. apply Fin; try reflexivity; try discriminate; try tauto; try (cbn; congruence).
  - do 4 eexists. split; [reflexivity|].
    assert (E0 : s = mkSrv (v_conns s) (v_sess s) (v_readers s) (v_active s) (v_mcount s) (v_mwriters s) (v_rtp s) (v_rtcp s) (v_next s)) by (destruct s; reflexivity).
    rewrite E0 at 2. apply Fin; try reflexivity; try discriminate; try tauto; try (cbn; congruence).
Qed.

(* ---- SETUP ---- *)
Lemma pick_first_supported g c ts th : pick_first g c ts = Some th -> is_supported g c th = true.
Proof.
  induction ts as [|t r IH]; cbn [pick_first]; [discriminate|].
  destruct (is_supported g c t) eqn:E; [intros H; inv H; exact E | exact IH].
Qed.

Definition playing (ss : session) : bool := match s_state ss with SInitial | SPrePlay => true | _ => false end.

Lemma tr_eqb_eq a b : tr_eqb a b = true -> a = b.
Proof.
  unfold tr_eqb. destruct a as [a1 a2], b as [b1 b2]. cbn [fst snd]. intros H.
  apply Bool.andb_true_iff in H. destruct H as [A B]. apply Bool.eqb_prop in B. subst.
  destruct a1, b1; try discriminate; reflexivity.
Qed.

Lemma validate_setup_accept g c ss r th p path trk :
  validate_setup g c ss r = SetupAccept th p path trk ->
  (s_state ss = SInitial \/ s_state ss = SPrePlay \/ s_state ss = SPreRecord) /\
  is_supported g c th = true /\ p = proto_of th /\
  (forall old, s_tr ss = Some old -> old = (p, t_secure th)) /\
  (p = SPUDP -> t_cports th <> None) /\
  (playing ss = false -> p <> SPMcast).
Proof.
  unfold validate_setup, playing.
  assert (Core : forall (pl : bool) th0 pa tk,
    is_supported g c th0 = true ->
    (if t_secure th0 && negb (r_keymgmt r) then SetupReject 400 true
     else if match s_tr ss with Some old => negb (tr_eqb old (proto_of th0, t_secure th0)) | None => false end
     then SetupReject 400 true
     else if match proto_of th0 with
             | SPUDP => match t_cports th0 with None => true | Some _ => false end
             | SPTCP => match t_inter th0 with
                        | Some (a, b) => negb (a + 1 =? b) || chan_in_use (s_medias ss) a
                        | None => false
                        end
             | SPMcast => false
             end
     then SetupReject 400 true
     else if pl then
       match t_mode th0 with
       | Some TMRecord => SetupReject 400 true
       | _ => SetupAccept th0 (proto_of th0) pa tk
       end
     else
       match proto_of th0 with
       | SPMcast => SetupReject 461 false
       | _ => match t_mode th0 with
              | Some TMRecord => SetupAccept th0 (proto_of th0) pa tk
              | _ => SetupReject 400 true
              end
       end) = SetupAccept th p path trk ->
    is_supported g c th = true /\ p = proto_of th /\
    (forall old, s_tr ss = Some old -> old = (p, t_secure th)) /\
    (p = SPUDP -> t_cports th <> None) /\ (pl = false -> p <> SPMcast)).
  { intros pl th0 pa tk Hsup H.
    destruct (t_secure th0 && negb (r_keymgmt r)); [discriminate|].
    destruct (match s_tr ss with Some old => negb (tr_eqb old (proto_of th0, t_secure th0)) | None => false end) eqn:Etr; [discriminate|].
    match type of H with (if ?x then _ else _) = _ => destruct x eqn:Ech; [discriminate|] end.
    assert (Fin : th0 = th -> proto_of th0 = p ->
              (pl = false -> p <> SPMcast) ->
              is_supported g c th = true /\ p = proto_of th /\
              (forall old, s_tr ss = Some old -> old = (p, t_secure th)) /\
              (p = SPUDP -> t_cports th <> None) /\ (pl = false -> p <> SPMcast)).
    { intros <- <- Hm. split; [assumption|]. split; [reflexivity|]. split; [|split; [|assumption]].
      - intros old Ho. rewrite Ho in Etr. apply Bool.negb_false_iff in Etr. apply tr_eqb_eq. exact Etr.
      - intros Hp. rewrite Hp in Ech. destruct (t_cports th0); [discriminate | discriminate]. }
    destruct pl.
    - destruct (t_mode th0) as [[]|]; try discriminate; inv H; apply Fin; try reflexivity; discriminate.
    - destruct (proto_of th0) eqn:Ep0; try discriminate;
        (destruct (t_mode th0) as [[]|]; try discriminate); inv H; apply Fin; try reflexivity; try assumption;
        intros _; discriminate. }
  destruct (s_state ss) eqn:Es; try discriminate;
  (destruct (r_transports r) as [ts|]; [|discriminate]);
  (destruct (pick_first g c ts) as [th0|] eqn:Ep; [|discriminate]);
  apply pick_first_supported in Ep; cbv zeta; cbn [sstate_eqb andb].
  - destruct (r_play_url r) as [[pa tk]|]; [|discriminate]. intros H. split; [tauto|].
    apply (Core true th0 pa tk Ep) in H. tauto.
  - destruct (r_play_url r) as [[pa tk]|]; [|discriminate].
    destruct (negb (pa =? s_path ss)); [discriminate|]. intros H. split; [tauto|].
    apply (Core true th0 pa tk Ep) in H. tauto.
  - intros H. split; [tauto|]. apply (Core false th0 (s_path ss) TrBad Ep) in H. tauto.
Qed.

Lemma ports_conflict_some sl ss port rs :
  (forall rid r, In rid rs -> find_sess rid sl = Some r -> s_tr r <> None) ->
  ports_conflict sl ss port rs <> None.
Proof.
  induction rs as [|rid t IH]; intros H; cbn [ports_conflict]; [discriminate|].
  assert (IH' : ports_conflict sl ss port t <> None) by (apply IH; intros; eapply H; [right|]; eassumption).
  destruct (find_sess rid sl) as [r|] eqn:F; [|exact IH'].
  pose proof (H rid r (or_introl eq_refl) F) as Ht.
  destruct (s_tr r) as [[[] b]|]; try congruence; try exact IH'.
  destruct ((s_ip r =? s_ip ss) && existsb (fun m => m_rtp m =? port) (s_medias r)); [discriminate | exact IH'].
Qed.

Lemma is_supported_udp g c th : is_supported g c th = true -> proto_of th = SPUDP -> c_udp g = true.
Proof.
  unfold is_supported, proto_of. destruct (t_proto th); [|discriminate]. destruct (t_mcast th); [discriminate|].
  intros H _. apply Bool.andb_true_iff in H. destruct H as [H _].
  apply Bool.andb_true_iff in H. destruct H as [H _]. apply Bool.andb_true_iff in H. tauto.
Qed.

Lemma sess_setup_spec g c s ss r :
  InvX (Some (c_id c)) s -> In ss (v_sess s) -> tcp_pre c ss -> h_setup g = true -> 0 < c_nmedias g ->
  exists s1 ss1 st e, sess_setup g s c ss r = Some (s1, ss1, st, e) /\ Post c s ss s1 ss1 e.
Proof.
  intros I HI Hpre Hh Hnm. pose proof (inv_ok _ s I ss HI) as OK. unfold sess_setup.
  assert (Same : forall (st : N) (e : rerr), e <> RSwitch true ->
            exists s1 ss1 st' e', Some (s, ss, st, e) = Some (s1, ss1, st', e') /\ Post c s ss s1 ss1 e').
  { intros st e He. do 4 eexists. split; [reflexivity|]. apply Post_same; assumption. }
  destruct (validate_setup g c ss r) as [st0 e0|th p path trk] eqn:V.
  { destruct e0; apply Same; discriminate. }
  apply validate_setup_accept in V. destruct V as (Hst & Hsup & Hp & Hold & Hcp & Hnomc).
  rewrite Hh. cbn [negb].
  match goal with |- context [negb (if ?pl then r_verdict_play r else r_verdict r)] =>
    destruct (negb (if pl then r_verdict_play r else r_verdict r)); [apply Same; discriminate|] end.
  (* the media lookup never dereferences nil *)
  set (lk := if match s_state ss with SInitial | SPrePlay => true | _ => false end
             then media_by_track (c_nmedias g) trk
             else match s_announced ss with
                  | None => None
                  | Some n => Some match r_rec_media r with
                                   | Some k => if k <? n then Some k else None
                                   | None => None
                                   end
                  end).
  assert (Lk : exists mk, lk = Some mk).
  { subst lk. destruct Hst as [Es|[Es|Es]]; rewrite Es.
    - unfold media_by_track. destruct trk; [apply N.ltb_lt in Hnm; rewrite Hnm|..]; eexists; reflexivity.
    - unfold media_by_track. destruct trk; [apply N.ltb_lt in Hnm; rewrite Hnm|..]; eexists; reflexivity.
    - destruct (ok_ann ss OK) as (n & Han & _); [tauto|]. rewrite Han. eexists; reflexivity. }
  destruct Lk as (mk & ->). destruct mk as [k|]; [|apply Same; discriminate].
  destruct (existsb (fun m => m_idx m =? k) (s_medias ss)); [apply Same; discriminate|].
  assert (Hnr : running ss = false) by (unfold running; destruct Hst as [Es|[Es|Es]]; rewrite Es; reflexivity).
  (* the common ending *)
  assert (Fin : forall readers' mc' mw' ss2,
            s_id ss2 = s_id ss -> s_conns ss2 = s_conns ss -> SessOK ss2 ->
            mc' + b2n (mreader ss) = v_mcount s + b2n (mreader ss2) -> (mw' = true <-> 0 < mc') ->
            (forall rid, In rid readers' -> rid = s_id ss \/ In rid (v_readers s)) -> s_tr ss2 <> None ->
            Post c s ss (mkSrv (v_conns s) (v_sess s) readers' (v_active s) mc' mw' (v_rtp s) (v_rtcp s) (v_next s)) ss2 RNone).
  { intros readers' mc' mw' ss2 H1 H2 H3 H4 H5 H6 H7.
    constructor; [|reflexivity|reflexivity|reflexivity|assumption|assumption|discriminate|].
    - unfold set_sess. cbn [v_conns v_sess v_readers v_active v_mcount v_mwriters v_rtp v_rtcp v_next].
      apply (Inv_update_req c s ss ss2); try assumption. intros _. assumption.
    - intros _ (A & B & C). congruence. }
  set (sec := t_secure th) in *.
  assert (E0 : s = mkSrv (v_conns s) (v_sess s) (v_readers s) (v_active s) (v_mcount s) (v_mwriters s) (v_rtp s) (v_rtcp s) (v_next s)) by (destruct s; reflexivity).
  destruct Hst as [Es|[Es|Es]]; rewrite Es; cbn [sstate_eqb].
  - (* first SETUP of a reading session: the session joins the stream *)
    destruct (ok_init ss OK Es) as [Hstr Htr0].
    assert (Hmr : mreader ss = false) by (unfold mreader; rewrite Hstr; reflexivity).
    unfold reader_add. cbn [s_tr s_id].
    destruct p eqn:Ep.
    + (* UDP *)
      destruct (t_cports th) as [[a b]|] eqn:Ecp; [|exfalso; apply Hcp; reflexivity].
      match goal with |- context [ports_conflict ?a ?b ?c ?d] =>
        pose proof (ports_conflict_some a b c d (inv_readers _ s I)) as Pc; destruct (ports_conflict a b c d) as [[]|] end;
        [apply Same; discriminate | | congruence].
      rewrite (is_supported_udp g c th Hsup) by congruence.
      do 4 eexists. split; [reflexivity|]. apply Fin; try reflexivity.
      * sess_ok OK; destruct (s_medias ss); discriminate.
      * rewrite Hmr. unfold mreader, is_mcast. cbn. lia.
      * apply I.
      * intros rid Hr. apply In_nadd in Hr. tauto.
      * discriminate.
    + (* multicast *)
      set (mw := if v_mcount s =? 0 then true else v_mwriters s).
      assert (Hmw : mw = true).
      { subst mw. destruct (v_mcount s =? 0) eqn:E0'; [reflexivity|]. apply N.eqb_neq in E0'. apply (inv_mwr _ s I). lia. }
      cbn [v_mwriters]. fold mw. rewrite Hmw.
      do 4 eexists. split; [reflexivity|]. apply Fin; try reflexivity.
      * sess_ok OK; destruct (s_medias ss); discriminate.
      * rewrite Hmr. unfold mreader, is_mcast. cbn. lia.
      * split; [lia | reflexivity].
      * intros rid Hr. apply In_nadd in Hr. tauto.
      * discriminate.
    + (* TCP *)
      assert (Ch : exists sm, match t_inter th with
                              | Some (a, _) => Some (mkSM k a 0 0)
                              | None => match find_free (s_medias ss) with Some ch => Some (mkSM k ch 0 0) | None => None end
                              end = Some sm).
      { destruct (t_inter th) as [[a b]|]; [eexists; reflexivity|].
        pose proof (find_free_some (s_medias ss)). destruct (find_free (s_medias ss)); [eexists; reflexivity | congruence]. }
      destruct Ch as (sm & ->).
      do 4 eexists. split; [reflexivity|]. apply Fin; try reflexivity.
      * sess_ok OK; destruct (s_medias ss); discriminate.
      * rewrite Hmr. unfold mreader, is_mcast. cbn. lia.
      * apply I.
      * intros rid Hr. apply In_nadd in Hr. tauto.
      * discriminate.
  - (* further SETUP of a reading session *)
    pose proof (ok_tr ss OK) as Ht. rewrite Es in Ht. specialize (Ht (or_introl eq_refl)).
    destruct (s_tr ss) as [old|] eqn:Etr; [|congruence]. pose proof (Hold old eq_refl) as Ho. subst old.
    pose proof (ok_stream ss OK) as Hstr. rewrite Es in Hstr. specialize (Hstr (or_introl eq_refl)).
    assert (Sm : exists sm,
      match p with
      | SPUDP => match t_cports th with Some (a, b) => if c_udp g then Some (mkSM k 0 a b) else None | None => None end
      | SPMcast => if v_mwriters s then Some (mkSM k 0 0 0) else None
      | SPTCP => match t_inter th with
                 | Some (a, _) => Some (mkSM k a 0 0)
                 | None => match find_free (s_medias ss) with Some ch => Some (mkSM k ch 0 0) | None => None end
                 end
      end = Some sm).
    { destruct p eqn:Ep.
      - destruct (t_cports th) as [[a b]|] eqn:Ecp; [|exfalso; apply Hcp; reflexivity].
        rewrite (is_supported_udp g c th Hsup) by congruence. eexists; reflexivity.
      - assert (v_mwriters s = true) as ->; [|eexists; reflexivity].
        eapply mreader_counted; [exact I | exact HI|]. unfold mreader, is_mcast. rewrite Hstr, Etr. reflexivity.
      - destruct (t_inter th) as [[a b]|]; [eexists; reflexivity|].
        pose proof (find_free_some (s_medias ss)). destruct (find_free (s_medias ss)); [eexists; reflexivity | congruence]. }
    destruct Sm as (sm & ->).
    do 4 eexists. split; [reflexivity|]. rewrite E0 at 2. apply Fin; try reflexivity.
    + sess_ok OK; destruct (s_medias ss); discriminate.
    + unfold mreader, is_mcast. cbn [s_stream s_tr]. rewrite Etr. reflexivity.
    + apply I.
    + tauto.
    + discriminate.
  - (* SETUP of a publishing session *)
    assert (Pm : p <> SPMcast) by (apply Hnomc; unfold playing; rewrite Es; reflexivity).
    assert (Hnmc : is_mcast ss = false) by (apply (ok_rec ss OK); tauto).
    assert (Sm : exists sm,
      match p with
      | SPUDP => match t_cports th with Some (a, b) => if c_udp g then Some (mkSM k 0 a b) else None | None => None end
      | SPMcast => if v_mwriters s then Some (mkSM k 0 0 0) else None
      | SPTCP => match t_inter th with
                 | Some (a, _) => Some (mkSM k a 0 0)
                 | None => match find_free (s_medias ss) with Some ch => Some (mkSM k ch 0 0) | None => None end
                 end
      end = Some sm).
    { destruct p eqn:Ep; [|congruence|].
      - destruct (t_cports th) as [[a b]|] eqn:Ecp; [|exfalso; apply Hcp; reflexivity].
        rewrite (is_supported_udp g c th Hsup) by congruence. eexists; reflexivity.
      - destruct (t_inter th) as [[a b]|]; [eexists; reflexivity|].
        pose proof (find_free_some (s_medias ss)). destruct (find_free (s_medias ss)); [eexists; reflexivity | congruence]. }
    destruct Sm as (sm & ->).
    do 4 eexists. split; [reflexivity|]. rewrite E0 at 2. apply Fin; try reflexivity.
    + sess_ok OK; try (destruct (s_medias ss); discriminate). destruct p; try reflexivity; congruence.
    + unfold mreader. rewrite Hnmc. unfold is_mcast. cbn [s_stream s_tr]. destruct p; try congruence; rewrite !Bool.andb_false_r; reflexivity.
    + apply I.
    + tauto.
    + discriminate.
Qed.

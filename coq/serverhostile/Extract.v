From Coq Require Extraction ExtrOcamlBasic.
From GV_serverhostile Require Import Model.
Extraction Language OCaml.
Extraction "model.ml" run.

(* Frame properties: what a step on one connection cannot touch. *)
From Coq Require Import ZifyBool ZifyNat ZifyN.
From GVL Require Import NList Wire.
From GV_serverhostile Require Import Model Basics Inv FindFree Handlers Step.
Open Scope N_scope.

(* the part of the stream ledger that belongs to session x *)
Definition same_slots (x : N) (s s' : server) : Prop :=
  (In x (v_readers s') <-> In x (v_readers s)) /\ (In x (v_active s') <-> In x (v_active s)).

Lemma same_slots_refl x s : same_slots x s s.
Proof. unfold same_slots. tauto. Qed.

Lemma same_slots_trans x a b c : same_slots x a b -> same_slots x b c -> same_slots x a c.
Proof. unfold same_slots. tauto. Qed.

Ltac slots := unfold same_slots; cbn [v_readers v_active]; rewrite ?In_nadd, ?In_nremove; tauto.

Lemma reader_set_inactive_frame s ss s' x :
  reader_set_inactive s ss = Some s' -> x <> s_id ss ->
  v_sess s' = v_sess s /\ v_conns s' = v_conns s /\ v_next s' = v_next s /\ same_slots x s s'.
Proof.
  unfold reader_set_inactive. intros H Hx. repeat dmatch; try discriminate; inv H; repeat split; try reflexivity; slots.
Qed.

Lemma reader_set_active_frame s ss s' x :
  reader_set_active s ss = Some s' -> x <> s_id ss ->
  v_sess s' = v_sess s /\ v_conns s' = v_conns s /\ v_next s' = v_next s /\ same_slots x s s'.
Proof.
  unfold reader_set_active. intros H Hx. repeat dmatch; try discriminate; inv H; repeat split; try reflexivity; slots.
Qed.

Lemma reader_remove_frame s ss s' x :
  reader_remove s ss = Some s' -> x <> s_id ss ->
  v_sess s' = v_sess s /\ v_conns s' = v_conns s /\ v_next s' = v_next s /\ same_slots x s s'.
Proof.
  unfold reader_remove. intros H Hx. repeat dmatch; try discriminate; inv H; repeat split; try reflexivity; slots.
Qed.

Lemma medias_stop_frame s ss s' x :
  medias_stop s ss = Some s' ->
  v_sess s' = v_sess s /\ v_conns s' = v_conns s /\ v_next s' = v_next s /\ same_slots x s s'.
Proof.
  unfold medias_stop. intros H. repeat dmatch; try discriminate; inv H; repeat split; try reflexivity; slots.
Qed.

Lemma reader_add_frame s ss cp s' x :
  reader_add s ss cp = Some (inl s') -> x <> s_id ss ->
  v_sess s' = v_sess s /\ v_conns s' = v_conns s /\ v_next s' = v_next s /\ same_slots x s s'.
Proof.
  unfold reader_add. intros H Hx. repeat dmatch; try discriminate; inv H; repeat split; try reflexivity; slots.
Qed.

(* ---- the session handlers only touch the slots of their own session ---- *)
Ltac dH H :=
  match type of H with
  | match ?x with _ => _ end = _ => destruct x eqn:?
  end.

Definition framed (x : N) (s : server) (ss : session) (s1 : server) (ss1 : session) : Prop :=
  v_sess s1 = v_sess s /\ v_conns s1 = v_conns s /\ v_next s1 = v_next s /\ s_id ss1 = s_id ss /\ same_slots x s s1.

Lemma framed_same x s ss : framed x s ss s ss.
Proof. unfold framed. repeat split; try reflexivity; apply same_slots_refl. Qed.

Ltac fsame H := inv H; apply framed_same.

Ltac dHas H pat E :=
  match type of H with
  | match ?x with _ => _ end = _ => destruct x as pat eqn:E
  end.

Lemma sess_setup_frame g s c ss r s1 ss1 st e x :
  sess_setup g s c ss r = Some (s1, ss1, st, e) -> x <> s_id ss -> framed x s ss s1 ss1.
Proof.
  intros H Hx. unfold sess_setup in H.
  dH H; [fsame H|]. dH H; [discriminate|]. dH H; [fsame H|].
  dHas H ipattern:([mk|]) Elk; [|discriminate]. destruct mk as [k|]; [|fsame H]. dH H; [fsame H|].
  dHas H ipattern:([ra|]) Era; [|discriminate]. destruct ra as [sa|u]; [|fsame H].
  assert (Fa : v_sess sa = v_sess s /\ v_conns sa = v_conns s /\ v_next sa = v_next s /\ same_slots x s sa).
  { destruct (sstate_eqb (s_state ss) SInitial).
    - eapply reader_add_frame; [exact Era | exact Hx].
    - inv Era. repeat split; try reflexivity; apply same_slots_refl. }
  dHas H ipattern:([sm|]) Esm; [|discriminate]. inv H. destruct Fa as (A & B & C & D). unfold framed.
  split; [exact A|]. split; [exact B|]. split; [exact C|]. split; [|exact D].
  destruct (sstate_eqb (s_state ss) SInitial); reflexivity.
Qed.

Lemma framed_of x s ss s1 ss1 :
  v_sess s1 = v_sess s -> v_conns s1 = v_conns s -> v_next s1 = v_next s -> s_id ss1 = s_id ss -> same_slots x s s1 ->
  framed x s ss s1 ss1.
Proof. unfold framed. tauto. Qed.

Lemma sess_play_frame g s c ss r s1 ss1 st e x :
  sess_play g s c ss r = Some (s1, ss1, st, e) -> x <> s_id ss -> framed x s ss s1 ss1.
Proof.
  intros H Hx. unfold sess_play in H.
  repeat dmatch; try discriminate; try (fsame H); inv H;
    try (apply framed_of; try reflexivity; apply same_slots_refl).
  all: match goal with E : reader_set_active _ _ = Some _ |- _ =>
         apply (reader_set_active_frame _ _ _ x) in E; [|exact Hx]; destruct E as (A & B & C & D) end.
  all: cbn [v_sess v_conns v_next] in *; apply framed_of; try assumption; try reflexivity.
  all: unfold same_slots in *; cbn [v_readers v_active] in *; tauto.
Qed.

Lemma sess_record_frame g s c ss r s1 ss1 st e x :
  sess_record g s c ss r = Some (s1, ss1, st, e) -> x <> s_id ss -> framed x s ss s1 ss1.
Proof.
  intros H Hx. unfold sess_record in H.
  repeat dmatch; try discriminate; try (fsame H); inv H; apply framed_of; try reflexivity; apply same_slots_refl || slots.
Qed.

Lemma sess_pause_frame g s ss r s1 ss1 st e x :
  sess_pause g s ss r = Some (s1, ss1, st, e) -> x <> s_id ss -> framed x s ss s1 ss1.
Proof.
  intros H Hx. unfold sess_pause in H.
  repeat dmatch; try discriminate; try (fsame H); inv H.
  all: repeat match goal with
       | E : reader_set_inactive _ _ = Some _ |- _ => apply (reader_set_inactive_frame _ _ _ x) in E; [|exact Hx]; destruct E as (? & ? & ? & ?)
       | E : medias_stop _ _ = Some _ |- _ => apply (medias_stop_frame _ _ _ x) in E; destruct E as (? & ? & ? & ?)
       | E : Some _ = Some _ |- _ => inv E
       end.
  all: apply framed_of; try reflexivity; try congruence; try (eapply same_slots_trans; eassumption); try assumption.
Qed.

Lemma sess_inner_frame g s c ss r s1 ss1 st e x :
  sess_inner g s c ss r = Some (s1, ss1, st, e) -> x <> s_id ss -> framed x s ss s1 ss1.
Proof.
  intros H Hx. unfold sess_inner in H.
  dH H; [fsame H|]. dH H; [discriminate|].
  destruct (r_method r); try (fsame H).
  - unfold sess_announce in H. repeat dmatch; try discriminate; try (fsame H); inv H; apply framed_of; try reflexivity; apply same_slots_refl.
  - eapply sess_setup_frame; eassumption.
  - eapply sess_play_frame; eassumption.
  - eapply sess_record_frame; eassumption.
  - eapply sess_pause_frame; eassumption.
  - unfold sess_teardown in H. repeat dmatch; try discriminate; fsame H.
  - dH H; fsame H.
Qed.

(* ---- server-level frames ---- *)
Definition sframe (x : N) (s s' : server) : Prop :=
  find_sess x (v_sess s') = find_sess x (v_sess s) /\ same_slots x s s'.

Lemma sframe_refl x s : sframe x s s.
Proof. split; [reflexivity | apply same_slots_refl]. Qed.

Lemma sframe_trans x a b c : sframe x a b -> sframe x b c -> sframe x a c.
Proof. intros [A1 A2] [B1 B2]. split; [congruence | eapply same_slots_trans; eassumption]. Qed.

Lemma sframe_set_sess x s ss : x <> s_id ss -> sframe x s (set_sess s ss).
Proof.
  intros Hx. split; [cbn [set_sess v_sess]; apply find_put_sess_other; exact Hx|].
  unfold same_slots. cbn [set_sess v_readers v_active]. tauto.
Qed.

Lemma end_session_frame s t s' x : end_session s t = Some s' -> x <> t -> sframe x s s'.
Proof.
  intros H Hx. unfold end_session in H. destruct (find_sess t (v_sess s)) as [ss|] eqn:F; [|inv H; apply sframe_refl].
  apply find_sess_In in F. destruct F as [_ Hid]. assert (Hx' : x <> s_id ss) by congruence.
  match type of H with context [mkSrv (filter ?f (v_conns s)) ?a ?b ?c ?d ?e ?f0 ?g ?h] =>
    set (s1 := mkSrv (filter f (v_conns s)) a b c d e f0 g h) in * end.
  assert (F1 : v_sess s1 = v_sess s /\ same_slots x s s1) by (split; [reflexivity | unfold same_slots; cbn; tauto]).
  assert (Mid : forall s3, (if s_stream ss then match reader_set_inactive s1 ss with Some s2 => reader_remove s2 ss | None => None end
                            else Some s1) = Some s3 -> v_sess s3 = v_sess s /\ same_slots x s s3).
  { intros s3 E. destruct (s_stream ss).
    - destruct (reader_set_inactive s1 ss) as [s2|] eqn:E1; [|discriminate].
      apply (reader_set_inactive_frame _ _ _ x) in E1; [|exact Hx']. apply (reader_remove_frame _ _ _ x) in E; [|exact Hx'].
      destruct E1 as (A1 & _ & _ & A4), E as (B1 & _ & _ & B4), F1 as [F1a F1b]. split; [congruence|].
      eapply same_slots_trans; [|exact B4]. eapply same_slots_trans; [exact F1b | exact A4].
    - inv E. exact F1. }
  dHas H ipattern:([s3|]) Em; [|discriminate].
  destruct (Mid s3 eq_refl) as [M1 M2].
  destruct (medias_stop s3 ss) as [s4|] eqn:E4; [|discriminate]. inv H.
  apply (medias_stop_frame _ _ _ x) in E4. destruct E4 as (C1 & _ & _ & C4).
  split.
  - cbn [v_sess]. rewrite find_del_sess_other by exact Hx. congruence.
  - eapply same_slots_trans; [exact M2|]. unfold same_slots in *. cbn [v_readers v_active]. tauto.
Qed.

Lemma close_conn_frame s cid s' x :
  close_conn s cid = Some s' -> (forall c, find_conn cid (v_conns s) = Some c -> c_sess c <> Some x) -> sframe x s s'.
Proof.
  intros H Hc. unfold close_conn in H. destruct (find_conn cid (v_conns s)) as [c|] eqn:F; [|inv H; apply sframe_refl].
  specialize (Hc c eq_refl).
  match type of H with context [mkSrv (del_conn cid (v_conns s)) ?a ?b ?c0 ?d ?e ?f0 ?g ?h] =>
    set (s1 := mkSrv (del_conn cid (v_conns s)) a b c0 d e f0 g h) in * end.
  assert (F1 : sframe x s s1) by (split; [reflexivity | unfold same_slots; cbn; tauto]).
  destruct (c_sess c) as [sid|]; [|inv H; exact F1].
  destruct (find_sess sid (v_sess s1)) as [ss|] eqn:Fs; [|inv H; exact F1].
  apply find_sess_In in Fs. destruct Fs as [_ Hid]. assert (Hx : x <> sid) by congruence.
  match type of H with context [set_sess s1 ?y] => set (ss' := y) in * end.
  assert (F2 : sframe x s (set_sess s1 ss')).
  { eapply sframe_trans; [exact F1|]. apply sframe_set_sess. cbn. congruence. }
  repeat dmatch; try discriminate; try (inv H; exact F2);
    (eapply sframe_trans; [exact F2|]; eapply end_session_frame; [eassumption | exact Hx]).
Qed.

Lemma sess_request_frame g s c ss0 r s2 st e sess' adv x :
  sess_request g s c ss0 r = Some (s2, st, e, sess', adv) -> x <> s_id ss0 ->
  sframe x s s2 /\ sess' <> Some x.
Proof.
  intros H Hx. unfold sess_request in H.
  match type of H with context [sess_inner g (set_sess s ?y) c ?y r] => set (ss := y) in * end.
  assert (F0 : sframe x s (set_sess s ss)) by (apply sframe_set_sess; exact Hx).
  destruct (sess_inner g (set_sess s ss) c ss r) as [[[[s1 ss1] st1] e1]|] eqn:Ei; [|discriminate].
  apply (sess_inner_frame _ _ _ _ _ _ _ _ _ x) in Ei; [|exact Hx]. destruct Ei as (A & B & C & D & E).
  assert (Hx1 : x <> s_id ss1) by (rewrite D; exact Hx).
  assert (F1 : sframe x s (set_sess s1 ss1)).
  { split.
    - cbn [set_sess v_sess]. rewrite find_put_sess_other by exact Hx1. rewrite A. apply F0.
    - eapply same_slots_trans; [apply F0|]. unfold same_slots in *. cbn [set_sess v_readers v_active] in *. tauto. }
  assert (Gen : forall a, Some (set_sess s1 ss1, st1, e1, Some (s_id ss1), a) = Some (s2, st, e, sess', adv) ->
                    sframe x s s2 /\ sess' <> Some x).
  { intros a E0. inv E0. split; [exact F1|]. congruence. }
  destruct (r_method r); try (eapply Gen; exact H).
  destruct (match e1 with RErr => false | _ => true end); [|eapply Gen; exact H].
  match type of H with context [set_sess s1 ?y] => set (ss2 := y) in * end.
  destruct (end_session (set_sess s1 ss2) (s_id ss2)) as [s3|] eqn:E3; [|discriminate]. inv H.
  split; [|discriminate].
  assert (F2 : sframe x s (set_sess s1 ss2)).
  { split.
    - cbn [set_sess v_sess]. rewrite find_put_sess_other by (cbn; exact Hx1). rewrite A. apply F0.
    - eapply same_slots_trans; [apply F0|]. unfold same_slots in *. cbn [set_sess v_readers v_active] in *. tauto. }
  eapply sframe_trans; [exact F2|]. eapply end_session_frame; [exact E3 | cbn; exact Hx1].
Qed.

Lemma in_session_frame g s c r create s1 st e sess' adv x :
  in_session g s c r create = Some (s1, st, e, sess', adv) ->
  c_sess c <> Some x -> r_sess r <> Some x -> x <> v_next s ->
  sframe x s s1 /\ sess' <> Some x.
Proof.
  intros H Hc Hr Hn. unfold in_session in H.
  destruct (c_sess c) as [sid|] eqn:Ecs.
  - assert (Hx : x <> sid) by congruence.
    dH H; [inv H; split; [apply sframe_refl | congruence]|].
    destruct (find_sess sid (v_sess s)) as [ss|] eqn:F; [|inv H; split; [apply sframe_refl | congruence]].
    apply find_sess_In in F. destruct F as [_ Hid]. eapply sess_request_frame; [exact H | congruence].
  - dHas H ipattern:([ss|]) F.
    + assert (Hx : x <> s_id ss).
      { destruct (r_sess r) as [id|]; [|discriminate]. apply find_sess_In in F. destruct F as [_ Hid]. congruence. }
      dH H; [inv H; split; [apply sframe_refl | discriminate]|]. eapply sess_request_frame; [exact H | exact Hx].
    + destruct create; [|inv H; split; [apply sframe_refl | discriminate]].
      match type of H with sess_request g ?sn c ?ssn r = _ => set (s0 := sn) in *; set (ssn0 := ssn) in * end.
      apply (sess_request_frame _ _ _ _ _ _ _ _ _ _ x) in H; [|cbn; exact Hn]. destruct H as [Hf Hs]. split; [|exact Hs].
      eapply sframe_trans; [|exact Hf]. split.
      * cbn [v_sess s0 find_sess ssn0 s_id]. destruct (v_next s =? x) eqn:E; [apply N.eqb_eq in E; congruence | reflexivity].
      * unfold same_slots. cbn. tauto.
Qed.

Lemma conn_request_frame g s c r s1 st e sess' adv x :
  conn_request g s c r = Some (s1, st, e, sess', adv) ->
  c_sess c <> Some x -> r_sess r <> Some x -> x <> v_next s ->
  sframe x s s1 /\ sess' <> Some x.
Proof.
  intros H Hc Hr Hn. unfold conn_request in H.
  assert (Plain : forall (st0 : N) (e0 : rerr), Some (s, st0, e0, c_sess c, @None N) = Some (s1, st, e, sess', adv) ->
            sframe x s s1 /\ sess' <> Some x).
  { intros st0 e0 E. inv E. split; [apply sframe_refl | exact Hc]. }
  dH H; [eapply Plain; exact H|]. dH H; [eapply Plain; exact H|].
  cbv zeta in H.
  destruct (r_method r); repeat dmatch; try (eapply Plain; exact H);
    try (eapply in_session_frame; [exact H | exact Hc | congruence | exact Hn]).
Qed.

Lemma conn_event_frame g s c e s' o x :
  conn_event g s c e = Some (s', o) ->
  find_conn (c_id c) (v_conns s) = Some c ->
  c_sess c <> Some x -> (forall r, e = EReq r -> r_sess r <> Some x) -> x <> v_next s ->
  sframe x s s'.
Proof.
  intros H Fc Hc Hr Hn. unfold conn_event in H.
  assert (Close : forall s1 o1, match close_conn s (c_id c) with None => None | Some s1 => Some (s1, OClosed) end = Some (s1, o1) ->
                   sframe x s s1).
  { intros s1 o1 E. destruct (close_conn s (c_id c)) as [s2|] eqn:E2; [|discriminate]. inv E.
    eapply close_conn_frame; [exact E2|]. intros c' Fc'. rewrite Fc in Fc'. inv Fc'. exact Hc. }
  destruct e as [r|ch| | |]; try (eapply Close; exact H).
  - destruct (conn_request g s c r) as [[[[[s1 st] err] sess'] adv]|] eqn:Er; [|discriminate].
    apply (conn_request_frame _ _ _ _ _ _ _ _ _ x) in Er; [|exact Hc | apply Hr; reflexivity | exact Hn].
    destruct Er as [F1 Hs'].
    destruct (find_conn (c_id c) (v_conns s1)) as [c0|] eqn:F0; [|inv H; exact F1].
    match type of H with context [set_conn s1 ?y] => set (c1 := y) in * end.
    assert (F2 : sframe x s (set_conn s1 c1)).
    { eapply sframe_trans; [exact F1|]. split; [reflexivity | unfold same_slots; cbn; tauto]. }
    destruct err as [| |t].
    + inv H. exact F2.
    + destruct (close_conn (set_conn s1 c1) (c_id c)) as [s3|] eqn:E3; [|discriminate]. inv H.
      eapply sframe_trans; [exact F2|]. eapply close_conn_frame; [exact E3|].
      intros c' Fc'. cbn [set_conn v_conns] in Fc'.
      assert (c' = c1).
      { apply find_conn_In in Fc'. destruct Fc' as [Hin Hid]. apply In_put_conn in Hin.
        destruct Hin as [->|[_ Hne]]; [reflexivity|]. exfalso. apply Hne. rewrite Hid.
        apply find_conn_In in F0. destruct F0 as [_ F0]. subst c1. cbn. congruence. }
      subst c'. subst c1. cbn. exact Hs'.
    + destruct t; [destruct sess'; [|discriminate]|]; inv H; exact F2.
  - destruct (c_tcp c).
    + destruct (c_sess c); [|discriminate]. inv H. apply sframe_refl.
    + eapply Close; exact H.
Qed.

(* others_unaffected (partial): a step on connection cid leaves untouched every session that the
   connection is not paired with and that the request does not name: its record (state, transport,
   medias, attached connections, writer, timer) is identical and its reader / active-reader slots in
   the stream are the same. *)
Theorem others_unaffected_partial g s cid e s' o x ssx :
  Inv s -> step g s (SConn cid e) = Some (s', o) ->
  find_sess x (v_sess s) = Some ssx ->
  (forall c, find_conn cid (v_conns s) = Some c -> c_sess c <> Some x) ->
  (forall r, e = EReq r -> r_sess r <> Some x) ->
  find_sess x (v_sess s') = Some ssx /\
  (In x (v_readers s') <-> In x (v_readers s)) /\ (In x (v_active s') <-> In x (v_active s)).
Proof.
  intros I H Fx Hc Hr. cbn [step] in H.
  destruct (find_conn cid (v_conns s)) as [c|] eqn:Fc; [|inv H; tauto].
  assert (Hn : x <> v_next s).
  { apply find_sess_In in Fx. destruct Fx as [Hin Hid]. pose proof (inv_fresh _ s I ssx Hin). lia. }
  pose proof (find_conn_In _ _ _ Fc) as [_ Hid]. subst cid.
  destruct (conn_event_frame g s c e s' o x H Fc (Hc c eq_refl) Hr Hn) as [A [B C]].
  rewrite A. tauto.
Qed.

(* timers and writer errors of one session do not touch another *)
Theorem others_unaffected_session_end g s t s' o x :
  (step g s (STimeout t) = Some (s', o) \/ step g s (SWriterErr t) = Some (s', o)) -> x <> t -> sframe x s s'.
Proof.
  intros [H|H] Hx; cbn [step] in H; repeat dmatch; try discriminate; inv H; try apply sframe_refl;
    eapply end_session_frame; eassumption.
Qed.

(* Frame properties: what a step on one connection cannot touch. *)
From Coq Require Import ZifyBool ZifyNat ZifyN.
From GVL Require Import NList Wire.
From GV_serverhostile Require Import Model Basics Inv FindFree Handlers Step.
Open Scope N_scope.

(* the part of the stream ledger that belongs to session x *)
Definition same_slots (x : N) (s s' : server) : Prop :=
  (In x (v_readers s') <-> In x (v_readers s)) /\ (In x (v_active s') <-> In x (v_active s)).

Lemma same_slots_refl x s : same_slots x s s.
Proof. unfold same_slots. tauto. Qed.

Lemma same_slots_trans x a b c : same_slots x a b -> same_slots x b c -> same_slots x a c.
Proof. unfold same_slots. tauto. Qed.

Ltac slots := unfold same_slots; cbn [v_readers v_active]; rewrite ?In_nadd, ?In_nremove; tauto.

Lemma reader_set_inactive_frame s ss s' x :
  reader_set_inactive s ss = Some s' -> x <> s_id ss ->
  v_sess s' = v_sess s /\ v_conns s' = v_conns s /\ v_next s' = v_next s /\ same_slots x s s'.
Proof.
  unfold reader_set_inactive. intros H Hx. repeat dmatch; try discriminate; inv H; repeat split; try reflexivity; slots.
Qed.

Lemma reader_set_active_frame s ss s' x :
  reader_set_active s ss = Some s' -> x <> s_id ss ->
  v_sess s' = v_sess s /\ v_conns s' = v_conns s /\ v_next s' = v_next s /\ same_slots x s s'.
Proof.
  unfold reader_set_active. intros H Hx. repeat dmatch; try discriminate; inv H; repeat split; try reflexivity; slots.
Qed.

Lemma reader_remove_frame s ss s' x :
  reader_remove s ss = Some s' -> x <> s_id ss ->
  v_sess s' = v_sess s /\ v_conns s' = v_conns s /\ v_next s' = v_next s /\ same_slots x s s'.
Proof.
  unfold reader_remove. intros H Hx. repeat dmatch; try discriminate; inv H; repeat split; try reflexivity; slots.
Qed.

Lemma medias_stop_frame s ss s' x :
  medias_stop s ss = Some s' ->
  v_sess s' = v_sess s /\ v_conns s' = v_conns s /\ v_next s' = v_next s /\ same_slots x s s'.
Proof.
  unfold medias_stop. intros H. repeat dmatch; try discriminate; inv H; repeat split; try reflexivity; slots.
Qed.

Lemma reader_add_frame s ss cp s' x :
  reader_add s ss cp = Some (inl s') -> x <> s_id ss ->
  v_sess s' = v_sess s /\ v_conns s' = v_conns s /\ v_next s' = v_next s /\ same_slots x s s'.
Proof.
  unfold reader_add. intros H Hx. repeat dmatch; try discriminate; inv H; repeat split; try reflexivity; slots.
Qed.

(* ---- the session handlers only touch the slots of their own session ---- *)
Ltac dH H :=
  match type of H with
  | match ?x with _ => _ end = _ => destruct x eqn:?
  end.

Definition framed (x : N) (s : server) (ss : session) (s1 : server) (ss1 : session) : Prop :=
  v_sess s1 = v_sess s /\ v_conns s1 = v_conns s /\ v_next s1 = v_next s /\ s_id ss1 = s_id ss /\ same_slots x s s1.

Lemma framed_same x s ss : framed x s ss s ss.
Proof. unfold framed. repeat split; try reflexivity; apply same_slots_refl. Qed.

Ltac fsame H := inv H; apply framed_same.

Ltac dHas H pat E :=
  match type of H with
  | match ?x with _ => _ end = _ => destruct x as pat eqn:E
  end.

Lemma sess_setup_frame g s c ss r s1 ss1 st e x :
  sess_setup g s c ss r = Some (s1, ss1, st, e) -> x <> s_id ss -> framed x s ss s1 ss1.
Proof.
  intros H Hx. unfold sess_setup in H.
  dH H; [fsame H|]. dH H; [discriminate|]. dH H; [fsame H|].
  dHas H ipattern:([mk|]) Elk; [|discriminate]. destruct mk as [k|]; [|fsame H]. dH H; [fsame H|].
  dHas H ipattern:([ra|]) Era; [|discriminate]. destruct ra as [sa|u]; [|fsame H].
  assert (Fa : v_sess sa = v_sess s /\ v_conns sa = v_conns s /\ v_next sa = v_next s /\ same_slots x s sa).
  { destruct (sstate_eqb (s_state ss) SInitial).
    - eapply reader_add_frame; [exact Era | exact Hx].
    - inv Era. repeat split; try reflexivity; apply same_slots_refl. }
  dHas H ipattern:([sm|]) Esm; [|discriminate]. inv H. destruct Fa as (A & B & C & D). unfold framed.
  split; [exact A|]. split; [exact B|]. split; [exact C|]. split; [|exact D].
  destruct (sstate_eqb (s_state ss) SInitial); reflexivity.
Qed.

Lemma framed_of x s ss s1 ss1 :
  v_sess s1 = v_sess s -> v_conns s1 = v_conns s -> v_next s1 = v_next s -> s_id ss1 = s_id ss -> same_slots x s s1 ->
  framed x s ss s1 ss1.
Proof. unfold framed. tauto. Qed.

Lemma sess_play_frame g s c ss r s1 ss1 st e x :
  sess_play g s c ss r = Some (s1, ss1, st, e) -> x <> s_id ss -> framed x s ss s1 ss1.
Proof.
  intros H Hx. unfold sess_play in H.
  repeat dmatch; try discriminate; try (fsame H); inv H;
    try (apply framed_of; try reflexivity; apply same_slots_refl).
  all: match goal with E : reader_set_active _ _ = Some _ |- _ =>
         apply (reader_set_active_frame _ _ _ x) in E; [|exact Hx]; destruct E as (A & B & C & D) end.
  all: cbn [v_sess v_conns v_next] in *; apply framed_of; try assumption; try reflexivity.
  all: unfold same_slots in *; cbn [v_readers v_active] in *; tauto.
Qed.

Lemma sess_record_frame g s c ss r s1 ss1 st e x :
  sess_record g s c ss r = Some (s1, ss1, st, e) -> x <> s_id ss -> framed x s ss s1 ss1.
Proof.
  intros H Hx. unfold sess_record in H.
  repeat dmatch; try discriminate; try (fsame H); inv H; apply framed_of; try reflexivity; apply same_slots_refl || slots.
Qed.

Lemma sess_pause_frame g s ss r s1 ss1 st e x :
  sess_pause g s ss r = Some (s1, ss1, st, e) -> x <> s_id ss -> framed x s ss s1 ss1.
Proof.
  intros H Hx. unfold sess_pause in H.
  repeat dmatch; try discriminate; try (fsame H); inv H.
  all: repeat match goal with
       | E : reader_set_inactive _ _ = Some _ |- _ => apply (reader_set_inactive_frame _ _ _ x) in E; [|exact Hx]; destruct E as (? & ? & ? & ?)
       | E : medias_stop _ _ = Some _ |- _ => apply (medias_stop_frame _ _ _ x) in E; destruct E as (? & ? & ? & ?)
       | E : Some _ = Some _ |- _ => inv E
       end.
  all: apply framed_of; try reflexivity; try congruence; try (eapply same_slots_trans; eassumption); try assumption.
Qed.

Lemma sess_inner_frame g s c ss r s1 ss1 st e x :
  sess_inner g s c ss r = Some (s1, ss1, st, e) -> x <> s_id ss -> framed x s ss s1 ss1.
Proof.
  intros H Hx. unfold sess_inner in H.
  dH H; [fsame H|]. dH H; [discriminate|].
  destruct (r_method r); try (fsame H).
  - unfold sess_announce in H. repeat dmatch; try discriminate; try (fsame H). inv H. apply framed_of; try reflexivity. apply same_slots_refl.
  - eapply sess_setup_frame; eassumption.
  - eapply sess_play_frame; eassumption.
  - eapply sess_record_frame; eassumption.
  - eapply sess_pause_frame; eassumption.
  - unfold sess_teardown in H. repeat dmatch; try discriminate; fsame H.
  - dH H; fsame H.
Qed.

(* The writer-error path of a session (chWriterError in ServerSession.runInner) and its interplay with
   PAUSE (destroyWriter inside the PAUSE handler).

   In the Go code the writer of a session is a goroutine that reports a failed write (for a session that
   plays over TCP towards a peer that has stopped reading: the write timeout) on ss.chWriterError,
   unless the writer has been closed meanwhile (the OnError callback also selects on the writer's own
   context, cancelled by destroyWriter).  The model is sequential: the event [SWriterErr sid] is the
   moment at which the session goroutine CONSUMES the error; an error raised by a writer that has been
   destroyed meanwhile must be dropped, which the model expresses by [s_writer ss = false].  The
   goroutine-level deadlock freedom of "destroyWriter waits for the writer goroutine while that
   goroutine reports an error" is not expressible here; it is exercised on the implementation by the
   slow-reader stage of the harness. *)
From Coq Require Import ZifyBool ZifyNat ZifyN.
From GVL Require Import NList Wire.
From GV_serverhostile Require Import Model Basics Inv FindFree Handlers Step Proofs.
Open Scope N_scope.

Lemma key_eqb_refl k : key_eqb k k = true.
Proof. unfold key_eqb. rewrite !N.eqb_refl. reflexivity. Qed.

Lemma udp_del_In k e l : In e (udp_del k l) -> In e l /\ fst e <> k.
Proof.
  unfold udp_del. rewrite filter_In, Bool.negb_true_iff. intros [Hi Hk]. split; [exact Hi|].
  intros E. rewrite E, key_eqb_refl in Hk. discriminate.
Qed.

(* serverSessionMedia.stop over UDP for every media: no entry keyed by one of the session's
   (ip, port) pairs is left in either client map *)
Lemma stop_medias_removes ip ms : forall rtp rtcp a b,
  stop_medias ip ms rtp rtcp = (a, b) ->
  (forall e, In e a -> In e rtp /\ forall m, In m ms -> fst e <> (ip, m_rtp m)) /\
  (forall e, In e b -> In e rtcp /\ forall m, In m ms -> fst e <> (ip, m_rtcp m)).
Proof.
  induction ms as [|m0 t IH]; cbn [stop_medias]; intros rtp rtcp a b H.
  - inv H. split; intros e He; (split; [exact He | intros m []]).
  - apply IH in H. destruct H as [Ha Hb]. split; intros e He.
    + destruct (Ha e He) as [Hi Hn]. apply udp_del_In in Hi. destruct Hi as [Hi Hk].
      split; [exact Hi|]. intros m [<-|Hm]; [exact Hk | apply Hn; exact Hm].
    + destruct (Hb e He) as [Hi Hn]. apply udp_del_In in Hi. destruct Hi as [Hi Hk].
      split; [exact Hi|]. intros m [<-|Hm]; [exact Hk | apply Hn; exact Hm].
Qed.

Lemma medias_stop_udp s ss s' sec :
  medias_stop s ss = Some s' -> s_tr ss = Some (SPUDP, sec) ->
  forall m, In m (s_medias ss) ->
    (forall e, In e (v_rtp s') -> fst e <> (s_ip ss, m_rtp m)) /\
    (forall e, In e (v_rtcp s') -> fst e <> (s_ip ss, m_rtcp m)).
Proof.
  unfold medias_stop. intros H T m Hm. rewrite T in H.
  destruct (s_medias ss) as [|m0 t] eqn:Em; [destruct Hm|]. rewrite <- Em in *.
  destruct (stop_medias (s_ip ss) (s_medias ss) (v_rtp s) (v_rtcp s)) as [a b] eqn:Es. inv H.
  cbn [v_rtp v_rtcp]. apply stop_medias_removes in Es. destruct Es as [Ha Hb].
  split; intros e He; [apply (Ha e He) | apply (Hb e He)]; exact Hm.
Qed.

(* a session that ends (run() after runInner returned) leaves no UDP registration under its own keys *)
Lemma end_session_udp s sid ss s' sec :
  find_sess sid (v_sess s) = Some ss -> end_session s sid = Some s' -> s_tr ss = Some (SPUDP, sec) ->
  forall m, In m (s_medias ss) ->
    (forall e, In e (v_rtp s') -> fst e <> (s_ip ss, m_rtp m)) /\
    (forall e, In e (v_rtcp s') -> fst e <> (s_ip ss, m_rtcp m)).
Proof.
  intros F E T m Hm. unfold end_session in E. rewrite F in E.
  match type of E with context [match ?x with Some _ => _ | None => None end] => destruct x as [s3|] eqn:E3 end;
    [|discriminate].
  destruct (medias_stop s3 ss) as [s4|] eqn:E4; [|discriminate]. inv E. cbn [v_rtp v_rtcp].
  exact (medias_stop_udp _ _ _ _ E4 T m Hm).
Qed.

(* ---- the writer-error path: chWriterError consumed by the session goroutine.
   In every state that satisfies the invariant (hence in every reachable state), a writer error of a
   session that has a writer does not panic, answers nothing, keeps the invariant, and releases
   everything tied to the session: it leaves Server.sessions, every connection attached to it is
   closed, its reader slot and its active-reader slot are gone, and (UDP) no registration keyed by its
   address and one of its client ports is left. ---- *)
Theorem writer_error_releases g s sid ss :
  Inv s -> 0 < c_nmedias g ->
  find_sess sid (v_sess s) = Some ss -> s_writer ss = true ->
  exists s', step g s (SWriterErr sid) = Some (s', OIgnored) /\ Inv s' /\
    find_sess sid (v_sess s') = None /\
    (forall c, In c (v_conns s') -> ~ In (c_id c) (s_conns ss)) /\
    (s_stream ss = true -> ~ In sid (v_readers s') /\ (is_mcast ss = false -> ~ In sid (v_active s'))) /\
    (forall sec, s_tr ss = Some (SPUDP, sec) -> forall m, In m (s_medias ss) ->
       (forall e, In e (v_rtp s') -> fst e <> (s_ip ss, m_rtp m)) /\
       (forall e, In e (v_rtcp s') -> fst e <> (s_ip ss, m_rtcp m))).
Proof.
  intros I Hnm F W.
  destruct (step_ok g s (SWriterErr sid) I Hnm) as (s' & o & E & I' & _).
  cbn [step] in E. rewrite F, W in E.
  destruct (end_session s sid) as [s1|] eqn:Ee; [|discriminate]. inv E.
  exists s'. split; [cbn [step]; rewrite F, W, Ee; reflexivity|]. split; [exact I'|].
  destruct (end_session_leaves s sid ss s' F Ee) as (A & B & C).
  split; [exact A|]. split; [exact B|]. split; [exact C|].
  intros sec T m Hm. exact (end_session_udp s sid ss s' sec F Ee T m Hm).
Qed.

(* the same for every reachable state *)
Theorem writer_error_releases_reachable g evs s os sid ss :
  0 < c_nmedias g -> run_events g srv0 evs = Some (s, os) ->
  find_sess sid (v_sess s) = Some ss -> s_writer ss = true ->
  exists s', step g s (SWriterErr sid) = Some (s', OIgnored) /\ Inv s' /\
    find_sess sid (v_sess s') = None /\
    (forall c, In c (v_conns s') -> ~ In (c_id c) (s_conns ss)) /\
    (s_stream ss = true -> ~ In sid (v_readers s') /\ (is_mcast ss = false -> ~ In sid (v_active s'))) /\
    (forall sec, s_tr ss = Some (SPUDP, sec) -> forall m, In m (s_medias ss) ->
       (forall e, In e (v_rtp s') -> fst e <> (s_ip ss, m_rtp m)) /\
       (forall e, In e (v_rtcp s') -> fst e <> (s_ip ss, m_rtcp m))).
Proof.
  intros Hnm R. destruct (hostile_no_panic g evs Hnm) as (s0 & os0 & R0 & I & _).
  rewrite R in R0. inv R0. apply writer_error_releases; assumption.
Qed.

(* a writer error that arrives when the session has no writer any more (destroyWriter ran meanwhile:
   PAUSE, a failed PLAY / RECORD) or when the session is gone is dropped: nothing changes *)
Theorem writer_error_without_writer_dropped g s sid :
  (forall ss, find_sess sid (v_sess s) = Some ss -> s_writer ss = false) ->
  step g s (SWriterErr sid) = Some (s, OIgnored).
Proof.
  intros H. cbn [step]. destruct (find_sess sid (v_sess s)) as [ss|]; [|reflexivity].
  rewrite (H ss eq_refl). reflexivity.
Qed.

(* PAUSE accepted by the application in state PLAY / RECORD over a unicast transport destroys the
   writer (and does not end the session): together with the theorem above, a write error raised
   while or after the PAUSE is handled is dropped *)
Theorem pause_destroys_writer g s ss r s1 ss1 st e p sec :
  sess_pause g s ss r = Some (s1, ss1, st, e) ->
  s_state ss = SPlay \/ s_state ss = SRecord ->
  r_verdict r = true -> s_tr ss = Some (p, sec) -> p <> SPMcast ->
  s_writer ss1 = false /\ s_id ss1 = s_id ss /\ st = st200 /\ e <> RErr /\
  (s_state ss = SPlay -> s_state ss1 = SPrePlay) /\ (s_state ss = SRecord -> s_state ss1 = SPreRecord).
Proof.
  unfold sess_pause. intros H Hs V T Hp. rewrite V, T in H.
  assert (Em : sproto_eqb p SPMcast = false) by (destruct p; try reflexivity; congruence).
  rewrite Em in H. cbn [negb andb] in H.
  destruct Hs as [Hs|Hs]; rewrite Hs in H;
    (destruct (negb (h_pause g)); [discriminate|]); cbn [negb] in H;
    (destruct (negb (s_writer ss)); [discriminate|]);
    (destruct (if s_stream ss then reader_set_inactive s ss else Some s) as [sa|]; [|discriminate]);
    (destruct (medias_stop sa ss) as [sb|]; [|discriminate]);
    inv H; cbn [s_writer s_id s_state];
    repeat split; try reflexivity; try congruence;
    try (destruct p; discriminate); try (destruct p; intros; discriminate || reflexivity).
Qed.

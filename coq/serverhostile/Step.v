(* Assembly: a whole step of the server preserves the invariant and never panics. *)
From Coq Require Import ZifyBool ZifyNat ZifyN.
From GVL Require Import NList Wire.
From GV_serverhostile Require Import Model Basics Inv FindFree Handlers.
Open Scope N_scope.

Lemma put_sess_id l ss : NoDup (map s_id l) -> In ss l -> put_sess ss l = l.
Proof.
  intros ND HI. unfold put_sess. rewrite <- (map_id l) at 2. apply map_ext_in. intros x Hx.
  destruct (s_id x =? s_id ss) eqn:E; [|reflexivity]. apply N.eqb_eq in E. symmetry.
  eapply NoDup_id_eq; eassumption.
Qed.

Lemma set_sess_id ex s ss : InvX ex s -> In ss (v_sess s) -> set_sess s ss = s.
Proof.
  intros I HI. unfold set_sess. rewrite put_sess_id; [destruct s; reflexivity | apply I | exact HI].
Qed.

Lemma InvX_weaken x s : Inv s -> InvX (Some x) s.
Proof.
  intros I. destruct I. constructor; try assumption. intros c Hc _ Ht. apply inv_tcp; [assumption | discriminate | assumption].
Qed.

Lemma InvX_gone x s : InvX (Some x) s -> find_conn x (v_conns s) = None -> Inv s.
Proof.
  intros I F. destruct I. constructor; try assumption. intros c Hc _ Ht. apply inv_tcp; try assumption.
  intros E. inv E. apply find_conn_None in F. apply F. apply in_map. exact Hc.
Qed.

(* ---- sess_inner ---- *)
Definition handlers_ok (g : cfg) (r : req) : Prop :=
  match r_method r with
  | MAnnounce => h_announce g = true
  | MSetup => h_setup g = true
  | MPlay => h_play g = true
  | MRecord => h_record g = true
  | MPause => h_pause g = true
  | _ => True
  end.

Definition url_ok (r : req) : Prop := match r_method r with MOptions => True | _ => r_url r = true end.

(* the result of the session-level handling, when the connection is not the session's TCP connection's rival *)
Lemma sess_inner_spec g c s ss r :
  InvX (Some (c_id c)) s -> In ss (v_sess s) -> handlers_ok g r -> url_ok r -> 0 < c_nmedias g ->
  exists s1 ss1 st e, sess_inner g s c ss r = Some (s1, ss1, st, e) /\
    ((tcp_pre c ss /\ Post c s ss s1 ss1 e) \/ (s1 = s /\ ss1 = ss /\ e = RErr)) /\
    (r_method r = MTeardown -> s1 = s /\ ss1 = ss /\ e <> RSwitch true /\ (tcp_triple c ss -> e = RSwitch false)).
Proof.
  intros I HI Hh Hu Hnm. pose proof (inv_ok _ s I ss HI) as OK. unfold sess_inner.
  destruct (match s_tcpconn ss with Some t => negb (t =? c_id c) | None => false end) eqn:Et.
  { do 4 eexists. split; [reflexivity|]. split; [right; tauto|]. intros _. repeat split; try discriminate.
    intros (A & _). rewrite A, N.eqb_refl in Et. discriminate. }
  assert (Hpre : tcp_pre c ss).
  { unfold tcp_pre. destruct (s_tcpconn ss) as [t|]; [|tauto]. apply Bool.negb_false_iff, N.eqb_eq in Et. subst. tauto. }
  assert (Same : forall (st : N) (e : rerr), e <> RSwitch true -> r_method r <> MTeardown ->
            exists s1 ss1 st' e', Some (s, ss, st, e) = Some (s1, ss1, st', e') /\
              ((tcp_pre c ss /\ Post c s ss s1 ss1 e') \/ (s1 = s /\ ss1 = ss /\ e' = RErr)) /\
              (r_method r = MTeardown -> s1 = s /\ ss1 = ss /\ e' <> RSwitch true /\ (tcp_triple c ss -> e' = RSwitch false))).
  { intros st e He Hm. do 4 eexists. split; [reflexivity|]. split; [left; split; [exact Hpre | apply Post_same; assumption]|]. tauto. }
  assert (Wrap : forall (h : sres), r_method r <> MTeardown ->
            (exists s1 ss1 st e, h = Some (s1, ss1, st, e) /\ Post c s ss s1 ss1 e) ->
            exists s1 ss1 st e, h = Some (s1, ss1, st, e) /\
              ((tcp_pre c ss /\ Post c s ss s1 ss1 e) \/ (s1 = s /\ ss1 = ss /\ e = RErr)) /\
              (r_method r = MTeardown -> s1 = s /\ ss1 = ss /\ e <> RSwitch true /\ (tcp_triple c ss -> e = RSwitch false))).
  { intros h Hm (s1 & ss1 & st & e & -> & P). do 4 eexists. split; [reflexivity|]. split; [left; tauto | tauto]. }
  unfold handlers_ok, url_ok in *.
  destruct (r_method r) eqn:Em; try rewrite Hu; cbn [negb].
  - apply Same; discriminate.
  - apply Same; discriminate.
  - apply Wrap; [discriminate|]. destruct (sess_announce g s ss r) as [[[[s1 ss1] st] e]|] eqn:E.
    + do 4 eexists. split; [reflexivity|]. eapply sess_announce_ok; eassumption.
    + exfalso. eapply sess_announce_some; eassumption.
  - apply Wrap; [discriminate|]. apply sess_setup_spec; assumption.
  - apply Wrap; [discriminate|]. apply sess_play_spec; assumption.
  - apply Wrap; [discriminate|]. apply sess_record_spec; assumption.
  - apply Wrap; [discriminate|]. apply sess_pause_spec; assumption.
  - destruct (sess_teardown_spec c s ss OK) as (e & -> & He1 & He2 & He3).
    do 4 eexists. split; [reflexivity|]. split; [left; split; [exact Hpre | apply Post_same; assumption]|]. tauto.
  - apply Same; discriminate.
  - destruct (h_setparam g); apply Same; discriminate.
  - apply Same; discriminate.
Qed.

(* ---- sess_request ---- *)
Definition tfacts (c : conn) (s2 : server) (sess' : option N) : Prop :=
  exists ss', sess' = Some (s_id ss') /\ In ss' (v_sess s2) /\ tcp_triple c ss' /\ In (c_id c) (s_conns ss').

Lemma sess_request_spec g c s ss0 r :
  InvX (Some (c_id c)) s -> In ss0 (v_sess s) -> handlers_ok g r -> url_ok r -> 0 < c_nmedias g ->
  exists s2 st e sess' adv, sess_request g s c ss0 r = Some (s2, st, e, sess', adv) /\
    InvX (Some (c_id c)) s2 /\ v_next s2 = v_next s /\ (forall x, In x (v_conns s2) -> In x (v_conns s)) /\
    (e = RSwitch true \/ (e = RNone /\ tcp_triple c ss0) -> tfacts c s2 sess').
Proof.
  intros I HI Hh Hu Hnm. pose proof (inv_ok _ s I ss0 HI) as OK0. unfold sess_request.
  set (ss := ss_with_conns ss0 (nadd (c_id c) (s_conns ss0))).
  assert (I' : InvX (Some (c_id c)) (set_sess s ss)).
  { unfold set_sess. apply (Inv_update _ s ss0 ss); try assumption; try reflexivity.
    - apply SessOK_with_conns. exact OK0.
    - apply I.
    - tauto.
    - intros H. cbn. eapply (inv_readers _ s I); [exact H|]. apply In_find_sess; [apply I | exact HI].
    - intros c' Hc' Hex Ht Hs.
      destruct (inv_tcp _ s I c' Hc' Hex Ht) as (sc & Hsc & Hcs & Htcp & Hin & Hrun & Htr).
      assert (sc = ss0). { eapply NoDup_id_eq; try eassumption; [apply I | congruence]. } subst sc.
      cbn. repeat split; try assumption. apply In_nadd. tauto. }
  assert (HI' : In ss (v_sess (set_sess s ss))).
  { cbn [set_sess v_sess]. apply In_put_sess_same. cbn [s_id ss ss_with_conns]. apply in_map. exact HI. }
  assert (Hcin : In (c_id c) (s_conns ss)) by (cbn; apply In_nadd; tauto).
  destruct (sess_inner_spec g c (set_sess s ss) ss r I' HI' Hh Hu Hnm) as (s1 & ss1 & st & e & -> & Hres & Htd).
  assert (Trip : tcp_triple c ss0 -> tcp_triple c ss) by (intros T; exact T).
  (* the generic, non-TEARDOWN ending *)
  assert (Gen : forall (adv : option N), exists s2 st' e' sess' adv',
            Some (set_sess s1 ss1, st, e, Some (s_id ss1), adv) = Some (s2, st', e', sess', adv') /\
            InvX (Some (c_id c)) s2 /\ v_next s2 = v_next s /\ (forall x, In x (v_conns s2) -> In x (v_conns s)) /\
            (e' = RSwitch true \/ (e' = RNone /\ tcp_triple c ss0) -> tfacts c s2 sess')).
  { intros adv. do 5 eexists. split; [reflexivity|].
    destruct Hres as [[Hpre P]|(-> & -> & ->)].
    - split; [apply P|]. split; [cbn [set_sess v_next]; rewrite (p_next _ _ _ _ _ _ P); reflexivity|].
      split; [cbn [set_sess v_conns]; rewrite (p_conns _ _ _ _ _ _ P); cbn [set_sess v_conns]; tauto|].
      intros He. exists ss1. split; [reflexivity|]. split.
      { cbn [set_sess v_sess]. apply In_put_sess_same. rewrite (p_sess _ _ _ _ _ _ P), (p_id _ _ _ _ _ _ P).
        apply in_map. exact HI'. }
      split; [|rewrite (p_sconns _ _ _ _ _ _ P); exact Hcin].
      destruct He as [He|[He T]]; [apply (p_switch _ _ _ _ _ _ P He) | apply (p_keep _ _ _ _ _ _ P He); apply Trip; exact T].
    - rewrite (set_sess_id _ _ _ I' HI'). split; [exact I'|]. split; [reflexivity|]. split; [cbn; tauto|].
      intros [He|[He _]]; discriminate. }
  destruct (r_method r) eqn:Em; try apply Gen.
  (* TEARDOWN *)
  destruct (Htd eq_refl) as (-> & -> & Hns & Hsw).
  destruct e eqn:Ee.
  - (* RNone *)
    set (ss2 := ss_with_conns ss (nremove (c_id c) (s_conns ss))).
    assert (I2 : InvX (Some (c_id c)) (set_sess (set_sess s ss) ss2)).
    { unfold set_sess at 1. apply (Inv_update _ (set_sess s ss) ss ss2); try assumption; try reflexivity.
      - apply SessOK_with_conns. apply SessOK_with_conns. exact OK0.
      - apply I'.
      - tauto.
      - intros H. change (s_tr ss <> None). eapply (inv_readers _ _ I'); [exact H|]. apply In_find_sess; [apply I' | exact HI'].
      - intros c' Hc' Hex Ht Hs.
        destruct (inv_tcp _ _ I' c' Hc' Hex Ht) as (sc & Hsc & Hcs & Htcp & Hin & Hrun & Htr).
        assert (sc = ss). { eapply NoDup_id_eq; try eassumption; [apply I' | congruence]. } subst sc.
        cbn. repeat split; try assumption. apply In_nremove. split; [exact Hin|]. intros E. apply Hex. congruence. }
    destruct (end_session_ok _ _ (s_id ss2) I2) as (s' & -> & Is' & Hn' & Hsub).
    do 5 eexists. split; [reflexivity|]. split; [exact Is'|]. split; [rewrite Hn'; reflexivity|].
    split; [intros x Hx; apply Hsub in Hx; exact Hx|].
    intros [He|[_ T]]; [discriminate|]. apply Trip, Hsw in T. discriminate.
  - (* RErr *)
    do 5 eexists. split; [reflexivity|]. rewrite (set_sess_id _ _ _ I' HI').
    split; [exact I'|]. split; [reflexivity|]. split; [cbn; tauto|]. intros [He|[He _]]; discriminate.
  - (* RSwitch *)
    set (ss2 := ss_with_conns ss (nremove (c_id c) (s_conns ss))).
    assert (I2 : InvX (Some (c_id c)) (set_sess (set_sess s ss) ss2)).
    { unfold set_sess at 1. apply (Inv_update _ (set_sess s ss) ss ss2); try assumption; try reflexivity.
      - apply SessOK_with_conns. apply SessOK_with_conns. exact OK0.
      - apply I'.
      - tauto.
      - intros H. change (s_tr ss <> None). eapply (inv_readers _ _ I'); [exact H|]. apply In_find_sess; [apply I' | exact HI'].
      - intros c' Hc' Hex Ht Hs.
        destruct (inv_tcp _ _ I' c' Hc' Hex Ht) as (sc & Hsc & Hcs & Htcp & Hin & Hrun & Htr).
        assert (sc = ss). { eapply NoDup_id_eq; try eassumption; [apply I' | congruence]. } subst sc.
        cbn. repeat split; try assumption. apply In_nremove. split; [exact Hin|]. intros E. apply Hex. congruence. }
    destruct (end_session_ok _ _ (s_id ss2) I2) as (s' & -> & Is' & Hn' & Hsub).
    do 5 eexists. split; [reflexivity|]. split; [exact Is'|]. split; [rewrite Hn'; reflexivity|].
    split; [intros x Hx; apply Hsub in Hx; exact Hx|].
    intros [He|[He _]]; [|discriminate]. inv He. exfalso. apply Hns. reflexivity.
Qed.

(* ---- a fresh session ---- *)
Lemma Inv_new_sess ex s ip cid :
  InvX ex s ->
  InvX ex (mkSrv (v_conns s) (mkSess (v_next s) ip [cid] SInitial None [] 0 false None None false false :: v_sess s)
                 (v_readers s) (v_active s) (v_mcount s) (v_mwriters s) (v_rtp s) (v_rtcp s) (v_next s + 1)).
Proof.
  intros I. constructor; cbn [v_conns v_sess v_readers v_active v_mcount v_mwriters v_rtp v_rtcp v_next].
  - cbn [map s_id]. constructor; [|apply I]. rewrite in_map_iff. intros (x & Hx & HIx).
    pose proof (inv_fresh _ s I x HIx). lia.
  - apply I.
  - intros x [<-|Hx]; [cbn; lia|]. pose proof (inv_fresh _ s I x Hx). lia.
  - intros x Hx. pose proof (inv_freshc _ s I x Hx). lia.
  - intros x [<-|Hx]; [|apply I; exact Hx].
    constructor; unfold running, is_mcast; cbn; intros; try tauto; try discriminate; try congruence;
      try (intuition discriminate).
  - cbn [filter]. unfold mreader at 1. cbn. apply I.
  - apply I.
  - intros rid r Hr Hf. cbn [find_sess s_id] in Hf. destruct (v_next s =? rid) eqn:E.
    + apply N.eqb_eq in E. pose proof (inv_rfresh _ s I rid Hr). lia.
    + eapply (inv_readers _ s I); eassumption.
  - intros rid Hr. pose proof (inv_rfresh _ s I rid Hr). lia.
  - intros c Hc Hex Ht. destruct (inv_tcp _ s I c Hc Hex Ht) as (sc & Hsc & Hrest).
    exists sc. split; [right; exact Hsc | exact Hrest].
Qed.

(* what the connection level needs to know about the outcome of a request *)
Definition CPost (c : conn) (s s1 : server) (err : rerr) (sess' : option N) : Prop :=
  InvX (Some (c_id c)) s1 /\ v_next s <= v_next s1 /\
  (forall x, In x (v_conns s1) -> In x (v_conns s)) /\
  (err = RSwitch true \/ (err = RNone /\ c_tcp c = true) -> tfacts c s1 sess').

Lemma CPost_plain c s (err : rerr) :
  Inv s -> In c (v_conns s) -> err <> RSwitch true -> CPost c s s err (c_sess c).
Proof.
  intros I Hc He. split; [apply InvX_weaken; exact I|]. split; [lia|]. split; [tauto|].
  intros [E|[E Ht]]; [contradiction|].
  destruct (inv_tcp _ s I c Hc) as (sc & Hsc & Hcs & Htcp & Hin & Hrun & Htr); [discriminate | exact Ht|].
  exists sc. unfold tcp_triple. tauto.
Qed.

Lemma CPost_err c s sess' : Inv s -> CPost c s s RErr sess'.
Proof.
  intros I. split; [apply InvX_weaken; exact I|]. split; [lia|]. split; [tauto|].
  intros [E|[E _]]; discriminate.
Qed.

Lemma in_session_spec g c s r create :
  Inv s -> In c (v_conns s) -> handlers_ok g r -> url_ok r -> 0 < c_nmedias g ->
  exists s1 st err sess' adv, in_session g s c r create = Some (s1, st, err, sess', adv) /\ CPost c s s1 err sess'.
Proof.
  intros I Hc Hh Hu Hnm. unfold in_session.
  assert (Err : forall (st : N) sess', exists s1 st' err sess'' adv,
            Some (s, st, RErr, sess', @None N) = Some (s1, st', err, sess'', adv) /\ CPost c s s1 err sess'').
  { intros st sess'. do 5 eexists. split; [reflexivity|]. apply CPost_err. exact I. }
  destruct (c_sess c) as [sid|] eqn:Ecs.
  - destruct (match r_sess r with Some id => negb (id =? sid) | None => false end); [apply Err|].
    destruct (find_sess sid (v_sess s)) as [ss|] eqn:F; [|apply Err].
    apply find_sess_In in F. destruct F as [HI Hid].
    destruct (sess_request_spec g c s ss r (InvX_weaken _ s I) HI Hh Hu Hnm)
      as (s2 & st & e & sess' & adv & -> & I2 & Hn & Hsub & Hf).
    do 5 eexists. split; [reflexivity|]. split; [exact I2|]. split; [lia|]. split; [exact Hsub|].
    intros [E|[E Ht]]; apply Hf; [left; exact E | right; split; [exact E|]].
    destruct (inv_tcp _ s I c Hc) as (sc & Hsc & Hcs & Htcp & Hin & Hrun & Htr); [discriminate | exact Ht|].
    assert (sc = ss). { eapply NoDup_id_eq; try eassumption; [apply I | congruence]. } subst sc.
    unfold tcp_triple. tauto.
  - assert (Hnt : c_tcp c = true -> False).
    { intros Ht. destruct (inv_tcp _ s I c Hc) as (sc & Hsc & Hcs & _); [discriminate | exact Ht|]. congruence. }
    destruct (match r_sess r with Some id => find_sess id (v_sess s) | None => None end) as [ss|] eqn:F.
    + assert (HI : In ss (v_sess s)).
      { destruct (r_sess r); [|discriminate]. apply find_sess_In in F. tauto. }
      destruct (negb (c_ip c =? s_ip ss)); [apply Err|].
      destruct (sess_request_spec g c s ss r (InvX_weaken _ s I) HI Hh Hu Hnm)
        as (s2 & st & e & sess' & adv & -> & I2 & Hn & Hsub & Hf).
      do 5 eexists. split; [reflexivity|]. split; [exact I2|]. split; [lia|]. split; [exact Hsub|].
      intros [E|[E Ht]]; [apply Hf; left; exact E | exfalso; apply Hnt; exact Ht].
    + destruct create; [|apply Err].
      set (ssn := mkSess (v_next s) (c_ip c) [c_id c] SInitial None [] 0 false None None false false).
      match goal with |- context [sess_request g ?x c ssn r] => set (s1 := x) end.
      assert (I1 : InvX (Some (c_id c)) s1) by (apply Inv_new_sess; apply InvX_weaken; exact I).
      destruct (sess_request_spec g c s1 ssn r I1 (or_introl eq_refl) Hh Hu Hnm)
        as (s2 & st & e & sess' & adv & -> & I2 & Hn & Hsub & Hf).
      do 5 eexists. split; [reflexivity|]. split; [exact I2|]. split; [rewrite Hn; cbn; lia|]. split; [exact Hsub|].
      intros [E|[E Ht]]; [apply Hf; left; exact E | exfalso; apply Hnt; exact Ht].
Qed.

Lemma conn_request_spec g c s r :
  Inv s -> In c (v_conns s) -> 0 < c_nmedias g ->
  exists s1 st err sess' adv, conn_request g s c r = Some (s1, st, err, sess', adv) /\ CPost c s s1 err sess'.
Proof.
  intros I Hc Hnm. unfold conn_request.
  assert (Err : forall (st : N), exists s1 st' err sess'' adv,
            Some (s, st, RErr, c_sess c, @None N) = Some (s1, st', err, sess'', adv) /\ CPost c s s1 err sess'').
  { intros st. do 5 eexists. split; [reflexivity|]. apply CPost_err. exact I. }
  assert (Plain : forall (st : N), exists s1 st' err sess'' adv,
            Some (s, st, RNone, c_sess c, @None N) = Some (s1, st', err, sess'', adv) /\ CPost c s s1 err sess'').
  { intros st. do 5 eexists. split; [reflexivity|]. apply CPost_plain; [exact I | exact Hc | discriminate]. }
  destruct (negb (r_cseq r)); [apply Err|].
  destruct (match r_method r with MOptions => false | _ => negb (r_url r) end) eqn:Eu; [apply Err|].
  assert (Hu : url_ok r).
  { unfold url_ok. destruct (r_method r); try exact Logic.I; apply Bool.negb_false_iff in Eu; exact Eu. }
  assert (InS : forall create, handlers_ok g r ->
            exists s1 st err sess' adv, in_session g s c r create = Some (s1, st, err, sess', adv) /\ CPost c s s1 err sess').
  { intros create Hh. apply in_session_spec; assumption. }
  unfold handlers_ok in InS.
  destruct (r_method r) eqn:Em; cbv zeta.
  - destruct (r_sess r); [apply InS; exact Logic.I | apply Plain].
  - destruct (h_describe g); [destruct (r_verdict r)|]; apply Plain.
  - destruct (h_announce g) eqn:E; [apply InS; reflexivity | apply Plain].
  - destruct (h_setup g) eqn:E; [apply InS; reflexivity | apply Plain].
  - destruct (r_sess r); cbn [andb]; [|apply Plain]. destruct (h_play g) eqn:E; [apply InS; reflexivity | apply Plain].
  - destruct (r_sess r); cbn [andb]; [|apply Plain]. destruct (h_record g) eqn:E; [apply InS; reflexivity | apply Plain].
  - destruct (r_sess r); cbn [andb]; [|apply Plain]. destruct (h_pause g) eqn:E; [apply InS; reflexivity | apply Plain].
  - destruct (r_sess r); [apply InS; exact Logic.I | apply Plain].
  - destruct (r_sess r); [apply InS; exact Logic.I|]. destruct (h_getparam g); apply Plain.
  - destruct (r_sess r); [apply InS; exact Logic.I|]. destruct (h_setparam g); apply Plain.
  - apply Plain.
Qed.

(* ---- updating the connection record ---- *)
Lemma Inv_set_conn s c0 c1 :
  InvX (Some (c_id c1)) s -> In c0 (v_conns s) -> c_id c1 = c_id c0 ->
  InvX (Some (c_id c1)) (set_conn s c1).
Proof.
  intros I Hc E. constructor; cbn [set_conn v_conns v_sess v_readers v_active v_mcount v_mwriters v_rtp v_rtcp v_next]; try apply I.
  - rewrite map_id_put_conn. apply I.
  - intros x Hx. apply In_put_conn in Hx. destruct Hx as [->|[Hx _]]; [rewrite E|]; apply I; assumption.
  - intros x Hx Hex Ht. apply In_put_conn in Hx. destruct Hx as [->|[Hx _]]; [exfalso; apply Hex; reflexivity|].
    apply (inv_tcp _ s I x Hx Hex Ht).
Qed.

Lemma InvX_full x s :
  InvX (Some x) s ->
  (forall c, In c (v_conns s) -> c_id c = x -> c_tcp c = true -> tfacts c s (c_sess c)) ->
  Inv s.
Proof.
  intros I H. destruct I. constructor; try assumption. intros c Hc _ Ht.
  destruct (N.eq_dec (c_id c) x) as [E|E].
  - destruct (H c Hc E Ht) as (ss' & A & B & (T1 & T2 & T3) & D). exists ss'. tauto.
  - apply inv_tcp; try assumption. intros E'. inv E'. apply E. reflexivity.
Qed.

Lemma tfacts_conn c c1 s sess' : c_id c1 = c_id c -> tfacts c s sess' -> c_sess c1 = sess' -> tfacts c1 s (c_sess c1).
Proof.
  intros E (ss' & A & B & (T1 & T2 & T3) & D) F. exists ss'. unfold tcp_triple. rewrite E, F. tauto.
Qed.

(* ---- one event on one connection ---- *)
Definition conn_gone (cid : N) (s : server) : Prop := find_conn cid (v_conns s) = None.

(* every request is answered exactly once; everything else closes the connection, or is a frame of a
   running TCP session *)
Definition answered (c : conn) (e : event) (s s' : server) (o : outcome) : Prop :=
  match e with
  | EReq _ => exists st cl adv, o = OResp st cl adv /\ (cl = true -> conn_gone (c_id c) s')
  | EFrame _ => (c_tcp c = true /\ o = OIgnored /\ s' = s) \/ (c_tcp c = false /\ o = OClosed /\ conn_gone (c_id c) s')
  | _ => o = OClosed /\ conn_gone (c_id c) s'
  end.

Lemma gone_of_sub cid (s s' : server) :
  (forall x, In x (v_conns s') -> In x (v_conns s) /\ c_id x <> cid) -> conn_gone cid s'.
Proof.
  intros H. apply find_conn_None. intros HIn. apply in_map_iff in HIn. destruct HIn as (x & Ex & Hx).
  apply H in Hx. tauto.
Qed.

Lemma conn_event_ok g s c e :
  Inv s -> In c (v_conns s) -> 0 < c_nmedias g ->
  exists s' o, conn_event g s c e = Some (s', o) /\ Inv s' /\ v_next s <= v_next s' /\ answered c e s s' o.
Proof.
  intros I Hc Hnm. unfold conn_event.
  assert (Close : exists s' o, match close_conn s (c_id c) with None => None | Some s1 => Some (s1, OClosed) end = Some (s', o)
                               /\ Inv s' /\ v_next s <= v_next s' /\ o = OClosed /\ conn_gone (c_id c) s').
  { destruct (close_conn_ok None s (c_id c) I) as (s' & -> & I' & Hn & Hg). do 2 eexists. split; [reflexivity|].
    split; [exact I'|]. split; [lia|]. split; [reflexivity|]. eapply gone_of_sub. exact Hg. }
  assert (Close' : forall e0, (match e0 with EReq _ => False | EFrame _ => c_tcp c = false | _ => True end) ->
             exists s' o, match close_conn s (c_id c) with None => None | Some s1 => Some (s1, OClosed) end = Some (s', o)
                               /\ Inv s' /\ v_next s <= v_next s' /\ answered c e0 s s' o).
  { intros e0 He0. destruct Close as (s' & o & E & I' & Hn & Ho & Hg). exists s', o. split; [exact E|]. split; [exact I'|].
    split; [exact Hn|]. destruct e0; cbn in *; try tauto. }
  destruct e as [r|ch| | |]; try (apply Close'; exact Logic.I).
  - (* a request *)
    destruct (conn_request_spec g c s r I Hc Hnm) as (s1 & st & err & sess' & adv & -> & I1 & Hn & Hsub & Hf).
    destruct (find_conn (c_id c) (v_conns s1)) as [c0|] eqn:F.
    2:{ do 2 eexists. split; [reflexivity|]. split; [eapply InvX_gone; eassumption|]. split; [exact Hn|].
        do 3 eexists. split; [reflexivity|]. intros _. exact F. }
    apply find_conn_In in F. destruct F as [Hc0 Hid0].
    assert (c0 = c). { eapply NoDup_cid_eq; [apply I | apply Hsub; exact Hc0 | exact Hc | exact Hid0]. } subst c0.
    set (c1 := mkConn (c_id c) (c_ip c) (c_tunnel c) sess' (match err with RSwitch t => t | _ => c_tcp c end)).
    assert (I2 : InvX (Some (c_id c)) (set_conn s1 c1)) by (apply (Inv_set_conn s1 c c1); [exact I1 | exact Hc0 | reflexivity]).
    assert (Hc1 : forall x, In x (v_conns (set_conn s1 c1)) -> c_id x = c_id c -> x = c1).
    { intros x Hx Ex. cbn [set_conn v_conns] in Hx. apply In_put_conn in Hx. destruct Hx as [->|[_ Hne]]; [reflexivity | contradiction]. }
    assert (Full : (c_tcp c1 = true -> err = RSwitch true \/ (err = RNone /\ c_tcp c = true)) -> Inv (set_conn s1 c1)).
    { intros Hcase. apply (InvX_full (c_id c)); [exact I2|]. intros x Hx Ex Ht.
      pose proof (Hc1 x Hx Ex) as ->. apply (tfacts_conn c c1 _ sess'); [reflexivity| |reflexivity].
      destruct (Hf (Hcase Ht)) as (ss' & A & B & T & D). exists ss'. tauto. }
    destruct err as [| |t].
    + (* no error: the connection stays as it is *)
      do 2 eexists. split; [reflexivity|]. split; [|split; [exact Hn|]].
      * apply Full. cbn. intros Ht. right. tauto.
      * do 3 eexists. split; [reflexivity | discriminate].
    + (* a plain error: the connection is closed after the response *)
      destruct (close_conn_ok _ _ (c_id c) I2) as (s3 & -> & I3 & Hn3 & Hgone).
      assert (G3 : conn_gone (c_id c) s3) by (eapply gone_of_sub; exact Hgone).
      do 2 eexists. split; [reflexivity|]. split; [|split; [cbn [set_conn v_next] in Hn3; lia|]].
      * apply (InvX_gone (c_id c)); [exact I3 | exact G3].
      * do 3 eexists. split; [reflexivity|]. intros _. exact G3.
    + destruct t.
      * destruct (Hf (or_introl eq_refl)) as (ss' & A & _). rewrite A.
        do 2 eexists. split; [reflexivity|]. split; [|split; [exact Hn|]].
        -- apply Full. intros _. left. reflexivity.
        -- do 3 eexists. split; [reflexivity | discriminate].
      * do 2 eexists. split; [reflexivity|]. split; [|split; [exact Hn|]].
        -- apply Full. cbn. discriminate.
        -- do 3 eexists. split; [reflexivity | discriminate].
  - (* an interleaved frame *)
    destruct (c_tcp c) eqn:Et; [|apply Close'; reflexivity].
    destruct (inv_tcp _ s I c Hc) as (sc & Hsc & Hcs & _); [discriminate | exact Et|]. rewrite Hcs.
    do 2 eexists. split; [reflexivity|]. split; [exact I|]. split; [lia|]. left. tauto.
Qed.

Lemma Inv_new_conn s ip tunnel :
  Inv s ->
  Inv (mkSrv (mkConn (v_next s) ip tunnel None false :: v_conns s) (v_sess s) (v_readers s) (v_active s)
             (v_mcount s) (v_mwriters s) (v_rtp s) (v_rtcp s) (v_next s + 1)).
Proof.
  intros I. constructor; cbn [v_conns v_sess v_readers v_active v_mcount v_mwriters v_rtp v_rtcp v_next]; try apply I.
  - cbn [map c_id]. constructor; [|apply I]. rewrite in_map_iff. intros (x & Hx & HIx).
    pose proof (inv_freshc _ s I x HIx). lia.
  - intros x Hx. pose proof (inv_fresh _ s I x Hx). lia.
  - intros x [<-|Hx]; [cbn; lia|]. pose proof (inv_freshc _ s I x Hx). lia.
  - intros rid Hr. pose proof (inv_rfresh _ s I rid Hr). lia.
  - intros c [<-|Hc] Hex Ht; [discriminate|]. apply (inv_tcp _ s I c Hc Hex Ht).
Qed.

(* ---- one step of the server ---- *)
Theorem step_ok g s ev :
  Inv s -> 0 < c_nmedias g ->
  exists s' o, step g s ev = Some (s', o) /\ Inv s' /\ v_next s <= v_next s'.
Proof.
  intros I Hnm. destruct ev as [ip tunnel|cid e|sid|sid]; cbn [step].
  - do 2 eexists. split; [reflexivity|]. split; [apply Inv_new_conn; exact I | cbn; lia].
  - destruct (find_conn cid (v_conns s)) as [c|] eqn:F.
    + apply find_conn_In in F. destruct F as [Hc _].
      destruct (conn_event_ok g s c e I Hc Hnm) as (s' & o & E & I' & Hn & _). exists s', o. tauto.
    + do 2 eexists. split; [reflexivity|]. split; [exact I | lia].
  - destruct (find_sess sid (v_sess s)) as [ss|]; [|do 2 eexists; split; [reflexivity|]; split; [exact I | lia]].
    destruct (s_timer ss); [|do 2 eexists; split; [reflexivity|]; split; [exact I | lia]].
    destruct (end_session_ok None s sid I) as (s' & -> & I' & Hn & _). do 2 eexists. split; [reflexivity|]. split; [exact I' | lia].
  - destruct (find_sess sid (v_sess s)) as [ss|]; [|do 2 eexists; split; [reflexivity|]; split; [exact I | lia]].
    destruct (s_writer ss); [|do 2 eexists; split; [reflexivity|]; split; [exact I | lia]].
    destruct (end_session_ok None s sid I) as (s' & -> & I' & Hn & _). do 2 eexists. split; [reflexivity|]. split; [exact I' | lia].
Qed.

Theorem run_events_ok g evs : forall s,
  Inv s -> 0 < c_nmedias g ->
  exists s' os, run_events g s evs = Some (s', os) /\ Inv s' /\ length os = length evs.
Proof.
  induction evs as [|e t IH]; intros s I Hnm; cbn [run_events].
  - do 2 eexists. split; [reflexivity|]. split; [exact I | reflexivity].
  - destruct (step_ok g s e I Hnm) as (s1 & o & -> & I1 & _).
    destruct (IH s1 I1 Hnm) as (s2 & os & -> & I2 & Hl).
    do 2 eexists. split; [reflexivity|]. split; [exact I2 | cbn; rewrite Hl; reflexivity].
Qed.

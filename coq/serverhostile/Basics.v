(* Elementary facts about the tables of the model (sessions, connections, id lists, UDP maps). *)
From Coq Require Import ZifyBool ZifyNat ZifyN.
From GVL Require Import NList Wire.
From GV_serverhostile Require Import Model.
Open Scope N_scope.

Ltac inv H := inversion H; subst; clear H.
Ltac dmatch :=
  match goal with
  | |- context [match ?x with _ => _ end] => destruct x eqn:?
  | H : context [match ?x with _ => _ end] |- _ => destruct x eqn:?
  end.

(* ---- id lists ---- *)
Lemma nmem_In x l : nmem x l = true <-> In x l.
Proof.
  induction l as [|y t IH]; cbn [nmem]; [split; [discriminate | intros []]|].
  rewrite Bool.orb_true_iff, IH, N.eqb_eq. cbn [In]. intuition congruence.
Qed.

Lemma nmem_false x l : nmem x l = false <-> ~ In x l.
Proof. rewrite <- nmem_In. destruct (nmem x l); intuition congruence. Qed.

Lemma In_nremove x y l : In x (nremove y l) <-> In x l /\ x <> y.
Proof.
  unfold nremove. rewrite filter_In, Bool.negb_true_iff, N.eqb_neq. tauto.
Qed.

Lemma In_nadd x y l : In x (nadd y l) <-> x = y \/ In x l.
Proof.
  unfold nadd. destruct (nmem y l) eqn:E.
  - apply nmem_In in E. intuition congruence.
  - cbn [In]. intuition congruence.
Qed.

Lemma nremove_notin x l : ~ In x l -> nremove x l = l.
Proof.
  intros H. unfold nremove. induction l as [|y t IH]; [reflexivity|]. cbn [filter].
  destruct (y =? x) eqn:E.
  - apply N.eqb_eq in E. subst. exfalso. apply H. left. reflexivity.
  - cbn [negb]. f_equal. apply IH. intros HI. apply H. right. exact HI.
Qed.

(* ---- sessions ---- *)
Lemma find_sess_In sid l ss : find_sess sid l = Some ss -> In ss l /\ s_id ss = sid.
Proof.
  induction l as [|x t IH]; cbn [find_sess]; [discriminate|].
  destruct (s_id x =? sid) eqn:E.
  - intros H. inv H. apply N.eqb_eq in E. split; [left; reflexivity | exact E].
  - intros H. destruct (IH H). split; [right; assumption | assumption].
Qed.

Lemma find_sess_None sid l : find_sess sid l = None <-> ~ In sid (map s_id l).
Proof.
  induction l as [|x t IH]; cbn [find_sess map In]; [tauto|].
  destruct (s_id x =? sid) eqn:E.
  - apply N.eqb_eq in E. split; [discriminate | intros H; exfalso; apply H; left; exact E].
  - apply N.eqb_neq in E. rewrite IH. tauto.
Qed.

Lemma In_find_sess l ss : NoDup (map s_id l) -> In ss l -> find_sess (s_id ss) l = Some ss.
Proof.
  induction l as [|x t IH]; cbn [map find_sess In]; [tauto|].
  intros ND [->|HI].
  - rewrite N.eqb_refl. reflexivity.
  - inv ND. destruct (s_id x =? s_id ss) eqn:E.
    + apply N.eqb_eq in E. exfalso. apply H1. rewrite E. apply in_map. exact HI.
    + apply IH; assumption.
Qed.

Lemma map_id_put_sess ss l : map s_id (put_sess ss l) = map s_id l.
Proof.
  unfold put_sess. rewrite map_map. apply map_ext_in. intros x _.
  destruct (s_id x =? s_id ss) eqn:E; [apply N.eqb_eq in E; congruence | reflexivity].
Qed.

Lemma In_put_sess ss l x :
  In x (put_sess ss l) -> (x = ss /\ In (s_id ss) (map s_id l)) \/ (In x l /\ s_id x <> s_id ss).
Proof.
  unfold put_sess. rewrite in_map_iff. intros (y & Hy & HI).
  destruct (s_id y =? s_id ss) eqn:E.
  - apply N.eqb_eq in E. left. split; [congruence|]. rewrite <- E. apply in_map. exact HI.
  - apply N.eqb_neq in E. right. subst. tauto.
Qed.

Lemma find_put_sess_same ss l :
  In (s_id ss) (map s_id l) -> find_sess (s_id ss) (put_sess ss l) = Some ss.
Proof.
  induction l as [|x t IH]; cbn [map In put_sess find_sess]; [tauto|].
  fold (put_sess ss t).
  destruct (s_id x =? s_id ss) eqn:E.
  - intros _. rewrite N.eqb_refl. reflexivity.
  - intros [H|H]; [apply N.eqb_neq in E; congruence|]. rewrite E. apply IH. exact H.
Qed.

Lemma find_put_sess_other ss l sid :
  sid <> s_id ss -> find_sess sid (put_sess ss l) = find_sess sid l.
Proof.
  intros Hn. induction l as [|x t IH]; [reflexivity|]. cbn [put_sess map find_sess]. fold (put_sess ss t).
  destruct (s_id x =? s_id ss) eqn:E.
  - apply N.eqb_eq in E. destruct (s_id ss =? sid) eqn:E2; [apply N.eqb_eq in E2; congruence|].
    destruct (s_id x =? sid) eqn:E3; [apply N.eqb_eq in E3; congruence|]. exact IH.
  - destruct (s_id x =? sid); [reflexivity | exact IH].
Qed.

Lemma put_sess_notin ss l : ~ In (s_id ss) (map s_id l) -> put_sess ss l = l.
Proof.
  induction l as [|x t IH]; cbn [map In]; [reflexivity|]. intros H. cbn [put_sess map]. fold (put_sess ss t).
  destruct (s_id x =? s_id ss) eqn:E; [apply N.eqb_eq in E; tauto|]. f_equal. apply IH. tauto.
Qed.

Lemma In_del_sess sid l x : In x (del_sess sid l) <-> In x l /\ s_id x <> sid.
Proof. unfold del_sess. rewrite filter_In, Bool.negb_true_iff, N.eqb_neq. tauto. Qed.

Lemma find_del_sess_other sid sid' l : sid' <> sid -> find_sess sid' (del_sess sid l) = find_sess sid' l.
Proof.
  intros Hn. induction l as [|x t IH]; [reflexivity|]. cbn [del_sess filter find_sess]. fold (del_sess sid t).
  destruct (s_id x =? sid) eqn:E; cbn [negb].
  - apply N.eqb_eq in E. destruct (s_id x =? sid') eqn:E2; [apply N.eqb_eq in E2; congruence | exact IH].
  - cbn [find_sess]. destruct (s_id x =? sid'); [reflexivity | exact IH].
Qed.

Lemma find_del_sess_same sid l : find_sess sid (del_sess sid l) = None.
Proof.
  apply find_sess_None. rewrite in_map_iff. intros (x & Hx & HI). apply In_del_sess in HI. tauto.
Qed.

Lemma del_sess_notin sid l : ~ In sid (map s_id l) -> del_sess sid l = l.
Proof.
  induction l as [|x t IH]; cbn [map In]; [reflexivity|]. intros H. cbn [del_sess filter]. fold (del_sess sid t).
  destruct (s_id x =? sid) eqn:E; [apply N.eqb_eq in E; tauto|]. cbn [negb]. f_equal. apply IH. tauto.
Qed.

Lemma NoDup_map_filter {A} (f : A -> N) (p : A -> bool) l : NoDup (map f l) -> NoDup (map f (filter p l)).
Proof.
  induction l as [|x t IH]; cbn [map filter]; [constructor|]. intros ND. inv ND.
  destruct (p x); [|apply IH; assumption]. cbn [map]. constructor; [|apply IH; assumption].
  rewrite in_map_iff. intros (y & Hy & HI). apply filter_In in HI. apply H1. rewrite <- Hy. apply in_map. tauto.
Qed.

(* ---- connections ---- *)
Lemma find_conn_In cid l c : find_conn cid l = Some c -> In c l /\ c_id c = cid.
Proof.
  induction l as [|x t IH]; cbn [find_conn]; [discriminate|].
  destruct (c_id x =? cid) eqn:E.
  - intros H. inv H. apply N.eqb_eq in E. split; [left; reflexivity | exact E].
  - intros H. destruct (IH H). split; [right; assumption | assumption].
Qed.

Lemma find_conn_None cid l : find_conn cid l = None <-> ~ In cid (map c_id l).
Proof.
  induction l as [|x t IH]; cbn [find_conn map In]; [tauto|].
  destruct (c_id x =? cid) eqn:E.
  - apply N.eqb_eq in E. split; [discriminate | intros H; exfalso; apply H; left; exact E].
  - apply N.eqb_neq in E. rewrite IH. tauto.
Qed.

Lemma In_find_conn l c : NoDup (map c_id l) -> In c l -> find_conn (c_id c) l = Some c.
Proof.
  induction l as [|x t IH]; cbn [map find_conn In]; [tauto|].
  intros ND [->|HI].
  - rewrite N.eqb_refl. reflexivity.
  - inv ND. destruct (c_id x =? c_id c) eqn:E.
    + apply N.eqb_eq in E. exfalso. apply H1. rewrite E. apply in_map. exact HI.
    + apply IH; assumption.
Qed.

Lemma map_id_put_conn c l : map c_id (put_conn c l) = map c_id l.
Proof.
  unfold put_conn. rewrite map_map. apply map_ext_in. intros x _.
  destruct (c_id x =? c_id c) eqn:E; [apply N.eqb_eq in E; congruence | reflexivity].
Qed.

Lemma In_put_conn c l x :
  In x (put_conn c l) -> x = c \/ (In x l /\ c_id x <> c_id c).
Proof.
  unfold put_conn. rewrite in_map_iff. intros (y & Hy & HI).
  destruct (c_id y =? c_id c) eqn:E.
  - left. congruence.
  - apply N.eqb_neq in E. right. subst. tauto.
Qed.

Lemma In_del_conn cid l x : In x (del_conn cid l) <-> In x l /\ c_id x <> cid.
Proof. unfold del_conn. rewrite filter_In, Bool.negb_true_iff, N.eqb_neq. tauto. Qed.

Lemma find_put_conn_same c l :
  In (c_id c) (map c_id l) -> find_conn (c_id c) (put_conn c l) = Some c.
Proof.
  induction l as [|x t IH]; cbn [map In put_conn find_conn]; [tauto|].
  fold (put_conn c t).
  destruct (c_id x =? c_id c) eqn:E.
  - intros _. rewrite N.eqb_refl. reflexivity.
  - intros [H|H]; [apply N.eqb_neq in E; congruence|]. rewrite E. apply IH. exact H.
Qed.

(* ---- UDP maps ---- *)
Lemma In_udp_del k l e : In e (udp_del k l) <-> In e l /\ fst e <> k.
Proof.
  unfold udp_del. rewrite filter_In, Bool.negb_true_iff. unfold key_eqb.
  destruct e as [[a b] o], k as [ka kb]. cbn [fst snd].
  rewrite Bool.andb_false_iff, !N.eqb_neq.
  destruct (N.eq_dec a ka), (N.eq_dec b kb); subst; intuition congruence.
Qed.

Lemma key_eqb_eq a b : key_eqb a b = true <-> a = b.
Proof.
  unfold key_eqb. destruct a, b. cbn [fst snd]. rewrite Bool.andb_true_iff, !N.eqb_eq. intuition congruence.
Qed.

Lemma In_udp_add k o l e : In e (udp_add k o l) <-> e = (k, o) \/ (In e l /\ fst e <> k).
Proof. unfold udp_add. cbn [In]. rewrite In_udp_del. intuition congruence. Qed.

Lemma In_put_sess_same ss l : In (s_id ss) (map s_id l) -> In ss (put_sess ss l).
Proof.
  intros H. apply find_put_sess_same in H. apply find_sess_In in H. tauto.
Qed.

Lemma In_put_sess_other ss l x : In x l -> s_id x <> s_id ss -> In x (put_sess ss l).
Proof.
  intros HI Hn. unfold put_sess. apply in_map_iff. exists x. split; [|exact HI].
  destruct (s_id x =? s_id ss) eqn:E; [apply N.eqb_eq in E; congruence | reflexivity].
Qed.

Lemma In_put_conn_same c l : In (c_id c) (map c_id l) -> In c (put_conn c l).
Proof.
  intros H. apply find_put_conn_same in H. apply find_conn_In in H. tauto.
Qed.

Lemma In_put_conn_other c l x : In x l -> c_id x <> c_id c -> In x (put_conn c l).
Proof.
  intros HI Hn. unfold put_conn. apply in_map_iff. exists x. split; [|exact HI].
  destruct (c_id x =? c_id c) eqn:E; [apply N.eqb_eq in E; congruence | reflexivity].
Qed.

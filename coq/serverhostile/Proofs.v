From GVL Require Import NList Wire.
From GV_serverhostile Require Import Model.

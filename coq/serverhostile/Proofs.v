(* Main theorems of the serverhostile domain (C11), assembled from Inv.v / Handlers.v / Step.v. *)
From Coq Require Import ZifyBool ZifyNat ZifyN.
From GVL Require Import NList Wire.
From GV_serverhostile Require Import Model Basics Inv FindFree Handlers Step.
Open Scope N_scope.

(* ---- no input drives a step to Panic ---- *)
Theorem hostile_no_panic g evs :
  0 < c_nmedias g -> exists s os, run_events g srv0 evs = Some (s, os) /\ Inv s /\ length os = length evs.
Proof. intros H. apply run_events_ok; [apply Inv_srv0 | exact H]. Qed.

Theorem hostile_no_panic_from g s evs :
  Inv s -> 0 < c_nmedias g -> exists s' os, run_events g s evs = Some (s', os) /\ Inv s' /\ length os = length evs.
Proof. intros. apply run_events_ok; assumption. Qed.

(* ---- every request is answered exactly once; everything else closes the connection or is a frame
        of a running TCP session ---- *)
Theorem always_answers_or_closes g s c e s' o :
  Inv s -> In c (v_conns s) -> 0 < c_nmedias g -> conn_event g s c e = Some (s', o) -> answered c e s s' o.
Proof.
  intros I Hc Hnm H. destruct (conn_event_ok g s c e I Hc Hnm) as (s2 & o2 & E & _ & _ & A).
  rewrite E in H. inv H. exact A.
Qed.

(* ---- validation before use: what an accepted SETUP guarantees, and the statuses of a refused one ---- *)
Theorem validate_setup_sound g c ss r :
  match validate_setup g c ss r with
  | SetupAccept th p path trk =>
      (s_state ss = SInitial \/ s_state ss = SPrePlay \/ s_state ss = SPreRecord) /\
      is_supported g c th = true /\ p = proto_of th /\
      (forall old, s_tr ss = Some old -> old = (p, t_secure th)) /\
      (p = SPUDP -> t_cports th <> None) /\
      (playing ss = false -> p <> SPMcast)
  | SetupReject st err => (st = 400 /\ err = true) \/ (st = 461 /\ err = false)
  end.
Proof.
  destruct (validate_setup g c ss r) as [st err|th p path trk] eqn:V.
  - unfold validate_setup in V. repeat dmatch; try discriminate; inv V;
      ((left; split; reflexivity) || (right; split; reflexivity)).
  - apply validate_setup_accept in V. exact V.
Qed.

(* an accepted transport is one the configuration can serve *)
Theorem supported_transport_needs g c th :
  is_supported g c th = true ->
  (t_secure th = true -> c_tls g = true) /\
  (t_proto th = PUDP -> c_tunnel c = false /\ (t_mcast th = true -> c_mcast g = true) /\ (t_mcast th = false -> c_udp g = true)
                        /\ (c_tls g = true -> t_secure th = true)).
Proof.
  unfold is_supported. destruct (t_proto th), (t_mcast th), (t_secure th), (c_tls g), (c_tunnel c), (c_mcast g), (c_udp g);
    cbn; intros H; try discriminate; repeat split; intros; try congruence.
Qed.

(* ---- a session that ends leaves the tables ---- *)
Lemma reader_set_inactive_shape s ss s' :
  reader_set_inactive s ss = Some s' ->
  v_conns s' = v_conns s /\ v_sess s' = v_sess s /\ v_readers s' = v_readers s /\
  (forall x, In x (v_active s') -> In x (v_active s) /\ (is_mcast ss = false -> x <> s_id ss)).
Proof.
  unfold reader_set_inactive, is_mcast. intros H.
  destruct (s_tr ss) as [[[] b]|]; try discriminate;
    try (destruct (v_mwriters s); [|discriminate]); inv H; cbn [v_conns v_sess v_readers v_active];
    repeat split; try reflexivity; try tauto; try (intros Hx; apply In_nremove in Hx; tauto); try discriminate;
    try (apply In_nremove in H; tauto); try assumption.
Qed.

Lemma reader_remove_shape s ss s' :
  reader_remove s ss = Some s' ->
  v_conns s' = v_conns s /\ v_sess s' = v_sess s /\ v_active s' = v_active s /\
  (forall x, In x (v_readers s') -> In x (v_readers s) /\ x <> s_id ss).
Proof.
  unfold reader_remove. intros H.
  destruct (s_tr ss) as [[[] b]|]; try discriminate; repeat dmatch; try discriminate; inv H;
    cbn [v_conns v_sess v_readers v_active]; repeat split; try reflexivity;
    try (apply In_nremove in H; tauto); try (intros Hx; apply In_nremove in Hx; tauto).
Qed.

Lemma medias_stop_shape s ss s' :
  medias_stop s ss = Some s' ->
  v_conns s' = v_conns s /\ v_sess s' = v_sess s /\ v_active s' = v_active s /\ v_readers s' = v_readers s.
Proof.
  unfold medias_stop. intros H. repeat dmatch; try discriminate; inv H; cbn [v_conns v_sess v_readers v_active]; tauto.
Qed.

Theorem end_session_leaves s sid ss s' :
  find_sess sid (v_sess s) = Some ss -> end_session s sid = Some s' ->
  find_sess sid (v_sess s') = None /\
  (forall c, In c (v_conns s') -> ~ In (c_id c) (s_conns ss)) /\
  (s_stream ss = true -> ~ In sid (v_readers s') /\ (is_mcast ss = false -> ~ In sid (v_active s'))).
Proof.
  intros F E. unfold end_session in E. rewrite F in E. apply find_sess_In in F. destruct F as [HI Hid]. subst sid.
  match type of E with context [filter ?f (v_conns s)] => set (fl := f) in * end.
  match type of E with context [mkSrv (filter fl (v_conns s)) ?a ?b ?c ?d ?e ?f ?g ?h] =>
    set (s1 := mkSrv (filter fl (v_conns s)) a b c d e f g h) in * end.
  destruct (s_stream ss) eqn:Es.
  - destruct (reader_set_inactive s1 ss) as [s2|] eqn:E1; [|discriminate].
    destruct (reader_remove s2 ss) as [s3|] eqn:E2; [|discriminate].
    destruct (medias_stop s3 ss) as [s4|] eqn:E3; [|discriminate]. inv E.
    apply reader_set_inactive_shape in E1. apply reader_remove_shape in E2. apply medias_stop_shape in E3.
    destruct E1 as (A1 & A2 & A3 & A4), E2 as (B1 & B2 & B3 & B4), E3 as (C1 & C2 & C3 & C4).
    cbn [v_sess v_conns v_readers v_active]. split; [apply find_del_sess_same|]. split.
    + intros c Hc. rewrite C1, B1, A1 in Hc. cbn [v_conns s1] in Hc. apply filter_In in Hc. destruct Hc as [_ Hc].
      subst fl. cbn in Hc. apply Bool.negb_true_iff, nmem_false in Hc. exact Hc.
    + intros _. split.
      * rewrite C4. intros Hr. apply B4 in Hr. tauto.
      * intros Hm. rewrite C3, B3. intros Ha. apply A4 in Ha. tauto.
  - destruct (medias_stop s1 ss) as [s4|] eqn:E3; [|discriminate]. inv E.
    apply medias_stop_shape in E3. destruct E3 as (C1 & C2 & C3 & C4).
    cbn [v_sess v_conns v_readers v_active]. split; [apply find_del_sess_same|]. split; [|discriminate].
    intros c Hc. rewrite C1 in Hc. cbn [v_conns s1] in Hc. apply filter_In in Hc. destruct Hc as [_ Hc].
    subst fl. cbn in Hc. apply Bool.negb_true_iff, nmem_false in Hc. exact Hc.
Qed.

(* ---- the property is false of the unchanged code: two witnesses ---- *)
Definition cfg_all : cfg := mkCfg true true true true true true true true true false false 2.

Definition req0 (m : method) : req :=
  mkReq m true true None 1 true true CTMissing None None false None None true.

Definition w_announce : req :=
  mkReq MAnnounce true true None 1 true true CTSdp (Some 1) None false None None true.
Definition w_setup_rec (a b : N) : req :=
  mkReq MSetup true true None 1 true true CTMissing None
        (Some [mkTr PUDP false false (Some (a, b)) None (Some TMRecord)]) false None (Some 0) true.
Definition w_record (ok : bool) : req :=
  mkReq MRecord true true (Some 2) 1 true true CTMissing None None false None None ok.

(* regression for fix ba05e77: RECORD over UDP whose firewall-opening write fails used to leave an
   immortal session in state RECORD (history/README_old_record_failure.txt); now the request is
   refused, the session stays PreRecord and goes away with its connection *)
Lemma record_start_failure_released :
  exists s os,
    run_events cfg_all srv0 [SNew 1 false; SConn 1 (EReq w_announce); SConn 1 (EReq (w_setup_rec 0 1));
                             SConn 1 (EReq (w_record false))] = Some (s, os) /\
    os = [OIgnored; OResp 200 false None; OResp 200 false (Some 2); OResp 400 true None] /\
    v_conns s = [] /\ v_sess s = [] /\ v_rtp s = [] /\ v_rtcp s = [].
Proof. eexists. eexists. vm_compute. repeat split; reflexivity. Qed.

(* a second session from the same IP that is set up with the client ports of a recording session takes
   over its UDP registrations and removes them when it leaves: a step on one connection changes what
   another connection's session receives *)
Definition w_record_sid (sid : N) : req :=
  mkReq MRecord true true (Some sid) 1 true true CTMissing None None false None None true.
Definition w_teardown_sid (sid : N) : req :=
  mkReq MTeardown true true (Some sid) 1 true true CTMissing None None false None None true.

Theorem others_unaffected_refuted :
  exists evs_victim evs_hostile s1 os1 s2 os2 victim,
    run_events cfg_all srv0 evs_victim = Some (s1, os1) /\
    (forall e, In e evs_hostile -> match e with SConn c _ => c = 3 | SNew _ _ => True | _ => False end) /\
    run_events cfg_all s1 evs_hostile = Some (s2, os2) /\
    find_sess 2 (v_sess s1) = Some victim /\ find_sess 2 (v_sess s2) = Some victim /\ s_state victim = SRecord /\
    In ((1, 5000), 2) (v_rtp s1) /\ v_rtp s2 = [].
Proof.
  exists [SNew 1 false; SConn 1 (EReq w_announce); SConn 1 (EReq (w_setup_rec 5000 5001)); SConn 1 (EReq (w_record_sid 2))].
  exists [SNew 1 false; SConn 3 (EReq w_announce); SConn 3 (EReq (w_setup_rec 5000 5001)); SConn 3 (EReq (w_record_sid 4));
          SConn 3 (EReq (w_teardown_sid 4))].
  do 5 eexists. split; [vm_compute; reflexivity|]. split.
  { intros e He. cbn in He. repeat (destruct He as [<-|He]; [cbn; tauto|]). destruct He. }
  split; [vm_compute; reflexivity|]. vm_compute. repeat split; try reflexivity. left. reflexivity.
Qed.

(* C13 - statements only. *)
From GVL Require Import NList.
From GVG Require Import Skel.
From GV_lifecycle Require Import Model Proofs.
From GV_lifecycle Require Reporter ReporterProofs.
Open Scope N_scope.

(* From every reachable state - any number of connections and sessions, idle, mid-handshake, playing or
   recording, with running worker goroutines, some of them already shutting down - Server.Close (cancel the
   root context, wait for every goroutine) terminates: there is a sequence of at most [measure] finishing
   steps after which the server, every connection and every session are closed. *)
Theorem C13_close_terminates : forall n steps st,
  exec (init n) steps = Some st -> sv st <> Closed ->
  exists st0 fin st',
    (sv st = Open -> step st ServerClose = Some st0) /\ (sv st <> Open -> st0 = st) /\
    exec st0 fin = Some st' /\ all_closed st' = true /\ nlen fin <= measure st0 /\ Forall is_fin fin.
Proof. exact close_terminates. Qed.
Print Assumptions C13_close_terminates.

(* No deadlock in the cascade: after the cancellation, as long as anything is still running some goroutine
   can finish (every object waits only for objects that wait for nothing that is still open: session ->
   its connections and workers, connection -> its reader, server -> its listeners), and each such step
   strictly reduces the remaining work. *)
Theorem C13_close_progress : forall st,
  quiesced st -> sv st <> Open -> all_closed st = false ->
  exists s st', next_fin st = Some s /\ is_fin s /\ step st s = Some st' /\ measure st' < measure st.
Proof. exact close_progress. Qed.
Print Assumptions C13_close_progress.

Theorem C13_quiesced_reachable : forall n steps st, exec (init n) steps = Some st -> quiesced st.
Proof. intros n steps st H. exact (quiesced_exec _ _ _ (quiesced_init n) H). Qed.
Print Assumptions C13_quiesced_reachable.

(* Callbacks are balanced and never overlap a close: the callback sequence of every run - with a begin and an
   end event for each packet / request callback - is a word of the automaton (an open exactly once and first,
   at most one close, a session's close only while none of its callbacks is in progress, a connection's close
   only while its reader is in no callback, nothing after the close).
   This is where the waits-for edges are used: the proof (Proofs.traced_step, cases SessFinish and PacketBegin)
   needs the invariant Proofs.linv, i.e. "a session finishes only when every connection attached to it is
   closed" (ServerSession.run: sc.Close(); <-sc.done) and "a connection is closed - and reports itself to its
   session, removeConn - only after its reader goroutine has returned" (ServerConn.run: nconn.Close();
   reader.wait(); session.removeConn(sc)).  A model in which the connection tells the session before waiting
   for its reader does not satisfy linv and produces the word of C13_example_seed below, which is illegal. *)
Theorem C13_callbacks_legal : forall n steps st, exec (init n) steps = Some st -> accept (trace st) = true.
Proof. exact trace_accepted. Qed.
Print Assumptions C13_callbacks_legal.

(* The two waits-for edges as a state invariant of every reachable state: no reader goroutine of a connection
   attached to a closed session is running, so none is inside (or can enter) a packet callback of it. *)
Theorem C13_closed_session_has_no_reader : forall n steps st s y,
  exec (init n) steps = Some st -> nnth s (sesss st) = Some y -> s_st y = Closed ->
  forall c x, nnth c (conns st) = Some x -> c_busy x <> Some s /\ (c_sess x = Some s -> c_reader x = false).
Proof. exact closed_session_has_no_reader. Qed.
Print Assumptions C13_closed_session_has_no_reader.

(* ... and once Server.Close has returned every opened connection and session has had exactly one close. *)
Theorem C13_callbacks_balanced : forall n steps st,
  exec (init n) steps = Some st -> all_closed st = true ->
  exists a, arun a0 (trace st) = Some a /\ abalanced a = true.
Proof. exact balanced_when_all_closed. Qed.
Print Assumptions C13_callbacks_balanced.

(* In every legal word: after a session's close notification nothing mentions that session any more (no
   packet callback begins or returns, no request callback, no second close) ... *)
Theorem C13_no_callback_after_session_close : forall w1 s w2,
  accept (w1 ++ CbSessClose s :: w2) = true -> forallb (fun x => negb (about_sess s x)) w2 = true.
Proof. exact accept_no_callback_after_session_close. Qed.
Print Assumptions C13_no_callback_after_session_close.

(* ... and at the close notification every callback of the session that had begun has returned: pend_sess
   counts the begun-and-not-returned callbacks run by other goroutines, pend_conn c is s + 1 while the reader
   of connection c is inside a packet callback of session s. *)
Theorem C13_session_close_quiescent : forall w1 s w2,
  accept (w1 ++ CbSessClose s :: w2) = true ->
  fold_left (pend_sess s) w1 0 = 0 /\ forall c, fold_left (pend_conn c) w1 0 <> s + 1.
Proof. exact accept_session_close_quiescent. Qed.
Print Assumptions C13_session_close_quiescent.

(* ... and likewise for a connection. *)
Theorem C13_no_callback_after_conn_close : forall w1 c w2,
  accept (w1 ++ CbConnClose c :: w2) = true -> forallb (fun x => negb (about_conn c x)) w2 = true.
Proof. exact accept_no_callback_after_conn_close. Qed.
Print Assumptions C13_no_callback_after_conn_close.

(* Client.Close: the exit path of the run loop joins the writer, the reader, the listeners. *)
Theorem C13_client_close_terminates : forall n c,
  cl_st c = Closing -> cl_measure c <= n ->
  exists steps c', fold_left (fun o s => match o with Some x => cstep x s | None => None end) steps (Some c) = Some c' /\
                   cl_st c' = Closed /\ nlen steps <= n.
Proof. exact client_close_terminates. Qed.
Print Assumptions C13_client_close_terminates.

(* non-vacuity: two connections, a session playing with 3 workers, a second connection attached; the reader of
   connection 0 is inside a packet callback and a UDP callback is in progress when Server.Close is called *)
Definition ex_steps := [Accept; Accept; NewSession 0; Request 1; RequestS 0 0; Attach 1 0; Play 0 3; Packet 0;
                        PacketBegin 0; SBegin 0; ServerClose; Packet 0].
Example C13_example :
  exists st, exec (init 3) ex_steps = Some st /\ sv st = Closing /\ all_closed st = false /\ measure st = 15 /\
    trace st = [CbConnOpen 0; CbConnOpen 1; CbSessOpen 0 0; CbReq 1; CbReqS 0 0; CbSB 0; CbSE 0; CbPkt 0;
                CbPktB 0 0; CbSB 0; CbPkt 0] /\
    (* the session cannot finish, the reader cannot exit: the callbacks have to return first *)
    step st (SessFinish 0) = None /\ step st (ReaderExit 0) = None /\ step st (MediaStop 0) = None.
Proof. vm_compute. eexists. repeat split. Qed.
Example C13_example_illegal :
  afirst_bad a0 [CbConnOpen 0; CbSessOpen 0 0; CbSessClose 0; CbPkt 0] 0 = Some 3.
Proof. reflexivity. Qed.
(* the session-open notification is delivered by the session's own goroutine: it may come after the close
   notification of the connection that created the session (thorough-tier observation, 2026-09-23); it must still
   name a connection that was opened, be followed by the session's close, and a request callback of the closed
   connection inside the session stays illegal *)
Example C13_example_late_session_open :
  afirst_bad a0 [CbConnOpen 0; CbConnClose 0; CbSessOpen 0 0; CbSessClose 0] 0 = None
  /\ afirst_bad a0 [CbConnOpen 0; CbConnClose 0; CbSessOpen 0 1; CbSessClose 0] 0 = Some 2
  /\ afirst_bad a0 [CbConnOpen 0; CbConnClose 0; CbSessOpen 0 0; CbReqS 0 0] 0 = Some 3.
Proof. repeat split. Qed.
(* what the seeded regression C13-2 produces: OnSessionClose while the reader is inside OnPacketRTP, more
   frames delivered afterwards *)
Example C13_example_seed :
  afirst_bad a0 [CbConnOpen 0; CbSessOpen 0 0; CbReqS 0 0; CbSB 0; CbSE 0; CbPktB 0 0; CbSessClose 0; CbPktE 0; CbPktB 0 0] 0 = Some 6
  /\ afirst_bad a0 [CbConnOpen 0; CbSessOpen 0 0; CbPktB 0 0; CbPktE 0; CbSessClose 0; CbPktB 0 0] 0 = Some 5
  /\ afirst_bad a0 [CbConnOpen 0; CbSessOpen 0 0; CbSB 0; CbSessClose 0] 0 = Some 3
  /\ afirst_bad a0 [CbConnOpen 0; CbSessOpen 0 0; CbPktB 0 0; CbConnClose 0] 0 = Some 3
  /\ afirst_bad a0 [CbConnOpen 0; CbSessOpen 0 0; CbPktB 0 0; CbPktE 0; CbSB 0; CbSE 0; CbSessClose 0; CbConnClose 0] 0 = None.
Proof. repeat split. Qed.

(* ---------------- the RTCP report goroutines (pkg/rtpreceiver, pkg/rtpsender): Close always returns ----------------
   Reporter.v is an interleaving model of Close / Reporter.run / report (one atomic action of one thread per step, arbitrary
   scheduler): the closer, the report goroutine with its select over the ticker and terminate, the mutex of report(),
   and the users of the mutex (ProcessPacket, Stats, ...).  For a Receiver or a Sender, ANY number of ticks delivered at
   any moments, ANY amount of user activity and ANY schedule: the schedule is finite, and a state in which no thread
   can move is a state in which Close has been called and has returned, the goroutine has exited, the mutex is free. *)
Theorem C13_report_goroutine_close_always_returns : forall (sender : bool) (nticks nusers : nat) (ls : list Reporter.label) (c : Reporter.cfg),
  Reporter.run false ls (Reporter.init sender nticks nusers) = Some c ->
  (length ls <= Reporter.measure (Reporter.init sender nticks nusers))%nat /\
  (Reporter.stuck false c -> Reporter.kp c = Reporter.KDone /\ Reporter.rp c = Reporter.RDone /\ Reporter.done c = true /\ Reporter.owner c = Reporter.Free /\ Reporter.uin c = false).
Proof. exact ReporterProofs.close_always_returns. Qed.
Print Assumptions C13_report_goroutine_close_always_returns.

(* ... and in every state satisfying the invariant (all reachable states do) in which Close has not returned yet,
   some thread can move *)
Theorem C13_report_goroutine_close_never_blocks : forall c, Reporter.Inv c -> Reporter.kp c <> Reporter.KDone ->
  exists l c', Reporter.step false l c = Some c'.
Proof. exact ReporterProofs.close_never_blocks_forever. Qed.
Print Assumptions C13_report_goroutine_close_never_blocks.

(* the model was written from these synchronisation skeletons; tools/syncskel regenerates them from
   pkg/rtpreceiver/receiver.go and pkg/rtpsender/sender.go on every Reporter.run (GVG.Skel) *)
Theorem C13_report_goroutine_skeleton_is_the_code :
  skel_recv_close = Reporter.expected_close /\ skel_send_close = Reporter.expected_close /\
  skel_recv_run = Reporter.expected_recv_run /\ skel_send_run = Reporter.expected_send_run.
Proof. exact ReporterProofs.skel_reporter_matches. Qed.
Print Assumptions C13_report_goroutine_skeleton_is_the_code.

(* why the structure matters: if Close took the mutex and kept it while waiting for Reporter.done (seeded change C13-4), a tick
   taken just before Close leaves the goroutine waiting for the mutex that Close holds *)
Example C13_example_held_mutex_deadlocks : exists c, Reporter.run true [Reporter.LTick; Reporter.LRepWake; Reporter.LClose] (Reporter.init false 1%nat 0%nat) = Some c /\
  Reporter.stuckb true c = true /\ Reporter.kp c = Reporter.KWait /\ Reporter.rp c = Reporter.RLock /\ Reporter.owner c = Reporter.OCloser.
Proof. exact ReporterProofs.held_mutex_deadlocks. Qed.
(* a complete Reporter.run of the real protocol: tick, report under the mutex while a user waits its turn, Close, exit *)
Example C13_example_reporter_run : exists c,
  Reporter.run false [Reporter.LTick; Reporter.LRepWake; Reporter.LRep; Reporter.LClose; Reporter.LRep; Reporter.LUser; Reporter.LUser; Reporter.LRep; Reporter.LRepTerm; Reporter.LClose] (Reporter.init false 1%nat 1%nat) = Some c /\
  Reporter.stuckb false c = true /\ Reporter.kp c = Reporter.KDone.
Proof. eexists. split; [vm_compute; reflexivity|]. split; vm_compute; reflexivity. Qed.

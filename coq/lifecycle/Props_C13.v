(* C13 - statements only. *)
From GVL Require Import NList.
From GV_lifecycle Require Import Model Proofs.
Open Scope N_scope.

(* From every reachable state - any number of connections and sessions, idle, mid-handshake, playing or
   recording, with running worker goroutines, some of them already shutting down - Server.Close (cancel the
   root context, wait for every goroutine) terminates: there is a sequence of at most [measure] finishing
   steps after which the server, every connection and every session are closed. *)
Theorem C13_close_terminates : forall n steps st,
  exec (init n) steps = Some st -> sv st <> Closed ->
  exists st0 fin st',
    (sv st = Open -> step st ServerClose = Some st0) /\ (sv st <> Open -> st0 = st) /\
    exec st0 fin = Some st' /\ all_closed st' = true /\ nlen fin <= measure st0 /\ Forall is_fin fin.
Proof. exact close_terminates. Qed.
Print Assumptions C13_close_terminates.

(* No deadlock in the cascade: after the cancellation, as long as anything is still running some goroutine
   can finish (every object waits only for objects that wait for nothing that is still open: session ->
   its connections and workers, connection -> its reader, server -> its listeners), and each such step
   strictly reduces the remaining work. *)
Theorem C13_close_progress : forall st,
  quiesced st -> sv st <> Open -> all_closed st = false ->
  exists s st', next_fin st = Some s /\ is_fin s /\ step st s = Some st' /\ measure st' < measure st.
Proof. exact close_progress. Qed.
Print Assumptions C13_close_progress.

Theorem C13_quiesced_reachable : forall n steps st, exec (init n) steps = Some st -> quiesced st.
Proof. intros n steps st H. exact (quiesced_exec _ _ _ (quiesced_init n) H). Qed.
Print Assumptions C13_quiesced_reachable.

(* Callbacks are balanced: the callback sequence of every run is a word of the automaton (an open exactly
   once and first, at most one close, nothing after the close) ... *)
Theorem C13_callbacks_legal : forall n steps st, exec (init n) steps = Some st -> accept (trace st) = true.
Proof. exact trace_accepted. Qed.
Print Assumptions C13_callbacks_legal.

(* ... and once Server.Close has returned every opened connection and session has had exactly one close. *)
Theorem C13_callbacks_balanced : forall n steps st,
  exec (init n) steps = Some st -> all_closed st = true ->
  exists a, arun (mkA [] []) (trace st) = Some a /\ abalanced a = true.
Proof. exact balanced_when_all_closed. Qed.
Print Assumptions C13_callbacks_balanced.

(* In every legal word: after a session's close notification nothing mentions that session any more (no
   packet callback, no request callback, no second close) ... *)
Theorem C13_no_callback_after_session_close : forall w1 s w2,
  accept (w1 ++ CbSessClose s :: w2) = true -> forallb (fun x => negb (about_sess s x)) w2 = true.
Proof. exact accept_no_callback_after_session_close. Qed.
Print Assumptions C13_no_callback_after_session_close.

(* ... and likewise for a connection. *)
Theorem C13_no_callback_after_conn_close : forall w1 c w2,
  accept (w1 ++ CbConnClose c :: w2) = true -> forallb (fun x => negb (about_conn c x)) w2 = true.
Proof. exact accept_no_callback_after_conn_close. Qed.
Print Assumptions C13_no_callback_after_conn_close.

(* Client.Close: the exit path of the run loop joins the writer, the reader, the listeners. *)
Theorem C13_client_close_terminates : forall n c,
  cl_st c = Closing -> cl_measure c <= n ->
  exists steps c', fold_left (fun o s => match o with Some x => cstep x s | None => None end) steps (Some c) = Some c' /\
                   cl_st c' = Closed /\ nlen steps <= n.
Proof. exact client_close_terminates. Qed.
Print Assumptions C13_client_close_terminates.

(* non-vacuity: two connections, a session playing with 3 workers, a second connection attached, Server.Close
   while a packet callback is still possible *)
Definition ex_steps := [Accept; Accept; NewSession 0; Request 1; RequestS 0 0; Attach 1 0; Play 0 3; Packet 0; ServerClose; Packet 0].
Example C13_example :
  exists st, exec (init 3) ex_steps = Some st /\ sv st = Closing /\ all_closed st = false /\ measure st = 13 /\
    trace st = [CbConnOpen 0; CbConnOpen 1; CbSessOpen 0 0; CbReq 1; CbReqS 0 0; CbPkt 0; CbPkt 0].
Proof. vm_compute. eexists. repeat split. Qed.
Example C13_example_illegal :
  afirst_bad (mkA [] []) [CbConnOpen 0; CbSessOpen 0 0; CbSessClose 0; CbPkt 0] 0 = Some 3.
Proof. reflexivity. Qed.

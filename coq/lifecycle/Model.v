(* Executable model of the shutdown paths of gortsplib (property C13). Proof-free.

   Server side.  Objects, with the goroutine each stands for and what it waits for when it ends:
     server     Server.run            ends on ctx cancel; then joins its listeners            (server.go:354-387)
     listener   TCP accept / UDP read goroutines of the server
     conn       ServerConn.run        OnConnOpen first; ends on ctx cancel (Server.Close, ServerConn.Close by the
                                      application or by the session) / read error; then closes the socket, WAITS FOR
                                      ITS READER goroutine, and only THEN tells its session (removeConn) and the
                                      server (both sends are guarded by the receiver's ctx), OnConnClose,
                                      close(done)                                             (server_conn.go:205-243)
     reader     serverConnReader      ends when the socket is closed - but not while it is inside a callback: it
                                      hands every interleaved frame it has buffered to the session's OnPacketRTP /
                                      OnPacketRTCP and returns to its read only when the callback has returned
     session    ServerSession.run     OnSessionOpen first; ends on ctx cancel / error / timeout / TEARDOWN; then for
                                      every attached conn: Close it and wait for its done (so OnFrame/OnRequest of
                                      that conn can never follow OnSessionClose); leaves the stream; closes its medias
                                      (joins the RTCP report goroutines, unregisters from the UDP listeners); joins
                                      the writer's consumer; OnSessionClose                     (server_session.go:540-591)
     worker     the writer's consumer goroutine, rtpreceiver / rtpsender report goroutines
   Server.Close = cancel the root ctx, then wait for server.run, every conn.run and every session.run (Server.wg).
   Client side: one run goroutine, the reader, the writer's consumer, report goroutines, UDP listener goroutines;
   Client.Close = cancel, wait for run, whose exit path joins all of them (client.go:784-792, 951-1001). *)
From GVL Require Import NList Wire.
Open Scope N_scope.

Inductive ost := Open | Closing | Closed.

Definition ost_eqb (a b : ost) : bool :=
  match a, b with Open, Open | Closing, Closing | Closed, Closed => true | _, _ => false end.

Record conn := mkConn {
  c_st : ost;
  c_reader : bool;          (* its reader goroutine is still running *)
  c_sess : option N;        (* the session it is attached to *)
  c_busy : option N }.      (* its reader goroutine is inside a packet callback of that session
                               (interleaved frame handed to OnPacketRTP / OnPacketRTCP / OnDecodeError) *)

Record sess := mkSess {
  s_st : ost;
  s_conns : list N;         (* ServerSession.conns *)
  s_workers : N;            (* running worker goroutines: writer consumer, RTCP report goroutines *)
  s_media : bool;           (* the session's medias are started: registered with the UDP listeners *)
  s_srun : N }.             (* callbacks of this session in progress that are NOT run by a connection's reader:
                               UDP listener goroutines (packet callbacks), the session's own goroutine (request
                               callbacks), the stream writer's goroutine (OnStreamWriteError) *)

(* handler callbacks, in the order they are invoked *)
Inductive cb :=
| CbConnOpen (c : N) | CbConnClose (c : N)
| CbSessOpen (s c : N) | CbSessClose (s : N)
| CbReq (c : N)                 (* OnRequest / OnDescribe / ... of a connection *)
| CbReqS (c s : N)              (* OnSetup / OnPlay / OnRecord / OnPause / ... : a request inside a session *)
| CbPkt (s : N)                 (* an instantaneous session callback (kept for logs without begin/end events) *)
| CbPktB (c s : N)              (* the reader of connection c begins a packet callback of session s *)
| CbPktE (c : N)                (* ... and returns from it *)
| CbSB (s : N)                  (* a callback of session s begins on a goroutine other than a connection reader *)
| CbSE (s : N).                 (* ... and returns *)

Record state := mkSt {
  sv : ost;
  listeners : N;
  conns : list conn;
  sesss : list sess;
  trace : list cb }.

Definition init (nlisteners : N) : state := mkSt Open nlisteners [] [] [].

Inductive stepT :=
| Accept
| NewSession (c : N)
| Attach (c s : N)
| Request (c : N)
| RequestS (c s : N)
| Play (s k : N)              (* k worker goroutines are started *)
| Pause (s : N)
| Packet (s : N)
| PacketBegin (c : N)         (* the reader of connection c hands an interleaved frame to its session *)
| PacketEnd (c : N)
| SBegin (s : N)              (* a UDP listener (or the stream writer) enters a callback of session s *)
| SEnd (s : N)
| Teardown (c s : N)
| ConnFail (c : N)
| ReaderExit (c : N)
| ConnFinish (c : N)
| SessFail (s : N)
| MediaStop (s : N)
| WorkerExit (s : N)
| SessFinish (s : N)
| ServerClose
| ListenerExit
| ServerFinish.

Fixpoint nupd {A} (i : N) (f : A -> A) (l : list A) : list A :=
  match l with
  | [] => []
  | x :: t => if i =? 0 then f x :: t else x :: nupd (N.pred i) f t
  end.

Definition set_cst (st : ost) (c : conn) : conn := mkConn st (c_reader c) (c_sess c) (c_busy c).
(* ctx cancellation reaches a connection: it leaves its loop if it is still in it *)
Definition cancel_conn (c : conn) : conn :=
  match c_st c with Open => set_cst Closing c | _ => c end.
Fixpoint cancel_conns (ids : list N) (cs : list conn) : list conn :=
  match ids with
  | [] => cs
  | i :: t => cancel_conns t (nupd i cancel_conn cs)
  end.
Definition cancel_sess (s : sess) : sess :=
  match s_st s with Open => mkSess Closing (s_conns s) (s_workers s) (s_media s) (s_srun s) | _ => s end.

Fixpoint memb (x : N) (l : list N) : bool :=
  match l with [] => false | y :: t => (x =? y) || memb x t end.
Fixpoint remv (x : N) (l : list N) : list N :=
  match l with [] => [] | y :: t => if x =? y then remv x t else y :: remv x t end.

Definition conn_closed (cs : list conn) (i : N) : bool :=
  match nnth i cs with Some c => ost_eqb (c_st c) Closed | None => true end.

Definition emit (st : state) (x : list cb) : list cb := trace st ++ x.

(* None = the step is not enabled *)
Definition step (st : state) (s : stepT) : option state :=
  match s with
  | Accept =>
      match sv st with
      | Open => Some (mkSt Open (listeners st) (conns st ++ [mkConn Open true None None]) (sesss st)
                          (emit st [CbConnOpen (nlen (conns st))]))
      | _ => None
      end
  | NewSession c =>
      match sv st, nnth c (conns st) with
      | Open, Some (mkConn Open r None None) =>
          let s := nlen (sesss st) in
          Some (mkSt Open (listeners st) (nupd c (fun x => mkConn Open r (Some s) None) (conns st))
                     (sesss st ++ [mkSess Open [c] 0 false 0]) (emit st [CbSessOpen s c]))
      | _, _ => None
      end
  | Attach c s =>
      match nnth c (conns st), nnth s (sesss st) with
      | Some (mkConn Open r None None), Some (mkSess Open cs w m n) =>
          Some (mkSt (sv st) (listeners st) (nupd c (fun x => mkConn Open r (Some s) None) (conns st))
                     (nupd s (fun x => mkSess Open (c :: cs) w m n) (sesss st)) (trace st))
      | _, _ => None
      end
  (* requests are read by the same reader goroutine that delivers frames: none while it is in a callback *)
  | Request c =>
      match nnth c (conns st) with
      | Some (mkConn Open _ _ None) => Some (mkSt (sv st) (listeners st) (conns st) (sesss st) (emit st [CbReq c]))
      | _ => None
      end
  (* a request inside a session: its callback runs on the session's goroutine, begins and returns there *)
  | RequestS c s =>
      match nnth c (conns st), nnth s (sesss st) with
      | Some (mkConn Open _ (Some s') None), Some (mkSess Open _ _ _ _) =>
          if s' =? s then Some (mkSt (sv st) (listeners st) (conns st) (sesss st) (emit st [CbReqS c s; CbSB s; CbSE s])) else None
      | _, _ => None
      end
  | Play s k =>
      match nnth s (sesss st) with
      | Some (mkSess Open cs w m n) =>
          Some (mkSt (sv st) (listeners st) (conns st) (nupd s (fun x => mkSess Open cs (w + k) true n) (sesss st)) (trace st))
      | _ => None
      end
  (* PAUSE stops the medias: removeClient takes the listener's lock, i.e. waits for a callback in progress *)
  | Pause s =>
      match nnth s (sesss st) with
      | Some (mkSess Open cs w m 0) =>
          Some (mkSt (sv st) (listeners st) (conns st) (nupd s (fun x => mkSess Open cs 0 false 0) (sesss st)) (trace st))
      | _ => None
      end
  | Packet s =>
      match nnth s (sesss st) with
      | Some (mkSess Open _ _ true _) | Some (mkSess Closing _ _ true _) =>
          Some (mkSt (sv st) (listeners st) (conns st) (sesss st) (emit st [CbPkt s]))
      | _ => None
      end
  (* the reader goroutine runs as long as the socket is open - also while its connection is already
     shutting down - and hands every frame it has buffered to the session the connection is attached to *)
  | PacketBegin c =>
      match nnth c (conns st) with
      | Some (mkConn o true (Some s) None) =>
          Some (mkSt (sv st) (listeners st) (nupd c (fun x => mkConn o true (Some s) (Some s)) (conns st)) (sesss st)
                     (emit st [CbPktB c s]))
      | _ => None
      end
  | PacketEnd c =>
      match nnth c (conns st) with
      | Some (mkConn o r ss (Some s)) =>
          Some (mkSt (sv st) (listeners st) (nupd c (fun x => mkConn o r ss None) (conns st)) (sesss st)
                     (emit st [CbPktE c]))
      | _ => None
      end
  | SBegin s =>
      match nnth s (sesss st) with
      | Some (mkSess Open cs w true n) =>
          Some (mkSt (sv st) (listeners st) (conns st) (nupd s (fun x => mkSess Open cs w true (n + 1)) (sesss st)) (emit st [CbSB s]))
      | Some (mkSess Closing cs w true n) =>
          Some (mkSt (sv st) (listeners st) (conns st) (nupd s (fun x => mkSess Closing cs w true (n + 1)) (sesss st)) (emit st [CbSB s]))
      | _ => None
      end
  | SEnd s =>
      match nnth s (sesss st) with
      | Some (mkSess o cs w m n) =>
          if 0 <? n
          then Some (mkSt (sv st) (listeners st) (conns st) (nupd s (fun x => mkSess o cs w m (N.pred n)) (sesss st)) (emit st [CbSE s]))
          else None
      | _ => None
      end
  | Teardown c s =>
      match nnth c (conns st), nnth s (sesss st) with
      | Some (mkConn Open r (Some s') None), Some (mkSess Open cs w m n) =>
          if s' =? s then
            Some (mkSt (sv st) (listeners st)
                       (cancel_conns (remv c cs) (nupd c (fun x => mkConn Open r None None) (conns st)))
                       (nupd s (fun x => mkSess Closing (remv c cs) w m n) (sesss st))
                       (emit st [CbReqS c s; CbSB s; CbSE s]))
          else None
      | _, _ => None
      end
  | ConnFail c =>
      match nnth c (conns st) with
      | Some (mkConn Open r ss b) => Some (mkSt (sv st) (listeners st) (nupd c (set_cst Closing) (conns st)) (sesss st) (trace st))
      | _ => None
      end
  (* the socket is closed; the reader returns from its read - not from a callback it is in *)
  | ReaderExit c =>
      match nnth c (conns st) with
      | Some (mkConn Closing true ss None) =>
          Some (mkSt (sv st) (listeners st) (nupd c (fun x => mkConn Closing false ss None) (conns st)) (sesss st) (trace st))
      | _ => None
      end
  (* reader.wait() has returned: only now the session is told (removeConn), then OnConnClose *)
  | ConnFinish c =>
      match nnth c (conns st) with
      | Some (mkConn Closing false ss b) =>
          Some (mkSt (sv st) (listeners st) (nupd c (fun x => mkConn Closed false ss b) (conns st)) (sesss st)
                     (emit st [CbConnClose c]))
      | _ => None
      end
  | SessFail s =>
      match nnth s (sesss st) with
      | Some (mkSess Open cs w m n) =>
          Some (mkSt (sv st) (listeners st) (cancel_conns cs (conns st))
                     (nupd s (fun x => mkSess Closing cs w m n) (sesss st)) (trace st))
      | _ => None
      end
  (* the session waits for the done channel of each attached connection, then stops its medias
     (removeClient waits for a UDP callback in progress) *)
  | MediaStop s =>
      match nnth s (sesss st) with
      | Some (mkSess Closing cs w true 0) =>
          if forallb (conn_closed (conns st)) cs
          then Some (mkSt (sv st) (listeners st) (conns st) (nupd s (fun x => mkSess Closing cs w false 0) (sesss st)) (trace st))
          else None
      | _ => None
      end
  | WorkerExit s =>
      match nnth s (sesss st) with
      | Some (mkSess Closing cs w false n) =>
          if (0 <? w) && forallb (conn_closed (conns st)) cs
          then Some (mkSt (sv st) (listeners st) (conns st) (nupd s (fun x => mkSess Closing cs (N.pred w) false n) (sesss st)) (trace st))
          else None
      | _ => None
      end
  | SessFinish s =>
      match nnth s (sesss st) with
      | Some (mkSess Closing cs 0 false 0) =>
          if forallb (conn_closed (conns st)) cs
          then Some (mkSt (sv st) (listeners st) (conns st) (nupd s (fun x => mkSess Closed cs 0 false 0) (sesss st))
                          (emit st [CbSessClose s]))
          else None
      | _ => None
      end
  | ServerClose =>
      match sv st with
      | Open => Some (mkSt Closing (listeners st) (map cancel_conn (conns st)) (map cancel_sess (sesss st)) (trace st))
      | _ => None
      end
  | ListenerExit =>
      match sv st with
      | Closing => if 0 <? listeners st
                   then Some (mkSt Closing (N.pred (listeners st)) (conns st) (sesss st) (trace st)) else None
      | _ => None
      end
  | ServerFinish =>
      match sv st with
      | Closing => if listeners st =? 0 then Some (mkSt Closed 0 (conns st) (sesss st) (trace st)) else None
      | _ => None
      end
  end.

Fixpoint exec (st : state) (steps : list stepT) : option state :=
  match steps with
  | [] => Some st
  | s :: t => match step st s with Some st' => exec st' t | None => None end
  end.

(* Server.Close has returned: Server.wg is zero *)
Definition all_closed (st : state) : bool :=
  ost_eqb (sv st) Closed && forallb (fun c => ost_eqb (c_st c) Closed) (conns st)
  && forallb (fun s => ost_eqb (s_st s) Closed) (sesss st).

(* remaining work of the shutdown *)
Definition ost_w (o : ost) : N := match o with Open => 2 | Closing => 1 | Closed => 0 end.
Definition conn_w (c : conn) : N :=
  ost_w (c_st c) + (if c_reader c then 1 else 0) + (match c_busy c with Some _ => 1 | None => 0 end).
Definition sess_w (s : sess) : N := ost_w (s_st s) + s_workers s + (if s_media s then 1 else 0) + s_srun s.
Fixpoint sumN {A} (f : A -> N) (l : list A) : N :=
  match l with [] => 0 | x :: t => f x + sumN f t end.
Definition measure (st : state) : N :=
  ost_w (sv st) + listeners st + sumN conn_w (conns st) + sumN sess_w (sesss st).

(* ---------- the callback automaton: exactly the legal callback words ---------- *)
(* per connection / session: 0 = not yet opened, 1 = open, 2 = closed; ids are allotted in order of opening.
   a_cbusy: per connection, 0 = its reader is not in a packet callback, s + 1 = it is in one of session s.
   a_srun: per session, the number of its other callbacks in progress. *)
Record astate := mkA { a_conns : list N; a_sesss : list N; a_cbusy : list N; a_srun : list N }.

Definition astep (a : astate) (x : cb) : option astate :=
  match x with
  | CbConnOpen c =>
      if c =? nlen (a_conns a) then Some (mkA (a_conns a ++ [1]) (a_sesss a) (a_cbusy a ++ [0]) (a_srun a)) else None
  (* the close notification of a connection: it is open and its reader is in no packet callback *)
  | CbConnClose c =>
      match nnth c (a_conns a), nnth c (a_cbusy a) with
      | Some 1, Some 0 => Some (mkA (nupd c (fun _ => 2) (a_conns a)) (a_sesss a) (a_cbusy a) (a_srun a))
      | _, _ => None
      end
  (* the open notification of a session names the connection that created it. It is delivered by the session's
     own goroutine (ServerSession.run), asynchronously with respect to the creating request: that connection has
     been opened, but it may already have been closed again (ServerConn.Close / Server.Close racing the SETUP);
     C13 orders a session's callbacks against that session's close notification, not against its creator's. *)
  | CbSessOpen s c =>
      match nnth c (a_conns a) with
      | Some _ => if s =? nlen (a_sesss a) then Some (mkA (a_conns a) (a_sesss a ++ [1]) (a_cbusy a) (a_srun a ++ [0])) else None
      | None => None
      end
  (* the close notification of a session: it is open and none of its callbacks is in progress *)
  | CbSessClose s =>
      match nnth s (a_sesss a), nnth s (a_srun a) with
      | Some 1, Some 0 =>
          if forallb (fun b => negb (b =? s + 1)) (a_cbusy a)
          then Some (mkA (a_conns a) (nupd s (fun _ => 2) (a_sesss a)) (a_cbusy a) (a_srun a))
          else None
      | _, _ => None
      end
  | CbReq c => match nnth c (a_conns a) with Some 1 => Some a | _ => None end
  | CbReqS c s =>
      match nnth c (a_conns a), nnth s (a_sesss a) with
      | Some 1, Some 1 => Some a
      | _, _ => None
      end
  | CbPkt s => match nnth s (a_sesss a) with Some 1 => Some a | _ => None end
  | CbPktB c s =>
      match nnth c (a_conns a), nnth s (a_sesss a), nnth c (a_cbusy a) with
      | Some 1, Some 1, Some 0 => Some (mkA (a_conns a) (a_sesss a) (nupd c (fun _ => s + 1) (a_cbusy a)) (a_srun a))
      | _, _, _ => None
      end
  | CbPktE c =>
      match nnth c (a_cbusy a) with
      | Some 0 | None => None
      | Some _ => Some (mkA (a_conns a) (a_sesss a) (nupd c (fun _ => 0) (a_cbusy a)) (a_srun a))
      end
  | CbSB s =>
      match nnth s (a_sesss a) with
      | Some 1 => Some (mkA (a_conns a) (a_sesss a) (a_cbusy a) (nupd s N.succ (a_srun a)))
      | _ => None
      end
  | CbSE s =>
      match nnth s (a_srun a) with
      | Some 0 | None => None
      | Some _ => Some (mkA (a_conns a) (a_sesss a) (a_cbusy a) (nupd s N.pred (a_srun a)))
      end
  end.

Fixpoint arun (a : astate) (w : list cb) : option astate :=
  match w with
  | [] => Some a
  | x :: t => match astep a x with Some a' => arun a' t | None => None end
  end.

Fixpoint afirst_bad (a : astate) (w : list cb) (i : N) : option N :=
  match w with
  | [] => None
  | x :: t => match astep a x with Some a' => afirst_bad a' t (i + 1) | None => Some i end
  end.

Definition a0 : astate := mkA [] [] [] [].

Definition accept (w : list cb) : bool :=
  match arun a0 w with Some _ => true | None => false end.

(* every opened connection and session has been closed *)
Definition abalanced (a : astate) : bool :=
  forallb (fun x => x =? 2) (a_conns a) && forallb (fun x => x =? 2) (a_sesss a).

(* ---------- client ---------- *)
Record client := mkCl { cl_st : ost; cl_reader : bool; cl_workers : N; cl_listeners : N }.
Inductive cstepT := ClClose | ClWorkerExit | ClReaderExit | ClListenerExit | ClFinish.
Definition cstep (c : client) (s : cstepT) : option client :=
  match s, cl_st c with
  | ClClose, Open => Some (mkCl Closing (cl_reader c) (cl_workers c) (cl_listeners c))
  | ClWorkerExit, Closing => if 0 <? cl_workers c then Some (mkCl Closing (cl_reader c) (N.pred (cl_workers c)) (cl_listeners c)) else None
  | ClReaderExit, Closing =>
      (* the socket is closed after the writer has been destroyed: doClose order *)
      if cl_reader c && (cl_workers c =? 0) then Some (mkCl Closing false 0 (cl_listeners c)) else None
  | ClListenerExit, Closing =>
      if (0 <? cl_listeners c) && negb (cl_reader c) && (cl_workers c =? 0)
      then Some (mkCl Closing false 0 (N.pred (cl_listeners c))) else None
  | ClFinish, Closing =>
      if negb (cl_reader c) && (cl_workers c =? 0) && (cl_listeners c =? 0) then Some (mkCl Closed false 0 0) else None
  | _, _ => None
  end.
Definition cl_measure (c : client) : N :=
  ost_w (cl_st c) + (if cl_reader c then 1 else 0) + cl_workers c + cl_listeners c.

(* ================= wire protocol =================
   case 1: final w...      a callback word, w = 1 c | 2 c | 3 s c | 4 s | 5 c | 6 c s | 7 s | 8 c s | 9 c | 10 s | 11 s
                           final = 1: the run ended with Server.Close returned: everything opened must be closed
     answer: 1             legal (and balanced if final)
             0 i           callback i is the first illegal one
             3 k id        final: connection (k = 0) / session (k = 1) id was opened and never closed
   case 2: nlisteners steps...   lifecycle steps (encoded 1..19 with their arguments); answer: for each step 1/0
                           (enabled or not), then measure and all_closed of the last state - used to cross-check the
                           harness's own bookkeeping of which shutdown steps it observed
*)
Fixpoint get_word (fuel : list N) (l : list N) : option (list cb) :=
  match fuel with
  | [] => match l with [] => Some [] | _ => None end
  | _ :: fuel' =>
      match l with
      | [] => Some []
      | 1 :: c :: t => option_map (cons (CbConnOpen c)) (get_word fuel' t)
      | 2 :: c :: t => option_map (cons (CbConnClose c)) (get_word fuel' t)
      | 3 :: s :: c :: t => option_map (cons (CbSessOpen s c)) (get_word fuel' t)
      | 4 :: s :: t => option_map (cons (CbSessClose s)) (get_word fuel' t)
      | 5 :: c :: t => option_map (cons (CbReq c)) (get_word fuel' t)
      | 6 :: c :: s :: t => option_map (cons (CbReqS c s)) (get_word fuel' t)
      | 7 :: s :: t => option_map (cons (CbPkt s)) (get_word fuel' t)
      | 8 :: c :: s :: t => option_map (cons (CbPktB c s)) (get_word fuel' t)
      | 9 :: c :: t => option_map (cons (CbPktE c)) (get_word fuel' t)
      | 10 :: s :: t => option_map (cons (CbSB s)) (get_word fuel' t)
      | 11 :: s :: t => option_map (cons (CbSE s)) (get_word fuel' t)
      | _ => None
      end
  end.

Fixpoint find_open (l : list N) (i : N) : option N :=
  match l with
  | [] => None
  | x :: t => if x =? 2 then find_open t (i + 1) else Some i
  end.

Fixpoint get_steps (fuel : list N) (l : list N) : option (list stepT) :=
  match fuel with
  | [] => match l with [] => Some [] | _ => None end
  | _ :: fuel' =>
      match l with
      | [] => Some []
      | 1 :: t => option_map (cons Accept) (get_steps fuel' t)
      | 2 :: c :: t => option_map (cons (NewSession c)) (get_steps fuel' t)
      | 3 :: c :: s :: t => option_map (cons (Attach c s)) (get_steps fuel' t)
      | 4 :: c :: t => option_map (cons (Request c)) (get_steps fuel' t)
      | 5 :: c :: s :: t => option_map (cons (RequestS c s)) (get_steps fuel' t)
      | 6 :: s :: k :: t => option_map (cons (Play s k)) (get_steps fuel' t)
      | 7 :: s :: t => option_map (cons (Pause s)) (get_steps fuel' t)
      | 8 :: s :: t => option_map (cons (Packet s)) (get_steps fuel' t)
      | 9 :: c :: s :: t => option_map (cons (Teardown c s)) (get_steps fuel' t)
      | 10 :: c :: t => option_map (cons (ConnFail c)) (get_steps fuel' t)
      | 11 :: c :: t => option_map (cons (ReaderExit c)) (get_steps fuel' t)
      | 12 :: c :: t => option_map (cons (ConnFinish c)) (get_steps fuel' t)
      | 13 :: s :: t => option_map (cons (SessFail s)) (get_steps fuel' t)
      | 14 :: s :: t => option_map (cons (MediaStop s)) (get_steps fuel' t)
      | 15 :: s :: t => option_map (cons (WorkerExit s)) (get_steps fuel' t)
      | 16 :: s :: t => option_map (cons (SessFinish s)) (get_steps fuel' t)
      | 17 :: t => option_map (cons ServerClose) (get_steps fuel' t)
      | 18 :: t => option_map (cons ListenerExit) (get_steps fuel' t)
      | 19 :: t => option_map (cons ServerFinish) (get_steps fuel' t)
      | 20 :: c :: t => option_map (cons (PacketBegin c)) (get_steps fuel' t)
      | 21 :: c :: t => option_map (cons (PacketEnd c)) (get_steps fuel' t)
      | 22 :: s :: t => option_map (cons (SBegin s)) (get_steps fuel' t)
      | 23 :: s :: t => option_map (cons (SEnd s)) (get_steps fuel' t)
      | _ => None
      end
  end.

Fixpoint run_steps (st : state) (steps : list stepT) : list N * state :=
  match steps with
  | [] => ([], st)
  | s :: t =>
      match step st s with
      | Some st' => let '(o, fin) := run_steps st' t in (1 :: o, fin)
      | None => let '(o, fin) := run_steps st t in (0 :: o, fin)
      end
  end.

Definition run (cs : list N) : list N :=
  match cs with
  | 1 :: final :: t =>
      match get_word t t with
      | Some w =>
          match afirst_bad a0 w 0 with
          | Some i => [0; i]
          | None =>
              if final =? 0 then [1] else
              match arun a0 w with
              | Some a =>
                  match find_open (a_conns a) 0, find_open (a_sesss a) 0 with
                  | Some c, _ => [3; 0; c]
                  | None, Some s => [3; 1; s]
                  | None, None => [1]
                  end
              | None => bad_case
              end
          end
      | None => bad_case
      end
  | 2 :: nl :: t =>
      match get_steps t t with
      | Some steps =>
          let '(o, fin) := run_steps (init nl) steps in
          o ++ [measure fin; putb (all_closed fin)]
      | None => bad_case
      end
  | _ => bad_case
  end.

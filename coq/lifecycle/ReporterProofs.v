From Coq Require Import List Arith Lia Bool NArith.
Import ListNotations.
From GVG Require Import Skel.
From GV_lifecycle Require Import Reporter.

(* ---------- the tie to the source: the skeletons regenerated from /repo on this run ---------- *)
Lemma skel_reporter_matches :
  skel_recv_close = expected_close /\ skel_send_close = expected_close /\
  skel_recv_run = expected_recv_run /\ skel_send_run = expected_send_run.
Proof. repeat split; reflexivity. Qed.


(* destruct exactly what [step] inspects *)
Ltac step_cases H :=
  repeat match type of H with
  | context [match ?x with _ => _ end] => destruct x eqn:?; try discriminate
  | context [if ?x then _ else _] => destruct x eqn:?; try discriminate
  end.

(* ---------- every step decreases the measure: all schedules are finite ---------- *)
Lemma measure_decreases hold l c c' : step hold l c = Some c' -> measure c' < measure c.
Proof.
  destruct c as [r k t d o tk n fp ui uo]. unfold step, measure; cbn [rp kp term done owner tick ticks firstpkt uin uops].
  intros H. destruct l; step_cases H; inversion H; subst; cbn [rp kp term done owner tick ticks firstpkt uin uops rw kw];
    repeat match goal with |- context [if ?x then _ else _] => destruct x end; lia.
Qed.

Lemma run_length hold ls : forall c c', run hold ls c = Some c' -> length ls + measure c' <= measure c.
Proof.
  induction ls as [|l t IH]; intros c c' H; cbn [run length] in *; [inversion H; lia|].
  destruct (step hold l c) as [c1|] eqn:E; [|discriminate].
  apply measure_decreases in E. apply IH in H. lia.
Qed.

(* ---------- invariant ---------- *)
Lemma inv_init s n m : Inv (init s n m).
Proof. unfold Inv, init; destruct s; cbn; repeat split; intros; try discriminate; try congruence. Qed.

Lemma inv_step l c c' : Inv c -> step false l c = Some c' -> Inv c'.
Proof.
  destruct c as [r k t d o tk n fp ui uo]. unfold Inv, step; cbn [rp kp term done owner tick ticks firstpkt uin uops].
  intros (H1 & H2 & H3 & H4 & H5 & H6 & H7) H.
  destruct l; step_cases H; inversion H; subst; clear H; cbn [rp kp term done owner tick ticks firstpkt uin uops];
    repeat split; intros; try discriminate; try congruence; try tauto; try (intuition congruence).
Qed.

Lemma inv_run ls : forall c c', Inv c -> run false ls c = Some c' -> Inv c'.
Proof.
  induction ls as [|l t IH]; intros c c' Hi H; cbn [run] in H; [inversion H; subst; exact Hi|].
  destruct (step false l c) as [c1|] eqn:E; [|discriminate]. eapply IH; [eapply inv_step; eauto|exact H].
Qed.

(* ---------- no deadlock: a state in which nobody can move is a state after Close has returned ---------- *)
Lemma stuck_is_finished c : Inv c -> stuck false c ->
  kp c = KDone /\ rp c = RDone /\ done c = true /\ owner c = Free /\ uin c = false.
Proof.
  destruct c as [r k t d o tk n fp ui uo]. unfold Inv, stuck; cbn [rp kp term done owner tick ticks firstpkt uin uops].
  intros (H1 & H2 & H3 & H4 & H5 & H6 & H7) S.
  pose proof (S LClose) as SC. pose proof (S LRepTerm) as ST. pose proof (S LRep) as SR. pose proof (S LUser) as SU.
  unfold step in SC, ST, SR, SU; cbn [rp kp term done owner tick ticks firstpkt uin uops] in *.
  destruct k; [discriminate| |].
  - (* Close is waiting: somebody can move *)
    exfalso. destruct d; [discriminate|].
    assert (Ht : t = true) by (apply H5; discriminate). subst t.
    destruct r; try discriminate.
    + (* RLock: the mutex is free, or its owner can leave *)
      destruct o; try discriminate.
      * destruct H1 as [H1 _]. specialize (H1 eq_refl). discriminate.
      * destruct H2 as [H2 _]. specialize (H2 eq_refl). subst ui. discriminate.
      * congruence.
    + destruct H4 as [_ H4]. specialize (H4 eq_refl). discriminate.
  - assert (Hd : d = true) by (apply H6; reflexivity). subst d.
    assert (Hr : r = RDone) by (apply H4; reflexivity). subst r.
    destruct ui; [discriminate|].
    destruct o; repeat split; try reflexivity.
    + destruct H1 as [H1 _]. specialize (H1 eq_refl). discriminate.
    + destruct H2 as [H2 _]. specialize (H2 eq_refl). discriminate.
    + congruence.
Qed.

(* THE THEOREM: for a Receiver or a Sender, any number of ticks, any amount of user activity and ANY schedule:
   the schedule is no longer than the initial measure, and if it cannot be extended then Close has returned, the
   report goroutine has exited and released everything *)
Theorem close_always_returns (sender : bool) (nticks nusers : nat) (ls : list label) (c : cfg) :
  run false ls (init sender nticks nusers) = Some c ->
  length ls <= measure (init sender nticks nusers) /\
  (stuck false c -> kp c = KDone /\ rp c = RDone /\ done c = true /\ owner c = Free /\ uin c = false).
Proof.
  intros H. split; [apply run_length in H; lia|].
  apply stuck_is_finished. eapply inv_run; [apply inv_init|exact H].
Qed.

Lemma stuckb_stuck hold c : stuckb hold c = true -> stuck hold c.
Proof.
  unfold stuckb, labels. cbn [forallb]. rewrite !andb_true_iff. intros (A1 & A2 & A3 & A4 & A5 & A6 & A7 & _) l.
  destruct l;
    match goal with |- step hold ?l c = None =>
      match goal with A : (match step hold l c with None => true | Some _ => false end) = true |- _ =>
        destruct (step hold l c); [discriminate A|reflexivity] end end.
Qed.

(* as long as Close has not returned, some thread can move *)
Theorem close_never_blocks_forever c : Inv c -> kp c <> KDone -> exists l c', step false l c = Some c'.
Proof.
  intros Hi Hk. destruct (stuckb false c) eqn:E.
  - exfalso. apply Hk. apply (stuck_is_finished c Hi). apply stuckb_stuck. exact E.
  - unfold stuckb in E. apply Bool.not_true_iff_false in E.
    assert (X : exists l, In l labels /\ step false l c <> None).
    { clear -E. induction labels as [|a t IH]; [exfalso; apply E; reflexivity|].
      cbn [forallb] in E. destruct (step false a c) eqn:Ea.
      - exists a. split; [now left|congruence].
      - cbn in E. destruct IH as (l & Hl & Hs); [exact E|]. exists l. split; [now right|exact Hs]. }
    destruct X as (l & _ & Hs). destruct (step false l c) as [c'|] eqn:E2; [exists l, c'; exact E2|congruence].
Qed.

(* the variant in which Close takes the mutex and keeps it while waiting (seeded change C13-4): a tick that is
   taken just before Close leaves the report goroutine waiting for the mutex that Close holds - a deadlock *)
Lemma held_mutex_deadlocks : exists c, run true [LTick; LRepWake; LClose] (init false 1 0) = Some c /\
  stuckb true c = true /\ kp c = KWait /\ rp c = RLock /\ owner c = OCloser.
Proof. eexists. split; [reflexivity|]. repeat split. Qed.

(* Proofs about the lifecycle model: an invariant of every reachable state, the callback trace is a word of
   the automaton, and the shutdown cascade always terminates. *)
From Coq Require Import ZifyBool ZifyNat ZifyN.
From GVL Require Import NList Wire.
From GV_lifecycle Require Import Model.
Open Scope N_scope.

(* ---------- list helpers ---------- *)
Lemma nnth_nupd_same {A} i (f : A -> A) l x : nnth i l = Some x -> nnth i (nupd i f l) = Some (f x).
Proof.
  revert i; induction l as [|y t IH]; intros i H; cbn [nnth nupd] in *; [discriminate|].
  destruct (N.eqb_spec i 0) as [Hi|Hi]; cbn [nnth].
  - subst i. inversion H; subst. reflexivity.
  - destruct (N.eqb_spec i 0); [lia|]. now apply IH.
Qed.
Lemma nnth_nupd_other {A} i j (f : A -> A) l : i <> j -> nnth j (nupd i f l) = nnth j l.
Proof.
  revert i j; induction l as [|y t IH]; intros i j H; cbn [nnth nupd]; [reflexivity|].
  destruct (N.eqb_spec i 0) as [Hi|Hi]; cbn [nnth].
  - subst i. destruct (N.eqb_spec j 0); [lia|reflexivity].
  - destruct (N.eqb_spec j 0); [reflexivity|]. apply IH. lia.
Qed.
Lemma nlen_nupd {A} i (f : A -> A) l : nlen (nupd i f l) = nlen l.
Proof.
  revert i; induction l as [|y t IH]; intros i; cbn [nupd nlen]; [reflexivity|].
  destruct (i =? 0); cbn [nlen]; [reflexivity|]. now rewrite IH.
Qed.
Lemma nnth_app_l {A} (l l2 : list A) i x : nnth i l = Some x -> nnth i (l ++ l2) = Some x.
Proof.
  revert i; induction l as [|y t IH]; intros i H; cbn [nnth app] in *; [discriminate|].
  destruct (i =? 0); [assumption|]. now apply IH.
Qed.
Lemma nnth_lt_Some {A} (l : list A) i x : nnth i l = Some x -> i < nlen l.
Proof.
  destruct (N.ltb_spec i (nlen l)) as [H|H]; [auto|]. rewrite (nnth_ge l i H). discriminate.
Qed.
Lemma nnth_app_r {A} (l l2 : list A) i : nlen l <= i -> nnth i (l ++ l2) = nnth (i - nlen l) l2.
Proof.
  revert i; induction l as [|y t IH]; intros i H; cbn [nnth app nlen] in *; [now rewrite N.sub_0_r|].
  destruct (N.eqb_spec i 0); [lia|]. rewrite IH by lia. f_equal. lia.
Qed.
Lemma sumN_nupd {A} (f : A -> N) i g l x :
  nnth i l = Some x -> sumN f (nupd i g l) + f x = sumN f l + f (g x).
Proof.
  revert i; induction l as [|y t IH]; intros i H; cbn [nnth nupd sumN] in *; [discriminate|].
  destruct (N.eqb_spec i 0) as [Hi|Hi]; cbn [sumN].
  - subst i. inversion H; subst. lia.
  - specialize (IH _ H). lia.
Qed.
Lemma sumN_nupd_lt {A} (f : A -> N) i g l x :
  nnth i l = Some x -> f (g x) < f x -> sumN f (nupd i g l) < sumN f l.
Proof. intros H Hlt. pose proof (sumN_nupd f i g l x H). lia. Qed.
Lemma sumN_app {A} (f : A -> N) a b : sumN f (a ++ b) = sumN f a + sumN f b.
Proof. induction a as [|x t IH]; cbn [app sumN]; [reflexivity|]. lia. Qed.
Lemma nupd_none {A} i (f : A -> A) l : nnth i l = None -> nupd i f l = l.
Proof.
  revert i; induction l as [|y t IH]; intros i H; cbn [nnth nupd] in *; [reflexivity|].
  destruct (i =? 0); [discriminate|]. now rewrite IH.
Qed.

(* ---------- the automaton state that mirrors a lifecycle state ---------- *)
Definition code (o : ost) : N := match o with Closed => 2 | _ => 1 end.
Definition mirror (st : state) : astate :=
  mkA (map (fun c => code (c_st c)) (conns st)) (map (fun s => code (s_st s)) (sesss st)).

Lemma nnth_map {A B} (f : A -> B) l i : nnth i (map f l) = option_map f (nnth i l).
Proof.
  revert i; induction l as [|y t IH]; intros i; cbn [nnth map]; [reflexivity|].
  destruct (i =? 0); [reflexivity|]. apply IH.
Qed.
Lemma map_nupd {A B} (f : A -> B) i g h l :
  (forall x, f (g x) = h (f x)) -> map f (nupd i g l) = nupd i h (map f l).
Proof.
  intros Hc. revert i; induction l as [|y t IH]; intros i; cbn [nupd map]; [reflexivity|].
  destruct (i =? 0); cbn [map]; [now rewrite Hc|]. now rewrite IH.
Qed.
Lemma map_nupd_id {A B} (f : A -> B) i g l :
  (forall x, nnth i l = Some x -> f (g x) = f x) -> map f (nupd i g l) = map f l.
Proof.
  revert i; induction l as [|y t IH]; intros i Hc; cbn [nupd map]; [reflexivity|].
  destruct (N.eqb_spec i 0) as [Hi|Hi]; cbn [map].
  - subst i. rewrite Hc; [reflexivity|reflexivity].
  - rewrite IH; [reflexivity|]. intros x Hx. apply Hc. cbn [nnth]. destruct (N.eqb_spec i 0); [lia|exact Hx].
Qed.

Lemma forallb_map {A B} (f : A -> B) g l : forallb g (map f l) = forallb (fun x => g (f x)) l.
Proof. induction l as [|x t IH]; cbn; [reflexivity|]. now rewrite IH. Qed.

Lemma arun_app a w1 w2 : arun a (w1 ++ w2) = match arun a w1 with Some a' => arun a' w2 | None => None end.
Proof.
  revert a; induction w1 as [|x t IH]; intros a; cbn [app arun]; [reflexivity|].
  destruct (astep a x); [apply IH|reflexivity].
Qed.

Lemma code_cancel_conns ids cs : map (fun c => code (c_st c)) (cancel_conns ids cs) = map (fun c => code (c_st c)) cs.
Proof.
  revert cs; induction ids as [|i t IH]; intros cs; cbn [cancel_conns]; [reflexivity|].
  rewrite IH. apply map_nupd_id. intros x _. unfold cancel_conn. destruct (c_st x) eqn:E; cbn; rewrite ?E; reflexivity.
Qed.

(* the trace of every run is a word of the automaton, and the automaton ends in the mirror of the state *)
Definition traced (st : state) : Prop := arun (mkA [] []) (trace st) = Some (mirror st).

Lemma traced_step st s st' : traced st -> step st s = Some st' -> traced st'.
Proof.
  unfold traced. intros Ht H.
  assert (Hemit : forall x a', astep (mirror st) x = Some a' ->
            arun (mkA [] []) (trace st ++ [x]) = Some a').
  { intros x a' Ha. rewrite arun_app, Ht. cbn [arun]. now rewrite Ha. }
  destruct s; cbn [step] in H.
  - (* Accept *) destruct (sv st) eqn:Es; try discriminate. inversion H; subst. cbn [trace]. unfold emit.
    apply Hemit. cbn [astep mirror a_conns a_sesss]. rewrite nlen_map, N.eqb_refl.
    unfold mirror. cbn [conns sesss]. now rewrite map_app.
  - (* NewSession *) destruct (sv st) eqn:Es; try discriminate.
    destruct (nnth c (conns st)) as [[[| |] r [s0|]]|] eqn:Ec; try discriminate. inversion H; subst. cbn [trace]. unfold emit.
    apply Hemit. cbn [astep mirror a_conns a_sesss]. rewrite nnth_map, Ec. cbn [option_map c_st code].
    rewrite nlen_map, N.eqb_refl. unfold mirror. cbn [conns sesss]. rewrite map_app. f_equal. f_equal.
    symmetry. apply map_nupd_id. intros x Hx. rewrite Ec in Hx. inversion Hx; subst. reflexivity.
  - (* Attach *) destruct (nnth c (conns st)) as [[[| |] r [s0|]]|] eqn:Ec; try discriminate.
    destruct (nnth s (sesss st)) as [[[| |] cs w m]|] eqn:Ess; try discriminate. inversion H; subst. cbn [trace].
    rewrite Ht. f_equal. unfold mirror. cbn [conns sesss]. f_equal.
    + symmetry. apply map_nupd_id. intros x Hx. rewrite Ec in Hx. inversion Hx; subst. reflexivity.
    + symmetry. apply map_nupd_id. intros x Hx. rewrite Ess in Hx. inversion Hx; subst. reflexivity.
  - (* Request *) destruct (nnth c (conns st)) as [[[| |] r ss]|] eqn:Ec; try discriminate. inversion H; subst. cbn [trace]. unfold emit.
    apply Hemit. cbn [astep mirror a_conns]. rewrite nnth_map, Ec. reflexivity.
  - (* RequestS *) destruct (nnth c (conns st)) as [[[| |] r [s0|]]|] eqn:Ec; try discriminate.
    destruct (nnth s (sesss st)) as [[[| |] cs w m]|] eqn:Ess; try discriminate.
    destruct (s0 =? s); [|discriminate]. inversion H; subst. cbn [trace]. unfold emit.
    apply Hemit. cbn [astep mirror a_conns a_sesss]. rewrite !nnth_map, Ec, Ess. reflexivity.
  - (* Play *) destruct (nnth s (sesss st)) as [[[| |] cs w m]|] eqn:Ess; try discriminate. inversion H; subst. cbn [trace].
    rewrite Ht. f_equal. unfold mirror. cbn [conns sesss]. f_equal.
    symmetry. apply map_nupd_id. intros x Hx. rewrite Ess in Hx. inversion Hx; subst. reflexivity.
  - (* Pause *) destruct (nnth s (sesss st)) as [[[| |] cs w m]|] eqn:Ess; try discriminate. inversion H; subst. cbn [trace].
    rewrite Ht. f_equal. unfold mirror. cbn [conns sesss]. f_equal.
    symmetry. apply map_nupd_id. intros x Hx. rewrite Ess in Hx. inversion Hx; subst. reflexivity.
  - (* Packet *) destruct (nnth s (sesss st)) as [[[| |] cs w [|]]|] eqn:Ess; try discriminate; inversion H; subst; cbn [trace]; unfold emit;
      apply Hemit; cbn [astep mirror a_sesss]; rewrite nnth_map, Ess; reflexivity.
  - (* Teardown *) destruct (nnth c (conns st)) as [[[| |] r [s0|]]|] eqn:Ec; try discriminate.
    destruct (nnth s (sesss st)) as [[[| |] cs w m]|] eqn:Ess; try discriminate.
    destruct (s0 =? s); [|discriminate]. inversion H; subst. cbn [trace]. unfold emit.
    rewrite arun_app, Ht. cbn [arun astep mirror a_conns a_sesss]. rewrite !nnth_map, Ec, Ess. cbn [option_map c_st s_st code].
    f_equal. unfold mirror. cbn [conns sesss]. f_equal.
    + rewrite code_cancel_conns. symmetry. apply map_nupd_id. intros x Hx. rewrite Ec in Hx. inversion Hx; subst. reflexivity.
    + symmetry. apply map_nupd_id. intros x Hx. rewrite Ess in Hx. inversion Hx; subst. reflexivity.
  - (* ConnFail *) destruct (nnth c (conns st)) as [[[| |] r ss]|] eqn:Ec; try discriminate. inversion H; subst. cbn [trace].
    rewrite Ht. f_equal. unfold mirror. cbn [conns sesss]. f_equal.
    symmetry. apply map_nupd_id. intros x Hx. rewrite Ec in Hx. inversion Hx; subst. reflexivity.
  - (* ReaderExit *) destruct (nnth c (conns st)) as [[[| |] [|] ss]|] eqn:Ec; try discriminate. inversion H; subst. cbn [trace].
    rewrite Ht. f_equal. unfold mirror. cbn [conns sesss]. f_equal.
    symmetry. apply map_nupd_id. intros x Hx. rewrite Ec in Hx. inversion Hx; subst. reflexivity.
  - (* ConnFinish *) destruct (nnth c (conns st)) as [[[| |] [|] ss]|] eqn:Ec; try discriminate. inversion H; subst. cbn [trace]. unfold emit.
    apply Hemit. cbn [astep mirror a_conns a_sesss]. rewrite nnth_map, Ec. cbn [option_map c_st code].
    unfold mirror. cbn [conns sesss]. f_equal. f_equal.
    symmetry. apply map_nupd. intros x. reflexivity.
  - (* SessFail *) destruct (nnth s (sesss st)) as [[[| |] cs w m]|] eqn:Ess; try discriminate. inversion H; subst. cbn [trace].
    rewrite Ht. f_equal. unfold mirror. cbn [conns sesss]. f_equal.
    + now rewrite code_cancel_conns.
    + symmetry. apply map_nupd_id. intros x Hx. rewrite Ess in Hx. inversion Hx; subst. reflexivity.
  - (* MediaStop *) destruct (nnth s (sesss st)) as [[[| |] cs w [|]]|] eqn:Ess; try discriminate.
    destruct (forallb (conn_closed (conns st)) cs); [|discriminate]. inversion H; subst. cbn [trace].
    rewrite Ht. f_equal. unfold mirror. cbn [conns sesss]. f_equal.
    symmetry. apply map_nupd_id. intros x Hx. rewrite Ess in Hx. inversion Hx; subst. reflexivity.
  - (* WorkerExit *) destruct (nnth s (sesss st)) as [[[| |] cs w [|]]|] eqn:Ess; try discriminate.
    destruct ((0 <? w) && forallb (conn_closed (conns st)) cs); [|discriminate]. inversion H; subst. cbn [trace].
    rewrite Ht. f_equal. unfold mirror. cbn [conns sesss]. f_equal.
    symmetry. apply map_nupd_id. intros x Hx. rewrite Ess in Hx. inversion Hx; subst. reflexivity.
  - (* SessFinish *) destruct (nnth s (sesss st)) as [[[| |] cs [|w] [|]]|] eqn:Ess; try discriminate.
    destruct (forallb (conn_closed (conns st)) cs); [|discriminate]. inversion H; subst. cbn [trace]. unfold emit.
    apply Hemit. cbn [astep mirror a_conns a_sesss]. rewrite nnth_map, Ess. cbn [option_map s_st code].
    unfold mirror. cbn [conns sesss]. f_equal. f_equal.
    symmetry. apply map_nupd. intros x. reflexivity.
  - (* ServerClose *) destruct (sv st); try discriminate. inversion H; subst. cbn [trace].
    rewrite Ht. f_equal. unfold mirror. cbn [conns sesss]. rewrite !map_map. f_equal.
    + apply map_ext. intros x. unfold cancel_conn. destruct (c_st x) eqn:E; cbn; rewrite ?E; reflexivity.
    + apply map_ext. intros x. unfold cancel_sess. destruct (s_st x) eqn:E; cbn; rewrite ?E; reflexivity.
  - (* ListenerExit *) destruct (sv st); try discriminate. destruct (0 <? listeners st); [|discriminate].
    inversion H; subst. exact Ht.
  - (* ServerFinish *) destruct (sv st); try discriminate. destruct (listeners st =? 0); [|discriminate].
    inversion H; subst. exact Ht.
Qed.

Lemma traced_exec steps : forall st st', traced st -> exec st steps = Some st' -> traced st'.
Proof.
  induction steps as [|s t IH]; intros st st' Ht H; cbn [exec] in H; [inversion H; now subst|].
  destruct (step st s) as [st1|] eqn:E; [|discriminate]. eapply IH; [|exact H]. eapply traced_step; eauto.
Qed.

Lemma traced_init n : traced (init n).
Proof. reflexivity. Qed.

(* every handler-callback sequence the model can produce is a legal word *)
Theorem trace_accepted n steps st : exec (init n) steps = Some st -> accept (trace st) = true.
Proof.
  intros H. pose proof (traced_exec _ _ _ (traced_init n) H) as Ht. unfold accept. unfold traced in Ht. now rewrite Ht.
Qed.

(* when Server.Close has returned, every opened connection and session has had its close callback *)
Theorem balanced_when_all_closed n steps st :
  exec (init n) steps = Some st -> all_closed st = true ->
  exists a, arun (mkA [] []) (trace st) = Some a /\ abalanced a = true.
Proof.
  intros H Hc. pose proof (traced_exec _ _ _ (traced_init n) H) as Ht. exists (mirror st). split; [exact Ht|].
  unfold all_closed in Hc. apply andb_prop in Hc. destruct Hc as (Hc & Hs). apply andb_prop in Hc. destruct Hc as (_ & Hc).
  unfold abalanced, mirror. cbn [a_conns a_sesss]. rewrite !forallb_map. apply andb_true_intro. split.
  - rewrite forallb_forall in *. intros x Hx. specialize (Hc x Hx). destruct (c_st x); cbn in *; congruence.
  - rewrite forallb_forall in *. intros x Hx. specialize (Hs x Hx). destruct (s_st x); cbn in *; congruence.
Qed.

(* ---------- properties of the automaton's language ---------- *)
Definition about_sess (s : N) (x : cb) : bool :=
  match x with
  | CbSessOpen s' _ | CbSessClose s' | CbReqS _ s' | CbPkt s' => s' =? s
  | _ => false
  end.
Definition about_conn (c : N) (x : cb) : bool :=
  match x with
  | CbConnOpen c' | CbConnClose c' | CbReq c' | CbReqS c' _ => c' =? c
  | CbSessOpen _ c' => c' =? c
  | _ => false
  end.

Lemma astep_sess_closed_stays a x a' s :
  astep a x = Some a' -> nnth s (a_sesss a) = Some 2 -> nnth s (a_sesss a') = Some 2 /\ about_sess s x = false.
Proof.
  intros H Hs. destruct x; cbn [astep about_sess] in *.
  - destruct (c =? nlen (a_conns a)); inversion H; subst. auto.
  - destruct (nnth c (a_conns a)) as [[|[p|p|]]|]; try discriminate. inversion H; subst. auto.
  - destruct (nnth c (a_conns a)) as [[|[p|p|]]|]; try discriminate.
    destruct (N.eqb_spec s0 (nlen (a_sesss a))) as [->|]; [|discriminate]. inversion H; subst. cbn [a_sesss]. split.
    + now apply nnth_app_l.
    + apply nnth_lt_Some in Hs. destruct (N.eqb_spec (nlen (a_sesss a)) s); [lia|reflexivity].
  - destruct (nnth s0 (a_sesss a)) as [[|[p|p|]]|] eqn:E; try discriminate. inversion H; subst. cbn [a_sesss].
    destruct (N.eqb_spec s0 s) as [->|Hne]; [congruence|]. split; [now rewrite nnth_nupd_other|reflexivity].
  - destruct (nnth c (a_conns a)) as [[|[p|p|]]|]; try discriminate. inversion H; subst. auto.
  - destruct (nnth c (a_conns a)) as [[|[p|p|]]|]; try discriminate.
    destruct (nnth s0 (a_sesss a)) as [[|[p|p|]]|] eqn:E; try discriminate. inversion H; subst.
    split; [auto|]. destruct (N.eqb_spec s0 s) as [->|]; [congruence|reflexivity].
  - destruct (nnth s0 (a_sesss a)) as [[|[p|p|]]|] eqn:E; try discriminate. inversion H; subst.
    split; [auto|]. destruct (N.eqb_spec s0 s) as [->|]; [congruence|reflexivity].
Qed.

Lemma arun_sess_closed_stays w : forall a a' s,
  arun a w = Some a' -> nnth s (a_sesss a) = Some 2 -> forallb (fun x => negb (about_sess s x)) w = true.
Proof.
  induction w as [|x t IH]; intros a a' s H Hs; cbn [arun forallb] in *; [reflexivity|].
  destruct (astep a x) as [a1|] eqn:E; [|discriminate].
  destruct (astep_sess_closed_stays _ _ _ _ E Hs) as (Hs1 & Hx). rewrite Hx. cbn. eapply IH; eauto.
Qed.

(* once a session's close notification has been delivered, no further callback mentions that session *)
Theorem accept_no_callback_after_session_close w1 s w2 :
  accept (w1 ++ CbSessClose s :: w2) = true -> forallb (fun x => negb (about_sess s x)) w2 = true.
Proof.
  unfold accept. rewrite arun_app. destruct (arun (mkA [] []) w1) as [a1|] eqn:E1; [|discriminate].
  cbn [arun]. destruct (astep a1 (CbSessClose s)) as [a2|] eqn:E2; [|discriminate].
  destruct (arun a2 w2) as [a3|] eqn:E3; [|discriminate]. intros _.
  eapply arun_sess_closed_stays; [exact E3|].
  cbn [astep] in E2. destruct (nnth s (a_sesss a1)) as [[|[p|p|]]|] eqn:E; try discriminate.
  inversion E2; subst. cbn [a_sesss]. now apply nnth_nupd_same with (f := fun _ => 2) in E.
Qed.

Lemma astep_conn_closed_stays a x a' c :
  astep a x = Some a' -> nnth c (a_conns a) = Some 2 -> nnth c (a_conns a') = Some 2 /\ about_conn c x = false.
Proof.
  intros H Hs. destruct x; cbn [astep about_conn] in *.
  - destruct (N.eqb_spec c0 (nlen (a_conns a))) as [->|]; [|discriminate]. inversion H; subst. cbn [a_conns]. split.
    + now apply nnth_app_l.
    + apply nnth_lt_Some in Hs. destruct (N.eqb_spec (nlen (a_conns a)) c); [lia|reflexivity].
  - destruct (nnth c0 (a_conns a)) as [[|[p|p|]]|] eqn:E; try discriminate. inversion H; subst. cbn [a_conns].
    destruct (N.eqb_spec c0 c) as [->|Hne]; [congruence|]. split; [now rewrite nnth_nupd_other|reflexivity].
  - destruct (nnth c0 (a_conns a)) as [[|[p|p|]]|] eqn:E; try discriminate.
    destruct (s =? nlen (a_sesss a)); [|discriminate]. inversion H; subst. split; [auto|].
    destruct (N.eqb_spec c0 c) as [->|]; [congruence|reflexivity].
  - destruct (nnth s (a_sesss a)) as [[|[p|p|]]|]; try discriminate. inversion H; subst. auto.
  - destruct (nnth c0 (a_conns a)) as [[|[p|p|]]|] eqn:E; try discriminate. inversion H; subst.
    split; [auto|]. destruct (N.eqb_spec c0 c) as [->|]; [congruence|reflexivity].
  - destruct (nnth c0 (a_conns a)) as [[|[p|p|]]|] eqn:E; try discriminate.
    destruct (nnth s (a_sesss a)) as [[|[p|p|]]|]; try discriminate. inversion H; subst.
    split; [auto|]. destruct (N.eqb_spec c0 c) as [->|]; [congruence|reflexivity].
  - destruct (nnth s (a_sesss a)) as [[|[p|p|]]|]; try discriminate. inversion H; subst. auto.
Qed.

Lemma arun_conn_closed_stays w : forall a a' c,
  arun a w = Some a' -> nnth c (a_conns a) = Some 2 -> forallb (fun x => negb (about_conn c x)) w = true.
Proof.
  induction w as [|x t IH]; intros a a' c H Hs; cbn [arun forallb] in *; [reflexivity|].
  destruct (astep a x) as [a1|] eqn:E; [|discriminate].
  destruct (astep_conn_closed_stays _ _ _ _ E Hs) as (Hs1 & Hx). rewrite Hx. cbn. eapply IH; eauto.
Qed.

(* ... and likewise for a connection: nothing after its close, in particular no second close *)
Theorem accept_no_callback_after_conn_close w1 c w2 :
  accept (w1 ++ CbConnClose c :: w2) = true -> forallb (fun x => negb (about_conn c x)) w2 = true.
Proof.
  unfold accept. rewrite arun_app. destruct (arun (mkA [] []) w1) as [a1|] eqn:E1; [|discriminate].
  cbn [arun]. destruct (astep a1 (CbConnClose c)) as [a2|] eqn:E2; [|discriminate].
  destruct (arun a2 w2) as [a3|] eqn:E3; [|discriminate]. intros _.
  eapply arun_conn_closed_stays; [exact E3|].
  cbn [astep] in E2. destruct (nnth c (a_conns a1)) as [[|[p|p|]]|] eqn:E; try discriminate.
  inversion E2; subst. cbn [a_conns]. now apply nnth_nupd_same with (f := fun _ => 2) in E.
Qed.

(* ---------- the shutdown cascade ---------- *)
(* once the root context is cancelled nothing is left in (or can re-enter) its serving loop *)
Definition quiesced (st : state) : Prop :=
  sv st <> Open -> Forall (fun c => c_st c <> Open) (conns st) /\ Forall (fun s => s_st s <> Open) (sesss st).

Lemma Forall_nupd {A} (P : A -> Prop) i f l : Forall P l -> (forall x, P x -> P (f x)) -> Forall P (nupd i f l).
Proof.
  intros H Hf. revert i; induction H as [|x t Hx Ht IH]; intros i; cbn [nupd]; [constructor|].
  destruct (i =? 0); constructor; auto.
Qed.
Lemma Forall_nnth {A} (P : A -> Prop) l i x : Forall P l -> nnth i l = Some x -> P x.
Proof.
  revert i; induction l as [|y t IH]; intros i HF H; cbn [nnth] in H; [discriminate|].
  inversion HF; subst. destruct (i =? 0); [inversion H; now subst|eauto].
Qed.
Lemma cancel_conns_nonopen ids cs :
  Forall (fun c => c_st c <> Open) cs -> Forall (fun c => c_st c <> Open) (cancel_conns ids cs).
Proof.
  revert cs; induction ids as [|i t IH]; intros cs H; cbn [cancel_conns]; [exact H|].
  apply IH. apply Forall_nupd; [exact H|]. intros x Hx. unfold cancel_conn. destruct (c_st x) eqn:E; cbn; congruence.
Qed.

Lemma quiesced_step st s st' : quiesced st -> step st s = Some st' -> quiesced st'.
Proof.
  unfold quiesced. intros Hq H.
  destruct s; cbn [step] in H.
  - destruct (sv st) eqn:Es; try discriminate. inversion H; subst. cbn [sv]. congruence.
  - destruct (sv st) eqn:Es; try discriminate.
    destruct (nnth c (conns st)) as [[[| |] r [s0|]]|]; try discriminate. inversion H; subst. cbn [sv]. congruence.
  - destruct (nnth c (conns st)) as [[[| |] r [s0|]]|] eqn:Ec; try discriminate.
    destruct (nnth s (sesss st)) as [[[| |] cs w m]|]; try discriminate. inversion H; subst. cbn [sv conns sesss].
    intros Hs. destruct (Hq Hs) as (Hc & _). exfalso. apply (Forall_nnth _ _ _ _ Hc Ec). reflexivity.
  - destruct (nnth c (conns st)) as [[[| |] r ss]|]; try discriminate. inversion H; subst. exact Hq.
  - destruct (nnth c (conns st)) as [[[| |] r [s0|]]|]; try discriminate.
    destruct (nnth s (sesss st)) as [[[| |] cs w m]|]; try discriminate.
    destruct (s0 =? s); [|discriminate]. inversion H; subst. exact Hq.
  - destruct (nnth s (sesss st)) as [[[| |] cs w m]|] eqn:Ess; try discriminate. inversion H; subst. cbn [sv conns sesss].
    intros Hs. destruct (Hq Hs) as (_ & Hss). exfalso. apply (Forall_nnth _ _ _ _ Hss Ess). reflexivity.
  - destruct (nnth s (sesss st)) as [[[| |] cs w m]|] eqn:Ess; try discriminate. inversion H; subst. cbn [sv conns sesss].
    intros Hs. destruct (Hq Hs) as (_ & Hss). exfalso. apply (Forall_nnth _ _ _ _ Hss Ess). reflexivity.
  - destruct (nnth s (sesss st)) as [[[| |] cs w [|]]|]; try discriminate; inversion H; subst; exact Hq.
  - destruct (nnth c (conns st)) as [[[| |] r [s0|]]|] eqn:Ec; try discriminate.
    destruct (nnth s (sesss st)) as [[[| |] cs w m]|]; try discriminate.
    destruct (s0 =? s); [|discriminate]. inversion H; subst. cbn [sv conns sesss].
    intros Hs. destruct (Hq Hs) as (Hc & _). exfalso. apply (Forall_nnth _ _ _ _ Hc Ec). reflexivity.
  - destruct (nnth c (conns st)) as [[[| |] r ss]|] eqn:Ec; try discriminate. inversion H; subst. cbn [sv conns sesss].
    intros Hs. destruct (Hq Hs) as (Hc & _). exfalso. apply (Forall_nnth _ _ _ _ Hc Ec). reflexivity.
  - destruct (nnth c (conns st)) as [[[| |] [|] ss]|]; try discriminate. inversion H; subst. cbn [sv conns sesss].
    intros Hs. destruct (Hq Hs) as (Hc & Hss). split; [|exact Hss]. apply Forall_nupd; [exact Hc|]. cbn. discriminate.
  - destruct (nnth c (conns st)) as [[[| |] [|] ss]|]; try discriminate. inversion H; subst. cbn [sv conns sesss].
    intros Hs. destruct (Hq Hs) as (Hc & Hss). split; [|exact Hss]. apply Forall_nupd; [exact Hc|]. cbn. discriminate.
  - destruct (nnth s (sesss st)) as [[[| |] cs w m]|] eqn:Ess; try discriminate. inversion H; subst. cbn [sv conns sesss].
    intros Hs. destruct (Hq Hs) as (_ & Hss). exfalso. apply (Forall_nnth _ _ _ _ Hss Ess). reflexivity.
  - destruct (nnth s (sesss st)) as [[[| |] cs w [|]]|]; try discriminate.
    destruct (forallb (conn_closed (conns st)) cs); [|discriminate]. inversion H; subst. cbn [sv conns sesss].
    intros Hs. destruct (Hq Hs) as (Hc & Hss). split; [exact Hc|]. apply Forall_nupd; [exact Hss|]. cbn. discriminate.
  - destruct (nnth s (sesss st)) as [[[| |] cs w [|]]|]; try discriminate.
    destruct ((0 <? w) && forallb (conn_closed (conns st)) cs); [|discriminate]. inversion H; subst. cbn [sv conns sesss].
    intros Hs. destruct (Hq Hs) as (Hc & Hss). split; [exact Hc|]. apply Forall_nupd; [exact Hss|]. cbn. discriminate.
  - destruct (nnth s (sesss st)) as [[[| |] cs [|w] [|]]|]; try discriminate.
    destruct (forallb (conn_closed (conns st)) cs); [|discriminate]. inversion H; subst. cbn [sv conns sesss].
    intros Hs. destruct (Hq Hs) as (Hc & Hss). split; [exact Hc|]. apply Forall_nupd; [exact Hss|]. cbn. discriminate.
  - destruct (sv st); try discriminate. inversion H; subst. cbn [sv conns sesss]. intros _. split.
    + apply Forall_forall. intros x Hx. apply in_map_iff in Hx. destruct Hx as (y & <- & _).
      unfold cancel_conn. destruct (c_st y) eqn:E; cbn; congruence.
    + apply Forall_forall. intros x Hx. apply in_map_iff in Hx. destruct Hx as (y & <- & _).
      unfold cancel_sess. destruct (s_st y) eqn:E; cbn; congruence.
  - destruct (sv st) eqn:Es; try discriminate. destruct (0 <? listeners st); [|discriminate].
    inversion H; subst. cbn [sv conns sesss]. intros _. apply Hq. congruence.
  - destruct (sv st) eqn:Es; try discriminate. destruct (listeners st =? 0); [|discriminate].
    inversion H; subst. cbn [sv conns sesss]. intros _. apply Hq. congruence.
Qed.

Lemma quiesced_exec steps : forall st st', quiesced st -> exec st steps = Some st' -> quiesced st'.
Proof.
  induction steps as [|s t IH]; intros st st' Hq H; cbn [exec] in H; [inversion H; now subst|].
  destruct (step st s) as [st1|] eqn:E; [|discriminate]. eapply IH; [|exact H]. eapply quiesced_step; eauto.
Qed.
Lemma quiesced_init n : quiesced (init n).
Proof. unfold quiesced. cbn. intros H. congruence. Qed.

(* the canonical next step of the cascade *)
Fixpoint find_conn (p : conn -> bool) (l : list conn) (i : N) : option (N * conn) :=
  match l with [] => None | x :: t => if p x then Some (i, x) else find_conn p t (i + 1) end.
Fixpoint find_sess (p : sess -> bool) (l : list sess) (i : N) : option (N * sess) :=
  match l with [] => None | x :: t => if p x then Some (i, x) else find_sess p t (i + 1) end.

Definition next_fin (st : state) : option stepT :=
  match find_conn (fun c => ost_eqb (c_st c) Closing) (conns st) 0 with
  | Some (c, x) => Some (if c_reader x then ReaderExit c else ConnFinish c)
  | None =>
      match find_sess (fun s => ost_eqb (s_st s) Closing) (sesss st) 0 with
      | Some (s, x) => Some (if s_media x then MediaStop s else if 0 <? s_workers x then WorkerExit s else SessFinish s)
      | None =>
          match sv st with
          | Closing => Some (if 0 <? listeners st then ListenerExit else ServerFinish)
          | _ => None
          end
      end
  end.

Definition is_fin (s : stepT) : Prop :=
  match s with
  | ReaderExit _ | ConnFinish _ | MediaStop _ | WorkerExit _ | SessFinish _ | ListenerExit | ServerFinish => True
  | _ => False
  end.

Lemma find_conn_spec p l i0 i x :
  find_conn p l i0 = Some (i, x) -> i0 <= i /\ nnth (i - i0) l = Some x /\ p x = true.
Proof.
  revert i0; induction l as [|y t IH]; intros i0 H; cbn [find_conn] in H; [discriminate|].
  destruct (p y) eqn:E.
  - inversion H; subst. split; [lia|]. rewrite N.sub_diag. cbn. auto.
  - destruct (IH _ H) as (H1 & H2 & H3). split; [lia|]. split; [|exact H3].
    cbn [nnth]. destruct (N.eqb_spec (i - i0) 0); [lia|]. replace (N.pred (i - i0)) with (i - (i0 + 1)) by lia. exact H2.
Qed.
Lemma find_conn_none p l i0 : find_conn p l i0 = None -> Forall (fun x => p x = false) l.
Proof.
  revert i0; induction l as [|y t IH]; intros i0 H; cbn [find_conn] in H; [constructor|].
  destruct (p y) eqn:E; [discriminate|]. constructor; eauto.
Qed.
Lemma find_sess_spec p l i0 i x :
  find_sess p l i0 = Some (i, x) -> i0 <= i /\ nnth (i - i0) l = Some x /\ p x = true.
Proof.
  revert i0; induction l as [|y t IH]; intros i0 H; cbn [find_sess] in H; [discriminate|].
  destruct (p y) eqn:E.
  - inversion H; subst. split; [lia|]. rewrite N.sub_diag. cbn. auto.
  - destruct (IH _ H) as (H1 & H2 & H3). split; [lia|]. split; [|exact H3].
    cbn [nnth]. destruct (N.eqb_spec (i - i0) 0); [lia|]. replace (N.pred (i - i0)) with (i - (i0 + 1)) by lia. exact H2.
Qed.
Lemma find_sess_none p l i0 : find_sess p l i0 = None -> Forall (fun x => p x = false) l.
Proof.
  revert i0; induction l as [|y t IH]; intros i0 H; cbn [find_sess] in H; [constructor|].
  destruct (p y) eqn:E; [discriminate|]. constructor; eauto.
Qed.

Lemma all_conns_closed_forallb cs ids :
  Forall (fun c => c_st c = Closed) cs -> forallb (conn_closed cs) ids = true.
Proof.
  intros H. apply forallb_forall. intros i _. unfold conn_closed.
  destruct (nnth i cs) as [c|] eqn:E; [|reflexivity]. rewrite (Forall_nnth _ _ _ _ H E). reflexivity.
Qed.

(* no deadlock: while something is still running after the cancellation, a finishing step is enabled,
   and it strictly reduces the remaining work *)
Theorem close_progress st :
  quiesced st -> sv st <> Open -> all_closed st = false ->
  exists s st', next_fin st = Some s /\ is_fin s /\ step st s = Some st' /\ measure st' < measure st.
Proof.
  intros Hq Hs Hnc. destruct (Hq Hs) as (Hco & Hso). unfold next_fin.
  destruct (find_conn (fun c => ost_eqb (c_st c) Closing) (conns st) 0) as [[c x]|] eqn:Ec.
  - destruct (find_conn_spec _ _ _ _ _ Ec) as (_ & Hn & Hp). rewrite N.sub_0_r in Hn.
    destruct x as [o r ss]. cbn [c_st c_reader] in *. destruct o; try discriminate. destruct r.
    + eexists; eexists. split; [reflexivity|]. split; [exact I|]. cbn [step]. rewrite Hn. split; [reflexivity|].
      unfold measure. cbn [sv listeners conns sesss].
      pose proof (sumN_nupd_lt conn_w c (fun _ => mkConn Closing false ss) _ _ Hn) as Hm.
      assert (Hd : conn_w ((fun _ => mkConn Closing false ss) (mkConn Closing true ss)) < conn_w (mkConn Closing true ss)) by (unfold conn_w, ost_w; cbn [c_st c_reader]; lia).
      specialize (Hm Hd). lia.
    + eexists; eexists. split; [reflexivity|]. split; [exact I|]. cbn [step]. rewrite Hn. split; [reflexivity|].
      unfold measure. cbn [sv listeners conns sesss].
      pose proof (sumN_nupd_lt conn_w c (fun _ => mkConn Closed false ss) _ _ Hn) as Hm.
      assert (Hd : conn_w ((fun _ => mkConn Closed false ss) (mkConn Closing false ss)) < conn_w (mkConn Closing false ss)) by (unfold conn_w, ost_w; cbn [c_st c_reader]; lia).
      specialize (Hm Hd). lia.
  - assert (Hcc : Forall (fun c => c_st c = Closed) (conns st)).
    { apply find_conn_none in Ec. rewrite Forall_forall in *. intros x Hx. specialize (Ec x Hx). specialize (Hco x Hx).
      cbv beta in *. destruct (c_st x); cbn in *; congruence. }
    destruct (find_sess (fun s => ost_eqb (s_st s) Closing) (sesss st) 0) as [[s x]|] eqn:Ess.
    + destruct (find_sess_spec _ _ _ _ _ Ess) as (_ & Hn & Hp). rewrite N.sub_0_r in Hn.
      destruct x as [o cs w m]. cbn [s_st s_media s_workers] in *. destruct o; try discriminate.
      pose proof (all_conns_closed_forallb _ cs Hcc) as Hf.
      destruct m.
      * eexists; eexists. split; [reflexivity|]. split; [exact I|]. cbn [step]. rewrite Hn, Hf. split; [reflexivity|].
        unfold measure. cbn [sv listeners conns sesss].
        pose proof (sumN_nupd_lt sess_w s (fun _ => mkSess Closing cs w false) _ _ Hn) as Hm.
        assert (Hd : sess_w ((fun _ => mkSess Closing cs w false) (mkSess Closing cs w true)) < sess_w (mkSess Closing cs w true)) by (unfold sess_w, ost_w; cbn [s_st s_workers s_media]; lia).
        specialize (Hm Hd). lia.
      * destruct (N.ltb_spec 0 w).
        -- eexists; eexists. split; [reflexivity|]. split; [exact I|]. cbn [step]. rewrite Hn, Hf.
           destruct (N.ltb_spec 0 w); [|lia]. cbn [andb]. split; [reflexivity|].
           unfold measure. cbn [sv listeners conns sesss].
           pose proof (sumN_nupd_lt sess_w s (fun _ => mkSess Closing cs (N.pred w) false) _ _ Hn) as Hm.
           assert (Hd : sess_w ((fun _ => mkSess Closing cs (N.pred w) false) (mkSess Closing cs w false)) < sess_w (mkSess Closing cs w false)) by (unfold sess_w, ost_w; cbn [s_st s_workers s_media]; lia).
           specialize (Hm Hd). lia.
        -- assert (w = 0) by lia. subst w.
           eexists; eexists. split; [reflexivity|]. split; [exact I|]. cbn [step]. rewrite Hn, Hf. split; [reflexivity|].
           unfold measure. cbn [sv listeners conns sesss].
           pose proof (sumN_nupd_lt sess_w s (fun _ => mkSess Closed cs 0 false) _ _ Hn) as Hm.
           assert (Hd : sess_w ((fun _ => mkSess Closed cs 0 false) (mkSess Closing cs 0 false)) < sess_w (mkSess Closing cs 0 false)) by (unfold sess_w, ost_w; cbn [s_st s_workers s_media]; lia).
           specialize (Hm Hd). lia.
    + assert (Hsc : Forall (fun s => s_st s = Closed) (sesss st)).
      { apply find_sess_none in Ess. rewrite Forall_forall in *. intros x Hx. specialize (Ess x Hx). specialize (Hso x Hx).
        cbv beta in *. destruct (s_st x); cbn in *; congruence. }
      destruct (sv st) eqn:Esv; [congruence| |].
      * destruct (N.ltb_spec 0 (listeners st)).
        -- eexists; eexists. split; [reflexivity|]. split; [exact I|]. cbn [step]. rewrite Esv.
           destruct (N.ltb_spec 0 (listeners st)); [|lia]. split; [reflexivity|].
           unfold measure. cbn [sv listeners conns sesss]. rewrite Esv. cbn [ost_w]. lia.
        -- eexists; eexists. split; [reflexivity|]. split; [exact I|]. cbn [step]. rewrite Esv.
           destruct (N.eqb_spec (listeners st) 0); [|lia]. split; [reflexivity|].
           unfold measure. cbn [sv listeners conns sesss]. rewrite Esv. cbn [ost_w]. lia.
      * exfalso. unfold all_closed in Hnc. rewrite Esv in Hnc. cbn [ost_eqb andb] in Hnc.
        assert (forallb (fun c => ost_eqb (c_st c) Closed) (conns st) = true).
        { apply forallb_forall. intros x Hx. rewrite Forall_forall in Hcc. rewrite (Hcc x Hx). reflexivity. }
        assert (forallb (fun s => ost_eqb (s_st s) Closed) (sesss st) = true).
        { apply forallb_forall. intros x Hx. rewrite Forall_forall in Hsc. rewrite (Hsc x Hx). reflexivity. }
        rewrite H, H0 in Hnc. discriminate.
Qed.

(* from every state in which the root context has been cancelled the cascade reaches "Server.Close has
   returned" in at most [measure] finishing steps *)
Theorem close_terminates_from : forall n st,
  quiesced st -> sv st <> Open -> measure st <= n ->
  exists steps st', exec st steps = Some st' /\ all_closed st' = true /\ nlen steps <= n /\ Forall is_fin steps.
Proof.
  induction n as [|n IH] using N.peano_ind; intros st Hq Hs Hm.
  - destruct (all_closed st) eqn:E.
    + exists [], st. repeat split; auto. cbn. lia.
    + destruct (close_progress st Hq Hs E) as (s & st' & _ & _ & _ & Hlt). lia.
  - destruct (all_closed st) eqn:E.
    + exists [], st. repeat split; auto. cbn. lia.
    + destruct (close_progress st Hq Hs E) as (s & st1 & _ & Hf & Hst & Hlt).
      assert (Hs1 : sv st1 <> Open).
      { destruct s; try contradiction; cbn [step] in Hst.
        - destruct (nnth c (conns st)) as [[[| |] [|] ss]|]; try discriminate. inversion Hst; subst. exact Hs.
        - destruct (nnth c (conns st)) as [[[| |] [|] ss]|]; try discriminate. inversion Hst; subst. exact Hs.
        - destruct (nnth s (sesss st)) as [[[| |] cs w [|]]|]; try discriminate.
          destruct (forallb (conn_closed (conns st)) cs); [|discriminate]. inversion Hst; subst. exact Hs.
        - destruct (nnth s (sesss st)) as [[[| |] cs w [|]]|]; try discriminate.
          destruct ((0 <? w) && forallb (conn_closed (conns st)) cs); [|discriminate]. inversion Hst; subst. exact Hs.
        - destruct (nnth s (sesss st)) as [[[| |] cs [|w] [|]]|]; try discriminate.
          destruct (forallb (conn_closed (conns st)) cs); [|discriminate]. inversion Hst; subst. exact Hs.
        - destruct (sv st); try discriminate. destruct (0 <? listeners st); [|discriminate]. inversion Hst; subst. cbn. discriminate.
        - destruct (sv st); try discriminate. destruct (listeners st =? 0); [|discriminate]. inversion Hst; subst. cbn. discriminate. }
      destruct (IH st1 (quiesced_step _ _ _ Hq Hst) Hs1 ltac:(lia)) as (steps & st' & He & Hc & Hl & Hfs).
      exists (s :: steps), st'. repeat split; auto.
      * cbn [exec]. now rewrite Hst.
      * cbn [nlen]. lia.
Qed.

(* Server.Close from any reachable state: whatever has happened before (any number of connections and
   sessions, in any state of their handshake, playing, recording, with running workers) *)
Theorem close_terminates n steps st :
  exec (init n) steps = Some st -> sv st <> Closed ->
  exists st0 fin st',
    (sv st = Open -> step st ServerClose = Some st0) /\ (sv st <> Open -> st0 = st) /\
    exec st0 fin = Some st' /\ all_closed st' = true /\ nlen fin <= measure st0 /\ Forall is_fin fin.
Proof.
  intros H Hnc. pose proof (quiesced_exec _ _ _ (quiesced_init n) H) as Hq.
  destruct (sv st) eqn:Es; [| |congruence].
  - destruct (step st ServerClose) as [st0|] eqn:E; [|cbn in E; rewrite Es in E; discriminate].
    assert (Hs0 : sv st0 <> Open) by (cbn in E; rewrite Es in E; inversion E; subst; cbn; discriminate).
    destruct (close_terminates_from (measure st0) st0 (quiesced_step _ _ _ Hq E) Hs0 ltac:(lia)) as (fin & st' & He & Hc & Hl & Hf).
    exists st0, fin, st'. repeat split; auto. intros Hx. congruence.
  - assert (Hs0 : sv st <> Open) by congruence.
    destruct (close_terminates_from (measure st) st Hq Hs0 ltac:(lia)) as (fin & st' & He & Hc & Hl & Hf).
    exists st, fin, st'. repeat split; auto. intros Hx. congruence.
Qed.

(* ---------- client ---------- *)
Theorem client_close_terminates : forall n c,
  cl_st c = Closing -> cl_measure c <= n ->
  exists steps c', fold_left (fun o s => match o with Some x => cstep x s | None => None end) steps (Some c) = Some c' /\
                   cl_st c' = Closed /\ nlen steps <= n.
Proof.
  induction n as [|n IH] using N.peano_ind; intros c Hc Hm.
  - unfold cl_measure in Hm. rewrite Hc in Hm. cbn [ost_w] in Hm. lia.
  - destruct c as [o r w l]. cbn [cl_st] in Hc. subst o.
    assert (Hstep : forall s c1, cstep (mkCl Closing r w l) s = Some c1 -> cl_st c1 = Closing -> cl_measure c1 <= n ->
              exists steps c', fold_left (fun o s => match o with Some x => cstep x s | None => None end) steps
                                 (Some (mkCl Closing r w l)) = Some c' /\ cl_st c' = Closed /\ nlen steps <= N.succ n).
    { intros s c1 Hs Hc1 Hm1. destruct (IH c1 Hc1 Hm1) as (steps & c' & H1 & H2 & H3).
      exists (s :: steps), c'. split; [|split; [exact H2|cbn [nlen]; lia]]. cbn [fold_left]. rewrite Hs. exact H1. }
    unfold cl_measure in Hm. cbn [ost_w cl_st cl_reader cl_workers cl_listeners] in Hm.
    destruct (N.ltb_spec 0 w) as [Hw|Hw].
    + apply (Hstep ClWorkerExit (mkCl Closing r (N.pred w) l)); [|reflexivity|].
      * cbn [cstep cl_st cl_workers cl_reader cl_listeners]. destruct (N.ltb_spec 0 w); [reflexivity|lia].
      * unfold cl_measure. cbn [ost_w cl_st cl_reader cl_workers cl_listeners]. lia.
    + assert (w = 0) by lia. subst w. destruct r.
      * apply (Hstep ClReaderExit (mkCl Closing false 0 l)); [reflexivity|reflexivity|].
        unfold cl_measure. cbn [ost_w cl_st cl_reader cl_workers cl_listeners]. lia.
      * destruct (N.ltb_spec 0 l) as [Hl|Hl].
        -- apply (Hstep ClListenerExit (mkCl Closing false 0 (N.pred l))); [|reflexivity|].
           ++ cbn [cstep cl_st cl_workers cl_reader cl_listeners]. destruct (N.ltb_spec 0 l); [reflexivity|lia].
           ++ unfold cl_measure. cbn [ost_w cl_st cl_reader cl_workers cl_listeners]. lia.
        -- assert (l = 0) by lia. subst l.
           exists [ClFinish], (mkCl Closed false 0 0). split; [reflexivity|]. split; [reflexivity|]. cbn [nlen]. lia.
Qed.

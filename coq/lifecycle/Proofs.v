(* Proofs about the lifecycle model: an invariant of every reachable state, the callback trace is a word of
   the automaton, and the shutdown cascade always terminates. *)
From Coq Require Import ZifyBool ZifyNat ZifyN.
From GVL Require Import NList Wire.
From GV_lifecycle Require Import Model.
Open Scope N_scope.

(* ---------- list helpers ---------- *)
Lemma nnth_nupd_same {A} i (f : A -> A) l x : nnth i l = Some x -> nnth i (nupd i f l) = Some (f x).
Proof.
  revert i; induction l as [|y t IH]; intros i H; cbn [nnth nupd] in *; [discriminate|].
  destruct (N.eqb_spec i 0) as [Hi|Hi]; cbn [nnth].
  - subst i. inversion H; subst. reflexivity.
  - destruct (N.eqb_spec i 0); [lia|]. now apply IH.
Qed.
Lemma nnth_nupd_other {A} i j (f : A -> A) l : i <> j -> nnth j (nupd i f l) = nnth j l.
Proof.
  revert i j; induction l as [|y t IH]; intros i j H; cbn [nnth nupd]; [reflexivity|].
  destruct (N.eqb_spec i 0) as [Hi|Hi]; cbn [nnth].
  - subst i. destruct (N.eqb_spec j 0); [lia|reflexivity].
  - destruct (N.eqb_spec j 0); [reflexivity|]. apply IH. lia.
Qed.
Lemma nlen_nupd {A} i (f : A -> A) l : nlen (nupd i f l) = nlen l.
Proof.
  revert i; induction l as [|y t IH]; intros i; cbn [nupd nlen]; [reflexivity|].
  destruct (i =? 0); cbn [nlen]; [reflexivity|]. now rewrite IH.
Qed.
Lemma nnth_app_l {A} (l l2 : list A) i x : nnth i l = Some x -> nnth i (l ++ l2) = Some x.
Proof.
  revert i; induction l as [|y t IH]; intros i H; cbn [nnth app] in *; [discriminate|].
  destruct (i =? 0); [assumption|]. now apply IH.
Qed.
Lemma nnth_lt_Some {A} (l : list A) i x : nnth i l = Some x -> i < nlen l.
Proof.
  destruct (N.ltb_spec i (nlen l)) as [H|H]; [auto|]. rewrite (nnth_ge l i H). discriminate.
Qed.
Lemma nnth_app_r {A} (l l2 : list A) i : nlen l <= i -> nnth i (l ++ l2) = nnth (i - nlen l) l2.
Proof.
  revert i; induction l as [|y t IH]; intros i H; cbn [nnth app nlen] in *; [now rewrite N.sub_0_r|].
  destruct (N.eqb_spec i 0); [lia|]. rewrite IH by lia. f_equal. lia.
Qed.
Lemma sumN_nupd {A} (f : A -> N) i g l x :
  nnth i l = Some x -> sumN f (nupd i g l) + f x = sumN f l + f (g x).
Proof.
  revert i; induction l as [|y t IH]; intros i H; cbn [nnth nupd sumN] in *; [discriminate|].
  destruct (N.eqb_spec i 0) as [Hi|Hi]; cbn [sumN].
  - subst i. inversion H; subst. lia.
  - specialize (IH _ H). lia.
Qed.
Lemma sumN_nupd_lt {A} (f : A -> N) i g l x :
  nnth i l = Some x -> f (g x) < f x -> sumN f (nupd i g l) < sumN f l.
Proof. intros H Hlt. pose proof (sumN_nupd f i g l x H). lia. Qed.
Lemma sumN_app {A} (f : A -> N) a b : sumN f (a ++ b) = sumN f a + sumN f b.
Proof. induction a as [|x t IH]; cbn [app sumN]; [reflexivity|]. lia. Qed.
Lemma nupd_none {A} i (f : A -> A) l : nnth i l = None -> nupd i f l = l.
Proof.
  revert i; induction l as [|y t IH]; intros i H; cbn [nnth nupd] in *; [reflexivity|].
  destruct (i =? 0); [discriminate|]. now rewrite IH.
Qed.

Lemma nnth_map {A B} (f : A -> B) l i : nnth i (map f l) = option_map f (nnth i l).
Proof.
  revert i; induction l as [|y t IH]; intros i; cbn [nnth map]; [reflexivity|].
  destruct (i =? 0); [reflexivity|]. apply IH.
Qed.
Lemma map_nupd {A B} (f : A -> B) i g h l :
  (forall x, f (g x) = h (f x)) -> map f (nupd i g l) = nupd i h (map f l).
Proof.
  intros Hc. revert i; induction l as [|y t IH]; intros i; cbn [nupd map]; [reflexivity|].
  destruct (i =? 0); cbn [map]; [now rewrite Hc|]. now rewrite IH.
Qed.
Lemma map_nupd_id {A B} (f : A -> B) i g l :
  (forall x, nnth i l = Some x -> f (g x) = f x) -> map f (nupd i g l) = map f l.
Proof.
  revert i; induction l as [|y t IH]; intros i Hc; cbn [nupd map]; [reflexivity|].
  destruct (N.eqb_spec i 0) as [Hi|Hi]; cbn [map].
  - subst i. rewrite Hc; [reflexivity|reflexivity].
  - rewrite IH; [reflexivity|]. intros x Hx. apply Hc. cbn [nnth]. destruct (N.eqb_spec i 0); [lia|exact Hx].
Qed.

Lemma forallb_map {A B} (f : A -> B) g l : forallb g (map f l) = forallb (fun x => g (f x)) l.
Proof. induction l as [|x t IH]; cbn; [reflexivity|]. now rewrite IH. Qed.

Lemma arun_app a w1 w2 : arun a (w1 ++ w2) = match arun a w1 with Some a' => arun a' w2 | None => None end.
Proof.
  revert a; induction w1 as [|x t IH]; intros a; cbn [app arun]; [reflexivity|].
  destruct (astep a x); [apply IH|reflexivity].
Qed.


(* ---------- structural invariant ---------- *)
(* What the ordering of callbacks rests on, as in the code:
     - a reader that is inside a packet callback is still running, and it works for the session its connection
       is attached to, which has that connection in its conns set;
     - a connection is closed (done closed, OnConnClose delivered) only after its reader has returned
       (ServerConn.run: nconn.Close(); reader.wait(); THEN removeConn / closeConn / OnConnClose);
     - a session is closed only after every connection in its conns set is closed (ServerSession.run waits for
       sc.done), and its medias are stopped only when no UDP callback is in progress. *)
Definition cwf (ss : list sess) (c : N) (x : conn) : Prop :=
  (c_busy x <> None -> c_reader x = true) /\ (c_st x = Closed -> c_reader x = false) /\
  (forall s, c_busy x = Some s -> c_sess x = Some s) /\
  (forall s, c_sess x = Some s -> exists y, nnth s ss = Some y /\ In c (s_conns y)).
Definition swf (cs : list conn) (y : sess) : Prop :=
  (s_st y = Closed -> forallb (conn_closed cs) (s_conns y) = true) /\ (s_media y = false -> s_srun y = 0) /\
  Forall (fun i => i < nlen cs) (s_conns y).
Definition linv (st : state) : Prop :=
  (forall c x, nnth c (conns st) = Some x -> cwf (sesss st) c x) /\
  (forall s y, nnth s (sesss st) = Some y -> swf (conns st) y).

Lemma nnth_nupd {A} i j (f : A -> A) l :
  nnth j (nupd i f l) = if j =? i then option_map f (nnth j l) else nnth j l.
Proof.
  destruct (N.eqb_spec j i) as [->|Hne].
  - destruct (nnth i l) as [x|] eqn:E.
    + now rewrite (nnth_nupd_same _ _ _ _ E).
    + now rewrite (nupd_none _ _ _ E), E.
  - apply nnth_nupd_other. congruence.
Qed.

Lemma nnth_snoc {A} (l : list A) x i : nnth i (l ++ [x]) = if i =? nlen l then Some x else nnth i l.
Proof.
  destruct (N.eqb_spec i (nlen l)) as [->|Hne].
  - induction l as [|y t IH]; cbn [nlen app nnth]; [reflexivity|].
    destruct (N.eqb_spec (N.succ (nlen t)) 0); [lia|]. now rewrite N.pred_succ.
  - destruct (N.ltb_spec i (nlen l)).
    + destruct (nnth_lt l i H) as (y & Hy). rewrite Hy. now apply nnth_app_l.
    + rewrite (nnth_ge l i H). rewrite nnth_app_r by lia. cbn [nnth nlen].
      destruct (N.eqb_spec (i - nlen l) 0); [lia|reflexivity].
Qed.

(* monotone change of the connection list: no connection disappears, closed stays closed *)
Definition cmono (cs cs' : list conn) : Prop :=
  nlen cs <= nlen cs' /\ forall i, i < nlen cs -> conn_closed cs i = true -> conn_closed cs' i = true.

Lemma swf_mono cs cs' y : cmono cs cs' -> swf cs y -> swf cs' y.
Proof.
  intros (Hl & Hm) (H1 & H2 & H3). split; [|split; [exact H2|]].
  - intros Hc. specialize (H1 Hc). rewrite forallb_forall in *. rewrite Forall_forall in H3.
    intros i Hi. apply Hm; [now apply H3|now apply H1].
  - eapply Forall_impl; [|exact H3]. intros i Hi. cbv beta in *. lia.
Qed.

Lemma cmono_nupd cs c f :
  (forall x, nnth c cs = Some x -> c_st x = Closed -> c_st (f x) = Closed) -> cmono cs (nupd c f cs).
Proof.
  intros Hf. split; [rewrite nlen_nupd; lia|]. intros i _. unfold conn_closed. rewrite nnth_nupd.
  destruct (N.eqb_spec i c) as [->|]; [|auto].
  destruct (nnth c cs) as [x|] eqn:E; cbn [option_map]; [|auto].
  intros Hx. rewrite (Hf x eq_refl); [reflexivity|]. destruct (c_st x); cbn in Hx; congruence.
Qed.
Lemma cmono_refl cs : cmono cs cs.
Proof. split; [lia|auto]. Qed.
Lemma cmono_trans a b c : cmono a b -> cmono b c -> cmono a c.
Proof. intros (L1 & H1) (L2 & H2). split; [lia|]. intros i Hi H. apply H2; [lia|]. now apply H1. Qed.
Lemma cmono_snoc cs x : cmono cs (cs ++ [x]).
Proof.
  split; [rewrite nlen_app; cbn [nlen]; lia|]. intros i Hi. unfold conn_closed. rewrite nnth_snoc.
  destruct (N.eqb_spec i (nlen cs)); [lia|auto].
Qed.
Lemma cmono_cancel_conns ids cs : cmono cs (cancel_conns ids cs).
Proof.
  revert cs; induction ids as [|i t IH]; intros cs; cbn [cancel_conns]; [apply cmono_refl|].
  eapply cmono_trans; [|apply IH]. apply cmono_nupd. intros x _ Hx. unfold cancel_conn. now rewrite Hx.
Qed.
Lemma cmono_map_cancel cs : cmono cs (map cancel_conn cs).
Proof.
  split; [rewrite nlen_map; lia|]. intros i _. unfold conn_closed. rewrite nnth_map.
  destruct (nnth i cs) as [x|]; cbn [option_map]; [|auto]. unfold cancel_conn. destruct (c_st x) eqn:E; cbn; rewrite ?E; auto.
Qed.

Lemma cwf_nupd ss cs c f :
  (forall i x, nnth i cs = Some x -> cwf ss i x) ->
  (forall x, nnth c cs = Some x -> cwf ss c (f x)) ->
  forall i x', nnth i (nupd c f cs) = Some x' -> cwf ss i x'.
Proof.
  intros H Hf i x'. rewrite nnth_nupd. destruct (N.eqb_spec i c) as [->|]; [|apply H].
  destruct (nnth c cs) as [x|] eqn:E; cbn [option_map]; [|discriminate]. intros Hx. inversion Hx; subst. now apply Hf.
Qed.

Lemma cwf_sess_nupd ss s g c x :
  (forall y, nnth s ss = Some y -> incl (s_conns y) (s_conns (g y))) -> cwf ss c x -> cwf (nupd s g ss) c x.
Proof.
  intros Hg (H1 & H2 & H3 & H4). repeat split; auto. intros s' Hs'. destruct (H4 _ Hs') as (y & Hy & Hin).
  rewrite nnth_nupd. destruct (N.eqb_spec s' s) as [->|]; [|eauto].
  rewrite Hy. cbn [option_map]. eexists; split; [reflexivity|]. now apply (Hg _ Hy).
Qed.

Lemma cwf_sess_snoc ss y c x : cwf ss c x -> cwf (ss ++ [y]) c x.
Proof.
  intros (H1 & H2 & H3 & H4). repeat split; auto. intros s' Hs'. destruct (H4 _ Hs') as (y' & Hy & Hin).
  exists y'. split; [now apply nnth_app_l|exact Hin].
Qed.

Lemma swf_nupd cs ss s g :
  (forall i y, nnth i ss = Some y -> swf cs y) ->
  (forall y, nnth s ss = Some y -> swf cs (g y)) ->
  forall i y', nnth i (nupd s g ss) = Some y' -> swf cs y'.
Proof.
  intros H Hg i y'. rewrite nnth_nupd. destruct (N.eqb_spec i s) as [->|]; [|apply H].
  destruct (nnth s ss) as [y|] eqn:E; cbn [option_map]; [|discriminate]. intros Hy. inversion Hy; subst. now apply Hg.
Qed.

Lemma In_remv x y l : In y l -> y <> x -> In y (remv x l).
Proof.
  induction l as [|z t IH]; cbn [remv In]; [tauto|]. intros [->|Hin] Hne.
  - destruct (N.eqb_spec x y); [congruence|now left].
  - destruct (x =? z); [auto|right; auto].
Qed.
Lemma remv_incl x l : incl (remv x l) l.
Proof.
  induction l as [|z t IH]; cbn [remv]; [apply incl_refl|]. destruct (x =? z).
  - now apply incl_tl.
  - intros a [->|Ha]; [now left|right; now apply IH].
Qed.

Lemma forallb_incl {A} (p : A -> bool) l l' : incl l' l -> forallb p l = true -> forallb p l' = true.
Proof. intros Hi H. rewrite forallb_forall in *. auto. Qed.
Lemma Forall_incl {A} (P : A -> Prop) l l' : incl l' l -> Forall P l -> Forall P l'.
Proof. intros Hi H. rewrite Forall_forall in *. auto. Qed.

Lemma cwf_cancel ss c x : cwf ss c x -> cwf ss c (cancel_conn x).
Proof.
  unfold cancel_conn. destruct (c_st x) eqn:E; auto. intros (H1 & H2 & H3 & H4).
  repeat split; auto. cbn. discriminate.
Qed.
Lemma cwf_cancel_conns ss ids cs :
  (forall i x, nnth i cs = Some x -> cwf ss i x) -> forall i x, nnth i (cancel_conns ids cs) = Some x -> cwf ss i x.
Proof.
  revert cs; induction ids as [|j t IH]; intros cs H; cbn [cancel_conns]; [exact H|].
  apply IH. apply cwf_nupd; [exact H|]. intros x Hx. apply cwf_cancel. eauto.
Qed.

Ltac lsplit := match goal with |- linv _ => split; cbn [conns sesss] end.

(* every step preserves the structural invariant *)
Lemma linv_step st s st' : linv st -> step st s = Some st' -> linv st'.
Proof.
  intros (HC & HS) H.
  assert (HSm : forall cs', cmono (conns st) cs' -> forall s y, nnth s (sesss st) = Some y -> swf cs' y)
    by (intros cs' Hm s0 y Hy; eapply swf_mono; eauto).
  destruct s; cbn [step] in H.
  - (* Accept *) destruct (sv st); try discriminate. inversion H; subst. lsplit.
    + intros c x. rewrite nnth_snoc. destruct (N.eqb_spec c (nlen (conns st))) as [->|]; [|apply HC].
      intros Hx; inversion Hx; subst. repeat split; cbn; try discriminate; auto; congruence.
    + apply HSm. apply cmono_snoc.
  - (* NewSession *) destruct (sv st); try discriminate.
    destruct (nnth c (conns st)) as [[[| |] r [s0|] [b|]]|] eqn:Ec; try discriminate. inversion H; subst. lsplit.
    + apply cwf_nupd.
      * intros i x Hx. apply cwf_sess_snoc. now apply HC.
      * intros x Hx. rewrite Ec in Hx. inversion Hx; subst. destruct (HC _ _ Ec) as (H1 & H2 & H3 & H4).
        repeat split; cbn in *; auto; try discriminate. intros s Hs. inversion Hs; subst.
        exists (mkSess Open [c] 0 false 0). split; [|now left]. rewrite nnth_snoc. now rewrite N.eqb_refl.
    + intros s y. rewrite nnth_snoc. destruct (N.eqb_spec s (nlen (sesss st))) as [->|].
      * intros Hy; inversion Hy; subst. repeat split; cbn; try discriminate; auto.
        constructor; [|constructor]. rewrite nlen_nupd. now apply nnth_lt_Some in Ec.
      * intros Hy. eapply swf_mono; [|apply (HS _ _ Hy)]. apply cmono_nupd. intros x Hx. rewrite Ec in Hx. inversion Hx; subst. cbn. discriminate.
  - (* Attach *) destruct (nnth c (conns st)) as [[[| |] r [s0|] [b|]]|] eqn:Ec; try discriminate.
    destruct (nnth s (sesss st)) as [[[| |] cs w m n]|] eqn:Ess; try discriminate. inversion H; subst. lsplit.
    + apply cwf_nupd.
      * intros i x Hx. apply cwf_sess_nupd; [|now apply HC]. intros y Hy. rewrite Ess in Hy. inversion Hy; subst. cbn. now apply incl_tl, incl_refl.
      * intros x Hx. rewrite Ec in Hx. inversion Hx; subst. repeat split; cbn; auto; try discriminate.
        intros s' Hs'. inversion Hs'; subst. rewrite nnth_nupd, N.eqb_refl, Ess. cbn. eexists; split; [reflexivity|now left].
    + apply swf_nupd.
      * intros i y Hy. eapply swf_mono; [|apply (HS _ _ Hy)]. apply cmono_nupd. intros x Hx. rewrite Ec in Hx. inversion Hx; subst. cbn. discriminate.
      * intros y Hy. rewrite Ess in Hy. inversion Hy; subst. destruct (HS _ _ Ess) as (H1 & H2 & H3). repeat split; cbn in *; auto; try discriminate.
        constructor; [rewrite nlen_nupd; now apply nnth_lt_Some in Ec|]. eapply Forall_impl; [|exact H3]. intros; cbv beta in *. now rewrite nlen_nupd.
  - (* Request *) destruct (nnth c (conns st)) as [[[| |] r ss [b|]]|]; try discriminate; inversion H; subst; split; auto.
  - (* RequestS *) destruct (nnth c (conns st)) as [[[| |] r [s0|] [b|]]|]; try discriminate.
    destruct (nnth s (sesss st)) as [[[| |] cs w m n]|]; try discriminate.
    destruct (s0 =? s); [|discriminate]. inversion H; subst. split; auto.
  - (* Play *) destruct (nnth s (sesss st)) as [[[| |] cs w m n]|] eqn:Ess; try discriminate. inversion H; subst. lsplit.
    + intros c x Hx. apply cwf_sess_nupd; [|now apply HC]. intros y Hy. rewrite Ess in Hy. inversion Hy; subst. apply incl_refl.
    + apply swf_nupd; [exact HS|]. intros y Hy. rewrite Ess in Hy. inversion Hy; subst. destruct (HS _ _ Ess) as (H1 & H2 & H3).
      repeat split; cbn in *; auto; try discriminate.
  - (* Pause *) destruct (nnth s (sesss st)) as [[[| |] cs w m [|n]]|] eqn:Ess; try discriminate. inversion H; subst. lsplit.
    + intros c x Hx. apply cwf_sess_nupd; [|now apply HC]. intros y Hy. rewrite Ess in Hy. inversion Hy; subst. apply incl_refl.
    + apply swf_nupd; [exact HS|]. intros y Hy. rewrite Ess in Hy. inversion Hy; subst. destruct (HS _ _ Ess) as (H1 & H2 & H3).
      repeat split; cbn in *; auto; try discriminate.
  - (* Packet *) destruct (nnth s (sesss st)) as [[[| |] cs w [|] n]|]; try discriminate; inversion H; subst; split; auto.
  - (* PacketBegin *) destruct (nnth c (conns st)) as [[o [|] [s|] [b|]]|] eqn:Ec; try discriminate. inversion H; subst. lsplit.
    + apply cwf_nupd; [exact HC|]. intros x Hx. rewrite Ec in Hx. inversion Hx; subst. destruct (HC _ _ Ec) as (H1 & H2 & H3 & H4).
      repeat split; cbn in *; auto; try (intros; congruence).
    + apply HSm. apply cmono_nupd. intros x Hx. rewrite Ec in Hx. inversion Hx; subst. cbn. auto.
  - (* PacketEnd *) destruct (nnth c (conns st)) as [[o r ss [s|]]|] eqn:Ec; try discriminate. inversion H; subst. lsplit.
    + apply cwf_nupd; [exact HC|]. intros x Hx. rewrite Ec in Hx. inversion Hx; subst. destruct (HC _ _ Ec) as (H1 & H2 & H3 & H4).
      repeat split; cbn in *; auto; try congruence; try discriminate.
    + apply HSm. apply cmono_nupd. intros x Hx. rewrite Ec in Hx. inversion Hx; subst. cbn. auto.
  - (* SBegin *) destruct (nnth s (sesss st)) as [[[| |] cs w [|] n]|] eqn:Ess; try discriminate; inversion H; subst; lsplit;
      try (intros c x Hx; apply cwf_sess_nupd; [|now apply HC]; intros y Hy; rewrite Ess in Hy; inversion Hy; subst; apply incl_refl);
      (apply swf_nupd; [exact HS|]; intros y Hy; rewrite Ess in Hy; inversion Hy; subst; destruct (HS _ _ Ess) as (H1 & H2 & H3);
       repeat split; cbn in *; auto; try discriminate).
  - (* SEnd *) destruct (nnth s (sesss st)) as [[o cs w m n]|] eqn:Ess; try discriminate.
    destruct (N.ltb_spec 0 n); [|discriminate]. inversion H; subst. lsplit.
    + intros c x Hx. apply cwf_sess_nupd; [|now apply HC]. intros y Hy. rewrite Ess in Hy. inversion Hy; subst. apply incl_refl.
    + apply swf_nupd; [exact HS|]. intros y Hy. rewrite Ess in Hy. inversion Hy; subst. destruct (HS _ _ Ess) as (H1 & H2 & H3).
      repeat split; cbn in *; auto. intros Hm. specialize (H2 Hm). lia.
  - (* Teardown *) destruct (nnth c (conns st)) as [[[| |] r [s0|] [b|]]|] eqn:Ec; try discriminate.
    destruct (nnth s (sesss st)) as [[[| |] cs w m n]|] eqn:Ess; try discriminate.
    destruct (N.eqb_spec s0 s) as [->|]; [|discriminate]. inversion H; subst. lsplit.
    + apply cwf_cancel_conns. intros i x. rewrite nnth_nupd. destruct (N.eqb_spec i c) as [->|Hne].
      * rewrite Ec. cbn [option_map]. intros Hx; inversion Hx; subst. repeat split; cbn; auto; try discriminate; congruence.
      * intros Hx. destruct (HC _ _ Hx) as (H1 & H2 & H3 & H4). repeat split; auto. intros s' Hs'.
        destruct (H4 _ Hs') as (y & Hy & Hin). rewrite nnth_nupd. destruct (N.eqb_spec s' s) as [->|]; [|eauto].
        rewrite Ess in Hy. inversion Hy; subst. rewrite Ess. cbn [option_map s_conns] in *. eexists; split; [reflexivity|]. now apply In_remv.
    + apply swf_nupd.
      * intros i y Hy. eapply swf_mono; [|apply (HS _ _ Hy)]. eapply cmono_trans; [|apply cmono_cancel_conns].
        apply cmono_nupd. intros x Hx. rewrite Ec in Hx. inversion Hx; subst. cbn. discriminate.
      * intros y Hy. rewrite Ess in Hy. inversion Hy; subst. destruct (HS _ _ Ess) as (H1 & H2 & H3). repeat split; cbn in *; auto; try discriminate.
        eapply Forall_incl; [apply remv_incl|]. eapply Forall_impl; [|exact H3]. intros i Hi. cbv beta in *.
        destruct (cmono_cancel_conns (remv c cs) (nupd c (fun _ => mkConn Open r None None) (conns st))) as (Hl & _).
        rewrite nlen_nupd in Hl. lia.
  - (* ConnFail *) destruct (nnth c (conns st)) as [[[| |] r ss b]|] eqn:Ec; try discriminate. inversion H; subst. lsplit.
    + apply cwf_nupd; [exact HC|]. intros x Hx. rewrite Ec in Hx. inversion Hx; subst. destruct (HC _ _ Ec) as (H1 & H2 & H3 & H4).
      repeat split; cbn in *; auto; try discriminate.
    + apply HSm. apply cmono_nupd. intros x Hx. rewrite Ec in Hx. inversion Hx; subst. cbn. discriminate.
  - (* ReaderExit *) destruct (nnth c (conns st)) as [[[| |] [|] ss [b|]]|] eqn:Ec; try discriminate. inversion H; subst. lsplit.
    + apply cwf_nupd; [exact HC|]. intros x Hx. rewrite Ec in Hx. inversion Hx; subst. destruct (HC _ _ Ec) as (H1 & H2 & H3 & H4).
      repeat split; cbn in *; auto; try congruence.
    + apply HSm. apply cmono_nupd. intros x Hx. rewrite Ec in Hx. inversion Hx; subst. cbn. discriminate.
  - (* ConnFinish *) destruct (nnth c (conns st)) as [[[| |] [|] ss b]|] eqn:Ec; try discriminate. inversion H; subst. lsplit.
    + apply cwf_nupd; [exact HC|]. intros x Hx. rewrite Ec in Hx. inversion Hx; subst. destruct (HC _ _ Ec) as (H1 & H2 & H3 & H4).
      repeat split; cbn in *; auto.
    + apply HSm. apply cmono_nupd. intros x Hx. rewrite Ec in Hx. inversion Hx; subst. cbn. auto.
  - (* SessFail *) destruct (nnth s (sesss st)) as [[[| |] cs w m n]|] eqn:Ess; try discriminate. inversion H; subst. lsplit.
    + apply cwf_cancel_conns. intros c x Hx. apply cwf_sess_nupd; [|now apply HC]. intros y Hy. rewrite Ess in Hy. inversion Hy; subst. apply incl_refl.
    + apply swf_nupd.
      * intros i y Hy. eapply swf_mono; [apply cmono_cancel_conns|]. now apply (HS _ _ Hy).
      * intros y Hy. rewrite Ess in Hy. inversion Hy; subst. destruct (HS _ _ Ess) as (H1 & H2 & H3). repeat split; cbn in *; auto; try discriminate.
        eapply Forall_impl; [|exact H3]. intros i Hi. cbv beta in *. destruct (cmono_cancel_conns cs (conns st)) as (Hl & _). lia.
  - (* MediaStop *) destruct (nnth s (sesss st)) as [[[| |] cs w [|] [|n]]|] eqn:Ess; try discriminate.
    destruct (forallb (conn_closed (conns st)) cs); [|discriminate]. inversion H; subst. lsplit.
    + intros c x Hx. apply cwf_sess_nupd; [|now apply HC]. intros y Hy. rewrite Ess in Hy. inversion Hy; subst. apply incl_refl.
    + apply swf_nupd; [exact HS|]. intros y Hy. rewrite Ess in Hy. inversion Hy; subst. destruct (HS _ _ Ess) as (H1 & H2 & H3).
      repeat split; cbn in *; auto; try discriminate.
  - (* WorkerExit *) destruct (nnth s (sesss st)) as [[[| |] cs w [|] n]|] eqn:Ess; try discriminate.
    destruct ((0 <? w) && forallb (conn_closed (conns st)) cs); [|discriminate]. inversion H; subst. lsplit.
    + intros c x Hx. apply cwf_sess_nupd; [|now apply HC]. intros y Hy. rewrite Ess in Hy. inversion Hy; subst. apply incl_refl.
    + apply swf_nupd; [exact HS|]. intros y Hy. rewrite Ess in Hy. inversion Hy; subst. destruct (HS _ _ Ess) as (H1 & H2 & H3).
      repeat split; cbn in *; auto; try discriminate.
  - (* SessFinish *) destruct (nnth s (sesss st)) as [[[| |] cs [|w] [|] [|n]]|] eqn:Ess; try discriminate.
    destruct (forallb (conn_closed (conns st)) cs) eqn:Ef; [|discriminate]. inversion H; subst. lsplit.
    + intros c x Hx. apply cwf_sess_nupd; [|now apply HC]. intros y Hy. rewrite Ess in Hy. inversion Hy; subst. apply incl_refl.
    + apply swf_nupd; [exact HS|]. intros y Hy. rewrite Ess in Hy. inversion Hy; subst. destruct (HS _ _ Ess) as (H1 & H2 & H3).
      repeat split; cbn in *; auto.
  - (* ServerClose *) destruct (sv st); try discriminate. inversion H; subst. lsplit.
    + intros c x. rewrite nnth_map. destruct (nnth c (conns st)) as [x0|] eqn:Ec; cbn [option_map]; [|discriminate].
      intros Hx; inversion Hx; subst. apply cwf_cancel. destruct (HC _ _ Ec) as (H1 & H2 & H3 & H4). repeat split; auto.
      intros s' Hs'. destruct (H4 _ Hs') as (y & Hy & Hin). exists (cancel_sess y). rewrite nnth_map, Hy. split; [reflexivity|].
      unfold cancel_sess. destruct (s_st y); exact Hin.
    + intros s y. rewrite nnth_map. destruct (nnth s (sesss st)) as [y0|] eqn:Ess; cbn [option_map]; [|discriminate].
      intros Hy; inversion Hy; subst. eapply swf_mono; [apply cmono_map_cancel|].
      destruct (HS _ _ Ess) as (H1 & H2 & H3). unfold cancel_sess. destruct (s_st y0) eqn:E; repeat split; cbn; auto; try discriminate; congruence.
  - destruct (sv st); try discriminate. destruct (0 <? listeners st); [|discriminate]. inversion H; subst. split; auto.
  - destruct (sv st); try discriminate. destruct (listeners st =? 0); [|discriminate]. inversion H; subst. split; auto.
Qed.

(* ---------- the automaton state that mirrors a lifecycle state ---------- *)
Definition code (o : ost) : N := match o with Closed => 2 | _ => 1 end.
Definition bcode (b : option N) : N := match b with Some s => s + 1 | None => 0 end.
Definition mirror (st : state) : astate :=
  mkA (map (fun c => code (c_st c)) (conns st)) (map (fun s => code (s_st s)) (sesss st))
      (map (fun c => bcode (c_busy c)) (conns st)) (map s_srun (sesss st)).

Lemma code_cancel_conns ids cs : map (fun c => code (c_st c)) (cancel_conns ids cs) = map (fun c => code (c_st c)) cs.
Proof.
  revert cs; induction ids as [|i t IH]; intros cs; cbn [cancel_conns]; [reflexivity|].
  rewrite IH. apply map_nupd_id. intros x _. unfold cancel_conn. destruct (c_st x) eqn:E; cbn; rewrite ?E; reflexivity.
Qed.
Lemma busy_cancel_conns ids cs : map (fun c => bcode (c_busy c)) (cancel_conns ids cs) = map (fun c => bcode (c_busy c)) cs.
Proof.
  revert cs; induction ids as [|i t IH]; intros cs; cbn [cancel_conns]; [reflexivity|].
  rewrite IH. apply map_nupd_id. intros x _. unfold cancel_conn. destruct (c_st x); reflexivity.
Qed.

Lemma nupd_nupd {A} i (f g : A -> A) l : nupd i g (nupd i f l) = nupd i (fun x => g (f x)) l.
Proof.
  revert i; induction l as [|x t IH]; intros i; cbn [nupd]; [reflexivity|].
  destruct (i =? 0) eqn:E; cbn [nupd]; rewrite E; [reflexivity|]. now rewrite IH.
Qed.
Lemma nupd_id {A} i (f : A -> A) l : (forall x, nnth i l = Some x -> f x = x) -> nupd i f l = l.
Proof.
  revert i; induction l as [|x t IH]; intros i H; cbn [nupd]; [reflexivity|].
  destruct (N.eqb_spec i 0) as [Hi|Hi].
  - subst i. now rewrite (H x eq_refl).
  - rewrite IH; [reflexivity|]. intros y Hy. apply H. cbn [nnth]. destruct (N.eqb_spec i 0); [lia|exact Hy].
Qed.

Lemma map_nupd_gen {A B} (f : A -> B) i g h l :
  (forall x, nnth i l = Some x -> f (g x) = h (f x)) -> map f (nupd i g l) = nupd i h (map f l).
Proof.
  revert i; induction l as [|y t IH]; intros i Hc; cbn [nupd map]; [reflexivity|].
  destruct (N.eqb_spec i 0) as [Hi|Hi]; cbn [map].
  - subst i. now rewrite (Hc y eq_refl).
  - rewrite IH; [reflexivity|]. intros x Hx. apply Hc. cbn [nnth]. destruct (N.eqb_spec i 0); [lia|exact Hx].
Qed.

Lemma astep_SE a s n : nnth s (a_srun a) = Some n -> 0 < n ->
  astep a (CbSE s) = Some (mkA (a_conns a) (a_sesss a) (a_cbusy a) (nupd s N.pred (a_srun a))).
Proof. intros H Hn. cbn [astep]. rewrite H. destruct n; [lia|reflexivity]. Qed.

Lemma astep_SB a s : nnth s (a_sesss a) = Some 1 ->
  astep a (CbSB s) = Some (mkA (a_conns a) (a_sesss a) (a_cbusy a) (nupd s N.succ (a_srun a))).
Proof. intros H. cbn [astep]. now rewrite H. Qed.

Lemma astep_ReqS a c s : nnth c (a_conns a) = Some 1 -> nnth s (a_sesss a) = Some 1 -> astep a (CbReqS c s) = Some a.
Proof. intros H1 H2. cbn [astep]. now rewrite H1, H2. Qed.

Lemma arun_SB_SE a s n : nnth s (a_sesss a) = Some 1 -> nnth s (a_srun a) = Some n -> arun a [CbSB s; CbSE s] = Some a.
Proof.
  intros H1 H2. cbn [arun]. rewrite (astep_SB _ _ H1).
  rewrite (astep_SE _ s (N.succ n)); [|cbn [a_srun]; now rewrite (nnth_nupd_same _ _ _ _ H2)|lia].
  cbn [a_conns a_sesss a_cbusy a_srun]. rewrite nupd_nupd. rewrite nupd_id; [now destruct a|]. intros x Hx. lia.
Qed.

Definition traced (st : state) : Prop := arun a0 (trace st) = Some (mirror st).

Lemma nnth_tail_eq {A} (y : A) t i x : nnth i t = Some x -> nnth (i + 1) (y :: t) = Some x.
Proof. intros H. cbn [nnth]. destruct (N.eqb_spec (i + 1) 0); [lia|]. now replace (N.pred (i + 1)) with i by lia. Qed.

Lemma In_nnth {A} (l : list A) x : In x l -> exists i, nnth i l = Some x.
Proof.
  induction l as [|y t IH]; intros H; [contradiction|]. destruct H as [->|H].
  - exists 0. reflexivity.
  - destruct (IH H) as (i & Hi). exists (i + 1). apply nnth_tail_eq. exact Hi.
Qed.

Ltac same E := symmetry; apply map_nupd_id; let x := fresh "x" in let Hx := fresh "Hx" in
               intros x Hx; rewrite E in Hx; inversion Hx; subst; reflexivity.

Lemma traced_step st s st' : linv st -> traced st -> step st s = Some st' -> traced st'.
Proof.
  unfold traced. intros (HC & HS) Ht H.
  assert (Hemit : forall xs a', arun (mirror st) xs = Some a' -> arun a0 (trace st ++ xs) = Some a').
  { intros xs a' Ha. now rewrite arun_app, Ht. }
  destruct s; cbn [step] in H.
  - (* Accept *) destruct (sv st) eqn:Es; try discriminate. inversion H; subst. cbn [trace]. unfold emit.
    apply Hemit. cbn [arun astep mirror a_conns a_sesss a_cbusy a_srun]. rewrite nlen_map, N.eqb_refl.
    unfold mirror. cbn [conns sesss]. now rewrite !map_app.
  - (* NewSession *) destruct (sv st) eqn:Es; try discriminate.
    destruct (nnth c (conns st)) as [[[| |] r [s0|] [b|]]|] eqn:Ec; try discriminate. inversion H; subst. cbn [trace]. unfold emit.
    apply Hemit. cbn [arun astep mirror a_conns a_sesss a_cbusy a_srun]. rewrite nnth_map, Ec. cbn [option_map c_st code].
    rewrite nlen_map, N.eqb_refl. unfold mirror. cbn [conns sesss]. rewrite !map_app. f_equal. f_equal; [same Ec|same Ec].
  - (* Attach *) destruct (nnth c (conns st)) as [[[| |] r [s0|] [b|]]|] eqn:Ec; try discriminate.
    destruct (nnth s (sesss st)) as [[[| |] cs w m n]|] eqn:Ess; try discriminate. inversion H; subst. cbn [trace].
    rewrite Ht. f_equal. unfold mirror. cbn [conns sesss]. f_equal; [same Ec|same Ess|same Ec|same Ess].
  - (* Request *) destruct (nnth c (conns st)) as [[[| |] r ss [b|]]|] eqn:Ec; try discriminate. inversion H; subst. cbn [trace]. unfold emit.
    apply Hemit. cbn [arun astep mirror a_conns]. rewrite nnth_map, Ec. reflexivity.
  - (* RequestS *) destruct (nnth c (conns st)) as [[[| |] r [s0|] [b|]]|] eqn:Ec; try discriminate.
    destruct (nnth s (sesss st)) as [[[| |] cs w m n]|] eqn:Ess; try discriminate.
    destruct (s0 =? s); [|discriminate]. inversion H; subst. cbn [trace]. unfold emit.
    apply Hemit. change [CbReqS c s; CbSB s; CbSE s] with ([CbReqS c s] ++ [CbSB s; CbSE s]). rewrite arun_app.
    cbn [arun]. rewrite astep_ReqS by (unfold mirror; cbn [a_conns a_sesss]; rewrite nnth_map, ?Ec, ?Ess; reflexivity).
    apply (arun_SB_SE _ s n); unfold mirror; cbn [a_sesss a_srun]; rewrite nnth_map, Ess; reflexivity.
  - (* Play *) destruct (nnth s (sesss st)) as [[[| |] cs w m n]|] eqn:Ess; try discriminate. inversion H; subst. cbn [trace].
    rewrite Ht. f_equal. unfold mirror. cbn [conns sesss]. f_equal; [same Ess|same Ess].
  - (* Pause *) destruct (nnth s (sesss st)) as [[[| |] cs w m [|n]]|] eqn:Ess; try discriminate. inversion H; subst. cbn [trace].
    rewrite Ht. f_equal. unfold mirror. cbn [conns sesss]. f_equal; [same Ess|same Ess].
  - (* Packet *) destruct (nnth s (sesss st)) as [[[| |] cs w [|] n]|] eqn:Ess; try discriminate; inversion H; subst; cbn [trace]; unfold emit;
      apply Hemit; cbn [arun astep mirror a_sesss]; rewrite nnth_map, Ess; reflexivity.
  - (* PacketBegin: the session is still open because it waits for this very connection *)
    destruct (nnth c (conns st)) as [[o [|] [s|] [b|]]|] eqn:Ec; try discriminate. inversion H; subst. cbn [trace]. unfold emit.
    destruct (HC _ _ Ec) as (H1 & H2 & H3 & H4). cbn [c_st c_reader c_sess c_busy] in *.
    destruct (H4 s eq_refl) as (y & Hy & Hin). destruct (HS _ _ Hy) as (S1 & S2 & S3).
    assert (Ho : code o = 1) by (destruct o; try reflexivity; specialize (H2 eq_refl); discriminate).
    assert (Hys : code (s_st y) = 1).
    { destruct (s_st y) eqn:Ey; try reflexivity. exfalso. specialize (S1 eq_refl). rewrite forallb_forall in S1.
      specialize (S1 _ Hin). unfold conn_closed in S1. rewrite Ec in S1. cbn [c_st] in S1.
      destruct o; try discriminate; try (specialize (H2 eq_refl); discriminate). }
    apply Hemit. cbn [arun astep mirror a_conns a_sesss a_cbusy a_srun]. rewrite !nnth_map, Ec, Hy. cbn [option_map c_st c_busy bcode].
    rewrite Ho, Hys. f_equal. unfold mirror. cbn [conns sesss]. f_equal; [same Ec|].
    symmetry. apply map_nupd. intros x. reflexivity.
  - (* PacketEnd *) destruct (nnth c (conns st)) as [[o r ss [s|]]|] eqn:Ec; try discriminate. inversion H; subst. cbn [trace]. unfold emit.
    apply Hemit. cbn [arun astep mirror a_cbusy]. rewrite nnth_map, Ec. cbn [option_map c_busy bcode].
    destruct (s + 1) eqn:E1; [lia|]. f_equal. unfold mirror. cbn [conns sesss]. f_equal; [same Ec|].
    symmetry. apply map_nupd. intros x. reflexivity.
  - (* SBegin *)
    assert (Hgo : forall o cs w n, nnth s (sesss st) = Some (mkSess o cs w true n) -> code o = 1 ->
      arun a0 ((trace st) ++ [CbSB s]) =
      Some (mirror (mkSt (sv st) (listeners st) (conns st) (nupd s (fun _ => mkSess o cs w true (n + 1)) (sesss st)) (trace st ++ [CbSB s])))).
    { intros o cs w n Ess Ho. apply Hemit. cbn [arun astep mirror a_sesss]. rewrite nnth_map, Ess. cbn [option_map s_st]. rewrite Ho.
      f_equal. unfold mirror. cbn [conns sesss]. f_equal; [same Ess|].
      symmetry. rewrite (map_nupd_gen s_srun s (fun _ => mkSess o cs w true (n + 1)) N.succ); [reflexivity|].
      intros x Hx. rewrite Ess in Hx. inversion Hx; subst. cbn. lia. }
    destruct (nnth s (sesss st)) as [[[| |] cs w [|] n]|] eqn:Ess; try discriminate; inversion H; subst; cbn [trace]; unfold emit;
      apply (Hgo _ _ _ _ eq_refl); reflexivity.
  - (* SEnd *) destruct (nnth s (sesss st)) as [[o cs w m n]|] eqn:Ess; try discriminate.
    destruct (N.ltb_spec 0 n); [|discriminate]. inversion H; subst. cbn [trace]. unfold emit.
    apply Hemit. cbn [arun]. rewrite (astep_SE _ s n); [|unfold mirror; cbn [a_srun]; now rewrite nnth_map, Ess|assumption].
    f_equal. unfold mirror. cbn [conns sesss a_conns a_sesss a_cbusy a_srun]. f_equal; [same Ess|].
    symmetry. apply map_nupd_gen. intros x Hx. rewrite Ess in Hx. inversion Hx; subst. reflexivity.
  - (* Teardown *) destruct (nnth c (conns st)) as [[[| |] r [s0|] [b|]]|] eqn:Ec; try discriminate.
    destruct (nnth s (sesss st)) as [[[| |] cs w m n]|] eqn:Ess; try discriminate.
    destruct (s0 =? s); [|discriminate]. inversion H; subst. cbn [trace]. unfold emit.
    assert (Hm : mirror (mkSt (sv st) (listeners st) (cancel_conns (remv c cs) (nupd c (fun _ => mkConn Open r None None) (conns st)))
                   (nupd s (fun _ => mkSess Closing (remv c cs) w m n) (sesss st)) (trace st ++ [CbReqS c s; CbSB s; CbSE s])) = mirror st).
    { unfold mirror. cbn [conns sesss]. rewrite code_cancel_conns, busy_cancel_conns. f_equal.
      - apply map_nupd_id. intros x Hx. rewrite Ec in Hx. inversion Hx; subst. reflexivity.
      - apply map_nupd_id. intros x Hx. rewrite Ess in Hx. inversion Hx; subst. reflexivity.
      - apply map_nupd_id. intros x Hx. rewrite Ec in Hx. inversion Hx; subst. reflexivity.
      - apply map_nupd_id. intros x Hx. rewrite Ess in Hx. inversion Hx; subst. reflexivity. }
    rewrite Hm. apply Hemit. change [CbReqS c s; CbSB s; CbSE s] with ([CbReqS c s] ++ [CbSB s; CbSE s]). rewrite arun_app.
    cbn [arun]. rewrite astep_ReqS by (unfold mirror; cbn [a_conns a_sesss]; rewrite nnth_map, ?Ec, ?Ess; reflexivity).
    apply (arun_SB_SE _ s n); unfold mirror; cbn [a_sesss a_srun]; rewrite nnth_map, Ess; reflexivity.
  - (* ConnFail *) destruct (nnth c (conns st)) as [[[| |] r ss b]|] eqn:Ec; try discriminate. inversion H; subst. cbn [trace].
    rewrite Ht. f_equal. unfold mirror. cbn [conns sesss]. f_equal; [same Ec|same Ec].
  - (* ReaderExit *) destruct (nnth c (conns st)) as [[[| |] [|] ss [b|]]|] eqn:Ec; try discriminate. inversion H; subst. cbn [trace].
    rewrite Ht. f_equal. unfold mirror. cbn [conns sesss]. f_equal; [same Ec|same Ec].
  - (* ConnFinish: the reader has been waited for, so it is in no callback *)
    destruct (nnth c (conns st)) as [[[| |] [|] ss b]|] eqn:Ec; try discriminate. inversion H; subst. cbn [trace]. unfold emit.
    assert (Hb : b = None).
    { destruct (HC _ _ Ec) as (H1 & _). cbn [c_reader c_busy] in H1. destruct b; [|reflexivity]. discriminate H1. discriminate. }
    subst b.
    apply Hemit. cbn [arun astep mirror a_conns a_sesss a_cbusy a_srun]. rewrite !nnth_map, Ec. cbn [option_map c_st c_busy code bcode].
    f_equal. unfold mirror. cbn [conns sesss]. f_equal; [|same Ec].
    symmetry. apply map_nupd. intros x. reflexivity.
  - (* SessFail *) destruct (nnth s (sesss st)) as [[[| |] cs w m n]|] eqn:Ess; try discriminate. inversion H; subst. cbn [trace].
    rewrite Ht. f_equal. unfold mirror. cbn [conns sesss]. rewrite code_cancel_conns, busy_cancel_conns. f_equal; [same Ess|same Ess].
  - (* MediaStop *) destruct (nnth s (sesss st)) as [[[| |] cs w [|] [|n]]|] eqn:Ess; try discriminate.
    destruct (forallb (conn_closed (conns st)) cs); [|discriminate]. inversion H; subst. cbn [trace].
    rewrite Ht. f_equal. unfold mirror. cbn [conns sesss]. f_equal; [same Ess|same Ess].
  - (* WorkerExit *) destruct (nnth s (sesss st)) as [[[| |] cs w [|] n]|] eqn:Ess; try discriminate.
    destruct ((0 <? w) && forallb (conn_closed (conns st)) cs); [|discriminate]. inversion H; subst. cbn [trace].
    rewrite Ht. f_equal. unfold mirror. cbn [conns sesss]. f_equal; [same Ess|same Ess].
  - (* SessFinish: every attached connection is closed, hence no reader is inside a callback of this session *)
    destruct (nnth s (sesss st)) as [[[| |] cs [|w] [|] [|n]]|] eqn:Ess; try discriminate.
    destruct (forallb (conn_closed (conns st)) cs) eqn:Ef; [|discriminate]. inversion H; subst. cbn [trace]. unfold emit.
    apply Hemit. cbn [arun astep mirror a_conns a_sesss a_cbusy a_srun]. rewrite !nnth_map, Ess. cbn [option_map s_st s_srun code].
    assert (Hnb : forallb (fun b => negb (b =? s + 1)) (map (fun c => bcode (c_busy c)) (conns st)) = true).
    { rewrite forallb_map. apply forallb_forall. intros x Hx. destruct (In_nnth _ _ Hx) as (c & Hc).
      destruct (c_busy x) as [s'|] eqn:Eb; cbn [bcode]; [|destruct (N.eqb_spec 0 (s + 1)); [lia|reflexivity]].
      destruct (N.eqb_spec (s' + 1) (s + 1)) as [Heq|]; [|reflexivity]. assert (s' = s) by lia. subst s'. exfalso.
      destruct (HC _ _ Hc) as (H1 & H2 & H3 & H4). pose proof (H3 _ Eb) as Hs. destruct (H4 _ Hs) as (y & Hy & Hin).
      rewrite Ess in Hy. inversion Hy; subst. cbn [s_conns] in Hin. rewrite forallb_forall in Ef. specialize (Ef _ Hin).
      unfold conn_closed in Ef. rewrite Hc in Ef. assert (c_st x = Closed) by (destruct (c_st x); cbn in Ef; congruence).
      specialize (H2 H0). rewrite H1 in H2; [discriminate|congruence]. }
    rewrite Hnb. f_equal. unfold mirror. cbn [conns sesss]. f_equal; [|same Ess].
    symmetry. apply map_nupd. intros x. reflexivity.
  - (* ServerClose *) destruct (sv st); try discriminate. inversion H; subst. cbn [trace].
    rewrite Ht. f_equal. unfold mirror. cbn [conns sesss]. rewrite !map_map. f_equal.
    + apply map_ext. intros x. unfold cancel_conn. destruct (c_st x) eqn:E; cbn; rewrite ?E; reflexivity.
    + apply map_ext. intros x. unfold cancel_sess. destruct (s_st x) eqn:E; cbn; rewrite ?E; reflexivity.
    + apply map_ext. intros x. unfold cancel_conn. destruct (c_st x); reflexivity.
    + apply map_ext. intros x. unfold cancel_sess. destruct (s_st x); reflexivity.
  - (* ListenerExit *) destruct (sv st); try discriminate. destruct (0 <? listeners st); [|discriminate].
    inversion H; subst. exact Ht.
  - (* ServerFinish *) destruct (sv st); try discriminate. destruct (listeners st =? 0); [|discriminate].
    inversion H; subst. exact Ht.
Qed.

Lemma traced_exec steps : forall st st', linv st -> traced st -> exec st steps = Some st' -> linv st' /\ traced st'.
Proof.
  induction steps as [|s t IH]; intros st st' Hl Ht H; cbn [exec] in H; [inversion H; subst; auto|].
  destruct (step st s) as [st1|] eqn:E; [|discriminate].
  eapply IH; [| |exact H]; [eapply linv_step; eauto|eapply traced_step; eauto].
Qed.

Lemma linv_init n : linv (init n).
Proof. split; cbn; intros; discriminate. Qed.
Lemma traced_init n : traced (init n).
Proof. reflexivity. Qed.

(* every handler-callback sequence the model can produce is a legal word *)
Theorem trace_accepted n steps st : exec (init n) steps = Some st -> accept (trace st) = true.
Proof.
  intros H. destruct (traced_exec _ _ _ (linv_init n) (traced_init n) H) as (_ & Ht). unfold accept. unfold traced in Ht. now rewrite Ht.
Qed.

(* when Server.Close has returned, every opened connection and session has had its close callback *)
Theorem balanced_when_all_closed n steps st :
  exec (init n) steps = Some st -> all_closed st = true ->
  exists a, arun a0 (trace st) = Some a /\ abalanced a = true.
Proof.
  intros H Hc. destruct (traced_exec _ _ _ (linv_init n) (traced_init n) H) as (_ & Ht). exists (mirror st). split; [exact Ht|].
  unfold all_closed in Hc. apply andb_prop in Hc. destruct Hc as (Hc & Hs). apply andb_prop in Hc. destruct Hc as (_ & Hc).
  unfold abalanced, mirror. cbn [a_conns a_sesss]. rewrite !forallb_map. apply andb_true_intro. split.
  - rewrite forallb_forall in *. intros x Hx. specialize (Hc x Hx). destruct (c_st x); cbn in *; congruence.
  - rewrite forallb_forall in *. intros x Hx. specialize (Hs x Hx). destruct (s_st x); cbn in *; congruence.
Qed.

(* ---------- properties of the automaton's language ---------- *)
Definition about_sess (s : N) (x : cb) : bool :=
  match x with
  | CbSessOpen s' _ | CbSessClose s' | CbReqS _ s' | CbPkt s' | CbPktB _ s' | CbSB s' | CbSE s' => s' =? s
  | _ => false
  end.
Definition about_conn (c : N) (x : cb) : bool :=
  match x with
  | CbConnOpen c' | CbConnClose c' | CbReq c' | CbReqS c' _ | CbPktB c' _ | CbPktE c' => c' =? c
  (* CbSessOpen s c' names c' as the creator of s but is a callback of the SESSION, delivered by the session's
     goroutine; it may follow the close notification of c' (see astep) and is not "about" the connection *)
  | _ => false
  end.

(* what the automaton's counters mean: the callbacks begun and not yet returned *)
Definition busyv (a : astate) (c : N) : N := match nnth c (a_cbusy a) with Some v => v | None => 0 end.
Definition srunv (a : astate) (s : N) : N := match nnth s (a_srun a) with Some v => v | None => 0 end.
(* after the word w: 0 if the reader of c is in no packet callback, s + 1 if it is in one of session s *)
Definition pend_conn (c : N) (v : N) (x : cb) : N :=
  match x with
  | CbPktB c' s => if c' =? c then s + 1 else v
  | CbPktE c' => if c' =? c then 0 else v
  | _ => v
  end.
(* the number of other callbacks of session s begun and not yet returned *)
Definition pend_sess (s : N) (v : N) (x : cb) : N :=
  match x with
  | CbSB s' => if s' =? s then N.succ v else v
  | CbSE s' => if s' =? s then N.pred v else v
  | _ => v
  end.

Lemma nnth_nupd_default (l : list N) i j f :
  match nnth j (nupd i f l) with Some v => v | None => 0 end =
  if j =? i then match nnth j l with Some v => f v | None => 0 end else match nnth j l with Some v => v | None => 0 end.
Proof. rewrite nnth_nupd. destruct (j =? i); [|reflexivity]. destruct (nnth j l); reflexivity. Qed.
Lemma nnth_snoc_default (l : list N) j : 
  match nnth j (l ++ [0]) with Some v => v | None => 0 end = match nnth j l with Some v => v | None => 0 end.
Proof.
  rewrite nnth_snoc. destruct (N.eqb_spec j (nlen l)) as [->|]; [|reflexivity]. now rewrite (nnth_ge l (nlen l)) by lia.
Qed.

Lemma nnth_In {A} (l : list A) : forall i x, nnth i l = Some x -> In x l.
Proof.
  induction l as [|y t IH]; intros i x H; cbn [nnth] in H; [discriminate|].
  destruct (i =? 0); [inversion H; now left|right; eauto].
Qed.

(* the counter lists of the automaton are as long as its status lists *)
Definition alen (a : astate) : Prop := nlen (a_srun a) = nlen (a_sesss a) /\ nlen (a_cbusy a) = nlen (a_conns a).
Lemma alen_a0 : alen a0.
Proof. split; reflexivity. Qed.
Lemma alen_step a x a' : alen a -> astep a x = Some a' -> alen a'.
Proof.
  intros (H1 & H2) H. unfold alen. destruct x; cbn [astep] in H;
    repeat match type of H with
    | (match ?e with _ => _ end) = Some _ => destruct e eqn:?; try discriminate
    | (if ?e then _ else _) = Some _ => destruct e eqn:?; try discriminate
    end; inversion H; subst; cbn [a_conns a_sesss a_cbusy a_srun]; rewrite ?nlen_nupd, ?nlen_app; cbn; split; lia.
Qed.

Lemma astep_pend a x a' : alen a -> astep a x = Some a' ->
  (forall c, busyv a' c = pend_conn c (busyv a c) x) /\ (forall s, srunv a' s = pend_sess s (srunv a s) x).
Proof.
  intros (Hl1 & Hl2) H. unfold busyv, srunv. destruct x; cbn [astep pend_conn pend_sess] in *.
  - destruct (c =? nlen (a_conns a)); inversion H; subst. cbn [a_cbusy a_srun]. split; intros; [apply nnth_snoc_default|reflexivity].
  - destruct (nnth c (a_conns a)) as [[|[p|p|]]|]; try discriminate. destruct (nnth c (a_cbusy a)) as [[|p]|]; try discriminate. inversion H; subst. auto.
  - destruct (nnth c (a_conns a)) as [v|]; try discriminate.
    destruct (s =? nlen (a_sesss a)); inversion H; subst. cbn [a_cbusy a_srun]. split; intros; [reflexivity|apply nnth_snoc_default].
  - destruct (nnth s (a_sesss a)) as [[|[p|p|]]|]; try discriminate. destruct (nnth s (a_srun a)) as [[|p]|]; try discriminate.
    destruct (forallb _ _); inversion H; subst. auto.
  - destruct (nnth c (a_conns a)) as [[|[p|p|]]|]; try discriminate. inversion H; subst. auto.
  - destruct (nnth c (a_conns a)) as [[|[p|p|]]|]; try discriminate.
    destruct (nnth s (a_sesss a)) as [[|[p|p|]]|]; try discriminate. inversion H; subst. auto.
  - destruct (nnth s (a_sesss a)) as [[|[p|p|]]|]; try discriminate. inversion H; subst. auto.
  - destruct (nnth c (a_conns a)) as [[|[p|p|]]|]; try discriminate.
    destruct (nnth s (a_sesss a)) as [[|[p|p|]]|]; try discriminate.
    destruct (nnth c (a_cbusy a)) as [[|p]|] eqn:Eb; try discriminate. inversion H; subst. cbn [a_cbusy a_srun]. split; [|auto].
    intros c0. rewrite nnth_nupd_default. rewrite (N.eqb_sym c c0). destruct (N.eqb_spec c0 c) as [->|]; [|reflexivity]. now rewrite Eb.
  - destruct (nnth c (a_cbusy a)) as [[|p]|] eqn:Eb; try discriminate. inversion H; subst. cbn [a_cbusy a_srun]. split; [|auto].
    intros c0. rewrite nnth_nupd_default. rewrite (N.eqb_sym c c0). destruct (N.eqb_spec c0 c) as [->|]; [|reflexivity]. now rewrite Eb.
  - destruct (nnth s (a_sesss a)) as [[|[p|p|]]|] eqn:Es; try discriminate. inversion H; subst. cbn [a_cbusy a_srun]. split; [auto|].
    intros s0. rewrite nnth_nupd_default. rewrite (N.eqb_sym s s0). destruct (N.eqb_spec s0 s) as [->|]; [|reflexivity].
    apply nnth_lt_Some in Es. destruct (nnth_lt (a_srun a) s) as (v & Ev); [lia|]. now rewrite Ev.
  - destruct (nnth s (a_srun a)) as [[|p]|] eqn:Eb; try discriminate. inversion H; subst. cbn [a_cbusy a_srun]. split; [auto|].
    intros s0. rewrite nnth_nupd_default. rewrite (N.eqb_sym s s0). destruct (N.eqb_spec s0 s) as [->|]; [|reflexivity]. now rewrite Eb.
Qed.

Lemma arun_pend w : forall a a', alen a -> arun a w = Some a' ->
  alen a' /\ (forall c, busyv a' c = fold_left (pend_conn c) w (busyv a c)) /\ (forall s, srunv a' s = fold_left (pend_sess s) w (srunv a s)).
Proof.
  induction w as [|x t IH]; intros a a' Hl H; cbn [arun fold_left] in *; [inversion H; subst; auto|].
  destruct (astep a x) as [a1|] eqn:E; [|discriminate].
  destruct (astep_pend _ _ _ Hl E) as (Hb & Hs). destruct (IH _ _ (alen_step _ _ _ Hl E) H) as (Hl' & Hb' & Hs').
  split; [exact Hl'|]. split; intros; [rewrite Hb', Hb|rewrite Hs', Hs]; reflexivity.
Qed.

Lemma arun_split w1 : forall a w2 a2, arun a (w1 ++ w2) = Some a2 -> exists a1, arun a w1 = Some a1 /\ arun a1 w2 = Some a2.
Proof.
  induction w1 as [|x t IH]; intros a w2 a2 H; cbn [arun app] in *; [eauto|].
  destruct (astep a x); [eauto|discriminate].
Qed.

(* THE QUIESCENCE PROPERTY OF LEGAL WORDS: where a legal word has the close notification of session s, every
   callback of s that began before it has returned before it: no reader is inside a packet callback of s and
   no other callback of s is in progress *)
Theorem accept_session_close_quiescent w1 s w2 :
  accept (w1 ++ CbSessClose s :: w2) = true ->
  fold_left (pend_sess s) w1 0 = 0 /\ forall c, fold_left (pend_conn c) w1 0 <> s + 1.
Proof.
  unfold accept. intros H. destruct (arun a0 (w1 ++ CbSessClose s :: w2)) as [a2|] eqn:E; [|discriminate].
  apply arun_split in E. destruct E as (a1 & E1 & E2). cbn [arun] in E2.
  destruct (astep a1 (CbSessClose s)) as [a1'|] eqn:E3; [|discriminate]. clear E2 H.
  destruct (arun_pend _ _ _ alen_a0 E1) as ((Hl1 & Hl2) & Hb & Hs).
  cbn [astep] in E3. destruct (nnth s (a_sesss a1)) as [[|[p|p|]]|]; try discriminate.
  destruct (nnth s (a_srun a1)) as [[|p]|] eqn:Er; try discriminate.
  destruct (forallb _ (a_cbusy a1)) eqn:Ef; [|discriminate]. split.
  - change 0 with (srunv a0 s) at 1. rewrite <- (Hs s). unfold srunv. now rewrite Er.
  - intros c Hc. change 0 with (busyv a0 c) in Hc at 1. rewrite <- (Hb c) in Hc. unfold busyv in Hc. destruct (nnth c (a_cbusy a1)) as [v|] eqn:Ec; [|lia].
    rewrite forallb_forall in Ef. apply nnth_In in Ec. specialize (Ef _ Ec). subst v. rewrite N.eqb_refl in Ef. discriminate.
Qed.

Definition sdone (a : astate) (s : N) : Prop := nnth s (a_sesss a) = Some 2 /\ nnth s (a_srun a) = Some 0.
Definition cdone (a : astate) (c : N) : Prop := nnth c (a_conns a) = Some 2 /\ nnth c (a_cbusy a) = Some 0.

Lemma astep_sess_closed_stays a x a' s :
  astep a x = Some a' -> sdone a s -> sdone a' s /\ about_sess s x = false.
Proof.
  unfold sdone. intros H (Hs & Hr). destruct x; cbn [astep about_sess] in *.
  - destruct (c =? nlen (a_conns a)); inversion H; subst. auto.
  - destruct (nnth c (a_conns a)) as [[|[p|p|]]|]; try discriminate. destruct (nnth c (a_cbusy a)) as [[|p]|]; try discriminate. inversion H; subst. auto.
  - destruct (nnth c (a_conns a)) as [v|]; try discriminate.
    destruct (N.eqb_spec s0 (nlen (a_sesss a))) as [->|]; [|discriminate]. inversion H; subst. cbn [a_sesss a_srun]. split.
    + split; now apply nnth_app_l.
    + apply nnth_lt_Some in Hs. destruct (N.eqb_spec (nlen (a_sesss a)) s); [lia|reflexivity].
  - destruct (nnth s0 (a_sesss a)) as [[|[p|p|]]|] eqn:E; try discriminate. destruct (nnth s0 (a_srun a)) as [[|p]|]; try discriminate.
    destruct (forallb _ _); [|discriminate]. inversion H; subst. cbn [a_sesss a_srun].
    destruct (N.eqb_spec s0 s) as [->|Hne]; [congruence|]. split; [split; [now rewrite nnth_nupd_other|assumption]|reflexivity].
  - destruct (nnth c (a_conns a)) as [[|[p|p|]]|]; try discriminate. inversion H; subst. auto.
  - destruct (nnth c (a_conns a)) as [[|[p|p|]]|]; try discriminate.
    destruct (nnth s0 (a_sesss a)) as [[|[p|p|]]|] eqn:E; try discriminate. inversion H; subst.
    split; [auto|]. destruct (N.eqb_spec s0 s) as [->|]; [congruence|reflexivity].
  - destruct (nnth s0 (a_sesss a)) as [[|[p|p|]]|] eqn:E; try discriminate. inversion H; subst.
    split; [auto|]. destruct (N.eqb_spec s0 s) as [->|]; [congruence|reflexivity].
  - destruct (nnth c (a_conns a)) as [[|[p|p|]]|]; try discriminate.
    destruct (nnth s0 (a_sesss a)) as [[|[p|p|]]|] eqn:E; try discriminate.
    destruct (nnth c (a_cbusy a)) as [[|p]|]; try discriminate. inversion H; subst. cbn [a_sesss a_srun].
    split; [auto|]. destruct (N.eqb_spec s0 s) as [->|]; [congruence|reflexivity].
  - destruct (nnth c (a_cbusy a)) as [[|p]|]; try discriminate. inversion H; subst. auto.
  - destruct (nnth s0 (a_sesss a)) as [[|[p|p|]]|] eqn:E; try discriminate. inversion H; subst. cbn [a_sesss a_srun].
    destruct (N.eqb_spec s0 s) as [->|Hne]; [congruence|]. split; [split; [assumption|now rewrite nnth_nupd_other]|reflexivity].
  - destruct (nnth s0 (a_srun a)) as [[|p]|] eqn:E; try discriminate. inversion H; subst. cbn [a_sesss a_srun].
    destruct (N.eqb_spec s0 s) as [->|Hne]; [congruence|]. split; [split; [assumption|now rewrite nnth_nupd_other]|reflexivity].
Qed.

Lemma arun_sess_closed_stays w : forall a a' s,
  arun a w = Some a' -> sdone a s -> forallb (fun x => negb (about_sess s x)) w = true.
Proof.
  induction w as [|x t IH]; intros a a' s H Hs; cbn [arun forallb] in *; [reflexivity|].
  destruct (astep a x) as [a1|] eqn:E; [|discriminate].
  destruct (astep_sess_closed_stays _ _ _ _ E Hs) as (Hs1 & Hx). rewrite Hx. cbn. eapply IH; eauto.
Qed.

(* once a session's close notification has been delivered, no further callback mentions that session: none
   begins, none returns (the ones begun earlier have all returned: accept_session_close_quiescent) *)
Theorem accept_no_callback_after_session_close w1 s w2 :
  accept (w1 ++ CbSessClose s :: w2) = true -> forallb (fun x => negb (about_sess s x)) w2 = true.
Proof.
  unfold accept. rewrite arun_app. destruct (arun a0 w1) as [a1|] eqn:E1; [|discriminate].
  cbn [arun]. destruct (astep a1 (CbSessClose s)) as [a2|] eqn:E2; [|discriminate].
  destruct (arun a2 w2) as [a3|] eqn:E3; [|discriminate]. intros _.
  eapply arun_sess_closed_stays; [exact E3|].
  cbn [astep] in E2. destruct (nnth s (a_sesss a1)) as [[|[p|p|]]|] eqn:E; try discriminate.
  destruct (nnth s (a_srun a1)) as [[|p]|] eqn:Er; try discriminate. destruct (forallb _ _); [|discriminate].
  inversion E2; subst. split; cbn [a_sesss a_srun]; [|assumption]. now apply nnth_nupd_same with (f := fun _ => 2) in E.
Qed.

Lemma astep_conn_closed_stays a x a' c :
  astep a x = Some a' -> cdone a c -> cdone a' c /\ about_conn c x = false.
Proof.
  unfold cdone. intros H (Hs & Hr). destruct x; cbn [astep about_conn] in *.
  - destruct (N.eqb_spec c0 (nlen (a_conns a))) as [->|]; [|discriminate]. inversion H; subst. cbn [a_conns a_cbusy]. split.
    + split; now apply nnth_app_l.
    + apply nnth_lt_Some in Hs. destruct (N.eqb_spec (nlen (a_conns a)) c); [lia|reflexivity].
  - destruct (nnth c0 (a_conns a)) as [[|[p|p|]]|] eqn:E; try discriminate. destruct (nnth c0 (a_cbusy a)) as [[|p]|]; try discriminate.
    inversion H; subst. cbn [a_conns a_cbusy].
    destruct (N.eqb_spec c0 c) as [->|Hne]; [congruence|]. split; [split; [now rewrite nnth_nupd_other|assumption]|reflexivity].
  - destruct (nnth c0 (a_conns a)) as [v|] eqn:E; try discriminate.
    destruct (s =? nlen (a_sesss a)); [|discriminate]. inversion H; subst. split; [auto|reflexivity].
  - destruct (nnth s (a_sesss a)) as [[|[p|p|]]|]; try discriminate. destruct (nnth s (a_srun a)) as [[|p]|]; try discriminate.
    destruct (forallb _ _); [|discriminate]. inversion H; subst. auto.
  - destruct (nnth c0 (a_conns a)) as [[|[p|p|]]|] eqn:E; try discriminate. inversion H; subst.
    split; [auto|]. destruct (N.eqb_spec c0 c) as [->|]; [congruence|reflexivity].
  - destruct (nnth c0 (a_conns a)) as [[|[p|p|]]|] eqn:E; try discriminate.
    destruct (nnth s (a_sesss a)) as [[|[p|p|]]|]; try discriminate. inversion H; subst.
    split; [auto|]. destruct (N.eqb_spec c0 c) as [->|]; [congruence|reflexivity].
  - destruct (nnth s (a_sesss a)) as [[|[p|p|]]|]; try discriminate. inversion H; subst. auto.
  - destruct (nnth c0 (a_conns a)) as [[|[p|p|]]|] eqn:E; try discriminate.
    destruct (nnth s (a_sesss a)) as [[|[p|p|]]|]; try discriminate.
    destruct (nnth c0 (a_cbusy a)) as [[|p]|]; try discriminate. inversion H; subst. cbn [a_conns a_cbusy].
    destruct (N.eqb_spec c0 c) as [->|Hne]; [congruence|]. split; [split; [assumption|now rewrite nnth_nupd_other]|reflexivity].
  - destruct (nnth c0 (a_cbusy a)) as [[|p]|] eqn:E; try discriminate. inversion H; subst. cbn [a_conns a_cbusy].
    destruct (N.eqb_spec c0 c) as [->|Hne]; [congruence|]. split; [split; [assumption|now rewrite nnth_nupd_other]|reflexivity].
  - destruct (nnth s (a_sesss a)) as [[|[p|p|]]|]; try discriminate. inversion H; subst. auto.
  - destruct (nnth s (a_srun a)) as [[|p]|]; try discriminate. inversion H; subst. auto.
Qed.

Lemma arun_conn_closed_stays w : forall a a' c,
  arun a w = Some a' -> cdone a c -> forallb (fun x => negb (about_conn c x)) w = true.
Proof.
  induction w as [|x t IH]; intros a a' c H Hs; cbn [arun forallb] in *; [reflexivity|].
  destruct (astep a x) as [a1|] eqn:E; [|discriminate].
  destruct (astep_conn_closed_stays _ _ _ _ E Hs) as (Hs1 & Hx). rewrite Hx. cbn. eapply IH; eauto.
Qed.

(* ... and likewise for a connection: nothing after its close, in particular no second close and no packet
   callback of its reader beginning or returning *)
Theorem accept_no_callback_after_conn_close w1 c w2 :
  accept (w1 ++ CbConnClose c :: w2) = true -> forallb (fun x => negb (about_conn c x)) w2 = true.
Proof.
  unfold accept. rewrite arun_app. destruct (arun a0 w1) as [a1|] eqn:E1; [|discriminate].
  cbn [arun]. destruct (astep a1 (CbConnClose c)) as [a2|] eqn:E2; [|discriminate].
  destruct (arun a2 w2) as [a3|] eqn:E3; [|discriminate]. intros _.
  eapply arun_conn_closed_stays; [exact E3|].
  cbn [astep] in E2. destruct (nnth c (a_conns a1)) as [[|[p|p|]]|] eqn:E; try discriminate.
  destruct (nnth c (a_cbusy a1)) as [[|p]|] eqn:Er; try discriminate.
  inversion E2; subst. split; cbn [a_conns a_cbusy]; [|assumption]. now apply nnth_nupd_same with (f := fun _ => 2) in E.
Qed.

(* ---------- the shutdown cascade ---------- *)
(* once the root context is cancelled nothing is left in (or can re-enter) its serving loop *)
Definition quiesced (st : state) : Prop :=
  sv st <> Open -> Forall (fun c => c_st c <> Open) (conns st) /\ Forall (fun s => s_st s <> Open) (sesss st).

Lemma Forall_nupd {A} (P : A -> Prop) i f l : Forall P l -> (forall x, P x -> P (f x)) -> Forall P (nupd i f l).
Proof.
  intros H Hf. revert i; induction H as [|x t Hx Ht IH]; intros i; cbn [nupd]; [constructor|].
  destruct (i =? 0); constructor; auto.
Qed.
Lemma Forall_nupd_at {A} (P : A -> Prop) i f l : Forall P l -> (forall x, nnth i l = Some x -> P (f x)) -> Forall P (nupd i f l).
Proof.
  intros H. revert i; induction H as [|x t Hx Ht IH]; intros i Hf; cbn [nupd]; [constructor|].
  destruct (N.eqb_spec i 0) as [Hi|Hi].
  - constructor; [|exact Ht]. apply Hf. subst i. reflexivity.
  - constructor; [exact Hx|]. apply IH. intros y Hy. apply Hf. cbn [nnth]. destruct (N.eqb_spec i 0); [lia|exact Hy].
Qed.
Lemma Forall_nnth {A} (P : A -> Prop) l i x : Forall P l -> nnth i l = Some x -> P x.
Proof.
  revert i; induction l as [|y t IH]; intros i HF H; cbn [nnth] in H; [discriminate|].
  inversion HF; subst. destruct (i =? 0); [inversion H; now subst|eauto].
Qed.
Lemma cancel_conns_nonopen ids cs :
  Forall (fun c => c_st c <> Open) cs -> Forall (fun c => c_st c <> Open) (cancel_conns ids cs).
Proof.
  revert cs; induction ids as [|i t IH]; intros cs H; cbn [cancel_conns]; [exact H|].
  apply IH. apply Forall_nupd; [exact H|]. intros x Hx. unfold cancel_conn, set_cst. destruct (c_st x) eqn:E; cbn; congruence.
Qed.

Lemma quiesced_step st s st' : quiesced st -> step st s = Some st' -> quiesced st'.
Proof.
  unfold quiesced. intros Hq H.
  destruct s; cbn [step] in H.
  - (* Accept *) destruct (sv st) eqn:Es; try discriminate. inversion H; subst. cbn [sv]. congruence.
  - (* NewSession *) destruct (sv st) eqn:Es; try discriminate.
    destruct (nnth c (conns st)) as [[[| |] r [s0|] [b|]]|]; try discriminate. inversion H; subst. cbn [sv]. congruence.
  - (* Attach *) destruct (nnth c (conns st)) as [[[| |] r [s0|] [b|]]|] eqn:Ec; try discriminate.
    destruct (nnth s (sesss st)) as [[[| |] cs w m n]|]; try discriminate. inversion H; subst. cbn [sv conns sesss].
    intros Hs. destruct (Hq Hs) as (Hc & _). exfalso. apply (Forall_nnth _ _ _ _ Hc Ec). reflexivity.
  - (* Request *) destruct (nnth c (conns st)) as [[[| |] r ss [b|]]|]; try discriminate. inversion H; subst. exact Hq.
  - (* RequestS *) destruct (nnth c (conns st)) as [[[| |] r [s0|] [b|]]|]; try discriminate.
    destruct (nnth s (sesss st)) as [[[| |] cs w m n]|]; try discriminate.
    destruct (s0 =? s); [|discriminate]. inversion H; subst. exact Hq.
  - (* Play *) destruct (nnth s (sesss st)) as [[[| |] cs w m n]|] eqn:Ess; try discriminate. inversion H; subst. cbn [sv conns sesss].
    intros Hs. destruct (Hq Hs) as (_ & Hss). exfalso. apply (Forall_nnth _ _ _ _ Hss Ess). reflexivity.
  - (* Pause *) destruct (nnth s (sesss st)) as [[[| |] cs w m [|n]]|] eqn:Ess; try discriminate. inversion H; subst. cbn [sv conns sesss].
    intros Hs. destruct (Hq Hs) as (_ & Hss). exfalso. apply (Forall_nnth _ _ _ _ Hss Ess). reflexivity.
  - (* Packet *) destruct (nnth s (sesss st)) as [[[| |] cs w [|] n]|]; try discriminate; inversion H; subst; exact Hq.
  - (* PacketBegin *) destruct (nnth c (conns st)) as [[o [|] [s|] [b|]]|] eqn:Ec; try discriminate. inversion H; subst. cbn [sv conns sesss].
    intros Hs. destruct (Hq Hs) as (Hc & Hss). split; [|exact Hss]. apply Forall_nupd_at; [exact Hc|].
    intros x _. exact (Forall_nnth _ _ _ _ Hc Ec).
  - (* PacketEnd *) destruct (nnth c (conns st)) as [[o r ss [s|]]|] eqn:Ec; try discriminate. inversion H; subst. cbn [sv conns sesss].
    intros Hs. destruct (Hq Hs) as (Hc & Hss). split; [|exact Hss]. apply Forall_nupd_at; [exact Hc|].
    intros x _. exact (Forall_nnth _ _ _ _ Hc Ec).
  - (* SBegin *) destruct (nnth s (sesss st)) as [[[| |] cs w [|] n]|] eqn:Ess; try discriminate; inversion H; subst; cbn [sv conns sesss];
      intros Hs; destruct (Hq Hs) as (Hc & Hss); (split; [exact Hc|]); apply Forall_nupd_at; try exact Hss;
      intros x _; exact (Forall_nnth _ _ _ _ Hss Ess).
  - (* SEnd *) destruct (nnth s (sesss st)) as [[o cs w m n]|] eqn:Ess; try discriminate. destruct (0 <? n); [|discriminate].
    inversion H; subst; cbn [sv conns sesss].
    intros Hs; destruct (Hq Hs) as (Hc & Hss). split; [exact Hc|]. apply Forall_nupd_at; [exact Hss|].
    intros x _; exact (Forall_nnth _ _ _ _ Hss Ess).
  - (* Teardown *) destruct (nnth c (conns st)) as [[[| |] r [s0|] [b|]]|] eqn:Ec; try discriminate.
    destruct (nnth s (sesss st)) as [[[| |] cs w m n]|]; try discriminate.
    destruct (s0 =? s); [|discriminate]. inversion H; subst. cbn [sv conns sesss].
    intros Hs. destruct (Hq Hs) as (Hc & _). exfalso. apply (Forall_nnth _ _ _ _ Hc Ec). reflexivity.
  - (* ConnFail *) destruct (nnth c (conns st)) as [[[| |] r ss b]|] eqn:Ec; try discriminate. inversion H; subst. cbn [sv conns sesss].
    intros Hs. destruct (Hq Hs) as (Hc & _). exfalso. apply (Forall_nnth _ _ _ _ Hc Ec). reflexivity.
  - (* ReaderExit *) destruct (nnth c (conns st)) as [[[| |] [|] ss [b|]]|]; try discriminate. inversion H; subst. cbn [sv conns sesss].
    intros Hs. destruct (Hq Hs) as (Hc & Hss). split; [|exact Hss]. apply Forall_nupd; [exact Hc|]. cbn. discriminate.
  - (* ConnFinish *) destruct (nnth c (conns st)) as [[[| |] [|] ss b]|]; try discriminate. inversion H; subst. cbn [sv conns sesss].
    intros Hs. destruct (Hq Hs) as (Hc & Hss). split; [|exact Hss]. apply Forall_nupd; [exact Hc|]. cbn. discriminate.
  - (* SessFail *) destruct (nnth s (sesss st)) as [[[| |] cs w m n]|] eqn:Ess; try discriminate. inversion H; subst. cbn [sv conns sesss].
    intros Hs. destruct (Hq Hs) as (_ & Hss). exfalso. apply (Forall_nnth _ _ _ _ Hss Ess). reflexivity.
  - (* MediaStop *) destruct (nnth s (sesss st)) as [[[| |] cs w [|] [|n]]|]; try discriminate.
    destruct (forallb (conn_closed (conns st)) cs); [|discriminate]. inversion H; subst. cbn [sv conns sesss].
    intros Hs. destruct (Hq Hs) as (Hc & Hss). split; [exact Hc|]. apply Forall_nupd; [exact Hss|]. cbn. discriminate.
  - (* WorkerExit *) destruct (nnth s (sesss st)) as [[[| |] cs w [|] n]|]; try discriminate.
    destruct ((0 <? w) && forallb (conn_closed (conns st)) cs); [|discriminate]. inversion H; subst. cbn [sv conns sesss].
    intros Hs. destruct (Hq Hs) as (Hc & Hss). split; [exact Hc|]. apply Forall_nupd; [exact Hss|]. cbn. discriminate.
  - (* SessFinish *) destruct (nnth s (sesss st)) as [[[| |] cs [|w] [|] [|n]]|]; try discriminate.
    destruct (forallb (conn_closed (conns st)) cs); [|discriminate]. inversion H; subst. cbn [sv conns sesss].
    intros Hs. destruct (Hq Hs) as (Hc & Hss). split; [exact Hc|]. apply Forall_nupd; [exact Hss|]. cbn. discriminate.
  - (* ServerClose *) destruct (sv st); try discriminate. inversion H; subst. cbn [sv conns sesss]. intros _. split.
    + apply Forall_forall. intros x Hx. apply in_map_iff in Hx. destruct Hx as (y & <- & _).
      unfold cancel_conn, set_cst. destruct (c_st y) eqn:E; cbn; congruence.
    + apply Forall_forall. intros x Hx. apply in_map_iff in Hx. destruct Hx as (y & <- & _).
      unfold cancel_sess. destruct (s_st y) eqn:E; cbn; congruence.
  - destruct (sv st) eqn:Es; try discriminate. destruct (0 <? listeners st); [|discriminate].
    inversion H; subst. cbn [sv conns sesss]. intros _. apply Hq. congruence.
  - destruct (sv st) eqn:Es; try discriminate. destruct (listeners st =? 0); [|discriminate].
    inversion H; subst. cbn [sv conns sesss]. intros _. apply Hq. congruence.
Qed.

Lemma quiesced_exec steps : forall st st', quiesced st -> exec st steps = Some st' -> quiesced st'.
Proof.
  induction steps as [|s t IH]; intros st st' Hq H; cbn [exec] in H; [inversion H; now subst|].
  destruct (step st s) as [st1|] eqn:E; [|discriminate]. eapply IH; [|exact H]. eapply quiesced_step; eauto.
Qed.
Lemma quiesced_init n : quiesced (init n).
Proof. unfold quiesced. cbn. intros H. congruence. Qed.

(* the canonical next step of the cascade *)
Fixpoint find_conn (p : conn -> bool) (l : list conn) (i : N) : option (N * conn) :=
  match l with [] => None | x :: t => if p x then Some (i, x) else find_conn p t (i + 1) end.
Fixpoint find_sess (p : sess -> bool) (l : list sess) (i : N) : option (N * sess) :=
  match l with [] => None | x :: t => if p x then Some (i, x) else find_sess p t (i + 1) end.

(* a callback in progress returns first (the library never interrupts the application's code), then the
   goroutine that ran it leaves *)
Definition next_fin (st : state) : option stepT :=
  match find_conn (fun c => ost_eqb (c_st c) Closing) (conns st) 0 with
  | Some (c, x) => Some (match c_busy x with Some _ => PacketEnd c | None => if c_reader x then ReaderExit c else ConnFinish c end)
  | None =>
      match find_sess (fun s => ost_eqb (s_st s) Closing) (sesss st) 0 with
      | Some (s, x) => Some (if 0 <? s_srun x then SEnd s else if s_media x then MediaStop s
                             else if 0 <? s_workers x then WorkerExit s else SessFinish s)
      | None =>
          match sv st with
          | Closing => Some (if 0 <? listeners st then ListenerExit else ServerFinish)
          | _ => None
          end
      end
  end.

Definition is_fin (s : stepT) : Prop :=
  match s with
  | PacketEnd _ | SEnd _ | ReaderExit _ | ConnFinish _ | MediaStop _ | WorkerExit _ | SessFinish _ | ListenerExit | ServerFinish => True
  | _ => False
  end.

Lemma find_conn_spec p l i0 i x :
  find_conn p l i0 = Some (i, x) -> i0 <= i /\ nnth (i - i0) l = Some x /\ p x = true.
Proof.
  revert i0; induction l as [|y t IH]; intros i0 H; cbn [find_conn] in H; [discriminate|].
  destruct (p y) eqn:E.
  - inversion H; subst. split; [lia|]. rewrite N.sub_diag. cbn. auto.
  - destruct (IH _ H) as (H1 & H2 & H3). split; [lia|]. split; [|exact H3].
    cbn [nnth]. destruct (N.eqb_spec (i - i0) 0); [lia|]. replace (N.pred (i - i0)) with (i - (i0 + 1)) by lia. exact H2.
Qed.
Lemma find_conn_none p l i0 : find_conn p l i0 = None -> Forall (fun x => p x = false) l.
Proof.
  revert i0; induction l as [|y t IH]; intros i0 H; cbn [find_conn] in H; [constructor|].
  destruct (p y) eqn:E; [discriminate|]. constructor; eauto.
Qed.
Lemma find_sess_spec p l i0 i x :
  find_sess p l i0 = Some (i, x) -> i0 <= i /\ nnth (i - i0) l = Some x /\ p x = true.
Proof.
  revert i0; induction l as [|y t IH]; intros i0 H; cbn [find_sess] in H; [discriminate|].
  destruct (p y) eqn:E.
  - inversion H; subst. split; [lia|]. rewrite N.sub_diag. cbn. auto.
  - destruct (IH _ H) as (H1 & H2 & H3). split; [lia|]. split; [|exact H3].
    cbn [nnth]. destruct (N.eqb_spec (i - i0) 0); [lia|]. replace (N.pred (i - i0)) with (i - (i0 + 1)) by lia. exact H2.
Qed.
Lemma find_sess_none p l i0 : find_sess p l i0 = None -> Forall (fun x => p x = false) l.
Proof.
  revert i0; induction l as [|y t IH]; intros i0 H; cbn [find_sess] in H; [constructor|].
  destruct (p y) eqn:E; [discriminate|]. constructor; eauto.
Qed.

Lemma all_conns_closed_forallb cs ids :
  Forall (fun c => c_st c = Closed) cs -> forallb (conn_closed cs) ids = true.
Proof.
  intros H. apply forallb_forall. intros i _. unfold conn_closed.
  destruct (nnth i cs) as [c|] eqn:E; [|reflexivity]. rewrite (Forall_nnth _ _ _ _ H E). reflexivity.
Qed.

(* no deadlock: while something is still running after the cancellation, a finishing step is enabled,
   and it strictly reduces the remaining work *)
Theorem close_progress st :
  quiesced st -> sv st <> Open -> all_closed st = false ->
  exists s st', next_fin st = Some s /\ is_fin s /\ step st s = Some st' /\ measure st' < measure st.
Proof.
  intros Hq Hs Hnc. destruct (Hq Hs) as (Hco & Hso). unfold next_fin.
  destruct (find_conn (fun c => ost_eqb (c_st c) Closing) (conns st) 0) as [[c x]|] eqn:Ec.
  - destruct (find_conn_spec _ _ _ _ _ Ec) as (_ & Hn & Hp). rewrite N.sub_0_r in Hn.
    destruct x as [o r ss b]. cbn [c_st c_reader c_busy] in *. destruct o; try discriminate. destruct b as [b|]; [|destruct r].
    + eexists; eexists. split; [reflexivity|]. split; [exact I|]. cbn [step]. rewrite Hn. split; [reflexivity|].
      unfold measure. cbn [sv listeners conns sesss].
      pose proof (sumN_nupd_lt conn_w c (fun _ => mkConn Closing r ss None) _ _ Hn) as Hm.
      assert (Hd : conn_w ((fun _ => mkConn Closing r ss None) (mkConn Closing r ss (Some b))) < conn_w (mkConn Closing r ss (Some b))) by (unfold conn_w, ost_w; cbn [c_st c_reader c_busy]; lia).
      specialize (Hm Hd). lia.
    + eexists; eexists. split; [reflexivity|]. split; [exact I|]. cbn [step]. rewrite Hn. split; [reflexivity|].
      unfold measure. cbn [sv listeners conns sesss].
      pose proof (sumN_nupd_lt conn_w c (fun _ => mkConn Closing false ss None) _ _ Hn) as Hm.
      assert (Hd : conn_w ((fun _ => mkConn Closing false ss None) (mkConn Closing true ss None)) < conn_w (mkConn Closing true ss None)) by (unfold conn_w, ost_w; cbn [c_st c_reader c_busy]; lia).
      specialize (Hm Hd). lia.
    + eexists; eexists. split; [reflexivity|]. split; [exact I|]. cbn [step]. rewrite Hn. split; [reflexivity|].
      unfold measure. cbn [sv listeners conns sesss].
      pose proof (sumN_nupd_lt conn_w c (fun _ => mkConn Closed false ss None) _ _ Hn) as Hm.
      assert (Hd : conn_w ((fun _ => mkConn Closed false ss None) (mkConn Closing false ss None)) < conn_w (mkConn Closing false ss None)) by (unfold conn_w, ost_w; cbn [c_st c_reader c_busy]; lia).
      specialize (Hm Hd). lia.
  - assert (Hcc : Forall (fun c => c_st c = Closed) (conns st)).
    { apply find_conn_none in Ec. rewrite Forall_forall in *. intros x Hx. specialize (Ec x Hx). specialize (Hco x Hx).
      cbv beta in *. destruct (c_st x); cbn in *; congruence. }
    destruct (find_sess (fun s => ost_eqb (s_st s) Closing) (sesss st) 0) as [[s x]|] eqn:Ess.
    + destruct (find_sess_spec _ _ _ _ _ Ess) as (_ & Hn & Hp). rewrite N.sub_0_r in Hn.
      destruct x as [o cs w m n]. cbn [s_st s_media s_workers s_srun] in *. destruct o; try discriminate.
      pose proof (all_conns_closed_forallb _ cs Hcc) as Hf.
      destruct (N.ltb_spec 0 n) as [Hn0|Hn0].
      { eexists; eexists. split; [reflexivity|]. split; [exact I|]. cbn [step]. rewrite Hn.
        destruct (N.ltb_spec 0 n); [|lia]. split; [reflexivity|].
        unfold measure. cbn [sv listeners conns sesss].
        pose proof (sumN_nupd_lt sess_w s (fun _ => mkSess Closing cs w m (N.pred n)) _ _ Hn) as Hm.
        assert (Hd : sess_w ((fun _ => mkSess Closing cs w m (N.pred n)) (mkSess Closing cs w m n)) < sess_w (mkSess Closing cs w m n)) by (unfold sess_w, ost_w; cbn [s_st s_workers s_media s_srun]; lia).
        specialize (Hm Hd). lia. }
      assert (n = 0) by lia. subst n.
      destruct m.
      * eexists; eexists. split; [reflexivity|]. split; [exact I|]. cbn [step]. rewrite Hn, Hf. split; [reflexivity|].
        unfold measure. cbn [sv listeners conns sesss].
        pose proof (sumN_nupd_lt sess_w s (fun _ => mkSess Closing cs w false 0) _ _ Hn) as Hm.
        assert (Hd : sess_w ((fun _ => mkSess Closing cs w false 0) (mkSess Closing cs w true 0)) < sess_w (mkSess Closing cs w true 0)) by (unfold sess_w, ost_w; cbn [s_st s_workers s_media s_srun]; lia).
        specialize (Hm Hd). lia.
      * destruct (N.ltb_spec 0 w).
        -- eexists; eexists. split; [reflexivity|]. split; [exact I|]. cbn [step]. rewrite Hn, Hf.
           destruct (N.ltb_spec 0 w); [|lia]. cbn [andb]. split; [reflexivity|].
           unfold measure. cbn [sv listeners conns sesss].
           pose proof (sumN_nupd_lt sess_w s (fun _ => mkSess Closing cs (N.pred w) false 0) _ _ Hn) as Hm.
           assert (Hd : sess_w ((fun _ => mkSess Closing cs (N.pred w) false 0) (mkSess Closing cs w false 0)) < sess_w (mkSess Closing cs w false 0)) by (unfold sess_w, ost_w; cbn [s_st s_workers s_media s_srun]; lia).
           specialize (Hm Hd). lia.
        -- assert (w = 0) by lia. subst w.
           eexists; eexists. split; [reflexivity|]. split; [exact I|]. cbn [step]. rewrite Hn, Hf. split; [reflexivity|].
           unfold measure. cbn [sv listeners conns sesss].
           pose proof (sumN_nupd_lt sess_w s (fun _ => mkSess Closed cs 0 false 0) _ _ Hn) as Hm.
           assert (Hd : sess_w ((fun _ => mkSess Closed cs 0 false 0) (mkSess Closing cs 0 false 0)) < sess_w (mkSess Closing cs 0 false 0)) by (unfold sess_w, ost_w; cbn [s_st s_workers s_media s_srun]; lia).
           specialize (Hm Hd). lia.
    + assert (Hsc : Forall (fun s => s_st s = Closed) (sesss st)).
      { apply find_sess_none in Ess. rewrite Forall_forall in *. intros x Hx. specialize (Ess x Hx). specialize (Hso x Hx).
        cbv beta in *. destruct (s_st x); cbn in *; congruence. }
      destruct (sv st) eqn:Esv; [congruence| |].
      * destruct (N.ltb_spec 0 (listeners st)).
        -- eexists; eexists. split; [reflexivity|]. split; [exact I|]. cbn [step]. rewrite Esv.
           destruct (N.ltb_spec 0 (listeners st)); [|lia]. split; [reflexivity|].
           unfold measure. cbn [sv listeners conns sesss]. rewrite Esv. cbn [ost_w]. lia.
        -- eexists; eexists. split; [reflexivity|]. split; [exact I|]. cbn [step]. rewrite Esv.
           destruct (N.eqb_spec (listeners st) 0); [|lia]. split; [reflexivity|].
           unfold measure. cbn [sv listeners conns sesss]. rewrite Esv. cbn [ost_w]. lia.
      * exfalso. unfold all_closed in Hnc. rewrite Esv in Hnc. cbn [ost_eqb andb] in Hnc.
        assert (forallb (fun c => ost_eqb (c_st c) Closed) (conns st) = true).
        { apply forallb_forall. intros x Hx. rewrite Forall_forall in Hcc. rewrite (Hcc x Hx). reflexivity. }
        assert (forallb (fun s => ost_eqb (s_st s) Closed) (sesss st) = true).
        { apply forallb_forall. intros x Hx. rewrite Forall_forall in Hsc. rewrite (Hsc x Hx). reflexivity. }
        rewrite H, H0 in Hnc. discriminate.
Qed.

Lemma fin_keeps_cancelled st s st' : is_fin s -> step st s = Some st' -> sv st <> Open -> sv st' <> Open.
Proof.
  intros Hf Hst Hs. destruct s; try contradiction; cbn [step] in Hst.
  - destruct (nnth c (conns st)) as [[o r ss [b|]]|]; try discriminate. inversion Hst; subst. exact Hs.
  - destruct (nnth s (sesss st)) as [[o cs w m n]|]; try discriminate. destruct (0 <? n); [|discriminate]. inversion Hst; subst. exact Hs.
  - destruct (nnth c (conns st)) as [[[| |] [|] ss [b|]]|]; try discriminate. inversion Hst; subst. exact Hs.
  - destruct (nnth c (conns st)) as [[[| |] [|] ss b]|]; try discriminate. inversion Hst; subst. exact Hs.
  - destruct (nnth s (sesss st)) as [[[| |] cs w [|] [|n]]|]; try discriminate.
    destruct (forallb (conn_closed (conns st)) cs); [|discriminate]. inversion Hst; subst. exact Hs.
  - destruct (nnth s (sesss st)) as [[[| |] cs w [|] n]|]; try discriminate.
    destruct ((0 <? w) && forallb (conn_closed (conns st)) cs); [|discriminate]. inversion Hst; subst. exact Hs.
  - destruct (nnth s (sesss st)) as [[[| |] cs [|w] [|] [|n]]|]; try discriminate.
    destruct (forallb (conn_closed (conns st)) cs); [|discriminate]. inversion Hst; subst. exact Hs.
  - destruct (sv st); try discriminate. destruct (0 <? listeners st); [|discriminate]. inversion Hst; subst. cbn. discriminate.
  - destruct (sv st); try discriminate. destruct (listeners st =? 0); [|discriminate]. inversion Hst; subst. cbn. discriminate.
Qed.

(* from every state in which the root context has been cancelled the cascade reaches "Server.Close has
   returned" in at most [measure] finishing steps - provided every callback in progress returns, which is
   what the finishing steps PacketEnd / SEnd stand for *)
Theorem close_terminates_from : forall n st,
  quiesced st -> sv st <> Open -> measure st <= n ->
  exists steps st', exec st steps = Some st' /\ all_closed st' = true /\ nlen steps <= n /\ Forall is_fin steps.
Proof.
  induction n as [|n IH] using N.peano_ind; intros st Hq Hs Hm.
  - destruct (all_closed st) eqn:E.
    + exists [], st. repeat split; auto. cbn. lia.
    + destruct (close_progress st Hq Hs E) as (s & st' & _ & _ & _ & Hlt). lia.
  - destruct (all_closed st) eqn:E.
    + exists [], st. repeat split; auto. cbn. lia.
    + destruct (close_progress st Hq Hs E) as (s & st1 & _ & Hf & Hst & Hlt).
      pose proof (fin_keeps_cancelled _ _ _ Hf Hst Hs) as Hs1.
      destruct (IH st1 (quiesced_step _ _ _ Hq Hst) Hs1 ltac:(lia)) as (steps & st' & He & Hc & Hl & Hfs).
      exists (s :: steps), st'. repeat split; auto.
      * cbn [exec]. now rewrite Hst.
      * cbn [nlen]. lia.
Qed.

(* Server.Close from any reachable state: whatever has happened before (any number of connections and
   sessions, in any state of their handshake, playing, recording, with running workers) *)
Theorem close_terminates n steps st :
  exec (init n) steps = Some st -> sv st <> Closed ->
  exists st0 fin st',
    (sv st = Open -> step st ServerClose = Some st0) /\ (sv st <> Open -> st0 = st) /\
    exec st0 fin = Some st' /\ all_closed st' = true /\ nlen fin <= measure st0 /\ Forall is_fin fin.
Proof.
  intros H Hnc. pose proof (quiesced_exec _ _ _ (quiesced_init n) H) as Hq.
  destruct (sv st) eqn:Es; [| |congruence].
  - destruct (step st ServerClose) as [st0|] eqn:E; [|cbn in E; rewrite Es in E; discriminate].
    assert (Hs0 : sv st0 <> Open) by (cbn in E; rewrite Es in E; inversion E; subst; cbn; discriminate).
    destruct (close_terminates_from (measure st0) st0 (quiesced_step _ _ _ Hq E) Hs0 ltac:(lia)) as (fin & st' & He & Hc & Hl & Hf).
    exists st0, fin, st'. repeat split; auto. intros Hx. congruence.
  - assert (Hs0 : sv st <> Open) by congruence.
    destruct (close_terminates_from (measure st) st Hq Hs0 ltac:(lia)) as (fin & st' & He & Hc & Hl & Hf).
    exists st, fin, st'. repeat split; auto. intros Hx. congruence.
Qed.

(* ---------- client ---------- *)
Theorem client_close_terminates : forall n c,
  cl_st c = Closing -> cl_measure c <= n ->
  exists steps c', fold_left (fun o s => match o with Some x => cstep x s | None => None end) steps (Some c) = Some c' /\
                   cl_st c' = Closed /\ nlen steps <= n.
Proof.
  induction n as [|n IH] using N.peano_ind; intros c Hc Hm.
  - unfold cl_measure in Hm. rewrite Hc in Hm. cbn [ost_w] in Hm. lia.
  - destruct c as [o r w l]. cbn [cl_st] in Hc. subst o.
    assert (Hstep : forall s c1, cstep (mkCl Closing r w l) s = Some c1 -> cl_st c1 = Closing -> cl_measure c1 <= n ->
              exists steps c', fold_left (fun o s => match o with Some x => cstep x s | None => None end) steps
                                 (Some (mkCl Closing r w l)) = Some c' /\ cl_st c' = Closed /\ nlen steps <= N.succ n).
    { intros s c1 Hs Hc1 Hm1. destruct (IH c1 Hc1 Hm1) as (steps & c' & H1 & H2 & H3).
      exists (s :: steps), c'. split; [|split; [exact H2|cbn [nlen]; lia]]. cbn [fold_left]. rewrite Hs. exact H1. }
    unfold cl_measure in Hm. cbn [ost_w cl_st cl_reader cl_workers cl_listeners] in Hm.
    destruct (N.ltb_spec 0 w) as [Hw|Hw].
    + apply (Hstep ClWorkerExit (mkCl Closing r (N.pred w) l)); [|reflexivity|].
      * cbn [cstep cl_st cl_workers cl_reader cl_listeners]. destruct (N.ltb_spec 0 w); [reflexivity|lia].
      * unfold cl_measure. cbn [ost_w cl_st cl_reader cl_workers cl_listeners]. lia.
    + assert (w = 0) by lia. subst w. destruct r.
      * apply (Hstep ClReaderExit (mkCl Closing false 0 l)); [reflexivity|reflexivity|].
        unfold cl_measure. cbn [ost_w cl_st cl_reader cl_workers cl_listeners]. lia.
      * destruct (N.ltb_spec 0 l) as [Hl|Hl].
        -- apply (Hstep ClListenerExit (mkCl Closing false 0 (N.pred l))); [|reflexivity|].
           ++ cbn [cstep cl_st cl_workers cl_reader cl_listeners]. destruct (N.ltb_spec 0 l); [reflexivity|lia].
           ++ unfold cl_measure. cbn [ost_w cl_st cl_reader cl_workers cl_listeners]. lia.
        -- assert (l = 0) by lia. subst l.
           exists [ClFinish], (mkCl Closed false 0 0). split; [reflexivity|]. split; [reflexivity|]. cbn [nlen]. lia.
Qed.

(* ---------- the waits-for edges, stated on the model ---------- *)
(* session -> conn.done (ServerSession.run: sc.Close(); <-sc.done, or the connection reporting itself gone with
   removeConn), conn -> its reader BEFORE it reports to the session (ServerConn.run: nconn.Close(); reader.wait();
   session.removeConn): in every reachable state, no reader goroutine of a connection attached to a closed session
   is running, hence none is inside a packet callback of that session. *)
Theorem closed_session_has_no_reader n steps st s y :
  exec (init n) steps = Some st -> nnth s (sesss st) = Some y -> s_st y = Closed ->
  forall c x, nnth c (conns st) = Some x -> c_busy x <> Some s /\ (c_sess x = Some s -> c_reader x = false).
Proof.
  intros H Hy Hc. destruct (traced_exec _ _ _ (linv_init n) (traced_init n) H) as ((HC & HS) & _).
  destruct (HS _ _ Hy) as (S1 & S2 & S3).
  assert (Hatt : forall c x, nnth c (conns st) = Some x -> c_sess x = Some s -> c_reader x = false).
  { intros c x Hx Hs. destruct (HC _ _ Hx) as (_ & C2 & _ & C4). destruct (C4 _ Hs) as (y' & Hy' & Hin).
    rewrite Hy in Hy'. inversion Hy'; subst y'. specialize (S1 Hc). rewrite forallb_forall in S1. specialize (S1 _ Hin).
    unfold conn_closed in S1. rewrite Hx in S1. apply C2. destruct (c_st x); try discriminate. reflexivity. }
  intros c x Hx. split; [|exact (Hatt c x Hx)].
  intros Hb. destruct (HC _ _ Hx) as (C1 & _ & C3 & _). specialize (Hatt c x Hx (C3 _ Hb)).
  rewrite C1 in Hatt; [discriminate|]. rewrite Hb. discriminate.
Qed.

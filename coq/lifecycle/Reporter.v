(* The Close protocol of the RTCP report goroutines (pkg/rtpreceiver/receiver.go: Close / run / report,
   pkg/rtpsender/sender.go: Close / run / report), as an interleaving model.

     Close():  close(terminate); <-done
     run():    defer close(done)
               [Sender only: select { <-firstPacket: report(); WritePacketRTCP | <-terminate: return }]
               for { select { <-t.C: report() (mutex.Lock ... Unlock); WritePacketRTCP(...) | <-terminate: return } }
     users:    ProcessPacket / ProcessSenderReport / Stats ...: mutex.Lock ... Unlock, any number of times,
               from any number of goroutines (they exclude each other, so they are ONE environment thread here)

   Every thread is a program counter; a step is one atomic action of one thread; the scheduler is arbitrary.
   The ticker delivers any finite number of ticks at any moments, the users perform any finite number of
   critical sections.  THEOREMS (Props_C13.v): every schedule is finite (measure), and in every state where no
   thread can move, Close has been called and HAS RETURNED, the goroutine has exited and the mutex is free -
   for all tick counts, all user activity, all interleavings.  The same model with Close holding the mutex
   while it waits (the shape of seeded change C13-4) has a reachable deadlock (Example).
   Tie to the code: GVG.Skel.skel_recv_close / skel_recv_run / skel_send_close / skel_send_run (tools/syncskel,
   regenerated on every run) must be the skeletons this model was written from (SkelReporter below). *)
From Coq Require Import List Arith Lia Bool NArith.
Import ListNotations.

Inductive rpc := RFirst | RSel | RLock | RIn | RCb | RDone.
Inductive kpc := KIdle | KWait | KDone.
Inductive own := Free | ORep | OUser | OCloser.

Record cfg := mkCfg {
  rp : rpc;            (* the report goroutine *)
  kp : kpc;            (* the goroutine calling Close *)
  term : bool;         (* terminate is closed *)
  done : bool;         (* done is closed *)
  owner : own;         (* the mutex *)
  tick : bool;         (* the ticker channel holds a value *)
  ticks : nat;         (* ticks the environment may still deliver *)
  firstpkt : bool;     (* Sender: firstPacket is closed *)
  uin : bool;          (* a user is inside its critical section *)
  uops : nat }.        (* critical sections the users may still enter *)

Inductive label := LClose | LTick | LRepWake | LRepTerm | LRep | LRepNil | LUser.

(* [hold]: the variant under test - false = the code as it is; true = Close takes the mutex first and keeps it
   while waiting for done (seeded change C13-4) *)
Definition step (hold : bool) (l : label) (c : cfg) : option cfg :=
  match l with
  | LClose =>
      match kp c with
      | KIdle =>
          if hold then
            match owner c with
            | Free => Some (mkCfg (rp c) KWait true (done c) OCloser (tick c) (ticks c) (firstpkt c) (uin c) (uops c))
            | _ => None
            end
          else Some (mkCfg (rp c) KWait true (done c) (owner c) (tick c) (ticks c) (firstpkt c) (uin c) (uops c))
      | KWait =>
          if done c
          then Some (mkCfg (rp c) KDone (term c) (done c) (if hold then Free else owner c) (tick c) (ticks c) (firstpkt c) (uin c) (uops c))
          else None
      | KDone => None
      end
  | LTick =>
      match ticks c with
      | O => None
      | S n => Some (mkCfg (rp c) (kp c) (term c) (done c) (owner c) true n (firstpkt c) (uin c) (uops c))
      end
  | LRepWake =>      (* select takes the tick (or, at the Sender's first select, firstPacket) *)
      match rp c with
      | RSel => if tick c then Some (mkCfg RLock (kp c) (term c) (done c) (owner c) false (ticks c) (firstpkt c) (uin c) (uops c)) else None
      | RFirst => if firstpkt c then Some (mkCfg RLock (kp c) (term c) (done c) (owner c) (tick c) (ticks c) (firstpkt c) (uin c) (uops c)) else None
      | _ => None
      end
  | LRepTerm =>      (* select takes terminate: return; the deferred close(done) *)
      match rp c with
      | RSel | RFirst => if term c then Some (mkCfg RDone (kp c) (term c) true (owner c) (tick c) (ticks c) (firstpkt c) (uin c) (uops c)) else None
      | _ => None
      end
  | LRep =>
      match rp c with
      | RLock => match owner c with
                 | Free => Some (mkCfg RIn (kp c) (term c) (done c) ORep (tick c) (ticks c) (firstpkt c) (uin c) (uops c))
                 | _ => None
                 end
      | RIn => Some (mkCfg RCb (kp c) (term c) (done c) Free (tick c) (ticks c) (firstpkt c) (uin c) (uops c))   (* Unlock; report != nil *)
      | RCb => Some (mkCfg RSel (kp c) (term c) (done c) (owner c) (tick c) (ticks c) (firstpkt c) (uin c) (uops c)) (* WritePacketRTCP returned *)
      | _ => None
      end
  | LRepNil =>       (* Unlock; report == nil: no callback *)
      match rp c with
      | RIn => Some (mkCfg RSel (kp c) (term c) (done c) Free (tick c) (ticks c) (firstpkt c) (uin c) (uops c))
      | _ => None
      end
  | LUser =>
      if uin c then Some (mkCfg (rp c) (kp c) (term c) (done c) Free (tick c) (ticks c) true false (uops c))
      else match uops c, owner c with
           | S n, Free => Some (mkCfg (rp c) (kp c) (term c) (done c) OUser (tick c) (ticks c) (firstpkt c) true n)
           | _, _ => None
           end
  end.

Definition labels : list label := [LClose; LTick; LRepWake; LRepTerm; LRep; LRepNil; LUser].
Definition stuck (hold : bool) (c : cfg) : Prop := forall l, step hold l c = None.
Definition stuckb (hold : bool) (c : cfg) : bool :=
  forallb (fun l => match step hold l c with None => true | Some _ => false end) labels.

Fixpoint run (hold : bool) (ls : list label) (c : cfg) : option cfg :=
  match ls with
  | [] => Some c
  | l :: t => match step hold l c with Some c' => run hold t c' | None => None end
  end.

(* a Receiver starts at the loop, a Sender at its first select *)
Definition init (sender : bool) (nticks nusers : nat) : cfg :=
  mkCfg (if sender then RFirst else RSel) KIdle false false Free false nticks false false nusers.

(* ---------------- invariant ---------------- *)
Definition Inv (c : cfg) : Prop :=
  (owner c = ORep <-> rp c = RIn) /\
  (owner c = OUser <-> uin c = true) /\
  owner c <> OCloser /\
  (done c = true <-> rp c = RDone) /\
  (term c = true <-> kp c <> KIdle) /\
  (kp c = KDone -> done c = true) /\
  (done c = true -> term c = true).

(* ---------------- measure ---------------- *)
Definition rw (r : rpc) : nat := match r with RFirst => 6 | RSel => 1 | RLock => 4 | RIn => 3 | RCb => 2 | RDone => 0 end.
Definition kw (k : kpc) : nat := match k with KIdle => 2 | KWait => 1 | KDone => 0 end.
Definition measure (c : cfg) : nat :=
  5 * ticks c + (if tick c then 4 else 0) + rw (rp c) + kw (kp c) + 2 * uops c + (if uin c then 1 else 0).

(* ---------------- the synchronisation skeletons this model was written from ---------------- *)
Open Scope N_scope.
(* Close: close(ch) <-ch *)
Definition expected_close : list N := [20; 21].
(* Receiver.run: defer close(ch) defer for[ select <-ch {report: Lock defer Unlock if( return )if callback() if( )if if( )if return}
                 if( callback() )if <-ch return ]for *)
Definition expected_recv_run : list N :=
  [16; 20; 16; 10; 23; 21; 1; 16; 2; 12; 15; 14; 52; 12; 14; 12; 14; 15; 12; 52; 14; 21; 15; 11].
(* Sender.run: defer close(ch) if( return )if select <-ch {report: RLock defer RUnlock return} callback() <-ch return
               defer for[ select <-ch {report} callback() <-ch return ]for *)
Definition expected_send_run : list N :=
  [16; 20; 12; 15; 14; 23; 21; 6; 16; 7; 15; 52; 21; 15; 16; 10; 23; 21; 6; 16; 7; 15; 52; 21; 15; 11].
Close Scope N_scope.

From Coq Require Extraction ExtrOcamlBasic.
From GV_lifecycle Require Import Model.
Extraction Language OCaml.
Extraction "model.ml" run.

(* C07, rtpvp8 — statements only *)
From GVL Require Import NList Rtp.
From GV_vp8 Require Import Model Proofs.
Open Scope N_scope.

(* After ANY packet history (loss, duplication, reordering, foreign or hostile packets), an intact
   frame - with any sequence numbers, whatever happened to its predecessor - is returned exactly at
   its last packet, "more" before, and the decoder is clean afterwards. *)
Theorem C07_vp8_resync : forall max hist f s,
  2 <= max mod 65536 -> valid_frame f ->
  let d0 := fst (dec_run dinit hist) in
  exists ps d', enc max s f = Some (ps, seq_add s (nlen ps)) /\
    dec_run d0 ps = (d', repeat DMore (length ps - 1) ++ [DFrame f]) /\ clean d'.
Proof. exact resync. Qed.
Print Assumptions C07_vp8_resync.

Theorem C07_vp8_no_panic : forall hist, ~ In DPanic (snd (dec_run dinit hist)).
Proof. exact total. Qed.
Print Assumptions C07_vp8_no_panic.

Example C07_vp8_example : (* last packet of a 3-packet frame lost, then an intact frame *)
  option_map (fun pss => snd (dec_run dinit (removelast (hd [] pss) ++ concat (tl pss))))
             (enc_many 3 10 [[1; 2; 3; 4; 5]; [6; 7; 8]])
  = Some [DMore; DMore; DMore; DFrame [6; 7; 8]].
Proof. vm_compute. reflexivity. Qed.

(* C07, rtpvp8 — statements only *)
From GVL Require Import NList Rtp.
From GV_vp8 Require Import Model Proofs.
Open Scope N_scope.

(* After ANY packet history (loss, duplication, reordering, foreign or hostile packets), an intact
   frame - with any sequence numbers, whatever happened to its predecessor - is returned exactly at
   its last packet, "more" before, and the decoder is clean afterwards. *)
Theorem C07_vp8_resync : forall max hist f s,
  2 <= max mod 65536 -> valid_frame f ->
  let d0 := fst (dec_run dinit hist) in
  exists ps d', enc max s f = Some (ps, seq_add s (nlen ps)) /\
    dec_run d0 ps = (d', repeat DMore (length ps - 1) ++ [DFrame f]) /\ clean d'.
Proof. exact resync. Qed.
Print Assumptions C07_vp8_resync.

Theorem C07_vp8_no_panic : forall hist, ~ In DPanic (snd (dec_run dinit hist)).
Proof. exact total. Qed.
Print Assumptions C07_vp8_no_panic.

Example C07_vp8_example : (* last packet of a 3-packet frame lost, then an intact frame *)
  option_map (fun pss => snd (dec_run dinit (removelast (hd [] pss) ++ concat (tl pss))))
             (enc_many 3 10 [[1; 2; 3; 4; 5]; [6; 7; 8]])
  = Some [DMore; DMore; DMore; DFrame [6; 7; 8]].
Proof. vm_compute. reflexivity. Qed.

(* ---- the translated kernels (tools/go2coq, spec.d/vp8.txt) ----
   The S and PID fields read by pion's VP8Packet.Unmarshal and decodeFrameChunk's tests - vpkt.S == 1 && vpkt.PID == 0,
   d.frameNextSeqNum = pkt.SequenceNumber + 1, d.frameBufferSize == 0, pkt.SequenceNumber != d.frameNextSeqNum,
   d.frameNextSeqNum++ - ARE the expressions of Model.vp8_unmarshal / chunk_of. *)
From Coq Require Import ZArith.
From GVG Require Import Kern.
From GV_vp8 Require Import BridgeLib Bridge.
Open Scope Z_scope.
Theorem C07_vp8_kernels_are_the_code : forall (b0 s pid seq next fs : N), byte b0 -> u16 seq -> u16 next ->
  k_vp8_pion_S (Z.of_N b0) = Z.of_N (bit b0 4) /\
  k_vp8_pion_PID (Z.of_N b0) = Z.of_N (b0 mod 8) /\
  k_vp8_dec_start (Z.of_N s) (Z.of_N pid) = ((s =? 1)%N && (pid =? 0)%N) /\
  k_vp8_dec_nextseq (Z.of_N seq) = Z.of_N (seq_next seq) /\
  k_vp8_dec_nobuf (Z.of_N fs) = (fs =? 0)%N /\
  k_vp8_dec_gap (Z.of_N seq) (Z.of_N next) = negb (seq =? next)%N /\
  k_vp8_dec_incseq (Z.of_N next) = Z.of_N (seq_next next).
Proof. exact resync_kernels_are_the_code. Qed.
Print Assumptions C07_vp8_kernels_are_the_code.

Example C07_vp8_example_kernels :
  k_vp8_pion_S 16 = 1 /\ k_vp8_pion_S 239 = 0 /\ k_vp8_pion_PID 23 = 7 /\ k_vp8_dec_start 1 0 = true /\
  k_vp8_dec_start 1 1 = false /\ k_vp8_dec_nextseq 65535 = 0 /\ k_vp8_dec_gap 5 5 = false /\ k_vp8_dec_gap 6 5 = true.
Proof. vm_compute. repeat split. Qed.

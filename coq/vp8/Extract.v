From Coq Require Extraction ExtrOcamlBasic.
From GV_vp8 Require Import Model.
Extraction Language OCaml.
Extraction "model.ml" run.

(* BRIDGE: the integer formulas of pkg/format/rtpvp8 (encoder.go, decoder.go) and of the pion/rtp/codecs functions they
   call (VP8Payloader.Payload, minInt, the S / PID fields of VP8Packet.Unmarshal; module version pinned by /repo/go.mod),
   as TRANSLATED from the Go source on this run (GVG.Kern, tools/go2coq, spec.d/vp8.txt), are the formulas of Model.v:
   mtu = PayloadMaxSize mod 2^16, the fragment budget mtu - vp8HeaderSize, the "nothing to send" test, the fragment
   sizes (= the pieces of chunks), the marker position, the sequence number step; the decoder's start test, continuity
   test, empty-chunk test, accumulation and cap. *)
From Coq Require Import ZArith NArith List Lia Bool.
From Coq Require Import ZifyBool ZifyN.
From GVL Require Import NList Wrap Chunks Rtp.
From GVG Require Import Consts Kern.
From GV_vp8 Require Import Model BridgeLib.
Import ListNotations.
Open Scope Z_scope.

Definition byte (b : N) : Prop := (b < 256)%N.
Definition u16 (s : N) : Prop := (s < 65536)%N.

(* ---------- encoder ---------- *)

(* e.vp.Payload(uint16(e.PayloadMaxSize), frame): the mtu of Model.enc *)
Lemma bridge_mtu (max : N) : k_vp8_mtu (Z.of_N max) = Z.of_N (max mod 65536).
Proof. unfold k_vp8_mtu, w16. rewrite N2Z.inj_mod by lia. reflexivity. Qed.

(* maxFragmentSize := int(mtu) - usingHeaderSize, usingHeaderSize := vp8HeaderSize *)
Lemma bridge_maxfrag (mtu : N) : u16 mtu -> Z.of_N hsz < i64max ->
  k_vp8_pion_maxfrag (Z.of_N mtu) (k_vp8_pion_hdr (Z.of_N hsz)) = Z.of_N mtu - Z.of_N hsz.
Proof.
  unfold u16, i64max, k_vp8_pion_maxfrag, k_vp8_pion_hdr. intros H1 H2. rewrite (ki64_small (Z.of_N mtu)) by lia.
  rewrite ki64_small by lia. reflexivity.
Qed.

Lemma bridge_min a b : k_vp8_pion_min a b = Z.min a b.
Proof. unfold k_vp8_pion_min. destruct (Z.ltb_spec a b); lia. Qed.

(* if minInt(maxFragmentSize, payloadDataRemaining) <= 0 { return payloads }  -- the None of Model.enc *)
Lemma bridge_none (mtu : N) (frame : bytes) : u16 mtu -> Z.of_N hsz < i64max ->
  k_vp8_pion_none (k_vp8_pion_min (k_vp8_pion_maxfrag (Z.of_N mtu) (k_vp8_pion_hdr (Z.of_N hsz))) (Z.of_N (nlen frame)))
  = ((mtu <=? hsz)%N || (nlen frame =? 0)%N).
Proof.
  intros H1 H2. rewrite bridge_maxfrag by assumption. rewrite bridge_min. unfold k_vp8_pion_none.
  destruct (N.leb_spec mtu hsz), (N.eqb_spec (nlen frame) 0); cbn [orb]; lia.
Qed.

(* the loop: currentFragmentSize := minInt(maxFragmentSize, payloadDataRemaining); make([]byte, usingHeaderSize+cur);
   payloadDataRemaining -= cur   --  one step of chunks (mtu - hsz) *)
Lemma bridge_fragment (mtu : N) (rest : bytes) : u16 mtu -> (hsz < mtu)%N -> Z.of_N (nlen rest) < i64max ->
  let n := (mtu - hsz)%N in
  let cur := k_vp8_pion_min (k_vp8_pion_maxfrag (Z.of_N mtu) (k_vp8_pion_hdr (Z.of_N hsz))) (Z.of_N (nlen rest)) in
  cur = Z.of_N (nlen (ntake n rest)) /\
  k_vp8_pion_outsize (k_vp8_pion_hdr (Z.of_N hsz)) cur = Z.of_N (hsz + nlen (ntake n rest)) /\
  k_vp8_pion_rem (Z.of_N (nlen rest)) cur = Z.of_N (nlen (ndrop n rest)).
Proof.
  intros H1 H2 H3 n cur. unfold u16, i64max in H1, H3.
  assert (E : cur = Z.of_N (nlen (ntake n rest))).
  { unfold cur. rewrite bridge_maxfrag by (unfold u16, i64max; lia). rewrite bridge_min, nlen_ntake. unfold n. lia. }
  split; [exact E|]. rewrite E. unfold k_vp8_pion_outsize, k_vp8_pion_rem, k_vp8_pion_hdr.
  rewrite nlen_ndrop. pose proof (nlen_ntake n rest) as T. unfold n in *.
  rewrite !ki64_small by lia. lia.
Qed.

Lemma bridge_marker (i pc : N) : Z.of_N pc < i64max -> (1 <= pc)%N ->
  k_vp8_marker (Z.of_N i) (Z.of_N pc) = (i + 1 =? pc)%N.
Proof.
  unfold k_vp8_marker, i64max. intros H1 H2. rewrite ki64_small by lia.
  destruct (Z.eqb_spec (Z.of_N i) (Z.of_N pc - 1)), (N.eqb_spec (i + 1) pc); lia.
Qed.

Lemma mk_pkts_marker : forall (cs : list bytes) seq first i, (i < length cs)%nat ->
  nth i (map pmarker (mk_pkts seq first cs)) false = (N.of_nat i + 1 =? nlen cs)%N.
Proof.
  induction cs as [|c t IH]; intros seq first i Hi; cbn [length] in Hi; [lia|].
  cbn [mk_pkts map pmarker]. destruct i as [|i]; cbn [nth].
  - destruct t as [|c' t']; cbn [nlen]; [reflexivity|].
    match goal with |- context [N.eqb ?a ?b] => destruct (N.eqb_spec a b) as [E|E] end; [lia|reflexivity].
  - rewrite IH by lia. cbn [nlen].
    repeat match goal with |- context [N.eqb ?a ?b] => destruct (N.eqb_spec a b) end; lia.
Qed.

Theorem enc_kernels_are_the_code (max mtu : N) (frame rest : bytes) (i pc s : N) :
  u16 mtu -> Z.of_N hsz < i64max -> (hsz < mtu)%N -> Z.of_N (nlen rest) < i64max -> (1 <= pc)%N -> Z.of_N pc < i64max ->
  k_vp8_mtu (Z.of_N max) = Z.of_N (max mod 65536) /\
  k_vp8_pion_none (k_vp8_pion_min (k_vp8_pion_maxfrag (Z.of_N mtu) (k_vp8_pion_hdr (Z.of_N hsz))) (Z.of_N (nlen frame)))
    = ((mtu <=? hsz)%N || (nlen frame =? 0)%N) /\
  (let n := (mtu - hsz)%N in
   let cur := k_vp8_pion_min (k_vp8_pion_maxfrag (Z.of_N mtu) (k_vp8_pion_hdr (Z.of_N hsz))) (Z.of_N (nlen rest)) in
   cur = Z.of_N (nlen (ntake n rest)) /\
   k_vp8_pion_outsize (k_vp8_pion_hdr (Z.of_N hsz)) cur = Z.of_N (hsz + nlen (ntake n rest)) /\
   k_vp8_pion_rem (Z.of_N (nlen rest)) cur = Z.of_N (nlen (ndrop n rest))) /\
  k_vp8_marker (Z.of_N i) (Z.of_N pc) = (i + 1 =? pc)%N /\
  k_vp8_seq (Z.of_N s) = Z.of_N (seq_next s).
Proof.
  intros H1 H2 H3 H4 H5 H6. split; [apply bridge_mtu|]. split; [apply bridge_none; assumption|].
  split; [apply bridge_fragment; assumption|]. split; [apply bridge_marker; assumption|].
  unfold k_vp8_seq, seq_next. apply w16_succ_N.
Qed.

(* ---------- decoder: start / continuity tests (C07) ---------- *)

Lemma bridge_S (b : N) : byte b -> k_vp8_pion_S (Z.of_N b) = Z.of_N (bit b 4).
Proof.
  unfold byte, k_vp8_pion_S, bit. intros H.
  pose proof (land_byte (Z.of_N b) 16 ltac:(lia) ltac:(lia)) as L. rewrite (w8_small (Z.land _ _)) by lia.
  rewrite Z.shiftr_land. change (Z.shiftr 16 4) with (Z.ones 1). rewrite Z.land_ones by lia.
  rewrite Z.shiftr_div_pow2 by lia. change (2 ^ 1) with 2. change (2 ^ 4) with 16.
  rewrite N2Z.inj_mod, N2Z.inj_div. change (Z.of_N (2 ^ 4)) with 16. change (Z.of_N 2) with 2.
  apply w8_small. pose proof (Z.mod_pos_bound (Z.of_N b / 16) 2 ltac:(lia)). lia.
Qed.
Lemma bridge_PID (b : N) : byte b -> k_vp8_pion_PID (Z.of_N b) = Z.of_N (b mod 8).
Proof.
  unfold byte, k_vp8_pion_PID. intros H. change 7 with (Z.ones 3). rewrite Z.land_ones by lia. change (2 ^ 3) with 8.
  rewrite N2Z.inj_mod. change (Z.of_N 8) with 8. apply w8_small. pose proof (Z.mod_pos_bound (Z.of_N b) 8 ltac:(lia)). lia.
Qed.

Theorem resync_kernels_are_the_code (b0 s pid seq next fs : N) : byte b0 -> u16 seq -> u16 next ->
  k_vp8_pion_S (Z.of_N b0) = Z.of_N (bit b0 4) /\
  k_vp8_pion_PID (Z.of_N b0) = Z.of_N (b0 mod 8) /\
  k_vp8_dec_start (Z.of_N s) (Z.of_N pid) = ((s =? 1)%N && (pid =? 0)%N) /\
  k_vp8_dec_nextseq (Z.of_N seq) = Z.of_N (seq_next seq) /\
  k_vp8_dec_nobuf (Z.of_N fs) = (fs =? 0)%N /\
  k_vp8_dec_gap (Z.of_N seq) (Z.of_N next) = negb (seq =? next)%N /\
  k_vp8_dec_incseq (Z.of_N next) = Z.of_N (seq_next next).
Proof.
  intros H0 _ _. split; [apply bridge_S; exact H0|]. split; [apply bridge_PID; exact H0|].
  unfold k_vp8_dec_start, k_vp8_dec_nextseq, k_vp8_dec_nobuf, k_vp8_dec_gap, k_vp8_dec_incseq, seq_next.
  rewrite !w16_succ_N, eqb_N. change 1 with (Z.of_N 1). change 0 with (Z.of_N 0). rewrite !eqb_N. repeat split.
Qed.

(* ---------- decoder: empty chunk, accumulation, cap (C08) ---------- *)
Theorem caps_kernels_are_the_code (chunk : bytes) (fs : N) : Z.of_N (fs + nlen chunk) < i64max ->
  k_vp8_dec_empty (Z.of_N (nlen chunk)) = (nlen chunk =? 0)%N /\
  k_vp8_dec_acc (Z.of_N fs) (Z.of_N (nlen chunk)) = Z.of_N (fs + nlen chunk) /\
  k_vp8_dec_cap (k_vp8_dec_acc (Z.of_N fs) (Z.of_N (nlen chunk))) (Z.of_N cap) = (cap <? fs + nlen chunk)%N.
Proof.
  unfold i64max, k_vp8_dec_empty, k_vp8_dec_acc, k_vp8_dec_cap. intros H. rewrite ki64_small by lia.
  rewrite <- N2Z.inj_add. split; [exact (eqb_N (nlen chunk) 0)|]. split; [reflexivity|apply gtb_N].
Qed.

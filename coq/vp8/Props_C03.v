(* C03, rtpvp8 — statements only *)
From GVL Require Import NList Rtp.
From GV_vp8 Require Import Model Proofs.
Open Scope N_scope.

(* one frame: for every payload limit whose 16-bit truncation (pion's mtu is a uint16) is >= 2,
   every initial sequence number, every non-empty frame of at most vp8.MaxFrameSize bytes, from
   EVERY decoder state (the S bit of the first packet discards whatever was buffered): "more" on
   every packet but the last, exactly the frame at the last, clean afterwards *)
Theorem C03_vp8_roundtrip : forall max seq frame d,
  2 <= max mod 65536 -> valid_frame frame ->
  exists ps d', enc max seq frame = Some (ps, seq_add seq (nlen ps)) /\
    dec_run d ps = (d', repeat DMore (length ps - 1) ++ [DFrame frame]) /\ clean d'.
Proof. exact roundtrip. Qed.
Print Assumptions C03_vp8_roundtrip.

(* consecutive frames through one encoder/decoder pair *)
Theorem C03_vp8_roundtrip_seq : forall max frames,
  2 <= max mod 65536 -> Forall valid_frame frames -> forall seq d,
  exists pss d', enc_many max seq frames = Some pss /\
    dec_run d (concat pss) = (d', expect pss frames) /\ (frames <> [] -> clean d').
Proof. exact roundtrip_seq. Qed.
Print Assumptions C03_vp8_roundtrip_seq.

Example C03_vp8_example :
  option_map (fun r => (map ppayload (fst r), snd (dec_run dinit (fst r)))) (enc 4 65535 [1; 2; 3; 4; 5; 6; 7])
  = Some ([[16; 1; 2; 3]; [0; 4; 5; 6]; [0; 7]], [DMore; DMore; DFrame [1; 2; 3; 4; 5; 6; 7]])
  /\ valid_frame [1; 2; 3; 4; 5; 6; 7].
Proof. split; [vm_compute; reflexivity|]. split; [discriminate|]. unfold cap, GVG.Consts.vp8_max_frame. cbn. lia. Qed.

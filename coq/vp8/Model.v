(* Executable model of pkg/format/rtpvp8 (encoder.go, decoder.go) and of the parts of
   pion/rtp/codecs (vp8_packet.go) they use: VP8Payloader.Payload with EnablePictureID = false
   (the 1-byte descriptor) and VP8Packet.Unmarshal.  Proof-free. *)
From GVL Require Import NList Wire Chunks Rtp.
From GVG Require Import Consts.
Open Scope N_scope.

Definition cap : N := vp8_max_frame.          (* vp8.MaxFrameSize *)
Definition hsz : N := vp8_header_size.        (* codecs.vp8HeaderSize *)

(* ---- encoder ---- *)
(* first payload: descriptor 0x10 (S=1, PID=0); the others: 0x00 *)
Fixpoint mk_pkts (seq : N) (first : bool) (cs : list bytes) : list packet :=
  match cs with
  | [] => []
  | c :: t =>
    mkPkt seq 0 (match t with [] => true | _ => false end) ((if first then 16 else 0) :: c)
    :: mk_pkts (seq_next seq) false t
  end.

(* Encode: e.vp.Payload(uint16(PayloadMaxSize), frame); maxFragmentSize = mtu - 1;
   min(maxFragmentSize, len(frame)) <= 0 => nil => panic("should not happen") (None) *)
Definition enc (max seq : N) (frame : bytes) : option (list packet * N) :=
  let mtu := max mod 65536 in
  if (mtu <=? hsz) || (nlen frame =? 0) then None else
  let cs := chunks (mtu - hsz) frame in
  Some (mk_pkts seq true cs, seq_add seq (nlen cs)).

Fixpoint enc_many (max seq : N) (frames : list bytes) : option (list (list packet)) :=
  match frames with
  | [] => Some []
  | f :: t =>
    match enc max seq f with
    | None => None
    | Some (ps, seq') =>
      match enc_many max seq' t with
      | None => None
      | Some r => Some (ps :: r)
      end
    end
  end.

(* ---- codecs.VP8Packet.Unmarshal: S, PID and the payload after the descriptor ---- *)
Inductive rr (A : Type) := RErr | RPanic | ROk (a : A).
Arguments RErr {A}. Arguments RPanic {A}. Arguments ROk {A} a.
Inductive ures := UErr | UPanic | UOk (s pid : N) (payload : bytes).

Definition bit (b k : N) : N := (b / 2 ^ k) mod 2.

Definition vp8_unmarshal (pl : bytes) : ures :=
  let len := nlen pl in
  if len <=? 0 then UErr else                       (* nil / short packet *)
  match nnth 0 pl with
  | None => UPanic
  | Some b0 =>
    let x := bit b0 7 in
    let s := bit b0 4 in
    let pid := b0 mod 8 in
    (* extended control bits *)
    match (if x =? 1 then
             if len <=? 1 then RErr else
             match nnth 1 pl with None => RPanic | Some b1 => ROk (b1, 2) end
           else ROk (0, 1)) with
    | RErr => UErr
    | RPanic => UPanic
    | ROk (b1, i1) =>
      let fI := if x =? 1 then bit b1 7 else 0 in
      let fL := if x =? 1 then bit b1 6 else 0 in
      let fT := if x =? 1 then bit b1 5 else 0 in
      let fK := if x =? 1 then bit b1 4 else 0 in
      (* picture ID, 7 or 15 bits *)
      match (if fI =? 1 then
               if len <=? i1 then RErr else
               match nnth i1 pl with
               | None => RPanic
               | Some m => if bit m 7 =? 1 then (if len <=? i1 + 1 then RErr else ROk (i1 + 2))
                           else ROk (i1 + 1)
               end
             else ROk i1) with
      | RErr => UErr
      | RPanic => UPanic
      | ROk i2 =>
        (* TL0PICIDX *)
        match (if fL =? 1 then if len <=? i2 then RErr else ROk (i2 + 1) else ROk i2) with
        | RErr => UErr
        | RPanic => UPanic
        | ROk i3 =>
          (* TID / KEYIDX *)
          match (if (fT =? 1) || (fK =? 1) then if len <=? i3 then RErr else ROk (i3 + 1) else ROk i3) with
          | RErr => UErr
          | RPanic => UPanic
          | ROk i4 =>
            if len <? i4 then UPanic                 (* payload[payloadIndex:] *)
            else UOk s pid (ndrop i4 pl)
          end
        end
      end
    end
  end.

(* ---- decoder ---- *)
(* firstPacketReceived only selects between two error values; errors are one class here *)
Record dstate := mkD { dbuf : list bytes; dsize : N; dnext : N }.
Definition dinit : dstate := mkD [] 0 0.
Definition dreset : dstate := mkD [] 0 0.             (* resetFrameBuffer *)

Fixpoint join_aux (frags : list bytes) (size n : N) : option bytes :=
  match frags with
  | [] => Some (nrep 0 (size - n))
  | p :: t =>
      if size <? n then None else
      let c := ntake (size - n) p in
      match join_aux t size (n + nlen c) with
      | Some r => Some (c ++ r)
      | None => None
      end
  end.
Definition join (frags : list bytes) (size : N) : option bytes := join_aux frags size 0.

(* decodeFrameChunk: the state after it and the chunk, or an error *)
Definition chunk_of (d : dstate) (p : packet) : dstate * rr bytes :=
  match vp8_unmarshal (ppayload p) with
  | UErr => (dreset, RErr)
  | UPanic => (d, RPanic)
  | UOk s pid chunk =>
    if nlen chunk =? 0 then (dreset, RErr) else
    if (s =? 1) && (pid =? 0) then (mkD [] 0 (seq_next (pseq p)), ROk chunk)
    else if dsize d =? 0 then (d, RErr)
    else if negb (pseq p =? dnext d) then (dreset, RErr)
    else (mkD (dbuf d) (dsize d) (seq_next (dnext d)), ROk chunk)
  end.

Definition dec (d : dstate) (p : packet) : dstate * dres bytes :=
  match chunk_of d p with
  | (d1, RErr) => (d1, DErr)
  | (d1, RPanic) => (d1, DPanic)
  | (d1, ROk chunk) =>
    let size' := dsize d1 + nlen chunk in
    if cap <? size' then (dreset, DErr) else
    let d2 := mkD (dbuf d1 ++ [chunk]) size' (dnext d1) in
    if negb (pmarker p) then (d2, DMore) else
    match join (dbuf d2) size' with
    | Some f => (dreset, DFrame f)
    | None => (d2, DPanic)
    end
  end.

Fixpoint dec_run (d : dstate) (ps : list packet) : dstate * list (dres bytes) :=
  match ps with
  | [] => (d, [])
  | p :: t => let '(d', r) := dec d p in let '(d'', rs) := dec_run d' t in (d'', r :: rs)
  end.

Definition retained (d : dstate) : N * N := (nlen (concat (dbuf d)), nlen (dbuf d)).

(* ---- wire ---- *)
Definition put_res (r : dres bytes) : list N :=
  match r with
  | DFrame f => 1 :: 1 :: putl f
  | DMore => [0]
  | DErr => [2]
  | DPanic => [77]
  end.

Fixpoint get_uframes (fuel : list N) (k : N) (l : list N) : option (list bytes) :=
  if k =? 0 then Some [] else
  match fuel with
  | [] => None
  | _ :: fuel' =>
    match l with
    | 1 :: r0 =>
      match getl r0 with
      | None => None
      | Some (f, r) => option_map (cons f) (get_uframes fuel' (N.pred k) r)
      end
    | _ => None
    end
  end.

(* packets of a decode case; like GVL.Rtp.get_pkts but linear in the length of the line (the
   near-cap histories are lines of several million tokens) *)
Fixpoint take_n (n : N) (l : list N) {struct l} : option (list N * list N) :=
  match l with
  | [] => if n =? 0 then Some ([], []) else None
  | x :: t =>
    if n =? 0 then Some ([], l) else
    match take_n (N.pred n) t with
    | Some (a, r) => Some (x :: a, r)
    | None => None
    end
  end.

Fixpoint get_pkts_lin (fuel : list N) (k : N) (l : list N) : option (list packet) :=
  if k =? 0 then Some [] else
  match fuel with
  | [] => None
  | _ :: fuel' =>
    match l with
    | s :: t :: m :: n :: r =>
      match take_n n r with
      | Some (pl, r') => option_map (cons (mkPkt s t (getb m) pl)) (get_pkts_lin fuel' (N.pred k) r')
      | None => None
      end
    | _ => None
    end
  end.

Definition run (c : list N) : list N :=
  match c with
  | 1 :: _ :: max :: seq :: k :: t =>
      match get_uframes c k t with
      | Some frames =>
          let max' := if max =? 0 then vp8_default_max else max in
          match enc_many max' seq frames with
          | Some pss => put_pkts (concat pss)
          | None => [77]
          end
      | None => bad_case
      end
  | 2 :: _ :: k :: t =>
      match get_pkts_lin c k t with
      | Some ps =>
          let '(d, rs) := dec_run dinit ps in
          concat (map put_res rs) ++ [fst (retained d); snd (retained d)]
      | None => bad_case
      end
  | _ => bad_case
  end.

(* C06, rtpvp8 — statements only *)
From GVL Require Import NList Rtp.
From GV_vp8 Require Import Model Proofs.
Open Scope N_scope.

(* For every non-empty frame, every limit with 2 <= (max mod 2^16) and every initial sequence
   number: Encode does not panic, emits ceil(len/(mtu-1)) packets, every payload (1-byte
   descriptor + piece) has between 2 and min(max, max mod 2^16) bytes, the pieces concatenate to
   the frame, packet i carries sequence number seq+i mod 2^16, the marker is on the last packet and
   on no other, the encoder continues at seq+count. *)
Theorem C06_vp8_packets_wellformed : forall max seq frame,
  2 <= max mod 65536 -> frame <> [] -> seq < 65536 ->
  exists ps, enc max seq frame = Some (ps, seq_add seq (nlen ps)) /\
    ps <> [] /\
    concat (map (fun p => tl (ppayload p)) ps) = frame /\
    Forall (fun p => 2 <= nlen (ppayload p) /\ nlen (ppayload p) <= max mod 65536 /\ nlen (ppayload p) <= max) ps /\
    nlen ps = (nlen frame + (max mod 65536 - 1) - 1) / (max mod 65536 - 1) /\
    (forall i p, nnth i ps = Some p -> pseq p = seq_add seq i /\ pmarker p = (i + 1 =? nlen ps)).
Proof. exact enc_wellformed. Qed.
Print Assumptions C06_vp8_packets_wellformed.

Theorem C06_vp8_gapless_across_calls : forall max frames,
  2 <= max mod 65536 -> Forall (fun f => f <> []) frames -> forall seq, seq < 65536 ->
  exists pss, enc_many max seq frames = Some pss /\
    forall i p, nnth i (concat pss) = Some p -> pseq p = seq_add seq i.
Proof. exact enc_many_gapless. Qed.
Print Assumptions C06_vp8_gapless_across_calls.

Example C06_vp8_example :
  option_map (fun pss => (map pseq (concat pss), map pmarker (concat pss))) (enc_many 3 65534 [[1; 2; 3]; [4]; [5; 6]])
  = Some ([65534; 65535; 0; 1], [false; true; true; true]).
Proof. vm_compute. reflexivity. Qed.

(* ---- the translated kernels (tools/go2coq, spec.d/vp8.txt; regenerated from the Go source on every run) ----
   rtpvp8/encoder.go hands uint16(e.PayloadMaxSize) to pion's VP8Payloader.Payload, whose translated statements
   (maxFragmentSize := int(mtu) - usingHeaderSize, the minInt(...) <= 0 early return, currentFragmentSize :=
   minInt(maxFragmentSize, remaining), make([]byte, usingHeaderSize+cur), remaining -= cur) ARE the formulas of Model.enc:
   mtu = max mod 2^16, None iff mtu <= hsz or the frame is empty, pieces of chunks (mtu - hsz) (ntake / ndrop),
   payload = header + piece; Marker: i == plen-1 is "last packet"; e.sequenceNumber++ is seq_next. *)
From Coq Require Import ZArith.
From GVG Require Import Kern.
From GV_vp8 Require Import BridgeLib Bridge.
Open Scope Z_scope.
Theorem C06_vp8_kernels_are_the_code : forall (max mtu : N) (frame rest : bytes) (i pc s : N),
  u16 mtu -> Z.of_N hsz < i64max -> (hsz < mtu)%N -> Z.of_N (nlen rest) < i64max -> (1 <= pc)%N -> Z.of_N pc < i64max ->
  k_vp8_mtu (Z.of_N max) = Z.of_N (max mod 65536) /\
  k_vp8_pion_none (k_vp8_pion_min (k_vp8_pion_maxfrag (Z.of_N mtu) (k_vp8_pion_hdr (Z.of_N hsz))) (Z.of_N (nlen frame)))
    = ((mtu <=? hsz)%N || (nlen frame =? 0)%N) /\
  (let n := (mtu - hsz)%N in
   let cur := k_vp8_pion_min (k_vp8_pion_maxfrag (Z.of_N mtu) (k_vp8_pion_hdr (Z.of_N hsz))) (Z.of_N (nlen rest)) in
   cur = Z.of_N (nlen (ntake n rest)) /\
   k_vp8_pion_outsize (k_vp8_pion_hdr (Z.of_N hsz)) cur = Z.of_N (hsz + nlen (ntake n rest)) /\
   k_vp8_pion_rem (Z.of_N (nlen rest)) cur = Z.of_N (nlen (ndrop n rest))) /\
  k_vp8_marker (Z.of_N i) (Z.of_N pc) = (i + 1 =? pc)%N /\
  k_vp8_seq (Z.of_N s) = Z.of_N (seq_next s).
Proof. exact enc_kernels_are_the_code. Qed.
Print Assumptions C06_vp8_kernels_are_the_code.

Example C06_vp8_example_kernels :
  k_vp8_mtu 65537 = 1 /\ k_vp8_pion_maxfrag 1450 (k_vp8_pion_hdr (Z.of_N hsz)) = 1449 /\
  k_vp8_pion_none (k_vp8_pion_min (k_vp8_pion_maxfrag 1 1) 10) = true /\
  k_vp8_pion_none (k_vp8_pion_min (k_vp8_pion_maxfrag 2 1) 10) = false /\
  k_vp8_pion_outsize 1 1449 = 1450 /\ k_vp8_pion_rem 1450 1449 = 1 /\
  k_vp8_marker 1 2 = true /\ k_vp8_marker 0 2 = false /\ k_vp8_seq 65535 = 0.
Proof. vm_compute. repeat split. Qed.

(* C06, rtpvp8 — statements only *)
From GVL Require Import NList Rtp.
From GV_vp8 Require Import Model Proofs.
Open Scope N_scope.

(* For every non-empty frame, every limit with 2 <= (max mod 2^16) and every initial sequence
   number: Encode does not panic, emits ceil(len/(mtu-1)) packets, every payload (1-byte
   descriptor + piece) has between 2 and min(max, max mod 2^16) bytes, the pieces concatenate to
   the frame, packet i carries sequence number seq+i mod 2^16, the marker is on the last packet and
   on no other, the encoder continues at seq+count. *)
Theorem C06_vp8_packets_wellformed : forall max seq frame,
  2 <= max mod 65536 -> frame <> [] -> seq < 65536 ->
  exists ps, enc max seq frame = Some (ps, seq_add seq (nlen ps)) /\
    ps <> [] /\
    concat (map (fun p => tl (ppayload p)) ps) = frame /\
    Forall (fun p => 2 <= nlen (ppayload p) /\ nlen (ppayload p) <= max mod 65536 /\ nlen (ppayload p) <= max) ps /\
    nlen ps = (nlen frame + (max mod 65536 - 1) - 1) / (max mod 65536 - 1) /\
    (forall i p, nnth i ps = Some p -> pseq p = seq_add seq i /\ pmarker p = (i + 1 =? nlen ps)).
Proof. exact enc_wellformed. Qed.
Print Assumptions C06_vp8_packets_wellformed.

Theorem C06_vp8_gapless_across_calls : forall max frames,
  2 <= max mod 65536 -> Forall (fun f => f <> []) frames -> forall seq, seq < 65536 ->
  exists pss, enc_many max seq frames = Some pss /\
    forall i p, nnth i (concat pss) = Some p -> pseq p = seq_add seq i.
Proof. exact enc_many_gapless. Qed.
Print Assumptions C06_vp8_gapless_across_calls.

Example C06_vp8_example :
  option_map (fun pss => (map pseq (concat pss), map pmarker (concat pss))) (enc_many 3 65534 [[1; 2; 3]; [4]; [5; 6]])
  = Some ([65534; 65535; 0; 1], [false; true; true; true]).
Proof. vm_compute. reflexivity. Qed.

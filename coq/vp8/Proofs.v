(* rtpvp8: round trip (C03), packet well-formedness (C06), resynchronisation (C07),
   totality / boundedness on arbitrary histories (C08). *)
From GVL Require Import NList Wire Chunks Rtp.
From GVG Require Import Consts.
From GV_vp8 Require Import Model.
From Coq Require Import ZifyBool ZifyNat ZifyN.
Open Scope N_scope.
Ltac splits := repeat match goal with |- _ /\ _ => split end.

(* ---------- VP8Packet.Unmarshal ---------- *)
Lemma nnth_none_ge {A} (l : list A) i : nnth i l = None -> nlen l <= i.
Proof.
  intros H. destruct (N.ltb_spec i (nlen l)) as [Hlt|Hge]; [|exact Hge].
  destruct (nnth_lt l i Hlt) as (x & Hx). congruence.
Qed.

Ltac um_step :=
  match goal with
  | |- context [match nnth ?i ?l with _ => _ end] =>
      let E := fresh "En" in destruct (nnth i l) eqn:E; [|apply nnth_none_ge in E]
  | |- context [if ?b then _ else _] => let E := fresh "Eb" in destruct b eqn:E
  end.

Lemma unmarshal_total pl : vp8_unmarshal pl <> UPanic.
Proof.
  unfold vp8_unmarshal. repeat um_step; try discriminate; try lia.
Qed.

Lemma unmarshal_len pl s pid c : vp8_unmarshal pl = UOk s pid c -> nlen c <= nlen pl.
Proof.
  unfold vp8_unmarshal. repeat um_step; try discriminate; intros H; injection H as <- <- <-;
    rewrite nlen_ndrop; lia.
Qed.

Lemma unmarshal_start c : vp8_unmarshal (16 :: c) = UOk 1 0 c.
Proof.
  unfold vp8_unmarshal. cbn [nlen nnth N.eqb]. destruct (N.leb_spec (N.succ (nlen c)) 0); [lia|].
  change (bit 16 7) with 0. change (bit 16 4) with 1. change (16 mod 8) with 0. cbn [N.eqb orb].
  destruct (N.ltb_spec (N.succ (nlen c)) 1); [lia|]. cbn [ndrop N.eqb N.pred]. now rewrite ndrop_0.
Qed.

Lemma unmarshal_mid c : vp8_unmarshal (0 :: c) = UOk 0 0 c.
Proof.
  unfold vp8_unmarshal. cbn [nlen nnth N.eqb]. destruct (N.leb_spec (N.succ (nlen c)) 0); [lia|].
  change (bit 0 7) with 0. change (bit 0 4) with 0. change (0 mod 8) with 0. cbn [N.eqb orb].
  destruct (N.ltb_spec (N.succ (nlen c)) 1); [lia|]. cbn [ndrop N.eqb N.pred]. now rewrite ndrop_0.
Qed.

(* ---------- encoder facts (C06) ---------- *)
Lemma mk_pkts_chunks cs : forall seq first, map (fun p => tl (ppayload p)) (mk_pkts seq first cs) = cs.
Proof. induction cs as [|c t IH]; intros seq first; cbn [mk_pkts map ppayload tl]; [reflexivity|]. now rewrite IH. Qed.

Lemma mk_pkts_len cs : forall seq first, nlen (mk_pkts seq first cs) = nlen cs.
Proof. induction cs as [|c t IH]; intros seq first; cbn [mk_pkts nlen]; [reflexivity|]. now rewrite IH. Qed.

Lemma seq_add_next s k : seq_add (seq_next s) k = seq_add s (k + 1).
Proof. unfold seq_add, seq_next. rewrite N.add_mod_idemp_l by lia. f_equal. lia. Qed.
Lemma seq_add_0 s : s < 65536 -> seq_add s 0 = s.
Proof. intros H. unfold seq_add. rewrite N.add_0_r. now apply N.mod_small. Qed.
Lemma seq_add_add s a b : seq_add (seq_add s a) b = seq_add s (a + b).
Proof. unfold seq_add. rewrite N.add_mod_idemp_l by lia. f_equal. lia. Qed.
Lemma seq_add_lt s k : seq_add s k < 65536.
Proof. unfold seq_add. apply N.mod_lt. lia. Qed.

Lemma mk_pkts_seq cs : forall seq first i p, seq < 65536 -> nnth i (mk_pkts seq first cs) = Some p -> pseq p = seq_add seq i.
Proof.
  induction cs as [|c t IH]; intros seq first i p Hs H; cbn [mk_pkts nnth] in H; [discriminate|].
  destruct (N.eqb_spec i 0) as [->|Hi].
  - injection H as <-. cbn [pseq]. now rewrite seq_add_0.
  - apply IH in H; [|unfold seq_next; apply N.mod_lt; lia]. rewrite H, seq_add_next. f_equal. lia.
Qed.

Lemma mk_pkts_marker cs : forall seq first i p, nnth i (mk_pkts seq first cs) = Some p ->
  pmarker p = (i + 1 =? nlen cs).
Proof.
  induction cs as [|c t IH]; intros seq first i p H; cbn [mk_pkts nnth] in H; [discriminate|].
  destruct (N.eqb_spec i 0) as [->|Hi].
  - injection H as <-. cbn [pmarker nlen]. destruct t; cbn [nlen]; [reflexivity|].
    symmetry. apply N.eqb_neq. lia.
  - apply IH in H. rewrite H. cbn [nlen].
    destruct (N.eqb_spec (N.pred i + 1) (nlen t)); destruct (N.eqb_spec (i + 1) (N.succ (nlen t))); try reflexivity; lia.
Qed.

Lemma mk_pkts_sizes n cs : Forall (fun c => 0 < nlen c /\ nlen c <= n) cs -> forall seq first,
  Forall (fun p => 2 <= nlen (ppayload p) /\ nlen (ppayload p) <= n + 1) (mk_pkts seq first cs).
Proof.
  induction 1 as [|c t [H1 H2] Ht IH]; intros seq first; cbn [mk_pkts]; constructor; [|apply IH].
  cbn [ppayload nlen]. lia.
Qed.

Lemma hsz_1 : hsz = 1.
Proof. reflexivity. Qed.

(* every payload (descriptor + piece) within the limit, the pieces concatenate to the frame, the
   count is ceil(len/(mtu-1)), sequence numbers seq+i, marker on the last packet only *)
Theorem enc_wellformed max seq frame : 2 <= max mod 65536 -> frame <> [] -> seq < 65536 ->
  exists ps, enc max seq frame = Some (ps, seq_add seq (nlen ps)) /\
    ps <> [] /\
    concat (map (fun p => tl (ppayload p)) ps) = frame /\
    Forall (fun p => 2 <= nlen (ppayload p) /\ nlen (ppayload p) <= max mod 65536 /\ nlen (ppayload p) <= max) ps /\
    nlen ps = (nlen frame + (max mod 65536 - 1) - 1) / (max mod 65536 - 1) /\
    (forall i p, nnth i ps = Some p -> pseq p = seq_add seq i /\ pmarker p = (i + 1 =? nlen ps)).
Proof.
  intros Hm Hf Hs. unfold enc. rewrite hsz_1.
  destruct (N.leb_spec (max mod 65536) 1); [lia|].
  destruct (N.eqb_spec (nlen frame) 0) as [E|E]; [apply nlen_nil_iff in E; contradiction|]. cbn [orb].
  set (n := max mod 65536 - 1). assert (Hn : 0 < n) by (unfold n; lia).
  eexists. rewrite mk_pkts_len. split; [reflexivity|]. splits.
  - rewrite chunks_cons by assumption. discriminate.
  - rewrite mk_pkts_chunks. now apply chunks_concat.
  - pose proof (mk_pkts_sizes n _ (chunks_bounds n frame Hn) seq true) as H1.
    eapply Forall_impl; [|exact H1]. cbn. intros p [A B]. unfold n in B.
    pose proof (N.mod_le max 65536 ltac:(lia)). lia.
  - now apply chunks_count.
  - intros i p Hnth. split; [eapply mk_pkts_seq; eassumption|eapply mk_pkts_marker; eassumption].
Qed.

Lemma nnth_app_l {A} (l1 l2 : list A) i : i < nlen l1 -> nnth i (l1 ++ l2) = nnth i l1.
Proof.
  revert i; induction l1 as [|x t IH]; intros i H; cbn [nlen app nnth] in *; [lia|].
  destruct (N.eqb_spec i 0); [reflexivity|]. apply IH. lia.
Qed.
Lemma nnth_app_r {A} (l1 l2 : list A) i : nlen l1 <= i -> nnth i (l1 ++ l2) = nnth (i - nlen l1) l2.
Proof.
  revert i; induction l1 as [|x t IH]; intros i H; cbn [nlen app nnth] in *; [f_equal; lia|].
  destruct (N.eqb_spec i 0); [lia|]. rewrite IH by lia. f_equal. lia.
Qed.

Theorem enc_many_gapless max frames : 2 <= max mod 65536 -> Forall (fun f => f <> []) frames ->
  forall seq, seq < 65536 ->
  exists pss, enc_many max seq frames = Some pss /\
    forall i p, nnth i (concat pss) = Some p -> pseq p = seq_add seq i.
Proof.
  intros Hm. induction frames as [|f t IH]; intros Hne seq Hs; cbn [enc_many].
  - exists []. split; [reflexivity|]. intros i p H. cbn in H. discriminate.
  - inversion Hne as [|? ? Hf Ht]; subst.
    destruct (enc_wellformed max seq f Hm Hf Hs) as (ps & E & _ & _ & _ & _ & Hi).
    rewrite E. destruct (IH Ht (seq_add seq (nlen ps)) (seq_add_lt _ _)) as (pss & E2 & Hi2).
    rewrite E2. eexists. split; [reflexivity|]. intros i p H. cbn [concat] in H.
    destruct (N.ltb_spec i (nlen ps)) as [Hlt|Hge].
    + rewrite nnth_app_l in H by assumption. now apply Hi in H.
    + rewrite nnth_app_r in H by assumption. apply Hi2 in H. rewrite H, seq_add_add. f_equal. lia.
Qed.

(* ---------- decoder invariant (holds after any history) ---------- *)
Definition Inv (d : dstate) : Prop :=
  dsize d = nlen (concat (dbuf d)) /\ (dsize d = 0 -> dbuf d = []) /\
  Forall (fun f => 0 < nlen f) (dbuf d) /\ dsize d <= cap.
Definition clean (d : dstate) : Prop := dsize d = 0 /\ dbuf d = [].

Lemma cap_pos : 0 < cap.
Proof. unfold cap, vp8_max_frame. lia. Qed.
Lemma inv_init : Inv dinit.
Proof. unfold Inv, dinit; cbn. splits; auto. pose proof cap_pos. lia. Qed.
Lemma inv_reset : Inv dreset.
Proof. exact inv_init. Qed.
Lemma clean_reset : clean dreset.
Proof. split; reflexivity. Qed.

Lemma join_aux_exact frags : forall size n,
  size = n + nlen (concat frags) -> join_aux frags size n = Some (concat frags).
Proof.
  induction frags as [|p t IH]; intros size n Hs; cbn [join_aux concat] in *.
  - cbn [nlen] in Hs. replace (size - n) with 0 by lia. reflexivity.
  - rewrite nlen_app in Hs. destruct (N.ltb_spec size n); [lia|].
    rewrite ntake_all by lia. rewrite IH by lia. reflexivity.
Qed.
Lemma join_exact frags : join frags (nlen (concat frags)) = Some (concat frags).
Proof. unfold join. now apply join_aux_exact. Qed.
Lemma concat_snoc {A} (l : list (list A)) x : concat (l ++ [x]) = concat l ++ x.
Proof. rewrite concat_app. cbn. now rewrite app_nil_r. Qed.

(* decodeFrameChunk keeps the invariant; a returned chunk is not empty *)
Lemma chunk_of_inv d p : Inv d ->
  Inv (fst (chunk_of d p)) /\ snd (chunk_of d p) <> RPanic /\
  forall c, snd (chunk_of d p) = ROk c -> 0 < nlen c.
Proof.
  intros HI. unfold chunk_of. pose proof (unmarshal_total (ppayload p)) as Hnp.
  destruct (vp8_unmarshal (ppayload p)) as [| |s pid c]; [|contradiction|].
  { cbn [fst snd]. splits; [apply inv_reset|discriminate|discriminate]. }
  destruct (N.eqb_spec (nlen c) 0) as [Hc|Hc].
  { cbn [fst snd]. splits; [apply inv_reset|discriminate|discriminate]. }
  destruct ((s =? 1) && (pid =? 0)).
  { cbn [fst snd]. splits; [|discriminate|intros ? H; injection H as <-; lia].
    unfold Inv; cbn. pose proof cap_pos. splits; auto. lia. }
  destruct (dsize d =? 0).
  { cbn [fst snd]. splits; [assumption|discriminate|discriminate]. }
  destruct (pseq p =? dnext d); cbn [negb fst snd].
  - splits; [|discriminate|intros ? H; injection H as <-; lia].
    destruct HI as (A & B & C & D). unfold Inv; cbn [dbuf dsize]. auto.
  - splits; [apply inv_reset|discriminate|discriminate].
Qed.

Lemma dec_inv d p : Inv d -> Inv (fst (dec d p)) /\ snd (dec d p) <> DPanic /\
  forall f, snd (dec d p) = DFrame f -> nlen f <= cap.
Proof.
  intros HI. unfold dec. destruct (chunk_of_inv d p HI) as (HI1 & Hnp & Hc).
  destruct (chunk_of d p) as [d1 [| |c]]; cbn [fst snd] in *;
    [splits; [assumption|discriminate|discriminate]|contradiction|].
  specialize (Hc c eq_refl).
  destruct (N.ltb_spec cap (dsize d1 + nlen c)); cbn [fst snd];
    [splits; [apply inv_reset|discriminate|discriminate]|].
  destruct HI1 as (A & B & C & D).
  assert (HI2 : Inv (mkD (dbuf d1 ++ [c]) (dsize d1 + nlen c) (dnext d1))).
  { unfold Inv; cbn [dsize dbuf]. rewrite concat_snoc, nlen_app. splits; [lia|lia| |lia].
    apply Forall_app. split; [assumption|]. constructor; [lia|constructor]. }
  destruct (pmarker p); cbn [negb fst snd]; [|splits; [exact HI2|discriminate|discriminate]].
  cbn [dbuf]. replace (dsize d1 + nlen c) with (nlen (concat (dbuf d1 ++ [c])))
    by (rewrite concat_snoc, nlen_app; lia).
  rewrite join_exact. cbn [fst snd]. splits; [apply inv_reset|discriminate|].
  intros f H0; injection H0 as <-. rewrite concat_snoc, nlen_app. lia.
Qed.

Lemma dec_run_inv ps : forall d, Inv d ->
  Inv (fst (dec_run d ps)) /\ ~ In DPanic (snd (dec_run d ps)) /\
  forall f, In (DFrame f) (snd (dec_run d ps)) -> nlen f <= cap.
Proof.
  induction ps as [|p t IH]; intros d HI; cbn [dec_run]; [cbn; splits; auto; intros ? []|].
  destruct (dec_inv d p HI) as (HI' & Hnp & Hfr). destruct (dec d p) as [d' r] eqn:E. cbn [fst snd] in *.
  destruct (IH d' HI') as (HI'' & Hnp' & Hfr'). destruct (dec_run d' t) as [d'' rs]. cbn [fst snd] in *.
  splits; [assumption| |].
  - intros [H|H]; [congruence|contradiction].
  - intros f [H|H]; [apply Hfr; assumption|apply Hfr'; assumption].
Qed.

(* ---------- round trip (C03), from ANY reachable decoder state ---------- *)
Definition valid_frame (f : bytes) : Prop := f <> [] /\ nlen f <= cap.

(* the packets after the first one *)
Lemma dec_rest cs : forall d seq,
  cs <> [] -> Forall (fun c => 0 < nlen c) cs ->
  Inv d -> 0 < dsize d -> dnext d = seq ->
  dsize d + nlen (concat cs) <= cap ->
  exists d', dec_run d (mk_pkts seq false cs) =
    (d', repeat DMore (length cs - 1) ++ [DFrame (concat (dbuf d) ++ concat cs)]) /\ clean d'.
Proof.
  induction cs as [|c t IH]; intros d seq Hne Hpos HI Hsz Hnext Hcap; [contradiction|].
  inversion Hpos as [|? ? Hc Hpos']; subst.
  cbn [mk_pkts dec_run]. unfold dec at 1, chunk_of. cbn [ppayload pseq pmarker].
  rewrite unmarshal_mid. destruct (N.eqb_spec (nlen c) 0); [lia|]. cbn [N.eqb andb].
  destruct (N.eqb_spec (dsize d) 0); [lia|]. rewrite N.eqb_refl. cbn [negb dsize dbuf dnext].
  cbn [concat] in Hcap. rewrite nlen_app in Hcap.
  destruct (N.ltb_spec cap (dsize d + nlen c)); [lia|].
  destruct HI as (Hs & Hz & Hfr & _).
  destruct t as [|c2 t2].
  - cbn [negb]. replace (dsize d + nlen c) with (nlen (concat (dbuf d ++ [c])))
      by (rewrite concat_snoc, nlen_app; lia).
    rewrite join_exact. cbn [mk_pkts dec_run length Nat.sub repeat app concat].
    eexists. split; [|apply clean_reset]. rewrite concat_snoc, app_nil_r. reflexivity.
  - cbn [negb].
    set (d1 := mkD (dbuf d ++ [c]) (dsize d + nlen c) (seq_next (dnext d))).
    destruct (IH d1 (seq_next (dnext d))) as (d' & Hrun & Hcl).
    + discriminate.
    + assumption.
    + unfold Inv, d1; cbn [dsize dbuf]. rewrite concat_snoc, nlen_app. cbn [concat] in Hcap. rewrite nlen_app in Hcap.
      splits; [lia|lia| |lia].
      apply Forall_app. split; [assumption|]. constructor; [lia|constructor].
    + unfold d1; cbn [dsize]. lia.
    + reflexivity.
    + unfold d1; cbn [dsize]. lia.
    + rewrite Hrun. eexists. split; [|exact Hcl].
      unfold d1; cbn [dbuf]. rewrite concat_snoc, <- app_assoc.
      cbn [length Nat.sub]. rewrite Nat.sub_0_r. cbn [concat]. reflexivity.
Qed.

(* a whole group: the first packet (S=1, PID=0) restarts the decoder whatever its state *)
Lemma dec_group cs : forall d seq,
  cs <> [] -> Forall (fun c => 0 < nlen c) cs -> nlen (concat cs) <= cap ->
  exists d', dec_run d (mk_pkts seq true cs) =
    (d', repeat DMore (length cs - 1) ++ [DFrame (concat cs)]) /\ clean d'.
Proof.
  intros d seq Hne Hpos Hcap. destruct cs as [|c t]; [contradiction|].
  inversion Hpos as [|? ? Hc Hpos']; subst.
  cbn [mk_pkts dec_run]. unfold dec at 1, chunk_of. cbn [ppayload pseq pmarker].
  rewrite unmarshal_start. destruct (N.eqb_spec (nlen c) 0); [lia|]. cbn [N.eqb Pos.eqb andb dsize dbuf dnext].
  cbn [concat] in Hcap. rewrite nlen_app in Hcap. cbn [N.add].
  destruct (N.ltb_spec cap (nlen c)); [lia|]. cbn [app].
  destruct t as [|c2 t2].
  - cbn [negb].
    assert (Hj : join [c] (nlen c) = Some c).
    { pose proof (join_exact [c]) as J. cbn [concat] in J. rewrite app_nil_r in J. exact J. }
    rewrite Hj. cbn [mk_pkts dec_run length Nat.sub repeat app concat]. rewrite app_nil_r.
    eexists. split; [reflexivity|apply clean_reset].
  - cbn [negb]. set (d1 := mkD [c] (nlen c) (seq_next seq)).
    destruct (dec_rest (c2 :: t2) d1 (seq_next seq)) as (d' & Hrun & Hcl).
    + discriminate.
    + assumption.
    + unfold Inv, d1; cbn [dsize dbuf concat]. rewrite app_nil_r.
      splits; [reflexivity|lia| |lia]. constructor; [lia|constructor].
    + unfold d1; cbn [dsize]. lia.
    + reflexivity.
    + unfold d1; cbn [dsize]. lia.
    + rewrite Hrun. eexists. split; [|exact Hcl].
      unfold d1; cbn [dbuf concat length Nat.sub]. rewrite app_nil_r, Nat.sub_0_r. reflexivity.
Qed.

Lemma chunks_ne {A} n (l : list A) : 0 < n -> l <> [] -> chunks n l <> [].
Proof. intros Hn Hl. rewrite chunks_cons by assumption. discriminate. Qed.

Lemma mk_pkts_length cs : forall seq first, length (mk_pkts seq first cs) = length cs.
Proof. induction cs as [|c t IH]; intros; cbn [mk_pkts length]; [reflexivity|]. now rewrite IH. Qed.

(* from EVERY decoder state (no cleanliness needed): "more" on all packets but the last, the frame
   at the last, clean afterwards *)
Theorem roundtrip max seq frame d :
  2 <= max mod 65536 -> valid_frame frame ->
  exists ps d', enc max seq frame = Some (ps, seq_add seq (nlen ps)) /\
    dec_run d ps = (d', repeat DMore (length ps - 1) ++ [DFrame frame]) /\ clean d'.
Proof.
  intros Hm [Hne Hcap]. unfold enc. rewrite hsz_1.
  destruct (N.leb_spec (max mod 65536) 1); [lia|].
  destruct (N.eqb_spec (nlen frame) 0) as [E|E]; [apply nlen_nil_iff in E; contradiction|]. cbn [orb].
  set (n := max mod 65536 - 1). assert (Hn : 0 < n) by (unfold n; lia).
  pose proof (chunks_concat n frame Hn) as Hcc.
  destruct (dec_group (chunks n frame) d seq) as (d' & Hrun & Hcl').
  - now apply chunks_ne.
  - eapply Forall_impl; [|apply chunks_bounds; assumption]. cbn. tauto.
  - now rewrite Hcc.
  - eexists _, d'. rewrite mk_pkts_len. split; [reflexivity|]. split; [|assumption].
    rewrite Hrun, Hcc, mk_pkts_length. reflexivity.
Qed.

Fixpoint expect (pss : list (list packet)) (frames : list bytes) : list (dres bytes) :=
  match pss, frames with
  | ps :: pt, f :: ft => repeat DMore (length ps - 1) ++ [DFrame f] ++ expect pt ft
  | _, _ => []
  end.

Lemma dec_run_app ps1 ps2 d :
  dec_run d (ps1 ++ ps2) =
  let '(d1, r1) := dec_run d ps1 in let '(d2, r2) := dec_run d1 ps2 in (d2, r1 ++ r2).
Proof.
  revert d; induction ps1 as [|p t IH]; intros d; cbn [app dec_run].
  - destruct (dec_run d ps2); reflexivity.
  - destruct (dec d p) as [d' r]. rewrite IH. destruct (dec_run d' t) as [d1 r1].
    destruct (dec_run d1 ps2) as [d2 r2]. reflexivity.
Qed.

Theorem roundtrip_seq max frames : 2 <= max mod 65536 -> Forall valid_frame frames -> forall seq d,
  exists pss d', enc_many max seq frames = Some pss /\
    dec_run d (concat pss) = (d', expect pss frames) /\ (frames <> [] -> clean d').
Proof.
  intros Hm. induction frames as [|f t IH]; intros Hv seq d; cbn [enc_many].
  - exists [], d. cbn. splits; auto. intros H; contradiction.
  - inversion Hv as [|? ? Hf Ht]; subst.
    destruct (roundtrip max seq f d Hm Hf) as (ps & d1 & E & Hr1 & Hc1). rewrite E.
    destruct (IH Ht (seq_add seq (nlen ps)) d1) as (pss & d2 & E2 & Hr2 & Hc2). rewrite E2.
    exists (ps :: pss), d2. split; [reflexivity|]. cbn [concat expect].
    rewrite dec_run_app, Hr1, Hr2. split; [now rewrite <- app_assoc|].
    intros _. destruct t as [|f2 t2]; [|apply Hc2; discriminate].
    cbn [enc_many] in E2. injection E2 as <-. cbn [concat dec_run] in Hr2. inversion Hr2; subst; exact Hc1.
Qed.

(* ---------- resynchronisation (C07) ---------- *)
(* after ANY history an intact frame is returned exactly at its last packet: the S bit of its
   first packet discards whatever was buffered *)
Theorem resync max hist f s :
  2 <= max mod 65536 -> valid_frame f ->
  let d0 := fst (dec_run dinit hist) in
  exists ps d', enc max s f = Some (ps, seq_add s (nlen ps)) /\
    dec_run d0 ps = (d', repeat DMore (length ps - 1) ++ [DFrame f]) /\ clean d'.
Proof. intros Hm Hv d0. apply roundtrip; assumption. Qed.

(* ---------- arbitrary histories (C08) ---------- *)
Theorem total hist : ~ In DPanic (snd (dec_run dinit hist)).
Proof. apply (dec_run_inv hist dinit inv_init). Qed.

Lemma nlen_concat_ge {A} (l : list (list A)) : Forall (fun f => 0 < nlen f) l -> nlen l <= nlen (concat l).
Proof. induction 1 as [|x t Hx Ht IH]; cbn [nlen concat]; [lia|]. rewrite nlen_app. lia. Qed.

Theorem bounded hist :
  let '(d, rs) := dec_run dinit hist in
  fst (retained d) <= cap /\ snd (retained d) <= cap /\
  forall f, In (DFrame f) rs -> nlen f <= cap.
Proof.
  pose proof (dec_run_inv hist dinit inv_init) as ((Hs & Hz & Hne & Hc) & _ & Hfr).
  destruct (dec_run dinit hist) as [d rs]. cbn [fst snd] in *.
  unfold retained; cbn [fst snd]. pose proof (nlen_concat_ge (dbuf d) Hne). splits; [lia|lia|assumption].
Qed.

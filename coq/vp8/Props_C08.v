(* C08, rtpvp8 — statements only *)
From GVL Require Import NList Rtp.
From GV_vp8 Require Import Model Proofs.
Open Scope N_scope.

(* every slice / index expression of Decode and of pion's VP8Packet.Unmarshal is in range *)
Theorem C08_vp8_total : forall hist, ~ In DPanic (snd (dec_run dinit hist)).
Proof. exact total. Qed.
Print Assumptions C08_vp8_total.

(* on every history: retained bytes and retained slice headers stay within vp8.MaxFrameSize, and so
   does every returned frame.  (Returned frames are fresh buffers: aliasing fact, harness oracle.) *)
Theorem C08_vp8_bounded : forall hist,
  let '(d, rs) := dec_run dinit hist in
  fst (retained d) <= cap /\ snd (retained d) <= cap /\
  forall f, In (DFrame f) rs -> nlen f <= cap.
Proof. exact bounded. Qed.
Print Assumptions C08_vp8_bounded.

(* ---- the translated kernels (tools/go2coq, spec.d/vp8.txt) ----
   len(vpkt.Payload) == 0, newFrameBufferSize := d.frameBufferSize + len(chunk), newFrameBufferSize > vp8.MaxFrameSize
   ARE the tests of Model.chunk_of / dec (cap = GVG.Consts.vp8_max_frame). *)
From Coq Require Import ZArith.
From GVG Require Import Kern.
From GV_vp8 Require Import BridgeLib Bridge.
Open Scope Z_scope.
Theorem C08_vp8_kernels_are_the_code : forall (chunk : bytes) (fs : N), Z.of_N (fs + nlen chunk) < i64max ->
  k_vp8_dec_empty (Z.of_N (nlen chunk)) = (nlen chunk =? 0)%N /\
  k_vp8_dec_acc (Z.of_N fs) (Z.of_N (nlen chunk)) = Z.of_N (fs + nlen chunk) /\
  k_vp8_dec_cap (k_vp8_dec_acc (Z.of_N fs) (Z.of_N (nlen chunk))) (Z.of_N cap) = (cap <? fs + nlen chunk)%N.
Proof. exact caps_kernels_are_the_code. Qed.
Print Assumptions C08_vp8_kernels_are_the_code.

Example C08_vp8_example_kernels :
  k_vp8_dec_cap (k_vp8_dec_acc (Z.of_N cap - 5) 5) (Z.of_N cap) = false /\
  k_vp8_dec_cap (k_vp8_dec_acc (Z.of_N cap - 5) 6) (Z.of_N cap) = true /\ k_vp8_dec_empty 0 = true.
Proof. vm_compute. repeat split. Qed.

(* C08, rtpvp8 — statements only *)
From GVL Require Import NList Rtp.
From GV_vp8 Require Import Model Proofs.
Open Scope N_scope.

(* every slice / index expression of Decode and of pion's VP8Packet.Unmarshal is in range *)
Theorem C08_vp8_total : forall hist, ~ In DPanic (snd (dec_run dinit hist)).
Proof. exact total. Qed.
Print Assumptions C08_vp8_total.

(* on every history: retained bytes and retained slice headers stay within vp8.MaxFrameSize, and so
   does every returned frame.  (Returned frames are fresh buffers: aliasing fact, harness oracle.) *)
Theorem C08_vp8_bounded : forall hist,
  let '(d, rs) := dec_run dinit hist in
  fst (retained d) <= cap /\ snd (retained d) <= cap /\
  forall f, In (DFrame f) rs -> nlen f <= cap.
Proof. exact bounded. Qed.
Print Assumptions C08_vp8_bounded.

(* C06, rtpsimpleaudio — statements only.
   This encoder does NOT fragment (one packet per frame, PayloadMaxSize is never consulted by
   Encode), so the size clause of C06 ("every packet emitted by an encoder that fragments ...")
   does not apply to it; what is stated instead is that the payload is exactly the frame.  The
   remaining clauses (sequence numbers, marker) are proved for all frames and all series of calls. *)
From GVL Require Import NList Rtp.
From GV_simpleaudio Require Import Model Proofs.
Open Scope N_scope.

Theorem C06_simpleaudio_packet_wellformed : forall seq frame,
  let '(p, seq') := enc seq frame in
  ppayload p = frame /\ pseq p = seq /\ pmarker p = false /\ pts p = 0 /\ seq' = seq_next seq.
Proof. exact enc_wellformed. Qed.
Print Assumptions C06_simpleaudio_packet_wellformed.

(* across any series of Encode calls: packet i carries frame i unchanged and sequence number
   seq+i mod 2^16; the marker is never set (audio: every packet completes a frame) *)
Theorem C06_simpleaudio_gapless_across_calls : forall frames seq i p, seq < 65536 ->
  nnth i (enc_many seq frames) = Some p ->
  pseq p = seq_add seq i /\ nnth i frames = Some (ppayload p) /\ pmarker p = false /\ pts p = 0.
Proof. exact enc_many_wellformed. Qed.
Print Assumptions C06_simpleaudio_gapless_across_calls.

Example C06_simpleaudio_example :
  map pseq (enc_many 65534 [[1;2;3]; [4]; [5;6]]) = [65534; 65535; 0].
Proof. reflexivity. Qed.

(* ---- the translated kernels (tools/go2coq, spec.d/simpleaudio.txt; regenerated from the Go source on every run) ----
   Marker: false and e.sequenceNumber++ of rtpsimpleaudio/encoder.go are the marker and the next sequence number of
   Model.enc. *)
From Coq Require Import ZArith.
From GVG Require Import Kern.
From GV_simpleaudio Require Import BridgeLib Bridge.
Open Scope Z_scope.
Theorem C06_simpleaudio_kernels_are_the_code : forall (s : N) (frame : bytes),
  k_simpleaudio_marker = pmarker (fst (enc s frame)) /\
  k_simpleaudio_seq (Z.of_N s) = Z.of_N (snd (enc s frame)).
Proof. exact enc_kernels_are_the_code. Qed.
Print Assumptions C06_simpleaudio_kernels_are_the_code.
Example C06_simpleaudio_example_kernels : k_simpleaudio_seq 65535 = 0 /\ k_simpleaudio_seq 7 = 8 /\ k_simpleaudio_marker = false.
Proof. vm_compute. repeat split. Qed.

(* Executable model of pkg/format/rtpsimpleaudio (encoder.go, decoder.go). Proof-free.
   Encode: ONE packet per frame, payload = the frame (the caller's slice itself), no size limit
   (PayloadMaxSize is stored by Init but never read by Encode), Marker false, Timestamp 0 (not set),
   sequence number post-incremented modulo 2^16.  Decode: stateless; empty payload -> error,
   otherwise the payload itself is the frame. *)
From GVL Require Import NList Wire Rtp.
From GVG Require Import Consts.
Open Scope N_scope.

(* ---- encoder ---- *)
Definition enc (seq : N) (frame : bytes) : packet * N :=
  (mkPkt seq 0 false frame, seq_next seq).

Fixpoint enc_many (seq : N) (frames : list bytes) : list packet :=
  match frames with
  | [] => []
  | f :: t => let '(p, seq') := enc seq f in p :: enc_many seq' t
  end.

(* ---- decoder (the Decoder struct has no fields) ---- *)
Definition dec (p : packet) : dres bytes :=
  if nlen (ppayload p) =? 0 then DErr else DFrame (ppayload p).

Definition dec_run (ps : list packet) : list (dres bytes) := map dec ps.

(* the decoder retains nothing *)
Definition retained : N * N := (0, 0).

(* ---- wire ---- *)
Definition put_res (r : dres bytes) : list N :=
  match r with
  | DFrame f => 1 :: 1 :: putl f
  | DMore => [0]
  | DErr => [2]
  | DPanic => [77]
  end.

(* frames on the wire are unit lists; this format has exactly one unit per frame *)
Fixpoint get_uframes (fuel : list N) (k : N) (l : list N) : option (list bytes) :=
  if k =? 0 then Some [] else
  match fuel with
  | [] => None
  | _ :: fuel' =>
    match l with
    | 1 :: r0 =>
      match getl r0 with
      | None => None
      | Some (f, r) => option_map (cons f) (get_uframes fuel' (N.pred k) r)
      end
    | _ => None
    end
  end.

(* case 1: param max seq nframes {1 len bytes}  -> the packets (put_pkts); max is ignored, as in Go
   case 2: param npackets {pkt}                 -> per packet result; then retained bytes, slices *)
Definition run (c : list N) : list N :=
  match c with
  | 1 :: _ :: _ :: seq :: k :: t =>
      match get_uframes c k t with
      | Some frames => put_pkts (enc_many seq frames)
      | None => bad_case
      end
  | 2 :: _ :: t =>
      match get_pkts t with
      | Some (ps, _) => concat (map put_res (dec_run ps)) ++ [fst retained; snd retained]
      | None => bad_case
      end
  | _ => bad_case
  end.

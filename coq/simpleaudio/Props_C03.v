(* C03, rtpsimpleaudio — statements only *)
From GVL Require Import NList Rtp.
From GV_simpleaudio Require Import Model Proofs.
Open Scope N_scope.

(* one frame = one packet: decoding the packet the encoder produced for any non-empty frame yields
   exactly that frame (there is never a "more packets needed" step: the frame is complete at its
   first and only packet); for every initial sequence number.  The payload limit plays no role. *)
Theorem C03_simpleaudio_roundtrip : forall seq frame,
  valid_frame frame -> dec (fst (enc seq frame)) = DFrame frame.
Proof. exact roundtrip. Qed.
Print Assumptions C03_simpleaudio_roundtrip.

(* consecutive frames through one encoder/decoder pair *)
Theorem C03_simpleaudio_roundtrip_seq : forall frames, Forall valid_frame frames -> forall seq,
  dec_run (enc_many seq frames) = map DFrame frames.
Proof. exact roundtrip_seq. Qed.
Print Assumptions C03_simpleaudio_roundtrip_seq.

Example C03_simpleaudio_example :
  dec_run (enc_many 65535 [[1;2;3]; [4]; [5;6]]) = [DFrame [1;2;3]; DFrame [4]; DFrame [5;6]]
  /\ Forall valid_frame [[1;2;3]; [4]; [5;6]].
Proof. split; [reflexivity|]. repeat constructor; discriminate. Qed.

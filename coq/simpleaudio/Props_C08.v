(* C08, rtpsimpleaudio — statements only *)
From GVL Require Import NList Rtp.
From GV_simpleaudio Require Import Model Proofs.
Open Scope N_scope.

Theorem C08_simpleaudio_total : forall hist, ~ In DPanic (dec_run hist).
Proof. exact total. Qed.
Print Assumptions C08_simpleaudio_total.

(* the decoder retains nothing (0 bytes, 0 slice headers); every returned frame is the payload of
   the packet that produced it, hence at most one packet long *)
Theorem C08_simpleaudio_bounded : forall P hist,
  Forall (fun p => nlen (ppayload p) <= P) hist ->
  fst retained = 0 /\ snd retained = 0 /\
  forall f, In (DFrame f) (dec_run hist) -> nlen f <= P.
Proof. exact bounded. Qed.
Print Assumptions C08_simpleaudio_bounded.

(* results depend on their own packet only: no later Decode call can change an earlier result *)
Theorem C08_simpleaudio_stateless : forall h1 h2, dec_run (h1 ++ h2) = dec_run h1 ++ dec_run h2.
Proof. exact stateless. Qed.
Print Assumptions C08_simpleaudio_stateless.

Example C08_simpleaudio_example :
  dec_run [mkPkt 7 0 true []; mkPkt 7 9 false [1]] = [DErr; DFrame [1]].
Proof. reflexivity. Qed.

(* ---- the translated kernel (tools/go2coq, spec.d/simpleaudio.txt): len(pkt.Payload) == 0 is the test of Model.dec ---- *)
From Coq Require Import ZArith.
From GVG Require Import Kern.
From GV_simpleaudio Require Import BridgeLib Bridge.
Open Scope Z_scope.
Theorem C08_simpleaudio_kernels_are_the_code : forall pl : bytes,
  k_simpleaudio_dec_empty (Z.of_N (nlen pl)) = (nlen pl =? 0)%N.
Proof. exact dec_kernels_are_the_code. Qed.
Print Assumptions C08_simpleaudio_kernels_are_the_code.
Example C08_simpleaudio_example_kernels : k_simpleaudio_dec_empty 0 = true /\ k_simpleaudio_dec_empty 1 = false.
Proof. vm_compute. repeat split. Qed.

From Coq Require Extraction ExtrOcamlBasic.
From GV_simpleaudio Require Import Model.
Extraction Language OCaml.
Extraction "model.ml" run.

(* rtpsimpleaudio: round trip (C03), packet well-formedness (C06), totality / boundedness (C08).
   The decoder is stateless, so C07 does not apply. *)
From GVL Require Import NList Wire Rtp.
From GV_simpleaudio Require Import Model.
From Coq Require Import ZifyBool ZifyNat ZifyN.
Open Scope N_scope.
Ltac splits := repeat match goal with |- _ /\ _ => split end.

Lemma seq_add_next s k : seq_add (seq_next s) k = seq_add s (k + 1).
Proof. unfold seq_add, seq_next. rewrite N.add_mod_idemp_l by lia. f_equal. lia. Qed.
Lemma seq_add_0 s : s < 65536 -> seq_add s 0 = s.
Proof. intros H. unfold seq_add. rewrite N.add_0_r. now apply N.mod_small. Qed.
Lemma seq_next_lt s : seq_next s < 65536.
Proof. unfold seq_next. apply N.mod_lt. lia. Qed.

(* ---------- encoder (C06) ---------- *)
(* one packet per call: payload is exactly the frame (not a byte more, not a byte less: the encoder
   does not fragment, so there is no size bound to state), marker clear, timestamp 0 *)
Theorem enc_wellformed seq frame :
  let '(p, seq') := enc seq frame in
  ppayload p = frame /\ pseq p = seq /\ pmarker p = false /\ pts p = 0 /\ seq' = seq_next seq.
Proof. cbn. splits; reflexivity. Qed.

Lemma enc_many_len frames : forall seq, nlen (enc_many seq frames) = nlen frames.
Proof. induction frames as [|f t IH]; intros seq; cbn [enc_many enc nlen]; [reflexivity|]. now rewrite IH. Qed.

(* across any series of Encode calls: the i-th packet carries frame i, sequence number seq+i mod 2^16 *)
Theorem enc_many_wellformed frames : forall seq i p, seq < 65536 ->
  nnth i (enc_many seq frames) = Some p ->
  pseq p = seq_add seq i /\ nnth i frames = Some (ppayload p) /\ pmarker p = false /\ pts p = 0.
Proof.
  induction frames as [|f t IH]; intros seq i p Hs H; cbn [enc_many enc nnth] in *; [discriminate|].
  destruct (N.eqb_spec i 0) as [->|Hi].
  - injection H as <-. cbn. rewrite seq_add_0 by assumption. splits; reflexivity.
  - apply IH in H; [|apply seq_next_lt]. destruct H as (H1 & H2 & H3 & H4).
    splits; try assumption. rewrite H1, seq_add_next. f_equal. lia.
Qed.

(* ---------- round trip (C03) ---------- *)
Definition valid_frame (f : bytes) : Prop := f <> [].

Theorem roundtrip seq frame : valid_frame frame -> dec (fst (enc seq frame)) = DFrame frame.
Proof.
  intros Hv. unfold dec, enc; cbn [fst ppayload].
  destruct (N.eqb_spec (nlen frame) 0) as [H|H]; [|reflexivity].
  apply nlen_nil_iff in H. contradiction.
Qed.

Theorem roundtrip_seq frames : Forall valid_frame frames -> forall seq,
  dec_run (enc_many seq frames) = map DFrame frames.
Proof.
  induction 1 as [|f t Hf Ht IH]; intros seq; cbn [enc_many dec_run map]; [reflexivity|].
  cbn [enc]. cbn [map]. f_equal.
  - exact (roundtrip seq f Hf).
  - apply IH.
Qed.

(* ---------- arbitrary histories (C08) ---------- *)
Theorem total hist : ~ In DPanic (dec_run hist).
Proof.
  unfold dec_run. rewrite in_map_iff. intros (p & Hp & _). unfold dec in Hp.
  destruct (nlen (ppayload p) =? 0); discriminate.
Qed.

(* nothing is retained; a returned frame is the payload of the packet that produced it *)
Theorem bounded P hist :
  Forall (fun p => nlen (ppayload p) <= P) hist ->
  fst retained = 0 /\ snd retained = 0 /\
  forall f, In (DFrame f) (dec_run hist) -> nlen f <= P.
Proof.
  intros HF. splits; try reflexivity. intros f Hin. unfold dec_run in Hin.
  rewrite in_map_iff in Hin. destruct Hin as (p & Hp & Hi). rewrite Forall_forall in HF.
  specialize (HF p Hi). unfold dec in Hp. destruct (nlen (ppayload p) =? 0); [discriminate|].
  injection Hp as <-. exact HF.
Qed.

(* each result depends on its own packet only: later packets cannot alter an earlier result *)
Theorem stateless h1 h2 : dec_run (h1 ++ h2) = dec_run h1 ++ dec_run h2.
Proof. unfold dec_run. apply map_app. Qed.

(* BRIDGE: the (few) integer formulas of pkg/format/rtpsimpleaudio as TRANSLATED from the Go source on this run (GVG.Kern,
   tools/go2coq, spec.d/simpleaudio.txt) are those of Model.v: Marker = false, e.sequenceNumber++ = seq_next, and the
   decoder's len(pkt.Payload) == 0 test. *)
From Coq Require Import ZArith NArith List Lia Bool.
From Coq Require Import ZifyBool ZifyN.
From GVL Require Import NList Wrap Rtp.
From GVG Require Import Consts Kern.
From GV_simpleaudio Require Import Model BridgeLib.
Open Scope Z_scope.

Theorem enc_kernels_are_the_code (s : N) (frame : bytes) :
  k_simpleaudio_marker = pmarker (fst (enc s frame)) /\
  k_simpleaudio_seq (Z.of_N s) = Z.of_N (snd (enc s frame)).
Proof. split; [reflexivity|]. unfold k_simpleaudio_seq, enc, seq_next. cbn [snd]. apply w16_succ_N. Qed.

Theorem dec_kernels_are_the_code (pl : bytes) : k_simpleaudio_dec_empty (Z.of_N (nlen pl)) = (nlen pl =? 0)%N.
Proof. unfold k_simpleaudio_dec_empty. exact (eqb_N (nlen pl) 0). Qed.

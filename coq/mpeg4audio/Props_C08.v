(* C08, rtpmpeg4audio — statements only.  retained d = (bytes, slice headers) held in d.fragments;
   fsize f = total bytes of the AUs of a returned frame; psz p = payload length. *)
From GVL Require Import NList Rtp.
From GV_mpeg4audio Require Import Model Proofs.
Open Scope N_scope.

(* arbitrary packet histories: Decode never panics and never fails to terminate (the model's
   DPanic also stands for its two potential non-terminations and every checked slice/index) *)
Theorem C08_mpeg4audio_total : forall c, cfg_ok c -> forall hist, ~ In DPanic (snd (dec_run c dinit hist)).
Proof. exact total. Qed.
Print Assumptions C08_mpeg4audio_total.

(* for every history whose packets carry at most P payload bytes: retained bytes AND retained slice
   headers stay below max(MaxAccessUnitSize, P), and so does every returned frame *)
Theorem C08_mpeg4audio_bounded : forall c, cfg_ok c -> forall P hist,
  Forall (fun p => psz p <= P) hist ->
  let '(d, rs) := dec_run c dinit hist in
  fst (retained d) <= N.max cap P /\ snd (retained d) <= N.max cap P /\
  forall f, In (DFrame f) rs -> fsize f <= N.max cap P.
Proof. exact bounded. Qed.
Print Assumptions C08_mpeg4audio_bounded.

(* endless start fragments are cut at MaxAccessUnitSize; AU size 0 (an "empty fragment") is an error *)
Example C08_mpeg4audio_example :
  let c := mkCfg 13 3 3 in
  snd (dec_run c dinit [mkPkt 1 0 false [0;16; 0;8; 7]; mkPkt 2 0 false [0;16; 0;0]; mkPkt 3 0 true [0;16; 0;16; 8;9]])
  = [DMore; DErr; DFrame [[8;9]]] /\ cap = 5120.
Proof. split; vm_compute; reflexivity. Qed.

(* C08, rtpmpeg4audio — statements only.  retained d = (bytes, slice headers) held in d.fragments;
   fsize f = total bytes of the AUs of a returned frame; psz p = payload length. *)
From GVL Require Import NList Rtp.
From GV_mpeg4audio Require Import Model Proofs.
Open Scope N_scope.

(* arbitrary packet histories: Decode never panics and never fails to terminate (the model's
   DPanic also stands for its two potential non-terminations and every checked slice/index) *)
Theorem C08_mpeg4audio_total : forall c, cfg_ok c -> forall hist, ~ In DPanic (snd (dec_run c dinit hist)).
Proof. exact total. Qed.
Print Assumptions C08_mpeg4audio_total.

(* for every history whose packets carry at most P payload bytes: retained bytes AND retained slice
   headers stay below max(MaxAccessUnitSize, P), and so does every returned frame *)
Theorem C08_mpeg4audio_bounded : forall c, cfg_ok c -> forall P hist,
  Forall (fun p => psz p <= P) hist ->
  let '(d, rs) := dec_run c dinit hist in
  fst (retained d) <= N.max cap P /\ snd (retained d) <= N.max cap P /\
  forall f, In (DFrame f) rs -> fsize f <= N.max cap P.
Proof. exact bounded. Qed.
Print Assumptions C08_mpeg4audio_bounded.

(* endless start fragments are cut at MaxAccessUnitSize; AU size 0 (an "empty fragment") is an error *)
Example C08_mpeg4audio_example :
  let c := mkCfg 13 3 3 in
  snd (dec_run c dinit [mkPkt 1 0 false [0;16; 0;8; 7]; mkPkt 2 0 false [0;16; 0;0]; mkPkt 3 0 true [0;16; 0;16; 8;9]])
  = [DMore; DErr; DFrame [[8;9]]] /\ cap = 5120.
Proof. split; vm_compute; reflexivity. Qed.

(* ---- the translated kernels (tools/go2coq, regenerated from the Go source on every run) ----
   The length tests, the header arithmetic and the cap of rtpmpeg4audio/decoder.go - len(pkt.Payload) < 2, headersLen :=
   int(uint16(Payload[0])<<8 | uint16(Payload[1])), headersLen == 0, pos := headersLen / 8 (+1 if % 8 != 0), the three
   len(payload) < int(dataLen) tests, d.fragmentsSize = int(dataLens[0]), d.fragmentsSize += int(dataLens[0]),
   d.fragmentsSize > mpeg4audio.MaxAccessUnitSize (with the generated constant), the counting loop of readAUHeaders
   (i += SizeLength; i += IndexLength / IndexDeltaLength; count++: the loop over the translated statements computes
   Model.hcount), its subtractions headersLen -= SizeLength / IndexLength / IndexDeltaLength guarded by IndexLength > 0 /
   IndexDeltaLength > 0, the tests dataLen == 0, auIndex != 0, auIndexDelta != 0 - ARE the formulas of Model.dec / ceil8 /
   split_aus / hcount / read_loop (configurations with 0 < SizeLength, all widths <= 32: the scope of the model). *)
From Coq Require Import ZArith.
From GVG Require Import Kern.
From GV_mpeg4audio Require Import BridgeLib Bridge.
Open Scope Z_scope.

Theorem C08_mpeg4audio_kernels_are_the_code : forall (c : cfg), cfg_ok c ->
  forall (pl payload : bytes) (b0 b1 hl l fs v x : N) (first : bool),
  isbyte b0 -> isbyte b1 -> (hl < 65536)%N -> Z.of_N l < i64max -> Z.of_N (fs + l) < i64max ->
  k_mpeg4audio_dec_short (Z.of_N (nlen pl)) = match pl with _ :: _ :: _ => false | _ => true end /\
  k_mpeg4audio_dec_hlen (Z.of_N b0) (Z.of_N b1) = Z.of_N (b0 * 256 + b1) /\
  k_mpeg4audio_dec_hzero (k_mpeg4audio_dec_hlen (Z.of_N b0) (Z.of_N b1)) = (b0 * 256 + b1 =? 0)%N /\
  dec_pos_code (Z.of_N hl) = Z.of_N (ceil8 hl) /\
  k_mpeg4audio_dec_aushort (Z.of_N (nlen payload)) (Z.of_N l) = (nlen payload <? l)%N /\
  k_mpeg4audio_dec_fshort (Z.of_N (nlen payload)) (Z.of_N l) = (nlen payload <? l)%N /\
  k_mpeg4audio_dec_cshort (Z.of_N (nlen payload)) (Z.of_N l) = (nlen payload <? l)%N /\
  k_mpeg4audio_dec_first (Z.of_N l) = Z.of_N l /\
  k_mpeg4audio_dec_acc (Z.of_N fs) (Z.of_N l) = Z.of_N (fs + l) /\
  k_mpeg4audio_dec_cap (k_mpeg4audio_dec_acc (Z.of_N fs) (Z.of_N l)) (Z.of_N cap) = (cap <? fs + l)%N /\
  hc_loop c (S (N.to_nat hl)) (Z.of_N hl) k_mpeg4audio_rh_ci0 k_mpeg4audio_rh_c0 = option_map Z.of_N (hcount c hl) /\
  Z.to_N (rh_step c first (Z.of_N hl)) = (hl - sl c - (if first then il c else idl c))%N /\
  (0 <? rh_step c first (Z.of_N hl)) = negb (hl - sl c - (if first then il c else idl c) =? 0)%N /\
  k_mpeg4audio_rh_zero (Z.of_N v) = (v =? 0)%N /\
  k_mpeg4audio_rh_hasidx (Z.of_N (il c)) = (0 <? il c)%N /\ k_mpeg4audio_rh_hasdelta (Z.of_N (idl c)) = (0 <? idl c)%N /\
  k_mpeg4audio_rh_idxnz (Z.of_N x) = negb (x =? 0)%N /\ k_mpeg4audio_rh_deltanz (Z.of_N x) = negb (x =? 0)%N.
Proof. exact Bridge.caps_kernels_are_the_code. Qed.
Print Assumptions C08_mpeg4audio_kernels_are_the_code.

(* 1 byte is too short, 2 are not; AU-headers-length bytes 01 2C = 300 bits = 38 bytes, 296 bits = 37 bytes; an AU of exactly
   the remaining payload fits, one byte more does not; 5120 accumulated bytes pass the cap, 5121 do not; 32 header bits of
   13/3/3 announce 2 AUs, 33 announce 3; after the first 13/3/3 header 16 of 16 bits are consumed, the Go int would go to -3
   for 13 bits (0 in the model) *)
Example C08_mpeg4audio_example_kernels :
  k_mpeg4audio_dec_short 1 = true /\ k_mpeg4audio_dec_short 2 = false /\
  k_mpeg4audio_dec_hlen 1 44 = 300 /\ k_mpeg4audio_dec_hzero 0 = true /\ k_mpeg4audio_dec_hzero 1 = false /\
  dec_pos_code 300 = 38 /\ dec_pos_code 296 = 37 /\
  k_mpeg4audio_dec_aushort 100 100 = false /\ k_mpeg4audio_dec_aushort 100 101 = true /\
  k_mpeg4audio_dec_fshort 100 101 = true /\ k_mpeg4audio_dec_cshort 100 100 = false /\
  k_mpeg4audio_dec_cap (k_mpeg4audio_dec_acc 5000 120) (Z.of_N cap) = false /\
  k_mpeg4audio_dec_cap (k_mpeg4audio_dec_acc 5000 121) (Z.of_N cap) = true /\
  hc_loop (mkCfg 13 3 3) 40 32 k_mpeg4audio_rh_ci0 k_mpeg4audio_rh_c0 = Some 2 /\
  hc_loop (mkCfg 13 3 3) 40 33 k_mpeg4audio_rh_ci0 k_mpeg4audio_rh_c0 = Some 3 /\
  rh_step (mkCfg 13 3 3) true 16 = 0 /\ rh_step (mkCfg 13 3 3) true 13 = -3 /\ rh_step (mkCfg 16 0 0) true 32 = 16.
Proof. vm_compute. repeat split. Qed.

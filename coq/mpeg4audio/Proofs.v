From GVL Require Import NList.
From GV_mpeg4audio Require Import Model.

(* rtpmpeg4audio: packet well-formedness (C06), round trip (C03), resynchronisation (C07),
   totality / boundedness on arbitrary histories (C08). *)
From GVL Require Import NList Wire Chunks Rtp.
From GV_mpeg4audio Require Import WireF Bits BitsProofs Model.
From Coq Require Import ZifyBool ZifyNat ZifyN.
Open Scope N_scope.
Ltac splits := repeat match goal with |- _ /\ _ => split end.

(* ---------- generic helpers ---------- *)
Lemma seq_add_next s k : seq_add (seq_next s) k = seq_add s (k + 1).
Proof. unfold seq_add, seq_next. rewrite N.add_mod_idemp_l by lia. f_equal. lia. Qed.
Lemma seq_add_0 s : s < 65536 -> seq_add s 0 = s.
Proof. intros H. unfold seq_add. rewrite N.add_0_r. now apply N.mod_small. Qed.
Lemma seq_add_add s a b : seq_add (seq_add s a) b = seq_add s (a + b).
Proof. unfold seq_add. rewrite N.add_mod_idemp_l by lia. f_equal. lia. Qed.
Lemma seq_add_lt s k : seq_add s k < 65536.
Proof. unfold seq_add. apply N.mod_lt. lia. Qed.
Lemma seq_next_lt s : seq_next s < 65536.
Proof. unfold seq_next. apply N.mod_lt. lia. Qed.
Lemma seq_add_1 s : seq_add s 1 = seq_next s.
Proof. reflexivity. Qed.

Lemma nnth_app_l {A} (l1 l2 : list A) i : i < nlen l1 -> nnth i (l1 ++ l2) = nnth i l1.
Proof.
  revert i; induction l1 as [|x t IH]; intros i H; cbn [nlen app nnth] in *; [lia|].
  destruct (N.eqb_spec i 0); [reflexivity|]. apply IH. lia.
Qed.
Lemma nnth_app_r {A} (l1 l2 : list A) i : nlen l1 <= i -> nnth i (l1 ++ l2) = nnth (i - nlen l1) l2.
Proof.
  revert i; induction l1 as [|x t IH]; intros i H; cbn [nlen app nnth] in *; [f_equal; lia|].
  destruct (N.eqb_spec i 0); [lia|]. rewrite IH by lia. f_equal. lia.
Qed.
Lemma nnth_some_lt {A} (l : list A) i x : nnth i l = Some x -> i < nlen l.
Proof.
  intros H. destruct (N.ltb_spec i (nlen l)); [assumption|]. rewrite nnth_ge in H by assumption. discriminate.
Qed.
Lemma concat_snoc {A} (l : list (list A)) x : concat (l ++ [x]) = concat l ++ x.
Proof. rewrite concat_app. cbn. now rewrite app_nil_r. Qed.
Lemma nrep_succ {A} (x : A) k : nrep x (N.succ k) = x :: nrep x k.
Proof. rewrite !nrep_repeat, N2Nat.inj_succ. reflexivity. Qed.
Lemma nset_app_here {A} (l1 : list A) x v t : nset (nlen l1) v (l1 ++ x :: t) = l1 ++ v :: t.
Proof.
  induction l1 as [|y l IH]; cbn [nlen app nset]; [reflexivity|].
  destruct (N.eqb_spec (N.succ (nlen l)) 0); [lia|]. now rewrite N.pred_succ, IH.
Qed.

Lemma ceil8_bound n : n <= 8 * ceil8 n /\ (n <= 8 * 0 -> ceil8 n = 0).
Proof. unfold ceil8. destruct (N.eqb_spec (n mod 8) 0); split; intros; try lia; rewrite N.div_small; lia. Qed.
Lemma ceil8_le n k : n <= 8 * k -> ceil8 n <= k.
Proof. unfold ceil8. destruct (N.eqb_spec (n mod 8) 0); lia. Qed.
Lemma ceil8_mono a b : a <= b -> ceil8 a <= ceil8 b.
Proof. intros H. apply ceil8_le. pose proof (ceil8_bound b). lia. Qed.

Definition cfg_ok (c : cfg) : Prop := 0 < sl c /\ sl c <= 32 /\ il c <= 32 /\ idl c <= 32.
(* the smallest workable PayloadMaxSize: room for AU-headers-length, one AU-header and one byte *)
Definition minmax (c : cfg) : N := 2 + ceil8 (hw c true) + 1.

Section P.
Variable c : cfg.
Variable max : N.
Hypothesis Hcfg : cfg_ok c.
Hypothesis Hmax : minmax c <= max.

Notation hw := (hw c).
Notation hbits := (hbits c).
Notation len_agg := (len_agg c).

Lemma hw_pos first : 0 < hw first.
Proof. destruct Hcfg. unfold Model.hw. destruct first; lia. Qed.

(* ---------- header sizes ---------- *)
Definition hrem (first : bool) (k : N) : N := if k =? 0 then 0 else hw first + (k - 1) * hw false.

Lemma nlen_au_hdr first size : nlen (au_hdr c first size) = hw first.
Proof.
  unfold au_hdr, Model.hw. rewrite nlen_app, !nlen_bits_be, !N2Nat.id. destruct first; reflexivity.
Qed.

Lemma nlen_hdr_bits aus : forall first, nlen (hdr_bits c first aus) = hrem first (nlen aus).
Proof.
  clear Hmax Hcfg.
  induction aus as [|a t IH]; intros first; cbn [hdr_bits nlen]; [reflexivity|].
  rewrite nlen_app, nlen_au_hdr, IH. unfold hrem.
  destruct (N.eqb_spec (N.succ (nlen t)) 0); [lia|]. replace (N.succ (nlen t) - 1) with (nlen t) by lia.
  destruct (N.eqb_spec (nlen t) 0) as [->|Hn]; [lia|].
  set (w := hw false). replace (nlen t * w) with (w + (nlen t - 1) * w) by nia. lia.
Qed.

Lemma hbits_hrem k : hbits k = hrem true k.
Proof. reflexivity. Qed.

Lemma nlen_pack_ceil8 bs : nlen (pack bs) = ceil8 (nlen bs).
Proof. apply nlen_pack. Qed.

Lemma len_agg_snoc b a : len_agg (b ++ [a]) None = len_agg b (Some a).
Proof.
  unfold Model.len_agg. rewrite nlen_app, concat_snoc, nlen_app. cbn [nlen].
  replace (nlen b + N.succ 0 + 0) with (nlen b + 1) by lia. lia.
Qed.

Definition psize (p : packet) : N := nlen (ppayload p).

Lemma write_agg_size aus ts seq p : In p (write_agg c aus ts seq) -> psize p = len_agg aus None.
Proof.
  intros [<-|[]]. unfold psize, Model.len_agg; cbn [ppayload be16].
  rewrite !nlen_app, nlen_pack_ceil8, nlen_hdr_bits. replace (nlen aus + 0) with (nlen aus) by lia.
  rewrite hbits_hrem. cbn [be16 nlen]. lia.
Qed.

(* ---------- sequence numbers and markers ---------- *)
Definition seqs_ok (seq : N) (ps : list packet) : Prop :=
  forall i p, nnth i ps = Some p -> pseq p = seq_add seq i.
Definition markers_ok (g : list packet) : Prop :=
  forall i p, nnth i g = Some p -> pmarker p = (i + 1 =? nlen g).

Lemma seqs_ok_app seq ps qs : seqs_ok seq ps -> seqs_ok (seq_add seq (nlen ps)) qs -> seqs_ok seq (ps ++ qs).
Proof.
  clear Hmax Hcfg. intros H1 H2 i p H. destruct (N.ltb_spec i (nlen ps)).
  - rewrite nnth_app_l in H by assumption. now apply H1.
  - rewrite nnth_app_r in H by assumption. apply H2 in H. rewrite H, seq_add_add. f_equal. lia.
Qed.

Lemma frag_pkts_len seq ts cs : nlen (frag_pkts c seq ts cs) = nlen cs.
Proof. revert seq; induction cs as [|x t IH]; intros seq; cbn [frag_pkts nlen]; [reflexivity|]. now rewrite IH. Qed.

Lemma frag_pkts_seq ts cs : forall seq, seq < 65536 -> seqs_ok seq (frag_pkts c seq ts cs).
Proof.
  induction cs as [|x t IH]; intros seq Hs i p H; cbn [frag_pkts nnth] in H; [discriminate|].
  destruct (N.eqb_spec i 0) as [->|Hi].
  - injection H as <-. cbn [pseq]. now rewrite seq_add_0.
  - apply IH in H; [|apply seq_next_lt]. rewrite H, seq_add_next. f_equal. lia.
Qed.

Lemma frag_pkts_marker ts cs : forall seq, markers_ok (frag_pkts c seq ts cs).
Proof.
  induction cs as [|x t IH]; intros seq i p H; cbn [frag_pkts nnth] in H; [discriminate|].
  rewrite frag_pkts_len. destruct (N.eqb_spec i 0) as [->|Hi].
  - injection H as <-. cbn [pmarker nlen]. destruct t; cbn [nlen]; [reflexivity|]. symmetry. apply N.eqb_neq. lia.
  - apply IH in H. rewrite H, frag_pkts_len. cbn [nlen].
    destruct (N.eqb_spec (N.pred i + 1) (nlen t)); destruct (N.eqb_spec (i + 1) (N.succ (nlen t))); try reflexivity; lia.
Qed.

Lemma frag_pkts_size ts cs : forall seq p, In p (frag_pkts c seq ts cs) ->
  exists x, In x cs /\ psize p = 2 + ceil8 (hw true) + nlen x /\ pts p = ts.
Proof.
  induction cs as [|x t IH]; intros seq p H; cbn [frag_pkts In] in H; [contradiction|].
  destruct H as [<-|H].
  - exists x. split; [now left|]. unfold psize; cbn [ppayload pts be16]. split; [|reflexivity].
    rewrite !nlen_app, nlen_pack_ceil8, nlen_au_hdr. cbn [nlen be16].
    lia.
  - destruct (IH _ _ H) as (y & Hy & Hs). exists y. split; [now right|assumption].
Qed.

(* ---------- one batch ---------- *)
(* a batch the loop can hand to writeBatch: two or more AUs only if they fit together *)
Definition batch_ok (b : list bytes) : Prop := 2 <= nlen b -> len_agg b None <= max.

Lemma avail_pos : 0 < max - 2 - ceil8 (hw true).
Proof. unfold minmax in Hmax. lia. Qed.

Lemma write_batch_wf b ts seq : batch_ok b -> seq < 65536 -> Forall (fun a => a <> []) b ->
  exists g, write_batch c max b ts seq = Some g /\ g <> [] /\
    Forall (fun p => psize p <= max /\ pts p = ts) g /\ seqs_ok seq g /\ markers_ok g.
Proof.
  intros Hb Hs Hne.
  assert (Hagg : (nlen b <> 1 \/ len_agg b None < max) -> len_agg b None <= max ->
     exists g, Some (write_agg c b ts seq) = Some g /\ g <> [] /\
       Forall (fun p => psize p <= max /\ pts p = ts) g /\ seqs_ok seq g /\ markers_ok g).
  { intros _ Hle. eexists. split; [reflexivity|]. split; [discriminate|]. splits.
    - constructor; [|constructor]. split; [|reflexivity]. rewrite (write_agg_size b ts seq); [assumption|now left].
    - intros i p H. unfold write_agg in H. cbn [nnth] in H. destruct (N.eqb_spec i 0) as [->|]; [|discriminate].
      injection H as <-. cbn [pseq]. now rewrite seq_add_0.
    - intros i p H. unfold write_agg in H. cbn [nnth] in H. destruct (N.eqb_spec i 0) as [->|]; [|discriminate].
      injection H as <-. reflexivity. }
  destruct b as [|a [|a2 t]].
  - (* empty batch: 2 bytes *) apply Hagg; [left; cbn; lia|]. unfold Model.len_agg, Model.hbits. cbn. unfold minmax in Hmax. lia.
  - cbn [write_batch]. destruct (N.ltb_spec (len_agg [a] None) max) as [Hlt|Hge].
    + apply Hagg; [now right|lia].
    + unfold write_frag. destruct (N.ltb_spec max (2 + ceil8 (hw true) + 1)); [unfold minmax in Hmax; lia|].
      pose proof avail_pos as Hav. inversion Hne as [|? ? Ha _]; subst.
      eexists. split; [reflexivity|]. splits.
      * rewrite chunks_cons by assumption. discriminate.
      * rewrite Forall_forall. intros p Hp. apply frag_pkts_size in Hp. destruct Hp as (x & Hx & Hsz & Hts).
        split; [|assumption]. pose proof (chunks_bounds (max - 2 - ceil8 (hw true)) a Hav) as Hcb.
        rewrite Forall_forall in Hcb. specialize (Hcb x Hx). lia.
      * now apply frag_pkts_seq.
      * apply frag_pkts_marker.
  - apply Hagg; [left; cbn [nlen]; lia|]. apply Hb. cbn [nlen]. lia.
Qed.

(* ---------- the batching loop ---------- *)
Lemma batch_loop_ok aus : forall b, batch_ok b -> Forall batch_ok (batch_loop c max aus b).
Proof.
  induction aus as [|a t IH]; intros b Hb; cbn [batch_loop]; [now constructor|].
  destruct (N.leb_spec (len_agg b (Some a)) max) as [Hle|Hgt].
  - apply IH. intros _. now rewrite len_agg_snoc.
  - assert (H1 : batch_ok [a]) by (intros H; cbn [nlen] in H; lia).
    destruct b; [now apply IH|]. constructor; [assumption|now apply IH].
Qed.

Lemma batch_loop_concat aus : forall b, concat (batch_loop c max aus b) = b ++ aus.
Proof.
  induction aus as [|a t IH]; intros b; cbn [batch_loop].
  - cbn. now rewrite !app_nil_r.
  - destruct (len_agg b (Some a) <=? max).
    + rewrite IH, <- app_assoc. reflexivity.
    + destruct b as [|b0 bt]; [now rewrite IH|]. cbn [concat]. rewrite IH. reflexivity.
Qed.

Lemma batch_loop_ne aus : forall b, batch_loop c max aus b <> [].
Proof.
  induction aus as [|a t IH]; intros b; cbn [batch_loop]; [discriminate|].
  destruct (len_agg b (Some a) <=? max); [apply IH|]. destruct b; [apply IH|discriminate].
Qed.

Lemma batch_loop_nonempty aus : forall b, (b <> [] \/ aus <> []) -> Forall (fun x => x <> []) (batch_loop c max aus b).
Proof.
  induction aus as [|a t IH]; intros b H; cbn [batch_loop].
  - constructor; [|constructor]. destruct H as [H|H]; [assumption|contradiction].
  - destruct (len_agg b (Some a) <=? max).
    + apply IH. left. destruct b; discriminate.
    + destruct b as [|b0 bt]; [apply IH; left; discriminate|].
      constructor; [discriminate|]. apply IH. left; discriminate.
Qed.

(* ---------- the whole Encode call, batch by batch ---------- *)
Fixpoint enc_groups (bs : list (list bytes)) (ts seq : N) : option (list (list packet)) :=
  match bs with
  | [] => Some []
  | b :: t =>
      match write_batch c max b ts seq with
      | None => None
      | Some g => option_map (cons g) (enc_groups t ((ts + nlen b * spau) mod 4294967296) (seq_add seq (nlen g)))
      end
  end.

Lemma enc_batches_groups bs : forall ts seq, seq < 65536 ->
  enc_batches c max bs ts seq =
  match enc_groups bs ts seq with
  | None => None
  | Some gs => Some (concat gs, seq_add seq (nlen (concat gs)))
  end.
Proof.
  induction bs as [|b t IH]; intros ts seq Hs; cbn [enc_batches enc_groups].
  - cbn. now rewrite seq_add_0.
  - destruct (write_batch c max b ts seq) as [g|]; [|reflexivity].
    rewrite IH by apply seq_add_lt. destruct (enc_groups t _ _) as [gs|]; cbn [option_map]; [|reflexivity].
    cbn [concat]. rewrite nlen_app, seq_add_add. reflexivity.
Qed.

Lemma enc_groups_wf bs : forall ts seq, seq < 65536 -> Forall batch_ok bs ->
  Forall (Forall (fun a => a <> [])) bs ->
  exists gs, enc_groups bs ts seq = Some gs /\ nlen gs = nlen bs /\
    Forall (fun g => g <> [] /\ markers_ok g /\ Forall (fun p => psize p <= max) g) gs /\
    seqs_ok seq (concat gs).
Proof.
  induction bs as [|b t IH]; intros ts seq Hs Hok Hne; cbn [enc_groups].
  - exists []. splits; try reflexivity; [constructor|]. intros i p H. cbn in H. discriminate.
  - inversion Hok as [|? ? Hb Ht]; subst. inversion Hne as [|? ? Hn Hnt]; subst.
    destruct (write_batch_wf b ts seq Hb Hs Hn) as (g & Hg & Hgne & Hgsz & Hgseq & Hgm). rewrite Hg.
    destruct (IH ((ts + nlen b * spau) mod 4294967296) (seq_add seq (nlen g)) (seq_add_lt _ _) Ht Hnt)
      as (gs & Hgs & Hlen & Hall & Hseq).
    rewrite Hgs. cbn [option_map]. exists (g :: gs). splits.
    + reflexivity.
    + cbn [nlen]. now rewrite Hlen.
    + constructor; [|assumption]. splits; try assumption.
      eapply Forall_impl; [|exact Hgsz]. cbn. tauto.
    + cbn [concat]. now apply seqs_ok_app.
Qed.

(* C06: every packet of an Encode call is within the limit, sequence numbers run on from the
   encoder's counter, every batch group ends with (exactly) one marker packet *)
Theorem enc_wellformed seq aus : seq < 65536 -> Forall (fun a => a <> []) aus ->
  exists gs, enc_groups (batch_loop c max aus []) 0 seq = Some gs /\
    enc c max seq aus = Some (concat gs, seq_add seq (nlen (concat gs))) /\
    Forall (fun g => g <> [] /\ markers_ok g /\ Forall (fun p => psize p <= max) g) gs /\
    seqs_ok seq (concat gs) /\ nlen gs = nlen (batch_loop c max aus []).
Proof.
  intros Hs Hne.
  destruct (enc_groups_wf (batch_loop c max aus []) 0 seq Hs) as (gs & Hgs & Hlen & Hall & Hseq).
  - apply batch_loop_ok. intros H. cbn in H. lia.
  - assert (G : forall bs, Forall (fun a : bytes => a <> []) (concat bs) -> Forall (Forall (fun a : bytes => a <> [])) bs).
    { induction bs as [|x t IHb]; intros H; constructor; cbn [concat] in H; apply Forall_app in H; [tauto|apply IHb; tauto]. }
    apply G. rewrite batch_loop_concat. exact Hne.
  - exists gs. splits; try assumption. unfold enc. rewrite enc_batches_groups by assumption. now rewrite Hgs.
Qed.

End P.

(* ====================================================================================== *)
(* ---------- decoder: invariant, totality, bounds (arbitrary histories, C08) ---------- *)
Section D.
Variable c : cfg.
Hypothesis Hcfg : cfg_ok c.
Notation hw := (hw c).

Lemma hw_pos' first : 0 < hw first.
Proof. destruct Hcfg. unfold Model.hw. destruct first; lia. Qed.

(* number of AU-headers still announced by a remaining headers length *)
Definition cntf (x : N) : N := (x + hw false - 1) / hw false.
Definition cnt_rem (hl : N) (first : bool) : N :=
  if first then (if hl =? 0 then 0 else 1 + cntf (hl - hw true)) else cntf hl.

Lemma cntf_0 : cntf 0 = 0.
Proof. unfold cntf. pose proof (hw_pos' false). apply N.div_small. lia. Qed.

Lemma cntf_step x : 0 < x -> cntf x = 1 + cntf (x - hw false).
Proof.
  intros Hx. unfold cntf. pose proof (hw_pos' false) as Hw. set (w := hw false) in *.
  destruct (N.leb_spec x w).
  - replace (x - w) with 0 by lia. rewrite (N.div_small (0 + w - 1)) by lia.
    rewrite N.add_0_r. symmetry. apply (N.div_unique (x + w - 1) w 1 (x - 1)); lia.
  - replace (x + w - 1) with ((x - w + w - 1) + 1 * w) by lia. rewrite N.div_add by lia. lia.
Qed.

Lemma cnt_rem_0 first : cnt_rem 0 first = 0.
Proof. unfold cnt_rem. destruct first; [reflexivity|apply cntf_0]. Qed.

Lemma cnt_rem_step hl first : 0 < hl -> cnt_rem hl first = 1 + cnt_rem (hl - hw first) false.
Proof.
  intros H. unfold cnt_rem. destruct first.
  - destruct (N.eqb_spec hl 0); [lia|reflexivity].
  - now apply cntf_step.
Qed.

Lemma hcount_closed hl : hcount c hl = Some (cnt_rem hl true).
Proof.
  unfold hcount, cnt_rem. pose proof (hw_pos' true). pose proof (hw_pos' false).
  destruct (N.eqb_spec hl 0); [reflexivity|].
  destruct (N.eqb_spec (hw true) 0); [lia|].
  destruct (N.leb_spec hl (hw true)).
  - replace (hl - hw true) with 0 by lia. now rewrite cntf_0.
  - destruct (N.eqb_spec (hw false) 0); [lia|]. reflexivity.
Qed.

Lemma ntake_nset_succ {A} (l : list A) : forall i v, i < nlen l -> ntake (i + 1) (nset i v l) = ntake i l ++ [v].
Proof.
  induction l as [|x t IH]; intros i v H; cbn [nlen] in H; [lia|]. cbn [nset].
  destruct (N.eqb_spec i 0) as [->|Hi].
  - cbn [ntake]. cbn. now rewrite ntake_0.
  - cbn [ntake]. destruct (N.eqb_spec (i + 1) 0); [lia|]. destruct (N.eqb_spec i 0); [lia|].
    cbn [app]. f_equal. replace (N.pred (i + 1)) with (N.pred i + 1) by lia. apply IH. lia.
Qed.

Definition posN (v : N) : Prop := 0 < v.

Lemma read_loop_spec fuel : forall bs hl first lens i,
  nlen bs < nlen fuel -> nlen lens = i + cnt_rem hl first -> Forall posN (ntake i lens) ->
  match read_loop c fuel bs hl first lens i with
  | RPanic => False
  | RErr => True
  | ROk lens' => nlen lens' = nlen lens /\ Forall posN lens' /\ hl <= nlen bs
  end.
Proof.
  destruct Hcfg as (Hsl & _).
  induction fuel as [|f0 fuel IH]; intros bs hl first lens i Hf Hn Hp; [cbn [nlen] in Hf; lia|].
  cbn [read_loop]. destruct (N.eqb_spec hl 0) as [->|Hhl].
  - rewrite cnt_rem_0 in Hn. splits; [reflexivity| |lia]. rewrite ntake_all in Hp by lia. exact Hp.
  - pose proof (read_bits_nopanic bs (sl c) Hsl) as Hnp.
    destruct (read_bits bs (sl c)) as [v bs1| |] eqn:E1; [|exact I|congruence].
    apply read_bits_ok in E1. destruct E1 as [E1a E1b].
    destruct (N.eqb_spec v 0) as [|Hv]; [exact I|].
    set (w := if first then il c else idl c).
    assert (Hidx : match (if 0 <? w then read_bits bs1 w else BOk 0 bs1) with
                   | BOk x bs2 => w <= nlen bs1 /\ nlen bs2 = nlen bs1 - w
                   | BErr => True | BPanic => False end).
    { destruct (N.ltb_spec 0 w) as [Hw|Hw].
      - pose proof (read_bits_nopanic bs1 w Hw). destruct (read_bits bs1 w) eqn:E2; [|exact I|congruence].
        now apply read_bits_ok in E2.
      - split; lia. }
    destruct (if 0 <? w then read_bits bs1 w else BOk 0 bs1) as [x bs2| |]; [|exact I|contradiction].
    destruct Hidx as [E2a E2b].
    destruct (N.eqb_spec x 0) as [|]; cbn [negb]; [|exact I].
    assert (Hstep : cnt_rem hl first = 1 + cnt_rem (hl - sl c - w) false).
    { rewrite cnt_rem_step by lia. f_equal. f_equal. unfold Model.hw, w. destruct first; lia. }
    destruct (N.ltb_spec i (nlen lens)) as [Hi|Hi]; [|lia].
    specialize (IH bs2 (hl - sl c - w) false (nset i v lens) (i + 1)).
    cbn [nlen] in Hf. rewrite nlen_nset in IH.
    destruct (read_loop c fuel bs2 (hl - sl c - w) false (nset i v lens) (i + 1)).
    + destruct IH as (H1 & H2 & H3); [lia|lia| |].
      * rewrite ntake_nset_succ by assumption. apply Forall_app. split; [assumption|]. constructor; [unfold posN; lia|constructor].
      * splits; [assumption|assumption|lia].
    + exact I.
    + apply IH; [lia|lia|]. rewrite ntake_nset_succ by assumption. apply Forall_app. split; [assumption|].
      constructor; [unfold posN; lia|constructor].
Qed.

Lemma read_au_headers_spec buf hl :
  match read_au_headers c buf hl with
  | RPanic => False
  | RErr => True
  | ROk lens => Forall posN lens /\ hl <= 8 * nlen buf
  end.
Proof.
  unfold read_au_headers. rewrite hcount_closed.
  pose proof (read_loop_spec (true :: bytes_bits buf) (bytes_bits buf) hl true (nrep 0 (cnt_rem hl true)) 0) as H.
  destruct (read_loop c _ _ _ _ _ _).
  - destruct H as (_ & H2 & H3); [cbn [nlen]; lia|rewrite nlen_nrep; lia|rewrite ntake_0; constructor|].
    split; [assumption|]. now rewrite nlen_bytes_bits in H3.
  - exact I.
  - apply H; [cbn [nlen]; lia|rewrite nlen_nrep; lia|rewrite ntake_0; constructor].
Qed.

(* ---- ADTS unmarshal: the AUs are disjoint pieces of the input ---- *)
Lemma adts_loop_size fuel : forall buf acc res, adts_loop fuel buf acc = Some res ->
  nlen (concat res) <= nlen (concat acc) + nlen buf.
Proof.
  induction fuel as [|f0 fuel IH]; intros buf acc res H; cbn [adts_loop] in H; [discriminate|].
  destruct buf as [|b0 [|b1 [|b2 [|b3 [|b4 [|b5 [|b6 [|b7 rest']]]]]]]]; try discriminate.
  remember (b7 :: rest') as rest eqn:Er.
  do 7 match type of H with (if ?b then None else _) = _ => destruct b; [discriminate|] end.
  set (fl := (b3 mod 4) * 2048 + b4 * 8 + (b5 / 32) mod 8 - 7) in *.
  destruct (N.ltb_spec (nlen rest) fl) as [|Hfl]; [discriminate|].
  assert (Hau : nlen (ntake fl rest) = fl) by (rewrite nlen_ntake; lia).
  assert (Hrest : nlen (ndrop fl rest) = nlen rest - fl) by apply nlen_ndrop.
  destruct (ndrop fl rest) as [|y yt] eqn:Ed.
  - injection H as <-. rewrite concat_snoc, nlen_app, Hau. cbn [nlen] in *. lia.
  - apply IH in H. rewrite concat_snoc, nlen_app, Hau in H. cbn [nlen] in *. lia.
Qed.

Lemma adts_unmarshal_size a x : adts_unmarshal a = Some [x] -> nlen x <= nlen a.
Proof.
  intros H. apply adts_loop_size in H. cbn [concat nlen] in H. rewrite app_nil_r in H. lia.
Qed.

Definition fsize (f : list bytes) : N := nlen (concat f).

Lemma remove_adts_spec d aus :
  let '(d', r) := remove_adts d aus in
  dfrags d' = dfrags d /\ dsize d' = dsize d /\ dnext d' = dnext d /\ r <> DPanic /\
  forall f, r = DFrame f -> fsize f <= fsize aus.
Proof.
  unfold remove_adts.
  assert (Hsame : forall d0, dfrags d0 = dfrags d -> dsize d0 = dsize d -> dnext d0 = dnext d ->
     dfrags d0 = dfrags d /\ dsize d0 = dsize d /\ dnext d0 = dnext d /\ DFrame aus <> DPanic /\
     forall f, DFrame aus = DFrame f -> fsize f <= fsize aus).
  { intros. splits; try assumption; [discriminate|]. intros f E; injection E as <-. lia. }
  destruct (dfirst d); cbn [negb].
  - destruct (dadts d).
    + destruct aus as [|a [|a2 t]]; try (splits; try reflexivity; [discriminate|discriminate]).
      destruct (adts_unmarshal a) as [[|x [|x2 xt]]|] eqn:E; try (splits; try reflexivity; [discriminate|discriminate]).
      splits; try reflexivity; [discriminate|]. intros f Ef; injection Ef as <-.
      apply adts_unmarshal_size in E. unfold fsize; cbn [concat]. rewrite !app_nil_r. exact E.
    + apply Hsame; reflexivity.
  - destruct aus as [|a [|a2 t]]; try (apply Hsame; reflexivity).
    destruct (adts_like a); [|apply Hsame; reflexivity].
    destruct (adts_unmarshal a) as [[|x [|x2 xt]]|] eqn:E; try (apply Hsame; reflexivity).
    splits; try reflexivity; [discriminate|]. intros f Ef; injection Ef as <-.
    apply adts_unmarshal_size in E. unfold fsize; cbn [concat]. rewrite !app_nil_r. exact E.
Qed.

(* ---- join ---- *)
Lemma join_aux_exact frags : forall size n acc,
  n = nlen acc -> size = n + nlen (concat frags) -> join_aux frags size n acc = Some (acc ++ concat frags).
Proof.
  induction frags as [|p t IH]; intros size n acc Hn Hs; cbn [join_aux concat] in *.
  - cbn [nlen] in Hs. replace (size - n) with 0 by lia. cbn [nrep]. reflexivity.
  - rewrite nlen_app in Hs. destruct (N.ltb_spec size n); [lia|].
    rewrite ntake_all by lia. rewrite IH; [now rewrite <- app_assoc| rewrite nlen_app; lia | lia].
Qed.
Lemma join_exact frags : join frags (nlen (concat frags)) = Some (concat frags).
Proof. unfold join. now rewrite join_aux_exact with (acc := []). Qed.

Lemma split_aus_size lens : forall data aus, split_aus lens data = Some aus -> fsize aus <= nlen data.
Proof.
  induction lens as [|l t IH]; intros data aus H; cbn [split_aus] in H.
  - injection H as <-. unfold fsize; cbn. lia.
  - destruct (N.ltb_spec (nlen data) l); [discriminate|].
    destruct (split_aus t (ndrop l data)) as [r|] eqn:E; [|discriminate]. cbn [option_map] in H. injection H as <-.
    apply IH in E. rewrite nlen_ndrop in E. unfold fsize in *; cbn [concat]. rewrite nlen_app, nlen_ntake. lia.
Qed.

(* ---- the invariant ---- *)
Definition Inv (d : dstate) : Prop :=
  dsize d = nlen (concat (dfrags d)) /\ (dsize d = 0 -> dfrags d = []) /\
  Forall (fun f => 0 < nlen f) (dfrags d).
Definition clean (d : dstate) : Prop := dsize d = 0 /\ dfrags d = [].

Lemma inv_init : Inv dinit.
Proof. unfold Inv, dinit; cbn. splits; auto. Qed.
Lemma inv_reset d : Inv (dreset d).
Proof. unfold Inv, dreset; cbn. splits; auto. Qed.
Lemma clean_reset d : clean (dreset d).
Proof. split; reflexivity. Qed.
Lemma clean_inv d : clean d -> Inv d.
Proof. intros [H1 H2]. unfold Inv. rewrite H1, H2. cbn. splits; auto. Qed.

Definition psz (p : packet) : N := nlen (ppayload p).

(* one Decode call: invariant, no panic, retained size and returned size bounded *)
Lemma dec_step P d p : Inv d -> dsize d <= N.max cap P -> psz p <= P ->
  let '(d', r) := dec c d p in
  Inv d' /\ dsize d' <= N.max cap P /\ r <> DPanic /\ (forall f, r = DFrame f -> fsize f <= N.max cap P).
Proof.
  intros HI HB HP.
  assert (Hreset : Inv (dreset d) /\ dsize (dreset d) <= N.max cap P /\ @DErr (list bytes) <> DPanic /\
                   (forall f, @DErr (list bytes) = DFrame f -> fsize f <= N.max cap P)).
  { splits; [apply inv_reset|cbn; lia|discriminate|discriminate]. }
  unfold dec. unfold psz in HP.
  destruct (ppayload p) as [|b0 [|b1 payload]]; try exact Hreset.
  cbn [nlen] in HP.
  destruct (b0 * 256 + b1 =? 0); [exact Hreset|]. set (hl := b0 * 256 + b1).
  pose proof (read_au_headers_spec payload hl) as Hr.
  destruct (read_au_headers c payload hl) as [lens| |]; [|exact Hreset|contradiction].
  destruct Hr as [Hpos Hhl].
  assert (Hc8 : ceil8 hl <= nlen payload) by (apply ceil8_le; lia).
  unfold nsub. destruct (N.leb_spec (ceil8 hl) (nlen payload)); [|lia].
  destruct (N.leb_spec (nlen payload) (nlen payload)); [|lia]. cbn [andb].
  set (data := ntake (nlen payload - ceil8 hl) (ndrop (ceil8 hl) payload)).
  assert (Hdata : nlen data <= P). { unfold data. rewrite nlen_ntake, nlen_ndrop. lia. }
  destruct HI as (Hs & Hz & Hfr).
  destruct (N.eqb_spec (dsize d) 0) as [Hd|Hd].
  - destruct (pmarker p).
    + destruct (split_aus lens data) as [aus|] eqn:Esp; [|exact Hreset].
      pose proof (remove_adts_spec (dreset d) aus) as Hra.
      destruct (remove_adts (dreset d) aus) as [d' r]. destruct Hra as (H1 & H2 & H3 & H4 & H5).
      splits.
      * unfold Inv. rewrite H1, H2. cbn. splits; auto.
      * rewrite H2. cbn. lia.
      * assumption.
      * intros f Ef. specialize (H5 f Ef). apply split_aus_size in Esp. lia.
    + destruct lens as [|l0 [|l1 lt]]; try exact Hreset.
      destruct (N.ltb_spec (nlen data) l0) as [|Hl0]; [exact Hreset|].
      inversion Hpos as [|? ? Hl0p _]; subst. unfold posN in Hl0p.
      splits; [|cbn [dsize]; lia|discriminate|discriminate].
      unfold Inv; cbn [dsize dfrags dreset app concat]. rewrite app_nil_r, nlen_ntake.
      splits; [lia|lia|]. constructor; [rewrite nlen_ntake; lia|constructor].
  - destruct lens as [|l0 [|l1 lt]]; try exact Hreset.
    destruct (N.ltb_spec (nlen data) l0) as [|Hl0]; [exact Hreset|].
    destruct (pseq p =? dnext d); cbn [negb]; [|exact Hreset].
    destruct (N.ltb_spec cap (dsize d + l0)) as [|Hcap]; [exact Hreset|].
    inversion Hpos as [|? ? Hl0p _]; subst. unfold posN in Hl0p.
    assert (Hlen : nlen (ntake l0 data) = l0) by (rewrite nlen_ntake; lia).
    assert (HI' : Inv (mkD (dfirst d) (dadts d) (dfrags d ++ [ntake l0 data]) (dsize d + l0) (seq_next (dnext d)))).
    { unfold Inv; cbn [dsize dfrags]. rewrite concat_snoc, nlen_app, Hlen. splits; [lia|lia|].
      apply Forall_app. split; [assumption|]. constructor; [lia|constructor]. }
    destruct (pmarker p); cbn [negb].
    + cbn [dfrags].
      replace (dsize d + l0) with (nlen (concat (dfrags d ++ [ntake l0 data])))
        by (rewrite concat_snoc, nlen_app, Hlen; lia).
      rewrite join_exact.
      match goal with |- context [remove_adts ?dd ?aa] => pose proof (remove_adts_spec dd aa) as Hra; destruct (remove_adts dd aa) as [d' r] end.
      destruct Hra as (H1 & H2 & H3 & H4 & H5). splits.
      * unfold Inv. rewrite H1, H2. cbn. splits; auto.
      * rewrite H2. cbn. lia.
      * assumption.
      * intros f Ef. specialize (H5 f Ef). unfold fsize in H5 at 2. cbn [concat] in H5.
        rewrite app_nil_r, concat_snoc, nlen_app, Hlen in H5. lia.
    + splits; [exact HI'|cbn [dsize]; lia|discriminate|discriminate].
Qed.

Definition BInv (P : N) (d : dstate) : Prop := Inv d /\ dsize d <= N.max cap P.

Lemma dec_run_spec P hist : forall d, BInv P d -> Forall (fun p => psz p <= P) hist ->
  let '(d', rs) := dec_run c d hist in
  BInv P d' /\ ~ In DPanic rs /\ forall f, In (DFrame f) rs -> fsize f <= N.max cap P.
Proof.
  induction hist as [|p t IH]; intros d [HI HB] HF; cbn [dec_run].
  - splits; [split; assumption|intros []|intros f []].
  - inversion HF as [|? ? Hp Ht]; subst.
    pose proof (dec_step P d p HI HB Hp) as Hstep. destruct (dec c d p) as [d' r].
    destruct Hstep as (HI' & HB' & Hnp & Hfr).
    specialize (IH d' (conj HI' HB') Ht). destruct (dec_run c d' t) as [d'' rs].
    destruct IH as (HB'' & Hnp' & Hfr').
    assert (G : BInv P d'' /\ ~ In DPanic (r :: rs) /\ forall f, In (DFrame f) (r :: rs) -> fsize f <= N.max cap P).
    { splits; [assumption| |].
      - intros [H|H]; [congruence|contradiction].
      - intros f [H|H]; [now apply Hfr|now apply Hfr']. }
    destruct r; try exact G. congruence.
Qed.

Lemma dec_run_inv hist d : Inv d ->
  Inv (fst (dec_run c d hist)) /\ ~ In DPanic (snd (dec_run c d hist)).
Proof.
  intros HI.
  assert (HP : exists P, Forall (fun p => psz p <= P) hist /\ dsize d <= N.max cap P).
  { clear HI. induction hist as [|p t IH].
    - exists (dsize d). split; [constructor|lia].
    - destruct IH as (P & HF & HB). exists (N.max P (psz p)). split; [|lia].
      constructor; [lia|]. eapply Forall_impl; [|exact HF]. cbn. intros; lia. }
  destruct HP as (P & HF & HB).
  pose proof (dec_run_spec P hist d (conj HI HB) HF) as H. destruct (dec_run c d hist) as [d' rs].
  destruct H as ([H1 _] & H2 & _). split; assumption.
Qed.

Theorem total hist : ~ In DPanic (snd (dec_run c dinit hist)).
Proof. apply (dec_run_inv hist dinit inv_init). Qed.

Lemma nlen_concat_ge {A} (l : list (list A)) : Forall (fun f => 0 < nlen f) l -> nlen l <= nlen (concat l).
Proof. induction 1 as [|x t Hx Ht IH]; cbn [nlen concat]; [lia|]. rewrite nlen_app. lia. Qed.

Theorem bounded P hist :
  Forall (fun p => psz p <= P) hist ->
  let '(d, rs) := dec_run c dinit hist in
  fst (retained d) <= N.max cap P /\ snd (retained d) <= N.max cap P /\
  forall f, In (DFrame f) rs -> fsize f <= N.max cap P.
Proof.
  intros HF. pose proof (dec_run_spec P hist dinit) as H. destruct (dec_run c dinit hist) as [d rs].
  destruct H as ([(Hs & Hz & Hne) Hb] & _ & Hfr); [split; [apply inv_init|cbn; lia]|assumption|].
  unfold retained; cbn [fst snd]. splits; [lia| |assumption].
  pose proof (nlen_concat_ge (dfrags d) Hne). lia.
Qed.

End D.

(* ====================================================================================== *)
(* ---------- round trip (C03) ---------- *)
Section R.
Variable c : cfg.
Hypothesis Hcfg : cfg_ok c.
Notation hw := (hw c).
Notation hbits := (hbits c).

Definition piece_ok (a : bytes) : Prop := 0 < nlen a /\ nlen a < 2 ^ sl c.
Definition au_ok (a : bytes) : Prop := piece_ok a /\ nlen a <= cap.
(* a frame the format can carry: at least one AU, every AU non-empty, its size representable in
   SizeLength bits and at most MaxAccessUnitSize, and few enough AUs for the 16-bit AU-headers-length *)
Definition valid_frame (f : list bytes) : Prop :=
  f <> [] /\ Forall au_ok f /\ hbits (nlen f) < 65536.
(* the ADTS sniff on the first AU ever returned does not fire: either an AU list was already
   returned, or no AU of the frame starts with an ADTS sync word (raw AAC access units never do) *)
Definition sniff_safe (d : dstate) (f : list bytes) : Prop :=
  dadts d = false /\ (dfirst d = true \/ Forall (fun a => adts_like a = false) f).
Definition ready (d : dstate) : Prop := clean d /\ dfirst d = true /\ dadts d = false.

Lemma be16_val v : v < 65536 -> ((v / 256) mod 256) * 256 + v mod 256 = v.
Proof.
  intros H. assert (v / 256 < 256) by (apply N.div_lt_upper_bound; lia).
  rewrite (N.mod_small (v / 256)) by assumption. pose proof (N.div_mod v 256). lia.
Qed.

Lemma read_bits_fieldN w v rest : 0 < w ->
  read_bits (bits_be (N.to_nat w) v ++ rest) w = BOk (v mod 2 ^ w) rest.
Proof.
  intros Hw. pose proof (read_bits_field (N.to_nat w) v rest) as H. rewrite N2Nat.id in H. apply H. lia.
Qed.

Lemma hrem_succ first k : hrem c first (N.succ k) - sl c - (if first then il c else idl c) = hrem c false k.
Proof.
  unfold hrem. destruct (N.eqb_spec (N.succ k) 0); [lia|]. replace (N.succ k - 1) with k by lia.
  assert (E : hw first = sl c + (if first then il c else idl c)) by (unfold Model.hw; destruct first; reflexivity).
  destruct (N.eqb_spec k 0) as [->|Hk]; [lia|].
  set (w := hw false) in *. replace (k * w) with (w + (k - 1) * w) by nia. lia.
Qed.

Lemma read_loop_ok aus : forall first done rest fuel,
  Forall piece_ok aus -> nlen (hdr_bits c first aus ++ rest) < nlen fuel ->
  read_loop c fuel (hdr_bits c first aus ++ rest) (hrem c first (nlen aus)) first
            (done ++ nrep 0 (nlen aus)) (nlen done) = ROk (done ++ map (@nlen N) aus).
Proof.
  destruct Hcfg as (Hsl & _).
  induction aus as [|a t IH]; intros first done rest fuel Hok Hf.
  - cbn [nlen map nrep]. unfold hrem. cbn [N.eqb]. destruct fuel; reflexivity.
  - inversion Hok as [|? ? [Ha1 Ha2] Ht]; subst.
    destruct fuel as [|f0 fuel]; [cbn [nlen] in Hf; lia|].
    cbn [read_loop].
    assert (Hne : hrem c first (nlen (a :: t)) <> 0).
    { unfold hrem. cbn [nlen]. destruct (N.eqb_spec (N.succ (nlen t)) 0); [lia|]. pose proof (hw_pos' c Hcfg first). lia. }
    destruct (N.eqb_spec (hrem c first (nlen (a :: t))) 0); [contradiction|].
    cbn [hdr_bits]. unfold au_hdr at 1. rewrite <- !app_assoc.
    rewrite read_bits_fieldN by assumption. rewrite N.mod_small by assumption.
    destruct (N.eqb_spec (nlen a) 0); [lia|].
    set (w := if first then il c else idl c).
    set (R := hdr_bits c false t ++ rest).
    assert (Hidx : (if 0 <? w then read_bits (bits_be (N.to_nat w) 0 ++ R) w else BOk 0 (bits_be (N.to_nat w) 0 ++ R)) = BOk 0 R).
    { destruct (N.ltb_spec 0 w) as [Hw|Hw].
      - rewrite read_bits_fieldN by assumption. rewrite N.mod_0_l; [reflexivity|]. apply N.pow_nonzero. lia.
      - replace w with 0 by lia. reflexivity. }
    rewrite Hidx. cbn [N.eqb negb].
    cbn [nlen]. rewrite nlen_app, nlen_nrep.
    destruct (N.ltb_spec (nlen done) (nlen done + N.succ (nlen t))); [|lia].
    rewrite nrep_succ, nset_app_here.
    replace (done ++ nlen a :: nrep 0 (nlen t)) with ((done ++ [nlen a]) ++ nrep 0 (nlen t)) by (now rewrite <- app_assoc).
    replace (nlen done + 1) with (nlen (done ++ [nlen a])) by (rewrite nlen_app; cbn [nlen]; lia).
    fold w. rewrite hrem_succ. unfold R. rewrite IH; [|assumption|].
    + cbn [map]. now rewrite <- app_assoc.
    + cbn [nlen hdr_bits] in Hf. rewrite !nlen_app in Hf. rewrite nlen_app.
      rewrite nlen_au_hdr in Hf. pose proof (hw_pos' c Hcfg first). lia.
Qed.

Lemma cntf_mul k : cntf c (k * hw false) = k.
Proof.
  unfold cntf. pose proof (hw_pos' c Hcfg false) as Hw. set (w := hw false) in *.
  symmetry. apply (N.div_unique (k * w + w - 1) w k (w - 1)); lia.
Qed.

Lemma cnt_rem_hbits k : cnt_rem c (hbits k) true = k.
Proof.
  unfold cnt_rem, Model.hbits. destruct (N.eqb_spec k 0) as [->|Hk]; [reflexivity|].
  pose proof (hw_pos' c Hcfg true). destruct (N.eqb_spec (hw true + (k - 1) * hw false) 0); [lia|].
  set (X := (k - 1) * hw false) in *. replace (hw true + X - hw true) with X by lia.
  unfold X. rewrite cntf_mul. lia.
Qed.

Lemma read_au_headers_ok B data : Forall piece_ok B ->
  read_au_headers c (pack (hdr_bits c true B) ++ data) (hbits (nlen B)) = ROk (map (@nlen N) B).
Proof.
  intros Hok. unfold read_au_headers. rewrite (hcount_closed c Hcfg), cnt_rem_hbits.
  rewrite bytes_bits_app. destruct (bytes_bits_pack (hdr_bits c true B)) as [pad Hpad]. rewrite Hpad, <- app_assoc.
  pose proof (read_loop_ok B true [] (pad ++ bytes_bits data) (true :: hdr_bits c true B ++ pad ++ bytes_bits data) Hok) as H.
  cbn [app nlen] in H. apply H. lia.
Qed.

Lemma split_aus_ok B : split_aus (map (@nlen N) B) (concat B) = Some B.
Proof.
  induction B as [|a t IH]; cbn [map concat split_aus]; [reflexivity|].
  rewrite nlen_app. destruct (N.ltb_spec (nlen a + nlen (concat t)) (nlen a)); [lia|].
  rewrite ntake_app_exact, ndrop_app_exact, IH. reflexivity.
Qed.

(* the payload written for a list of AUs sharing one AU-header section *)
Definition pl (B : list bytes) : bytes := be16 (hbits (nlen B)) ++ pack (hdr_bits c true B) ++ concat B.

Lemma frag_pl x : be16 (hw true) ++ pack (au_hdr c true (nlen x)) ++ x = pl [x].
Proof.
  unfold pl. cbn [nlen hdr_bits concat]. rewrite !app_nil_r. f_equal. f_equal.
  unfold Model.hbits. cbn. lia.
Qed.

(* what Decode does once AU-headers and data are parsed *)
Definition dec_body (d : dstate) (seq : N) (m : bool) (lens : list N) (data : bytes) : dstate * dres (list bytes) :=
  if dsize d =? 0 then
    let d0 := dreset d in
    if m then
      match split_aus lens data with
      | None => (d0, DErr)
      | Some aus => remove_adts d0 aus
      end
    else
      match lens with
      | [l0] =>
          if nlen data <? l0 then (d0, DErr) else
          (mkD (dfirst d) (dadts d) (dfrags d0 ++ [ntake l0 data]) l0 (seq_next seq), DMore)
      | _ => (d0, DErr)
      end
  else
    match lens with
    | [l0] =>
        if nlen data <? l0 then (dreset d, DErr) else
        if negb (seq =? dnext d) then (dreset d, DErr) else
        let size' := dsize d + l0 in
        if cap <? size' then (dreset d, DErr) else
        let d' := mkD (dfirst d) (dadts d) (dfrags d ++ [ntake l0 data]) size' (seq_next (dnext d)) in
        if negb m then (d', DMore) else
        match join (dfrags d') size' with
        | Some au => remove_adts (dreset d') [au]
        | None => (d', DPanic)
        end
    | _ => (dreset d, DErr)
    end.

Lemma dec_pl B d seq ts m : B <> [] -> Forall piece_ok B -> hbits (nlen B) < 65536 ->
  dec c d (mkPkt seq ts m (pl B)) = dec_body d seq m (map (@nlen N) B) (concat B).
Proof.
  intros Hne Hok Hb. unfold dec, pl. cbn [ppayload be16 app].
  rewrite be16_val by assumption.
  assert (Hpos : hbits (nlen B) <> 0).
  { unfold Model.hbits. destruct B; [contradiction|]. cbn [nlen]. destruct (N.eqb_spec (N.succ (nlen B)) 0); [lia|].
    pose proof (hw_pos' c Hcfg true). lia. }
  destruct (N.eqb_spec (hbits (nlen B)) 0); [contradiction|].
  rewrite read_au_headers_ok by assumption.
  assert (Hsub : nsub (pack (hdr_bits c true B) ++ concat B) (ceil8 (hbits (nlen B)))
                   (nlen (pack (hdr_bits c true B) ++ concat B)) = Some (concat B)).
  { rewrite hbits_hrem, <- nlen_hdr_bits, <- nlen_pack_ceil8. unfold nsub. rewrite nlen_app.
    destruct (N.leb_spec (nlen (pack (hdr_bits c true B))) (nlen (pack (hdr_bits c true B)) + nlen (concat B))); [|lia].
    rewrite N.leb_refl. cbn [andb]. rewrite ndrop_app_exact, ntake_all by lia. reflexivity. }
  rewrite Hsub. reflexivity.
Qed.

Lemma remove_adts_safe d aus : sniff_safe d aus ->
  remove_adts d aus = (mkD true false (dfrags d) (dsize d) (dnext d), DFrame aus).
Proof.
  intros [Ha Hs]. unfold remove_adts. destruct d as [fi ad fr sz nx]; cbn [dfirst dadts dfrags dsize dnext] in *. subst ad.
  destruct fi; cbn [negb]; [reflexivity|]. destruct Hs as [Hs|Hs]; [discriminate|].
  destruct aus as [|a [|a2 t]]; try reflexivity. inversion Hs as [|? ? Hal _]; subst. now rewrite Hal.
Qed.

(* one aggregated packet, from a clean decoder *)
Lemma dec_agg B d seq ts : B <> [] -> Forall piece_ok B -> hbits (nlen B) < 65536 ->
  clean d -> sniff_safe d B ->
  exists d', dec c d (mkPkt seq ts true (pl B)) = (d', DFrame B) /\ ready d'.
Proof.
  intros Hne Hok Hb [Hcs Hcf] Hsn. rewrite dec_pl by assumption. unfold dec_body. rewrite Hcs. cbn [N.eqb].
  rewrite split_aus_ok. rewrite remove_adts_safe.
  - eexists. split; [reflexivity|]. unfold ready, clean; cbn. tauto.
  - destruct Hsn as [H1 H2]. split; assumption.
Qed.

(* the remaining pieces of a fragmented AU *)
Lemma dec_rest ts cs : forall d seq,
  cs <> [] -> Forall piece_ok cs -> Inv d -> 0 < dsize d -> dnext d = seq ->
  dsize d + nlen (concat cs) <= cap ->
  dadts d = false -> (dfirst d = true \/ adts_like (concat (dfrags d) ++ concat cs) = false) ->
  exists d', dec_run c d (frag_pkts c seq ts cs) =
    (d', repeat DMore (length cs - 1) ++ [DFrame [concat (dfrags d) ++ concat cs]]) /\ ready d'.
Proof.
  induction cs as [|x t IH]; intros d seq Hne Hpos HI Hsz Hnext Hcap Had Hsn; [contradiction|].
  inversion Hpos as [|? ? Hx Hpos']; subst.
  cbn [frag_pkts dec_run]. rewrite frag_pl.
  rewrite dec_pl; [|discriminate|constructor; [assumption|constructor]|].
  2:{ unfold Model.hbits. cbn. destruct Hcfg as (? & ? & ? & ?). unfold Model.hw. lia. }
  unfold dec_body. cbn [map concat]. rewrite app_nil_r.
  destruct (N.eqb_spec (dsize d) 0); [lia|].
  destruct (N.ltb_spec (nlen x) (nlen x)); [lia|].
  rewrite N.eqb_refl. cbn [negb].
  cbn [concat] in Hcap. rewrite nlen_app in Hcap.
  destruct (N.ltb_spec cap (dsize d + nlen x)); [lia|].
  rewrite ntake_all by lia.
  destruct HI as (Hs & Hz & Hfr). destruct Hx as [Hx1 Hx2].
  destruct t as [|x2 t2].
  - cbn [negb dfrags].
    replace (dsize d + nlen x) with (nlen (concat (dfrags d ++ [x]))) by (rewrite concat_snoc, nlen_app; lia).
    rewrite join_exact. rewrite remove_adts_safe.
    + cbn [frag_pkts dec_run length Nat.sub repeat app concat]. rewrite concat_snoc, app_nil_r.
      eexists. split; [reflexivity|]. unfold ready, clean; cbn. tauto.
    + split; [exact Had|]. cbn [dfirst dreset]. destruct Hsn as [Hsn|Hsn]; [now left|right].
      constructor; [|constructor]. rewrite concat_snoc. cbn [concat] in Hsn. now rewrite app_nil_r in Hsn.
  - cbn [negb].
    set (d1 := mkD (dfirst d) (dadts d) (dfrags d ++ [x]) (dsize d + nlen x) (seq_next (dnext d))).
    destruct (IH d1 (seq_next (dnext d))) as (d' & Hrun & Hrd).
    + discriminate.
    + assumption.
    + unfold Inv, d1; cbn [dsize dfrags]. rewrite concat_snoc, nlen_app. splits; [lia|lia|].
      apply Forall_app. split; [assumption|]. constructor; [lia|constructor].
    + unfold d1; cbn [dsize]. lia.
    + reflexivity.
    + unfold d1; cbn [dsize]. lia.
    + exact Had.
    + unfold d1; cbn [dfirst dfrags]. destruct Hsn as [Hsn|Hsn]; [now left|right].
      rewrite concat_snoc, <- app_assoc. exact Hsn.
    + rewrite Hrun. eexists. split; [|exact Hrd].
      unfold d1; cbn [dfrags]. rewrite concat_snoc, <- app_assoc.
      cbn [length Nat.sub]. rewrite Nat.sub_0_r. cbn [concat]. reflexivity.
Qed.

(* all pieces of a fragmented AU, from a clean decoder *)
Lemma dec_group ts cs : forall d seq,
  cs <> [] -> Forall piece_ok cs -> clean d -> nlen (concat cs) <= cap ->
  sniff_safe d [concat cs] ->
  exists d', dec_run c d (frag_pkts c seq ts cs) =
    (d', repeat DMore (length cs - 1) ++ [DFrame [concat cs]]) /\ ready d'.
Proof.
  intros d seq Hne Hpos [Hcs Hcf] Hcap [Had Hsn]. destruct cs as [|x t]; [contradiction|].
  inversion Hpos as [|? ? Hx Hpos']; subst. destruct Hx as [Hx1 Hx2].
  destruct t as [|x2 t2].
  - (* a single piece: an aggregated packet of one AU *)
    cbn [frag_pkts dec_run]. rewrite frag_pl.
    destruct (dec_agg [x] d seq ts) as (d' & Hd & Hrd).
    + discriminate.
    + constructor; [split; assumption|constructor].
    + unfold Model.hbits. cbn. destruct Hcfg as (? & ? & ? & ?). unfold Model.hw. lia.
    + split; assumption.
    + split; [assumption|]. destruct Hsn as [Hsn|Hsn]; [now left|right].
      cbn [concat] in Hsn. rewrite app_nil_r in Hsn. exact Hsn.
    + rewrite Hd. cbn [length Nat.sub repeat app concat]. rewrite app_nil_r. exists d'. split; [reflexivity|assumption].
  - change (frag_pkts c seq ts (x :: x2 :: t2)) with
      (mkPkt seq ts false (be16 (hw true) ++ pack (au_hdr c true (nlen x)) ++ x) :: frag_pkts c (seq_next seq) ts (x2 :: t2)).
    cbn [dec_run]. rewrite frag_pl.
    rewrite dec_pl; [|discriminate|constructor; [split; assumption|constructor]|].
    2:{ unfold Model.hbits. cbn. destruct Hcfg as (? & ? & ? & ?). unfold Model.hw. lia. }
    unfold dec_body. cbn [map concat]. rewrite app_nil_r. rewrite Hcs. cbn [N.eqb].
    destruct (N.ltb_spec (nlen x) (nlen x)); [lia|]. rewrite ntake_all by lia.
    cbn [dreset dfrags app].
    set (d1 := mkD (dfirst d) (dadts d) [x] (nlen x) (seq_next seq)).
    cbn [concat] in Hcap. rewrite nlen_app in Hcap.
    destruct (dec_rest ts (x2 :: t2) d1 (seq_next seq)) as (d' & Hrun & Hrd).
    + discriminate.
    + assumption.
    + unfold Inv, d1; cbn [dsize dfrags concat]. rewrite app_nil_r. splits; [reflexivity|lia|].
      constructor; [lia|constructor].
    + unfold d1; cbn [dsize]. lia.
    + reflexivity.
    + unfold d1; cbn [dsize]. cbn [concat]. lia.
    + exact Had.
    + unfold d1; cbn [dfirst dfrags]. destruct Hsn as [Hsn|Hsn]; [now left|right].
      inversion Hsn as [|? ? Hal _]; subst. cbn [concat] in *. now rewrite app_nil_r in *.
    + rewrite Hrun. exists d'. split; [|assumption].
      unfold d1; cbn [dfrags concat length Nat.sub]. rewrite app_nil_r, Nat.sub_0_r. reflexivity.
Qed.

End R.

(* ====================================================================================== *)
Section R2.
Variable c : cfg.
Variable max : N.
Hypothesis Hcfg : cfg_ok c.
Hypothesis Hmax : minmax c <= max.
Notation hw := (hw c).
Notation hbits := (hbits c).
Notation piece_ok := (piece_ok c).
Notation au_ok := (au_ok c).
Notation valid_frame := (valid_frame c).

Lemma in_concat_len {A} (l : list (list A)) x : In x l -> nlen x <= nlen (concat l).
Proof.
  induction l as [|y t IH]; intros H; [contradiction|]. cbn [concat]. rewrite nlen_app.
  destruct H as [->|H]; [lia|]. apply IH in H. lia.
Qed.

Lemma chunks_pieces_ok n a : 0 < n -> piece_ok a -> Forall piece_ok (chunks n a).
Proof.
  intros Hn [Ha1 Ha2]. rewrite Forall_forall. intros x Hx.
  pose proof (chunks_bounds n a Hn) as Hb. rewrite Forall_forall in Hb. specialize (Hb x Hx).
  pose proof (in_concat_len _ _ Hx) as Hl. rewrite chunks_concat in Hl by assumption.
  split; lia.
Qed.

Definition batch_valid (B : list bytes) : Prop := B <> [] /\ Forall au_ok B /\ hbits (nlen B) < 65536.

Lemma au_ok_piece B : Forall au_ok B -> Forall piece_ok B.
Proof. apply Forall_impl. intros a [H _]. exact H. Qed.

Lemma write_agg_pl B ts seq : write_agg c B ts seq = [mkPkt seq ts true (pl c B)].
Proof. reflexivity. Qed.

(* one batch, from a clean decoder: "more" on every packet but the last, the batch's AUs there *)
Lemma dec_batch B d ts seq g : batch_valid B -> clean d -> sniff_safe d B ->
  write_batch c max B ts seq = Some g ->
  exists d', dec_run c d g = (d', repeat DMore (length g - 1) ++ [DFrame B]) /\ ready d'.
Proof.
  intros (Hne & Hok & Hb) Hcl Hsn Hw.
  assert (Hagg : g = write_agg c B ts seq ->
     exists d', dec_run c d g = (d', repeat DMore (length g - 1) ++ [DFrame B]) /\ ready d').
  { intros ->. rewrite write_agg_pl.
    destruct (dec_agg c Hcfg B d seq ts Hne (au_ok_piece B Hok) Hb Hcl Hsn) as (d' & Hd & Hrd).
    cbn [dec_run]. rewrite Hd. cbn [length Nat.sub repeat app]. exists d'. split; [reflexivity|assumption]. }
  destruct B as [|a [|a2 t]]; [contradiction| |].
  - cbn [write_batch] in Hw. destruct (len_agg c [a] None <? max).
    + injection Hw as <-. now apply Hagg.
    + unfold write_frag in Hw. destruct (N.ltb_spec max (2 + ceil8 (hw true) + 1)); [discriminate|].
      injection Hw as <-. change (sl c + il c) with (hw true). pose proof (avail_pos c max Hmax) as Hav.
      inversion Hok as [|? ? [Hap Hac] _]; subst.
      destruct (dec_group c Hcfg ts (chunks (max - 2 - ceil8 (hw true)) a) d seq) as (d' & Hrun & Hrd).
      * rewrite chunks_cons; [discriminate|assumption|]. destruct Hap as [Hap _]. destruct a; [cbn in Hap; lia|discriminate].
      * now apply chunks_pieces_ok.
      * assumption.
      * now rewrite chunks_concat.
      * now rewrite chunks_concat.
      * rewrite chunks_concat in Hrun by assumption. exists d'. split; [|assumption]. rewrite Hrun.
        replace (length (frag_pkts c seq ts (chunks (max - 2 - ceil8 (hw true)) a)))
          with (length (chunks (max - 2 - ceil8 (hw true)) a)); [reflexivity|].
        pose proof (frag_pkts_len c seq ts (chunks (max - 2 - ceil8 (hw true)) a)) as HL. rewrite !nlen_length in HL. lia.
  - cbn [write_batch] in Hw. injection Hw as <-. now apply Hagg.
Qed.

(* results expected for the groups of packets of a list of batches *)
Fixpoint expect (gs : list (list packet)) (bs : list (list bytes)) : list (dres (list bytes)) :=
  match gs, bs with
  | g :: gt, b :: bt => repeat DMore (length g - 1) ++ [DFrame b] ++ expect gt bt
  | _, _ => []
  end.

Lemma dec_run_app ps1 : forall ps2 d d1 r1, dec_run c d ps1 = (d1, r1) -> ~ In DPanic r1 ->
  dec_run c d (ps1 ++ ps2) = (let '(d2, r2) := dec_run c d1 ps2 in (d2, r1 ++ r2)).
Proof.
  induction ps1 as [|p t IH]; intros ps2 d d1 r1 H Hnp; cbn [dec_run app] in *.
  - injection H as <- <-. destruct (dec_run c d ps2); reflexivity.
  - destruct (dec c d p) as [d' r].
    destruct r; try (destruct (dec_run c d' t) as [d'' rs] eqn:E; injection H as <- <-;
      rewrite (IH ps2 d' d'' rs E) by (intros Hin; apply Hnp; now right);
      destruct (dec_run c d'' ps2); reflexivity).
    injection H as <- <-. exfalso. apply Hnp. now left.
Qed.

Lemma no_panic_expected n (B : list bytes) : ~ In DPanic (repeat (@DMore (list bytes)) n ++ [DFrame B]).
Proof.
  intros H. apply in_app_or in H. destruct H as [H|[H|[]]]; [|discriminate].
  apply repeat_spec in H. discriminate.
Qed.

Lemma sniff_safe_app d b rest : sniff_safe d (b ++ rest) -> sniff_safe d b.
Proof. intros [H1 [H2|H2]]; split; auto. right. apply Forall_app in H2. tauto. Qed.
Lemma ready_sniff d X : ready d -> sniff_safe d X.
Proof. intros (_ & H1 & H2). split; auto. Qed.

Lemma dec_groups bs : forall gs ts seq d, enc_groups c max bs ts seq = Some gs ->
  Forall batch_valid bs -> clean d -> sniff_safe d (concat bs) ->
  exists d', dec_run c d (concat gs) = (d', expect gs bs) /\ clean d' /\
             (bs <> [] -> ready d') /\ (bs = [] -> d' = d).
Proof.
  induction bs as [|b t IH]; intros gs ts seq d Hg Hv Hcl Hsn; cbn [enc_groups] in Hg.
  - injection Hg as <-. exists d. cbn. splits; auto. intros H; contradiction.
  - inversion Hv as [|? ? Hb Ht]; subst.
    destruct (write_batch c max b ts seq) as [g|] eqn:Ew; [|discriminate].
    destruct (enc_groups c max t _ _) as [gt|] eqn:Eg; [|discriminate]. cbn [option_map] in Hg. injection Hg as <-.
    cbn [concat] in Hsn.
    destruct (dec_batch b d ts seq g Hb Hcl (sniff_safe_app d b _ Hsn) Ew) as (d1 & Hr1 & Hrd1).
    destruct (IH gt _ _ d1 Eg Ht (proj1 Hrd1) (ready_sniff d1 _ Hrd1)) as (d2 & Hr2 & Hc2 & Hrd2 & Heq2).
    cbn [concat expect]. rewrite (dec_run_app g (concat gt) d d1 _ Hr1 (no_panic_expected _ _)), Hr2.
    exists d2. splits.
    + now rewrite <- app_assoc.
    + assumption.
    + intros _. destruct t as [|b2 t2]; [rewrite (Heq2 eq_refl); assumption|apply Hrd2; discriminate].
    + discriminate.
Qed.

Lemma hbits_mono a b : a <= b -> hbits a <= hbits b.
Proof.
  intros H. unfold Model.hbits. destruct (N.eqb_spec a 0); destruct (N.eqb_spec b 0); try lia; try apply N.le_0_l.
  assert ((a - 1) * hw false <= (b - 1) * hw false) by (apply N.mul_le_mono_r; lia). lia.
Qed.

Lemma nlen_concat_in {A} (l : list (list A)) x : In x l -> nlen x <= nlen (concat l).
Proof. apply in_concat_len. Qed.

Lemma batches_valid f : valid_frame f -> Forall batch_valid (batch_loop c max f []).
Proof.
  intros (Hne & Hok & Hb). rewrite Forall_forall. intros B HB.
  pose proof (batch_loop_concat c max f []) as Hcat. cbn [app] in Hcat.
  pose proof (batch_loop_nonempty c max f [] (or_intror Hne)) as Hnn. rewrite Forall_forall in Hnn.
  unfold batch_valid. splits.
  - now apply Hnn.
  - rewrite Forall_forall in *. intros a Ha. apply Hok. rewrite <- Hcat. apply in_concat. exists B. split; assumption.
  - eapply N.le_lt_trans; [|exact Hb]. apply hbits_mono. rewrite <- Hcat.
    clear - HB. induction (batch_loop c max f []) as [|y t IH]; [contradiction|]. cbn [concat]. rewrite nlen_app.
    destruct HB as [->|HB]; [lia|]. apply IH in HB. lia.
Qed.

Lemma valid_nonempty f : valid_frame f -> Forall (fun a : bytes => a <> []) f.
Proof.
  intros (_ & Hok & _). eapply Forall_impl; [|exact Hok]. intros a [[Ha _] _] ->. cbn in Ha. lia.
Qed.

(* C03, one frame: the packets Encode produces for a valid frame, fed in order to a clean decoder
   for which the ADTS sniff is harmless, give "more" inside every fragmented AU and the AUs of each
   batch at the packet completing it; the decoder ends clean, with the sniff behind it *)
Theorem roundtrip seq f d : valid_frame f -> seq < 65536 -> clean d -> sniff_safe d f ->
  exists gs d', enc c max seq f = Some (concat gs, seq_add seq (nlen (concat gs))) /\
    dec_run c d (concat gs) = (d', expect gs (batch_loop c max f [])) /\ ready d' /\
    concat (batch_loop c max f []) = f /\ length gs = length (batch_loop c max f []).
Proof.
  intros Hv Hs Hcl Hsn.
  destruct (enc_wellformed c max Hmax seq f Hs (valid_nonempty f Hv)) as (gs & Hg & He & _ & _ & _).
  pose proof (batch_loop_concat c max f []) as Hcat. cbn [app] in Hcat.
  destruct (dec_groups _ gs 0 seq d Hg (batches_valid f Hv) Hcl) as (d' & Hr & Hc & Hrd & _).
  - now rewrite Hcat.
  - exists gs, d'. splits; try assumption.
    + apply Hrd. intros E. rewrite E in Hcat. cbn in Hcat. destruct Hv as (Hne & _). congruence.
    + clear - Hg. revert gs Hg. generalize 0 at 1. generalize seq.
      induction (batch_loop c max f []) as [|b t IH]; intros s ts gs Hg; cbn [enc_groups] in Hg.
      * injection Hg as <-. reflexivity.
      * destruct (write_batch c max b ts s); [|discriminate]. destruct (enc_groups c max t _ _) eqn:E; [|discriminate].
        cbn [option_map] in Hg. injection Hg as <-. cbn [length]. f_equal. eapply IH. exact E.
Qed.

(* what the caller collects: the concatenation of the per-packet results *)
Definition frames_of (rs : list (dres (list bytes))) : list bytes :=
  flat_map (fun r => match r with DFrame x => x | _ => [] end) rs.
Definition progress (r : dres (list bytes)) : Prop := r = DMore \/ exists x, r = DFrame x.

Lemma frames_of_app a b : frames_of (a ++ b) = frames_of a ++ frames_of b.
Proof. unfold frames_of. apply flat_map_app. Qed.
Lemma frames_of_more n : frames_of (repeat DMore n) = [].
Proof. induction n as [|k IH]; [reflexivity|]. cbn [repeat]. exact IH. Qed.

Lemma expect_frames gs : forall bs, length gs = length bs ->
  frames_of (expect gs bs) = concat bs /\ Forall progress (expect gs bs).
Proof.
  induction gs as [|g gt IH]; intros [|b bt] H; cbn [length] in H; try discriminate.
  - split; [reflexivity|constructor].
  - cbn [expect concat]. destruct (IH bt) as [H1 H2]; [lia|].
    rewrite !frames_of_app, frames_of_more, H1. cbn [app]. split; [unfold frames_of; cbn; now rewrite app_nil_r|].
    apply Forall_app. split; [|constructor; [right; eexists; reflexivity|assumption]].
    apply Forall_forall. intros r Hr. apply repeat_spec in Hr. now left.
Qed.

(* C03 as the caller sees it: no error, no panic, and the AUs returned, concatenated in packet
   order, are exactly the frame's AUs (same units, same bytes) *)
Theorem roundtrip_frames seq f d : valid_frame f -> seq < 65536 -> clean d -> sniff_safe d f ->
  exists ps seq' d' rs, enc c max seq f = Some (ps, seq') /\ dec_run c d ps = (d', rs) /\
    frames_of rs = f /\ Forall progress rs /\ ready d'.
Proof.
  intros Hv Hs Hcl Hsn. destruct (roundtrip seq f d Hv Hs Hcl Hsn) as (gs & d' & He & Hr & Hrd & Hcat & Hlen).
  destruct (expect_frames gs _ Hlen) as [H1 H2].
  exists (concat gs), (seq_add seq (nlen (concat gs))), d', (expect gs (batch_loop c max f [])).
  splits; try assumption. now rewrite H1.
Qed.

(* consecutive frames through one encoder/decoder pair: only the very first frame is exposed to the sniff *)
Theorem roundtrip_seq fs : Forall valid_frame fs -> forall seq d, seq < 65536 -> clean d ->
  dadts d = false -> (dfirst d = true \/ match fs with f :: _ => Forall (fun a => adts_like a = false) f | [] => True end) ->
  exists pss d' rs, enc_many c max seq fs = Some pss /\ dec_run c d (concat pss) = (d', rs) /\
    frames_of rs = concat fs /\ Forall progress rs /\ clean d' /\ dadts d' = false.
Proof.
  induction 1 as [|f t Hf Ht IH]; intros seq d Hs Hcl Had Hsn.
  - exists [], d, []. cbn. splits; auto; constructor.
  - destruct (roundtrip_frames seq f d Hf Hs Hcl) as (ps & seq' & d1 & r1 & He & Hr1 & Hf1 & Hp1 & Hrd1).
    { split; assumption. }
    assert (Hs' : seq' < 65536).
    { destruct (roundtrip seq f d Hf Hs Hcl (conj Had Hsn)) as (gs & ? & He' & _). rewrite He in He'. injection He' as _ ->. apply seq_add_lt. }
    destruct Hrd1 as (Hc1 & Hfi1 & Ha1).
    destruct (IH seq' d1 Hs' Hc1 Ha1 (or_introl Hfi1)) as (pss & d2 & r2 & Hem & Hr2 & Hf2 & Hp2 & Hc2 & Ha2).
    exists (ps :: pss), d2, (r1 ++ r2). cbn [enc_many]. rewrite He, Hem. cbn [option_map concat]. splits; try assumption.
    + reflexivity.
    + rewrite (dec_run_app ps (concat pss) d d1 r1 Hr1), Hr2; [reflexivity|].
      intros Hin. rewrite Forall_forall in Hp1. destruct (Hp1 _ Hin) as [E|[x E]]; discriminate.
    + now rewrite frames_of_app, Hf1, Hf2.
    + apply Forall_app. split; assumption.
Qed.

(* ---------- resynchronisation (C07) ---------- *)
(* a packet with the marker set leaves the decoder without pending fragments, whatever its state *)
Lemma marker_cleans d p : Inv d -> pmarker p = true -> clean (fst (dec c d p)).
Proof.
  intros HI Hm.
  pose proof (dec_step c Hcfg (N.max (psz p) (dsize d)) d p HI) as Hst.
  assert (Hrm : forall d0 aus, clean d0 -> clean (fst (remove_adts d0 aus))).
  { intros d0 aus [H1 H2]. pose proof (remove_adts_spec d0 aus) as H. destruct (remove_adts d0 aus) as [d' r].
    destruct H as (E1 & E2 & _). cbn [fst]. split; congruence. }
  unfold dec in *. rewrite Hm in *.
  destruct (ppayload p) as [|b0 [|b1 payload]]; try apply clean_reset.
  destruct (b0 * 256 + b1 =? 0); [apply clean_reset|].
  destruct (read_au_headers c payload (b0 * 256 + b1)) as [lens| |]; [|apply clean_reset|].
  2:{ destruct Hst as (_ & _ & Hst & _); [lia|lia|congruence]. }
  destruct (nsub payload _ _) as [data|].
  2:{ destruct Hst as (_ & _ & Hst & _); [lia|lia|congruence]. }
  destruct (dsize d =? 0).
  - destruct (split_aus lens data); [|apply clean_reset]. apply Hrm. apply clean_reset.
  - destruct lens as [|l0 [|l1 lt]]; try apply clean_reset.
    destruct (nlen data <? l0); [apply clean_reset|].
    destruct (pseq p =? dnext d); cbn [negb] in *; [|apply clean_reset].
    destruct (cap <? dsize d + l0); [apply clean_reset|].
    destruct (join _ _).
    + apply Hrm. apply clean_reset.
    + destruct Hst as (_ & _ & Hst & _); [lia|lia|congruence].
Qed.

(* any packet list whose last packet carries the marker absorbs earlier damage *)
Lemma absorb ps : forall d p, Inv d -> pmarker p = true -> clean (fst (dec_run c d (ps ++ [p]))).
Proof.
  induction ps as [|q t IH]; intros d p HI Hm; cbn [app dec_run].
  - pose proof (marker_cleans d p HI Hm) as Hc. destruct (dec c d p) as [d' r]. cbn [fst] in Hc.
    destruct r; cbn [dec_run fst]; exact Hc.
  - pose proof (dec_step c Hcfg (N.max (psz q) (dsize d)) d q HI) as Hst.
    destruct (dec c d q) as [d' r]. destruct Hst as (HI' & _ & Hnp & _); [lia|lia|].
    specialize (IH d' p HI' Hm).
    destruct r; try (destruct (dec_run c d' (t ++ [p])) as [d'' rs]; exact IH). congruence.
Qed.

(* the decoder has returned an AU list before and did not take it for ADTS: stable for ever *)
Definition settled (d : dstate) : Prop := dfirst d = true /\ dadts d = false.

Lemma remove_adts_settled d aus : settled d -> remove_adts d aus = (d, DFrame aus).
Proof. intros [H1 H2]. unfold remove_adts. rewrite H1, H2. reflexivity. Qed.

Lemma dec_settled d p : settled d -> settled (fst (dec c d p)).
Proof.
  intros Hs. assert (Hr : settled (dreset d)) by exact Hs.
  unfold dec. destruct (ppayload p) as [|b0 [|b1 payload]]; try exact Hr.
  destruct (b0 * 256 + b1 =? 0); [exact Hr|].
  destruct (read_au_headers c payload (b0 * 256 + b1)) as [lens| |]; [|exact Hr|exact Hs].
  destruct (nsub payload _ _) as [data|]; [|exact Hs].
  destruct (dsize d =? 0).
  - destruct (pmarker p).
    + destruct (split_aus lens data); [|exact Hr]. now rewrite remove_adts_settled.
    + destruct lens as [|l0 [|l1 lt]]; try exact Hr. destruct (nlen data <? l0); [exact Hr|exact Hs].
  - destruct lens as [|l0 [|l1 lt]]; try exact Hr.
    destruct (nlen data <? l0); [exact Hr|].
    destruct (negb (pseq p =? dnext d)); [exact Hr|].
    destruct (cap <? dsize d + l0); [exact Hr|].
    destruct (negb (pmarker p)); [exact Hs|].
    destruct (join _ _); [|exact Hs]. now rewrite remove_adts_settled.
Qed.

Lemma dec_run_settled hist : forall d, settled d -> settled (fst (dec_run c d hist)).
Proof.
  induction hist as [|p t IH]; intros d Hs; cbn [dec_run]; [exact Hs|].
  pose proof (dec_settled d p Hs) as H1. destruct (dec c d p) as [d' r]. cbn [fst] in H1.
  specialize (IH d' H1). destruct r; try (destruct (dec_run c d' t); exact IH). exact H1.
Qed.

Lemma enc_last_marker seq f : Forall (fun a : bytes => a <> []) f -> seq < 65536 ->
  exists gs ps p, enc c max seq f = Some (concat gs, seq_add seq (nlen (concat gs))) /\
    concat gs = ps ++ [p] /\ pmarker p = true.
Proof.
  intros Hv Hs.
  destruct (enc_wellformed c max Hmax seq f Hs Hv) as (gs & Hg & He & Hall & _ & Hlen).
  assert (Hgs : gs <> []).
  { intros ->. pose proof (batch_loop_ne c max f []) as Hn. destruct (batch_loop c max f []); [contradiction|].
    cbn [nlen] in Hlen. lia. }
  destruct (exists_last Hgs) as (gs' & g & ->).
  apply Forall_app in Hall. destruct Hall as [_ Hg']. inversion Hg' as [|? ? (Hgne & Hgm & _) _]; subst.
  destruct (exists_last Hgne) as (g' & p & ->).
  exists (gs' ++ [g' ++ [p]]), (concat gs' ++ g'), p. splits; [assumption| |].
  - rewrite concat_snoc, app_assoc. reflexivity.
  - rewrite (Hgm (nlen g') p); [|apply nnth_app_last]. rewrite nlen_app. cbn [nlen]. apply N.eqb_eq. lia.
Qed.

(* C07 (partial: for a decoder that is past the ADTS sniff).  After ANY packet history (loss,
   duplication, reordering, foreign packets) one intact frame f1 is enough: the next intact frame f2
   comes out exactly as in the loss-free case. *)
Theorem resync hist f1 f2 s1 s2 :
  valid_frame f1 -> valid_frame f2 -> s1 < 65536 -> s2 < 65536 ->
  let d0 := fst (dec_run c dinit hist) in
  settled d0 ->
  exists ps1 ps2 q1 q2 d2 rs, enc c max s1 f1 = Some (ps1, q1) /\ enc c max s2 f2 = Some (ps2, q2) /\
    dec_run c (fst (dec_run c d0 ps1)) ps2 = (d2, rs) /\
    frames_of rs = f2 /\ Forall progress rs /\ ready d2.
Proof.
  intros Hv1 Hv2 Hs1 Hs2 d0 Hset.
  destruct (enc_last_marker s1 f1 (valid_nonempty f1 Hv1) Hs1) as (gs1 & ps & p & He1 & Hcat & Hm).
  assert (HI0 : Inv d0) by (apply (dec_run_inv c Hcfg hist dinit inv_init)).
  pose proof (absorb ps d0 p HI0 Hm) as Hcl. rewrite <- Hcat in Hcl.
  pose proof (dec_run_settled (concat gs1) d0 Hset) as Hset1.
  set (d1 := fst (dec_run c d0 (concat gs1))) in *.
  destruct (roundtrip_frames s2 f2 d1 Hv2 Hs2 Hcl) as (ps2 & q2 & d2 & rs & He2 & Hr & Hf & Hp & Hrd).
  { destruct Hset1 as [H1 H2]. split; [assumption|now left]. }
  exists (concat gs1), ps2, (seq_add s1 (nlen (concat gs1))), q2, d2, rs. splits; assumption.
Qed.

(* C06 across any series of Encode calls *)
Theorem enc_many_wellformed fs : forall seq, seq < 65536 -> Forall (Forall (fun a : bytes => a <> [])) fs ->
  exists pss, enc_many c max seq fs = Some pss /\ nlen pss = nlen fs /\
    seqs_ok seq (concat pss) /\ Forall (fun p => psize p <= max) (concat pss) /\
    Forall (fun ps => exists ps' p, ps = ps' ++ [p] /\ pmarker p = true) pss.
Proof.
  induction fs as [|f t IH]; intros seq Hs Hne; cbn [enc_many].
  - exists []. splits; try reflexivity; try constructor. intros i p H. cbn in H. discriminate.
  - inversion Hne as [|? ? Hf Ht]; subst.
    destruct (enc_wellformed c max Hmax seq f Hs Hf) as (gs & _ & He & Hall & Hseq & _).
    destruct (enc_last_marker seq f Hf Hs) as (gs' & ps' & p & He' & Hcat & Hm).
    rewrite He in He'. injection He' as Hgs _. rewrite He.
    destruct (IH (seq_add seq (nlen (concat gs))) (seq_add_lt _ _) Ht) as (pss & Hem & Hlen & Hseq' & Hsz' & Hmk').
    rewrite Hem. cbn [option_map]. exists (concat gs :: pss). splits.
    + reflexivity.
    + cbn [nlen]. now rewrite Hlen.
    + cbn [concat]. now apply seqs_ok_app.
    + cbn [concat]. apply Forall_app. split; [|assumption].
      clear - Hall. induction Hall as [|g gt (_ & _ & Hg) _ IHg]; [constructor|]. cbn [concat]. apply Forall_app. now split.
    + constructor; [|assumption]. exists ps', p. split; [congruence|assumption].
Qed.

End R2.

(* ====================================================================================== *)
(* ---------- C07 without the "settled" hypothesis is FALSE of the code ---------- *)
(* SizeLength/IndexLength/IndexDeltaLength = 13/3/3, PayloadMaxSize 12 (8 data bytes per fragment).
   Frame 0 is one 16-byte AU whose second half happens to be a well-formed ADTS packet
   (FF F1 50 80 01 1F FC + 1 byte).  Its first packet is lost; the second one is a marker packet
   with a single AU, the first AU list this decoder ever returns: the sniff in removeADTS fires,
   the decoder enters ADTS mode for good, and the intact frames 1 and 2 are both rejected. *)
Definition w_cfg : cfg := mkCfg 13 3 3.
Definition w_f0 : list bytes := [[1;2;3;4;5;6;7;8; 255;241;80;128;1;31;252;9]].
Definition w_f1 : list bytes := [[10;11;12]].
Definition w_f2 : list bytes := [[13;14]; [15]].

Lemma w_valid f : f <> [] -> Forall (fun a => 0 < nlen a /\ nlen a < 100) f -> nlen f < 100 -> valid_frame w_cfg f.
Proof.
  intros Hne Hf Hn. unfold valid_frame. splits; [assumption| |].
  - eapply Forall_impl; [|exact Hf]. intros a [H1 H2]. unfold au_ok, piece_ok, cap, GVG.Consts.mpeg4audio_max_au. cbn [sl w_cfg].
    change (2 ^ 13) with 8192. lia.
  - unfold hbits, hw; cbn [sl il idl w_cfg]. destruct (nlen f =? 0); lia.
Qed.

Theorem resync_refuted :
  exists c max f0 f1 f2 ps0 ps1 ps2 s1 s2 s3,
    cfg_ok c /\ minmax c <= max /\ valid_frame c f0 /\ valid_frame c f1 /\ valid_frame c f2 /\
    Forall (fun a => adts_like a = false) (f0 ++ f1 ++ f2) /\
    enc c max 0 f0 = Some (ps0, s1) /\ enc c max s1 f1 = Some (ps1, s2) /\ enc c max s2 f2 = Some (ps2, s3) /\
    (* frame 0 loses its first packet; frames 1 and 2 arrive intact; frame 2 is NOT returned *)
    snd (dec_run c (fst (dec_run c (fst (dec_run c dinit (tl ps0))) ps1)) ps2) = [DErr].
Proof.
  exists w_cfg, 12, w_f0, w_f1, w_f2. do 6 eexists.
  splits.
  - unfold cfg_ok; cbn. lia.
  - vm_compute. discriminate.
  - apply w_valid; [discriminate|repeat constructor; cbn; lia|cbn; lia].
  - apply w_valid; [discriminate|repeat constructor; cbn; lia|cbn; lia].
  - apply w_valid; [discriminate|repeat constructor; cbn; lia|cbn; lia].
  - repeat constructor.
  - vm_compute. reflexivity.
  - vm_compute. reflexivity.
  - vm_compute. reflexivity.
  - vm_compute. reflexivity.
Qed.

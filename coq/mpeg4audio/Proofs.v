(* rtpmpeg4audio: packet well-formedness (C06), round trip (C03), resynchronisation (C07),
   totality / boundedness on arbitrary histories (C08). *)
From GVL Require Import NList Wire Chunks Rtp.
From GV_mpeg4audio Require Import WireF Bits BitsProofs Model.
From Coq Require Import ZifyBool ZifyNat ZifyN.
Open Scope N_scope.
Ltac splits := repeat match goal with |- _ /\ _ => split end.

(* ---------- generic helpers ---------- *)
Lemma seq_add_next s k : seq_add (seq_next s) k = seq_add s (k + 1).
Proof. unfold seq_add, seq_next. rewrite N.add_mod_idemp_l by lia. f_equal. lia. Qed.
Lemma seq_add_0 s : s < 65536 -> seq_add s 0 = s.
Proof. intros H. unfold seq_add. rewrite N.add_0_r. now apply N.mod_small. Qed.
Lemma seq_add_add s a b : seq_add (seq_add s a) b = seq_add s (a + b).
Proof. unfold seq_add. rewrite N.add_mod_idemp_l by lia. f_equal. lia. Qed.
Lemma seq_add_lt s k : seq_add s k < 65536.
Proof. unfold seq_add. apply N.mod_lt. lia. Qed.
Lemma seq_next_lt s : seq_next s < 65536.
Proof. unfold seq_next. apply N.mod_lt. lia. Qed.
Lemma seq_add_1 s : seq_add s 1 = seq_next s.
Proof. reflexivity. Qed.

Lemma nnth_app_l {A} (l1 l2 : list A) i : i < nlen l1 -> nnth i (l1 ++ l2) = nnth i l1.
Proof.
  revert i; induction l1 as [|x t IH]; intros i H; cbn [nlen app nnth] in *; [lia|].
  destruct (N.eqb_spec i 0); [reflexivity|]. apply IH. lia.
Qed.
Lemma nnth_app_r {A} (l1 l2 : list A) i : nlen l1 <= i -> nnth i (l1 ++ l2) = nnth (i - nlen l1) l2.
Proof.
  revert i; induction l1 as [|x t IH]; intros i H; cbn [nlen app nnth] in *; [f_equal; lia|].
  destruct (N.eqb_spec i 0); [lia|]. rewrite IH by lia. f_equal. lia.
Qed.
Lemma nnth_some_lt {A} (l : list A) i x : nnth i l = Some x -> i < nlen l.
Proof.
  intros H. destruct (N.ltb_spec i (nlen l)); [assumption|]. rewrite nnth_ge in H by assumption. discriminate.
Qed.
Lemma concat_snoc {A} (l : list (list A)) x : concat (l ++ [x]) = concat l ++ x.
Proof. rewrite concat_app. cbn. now rewrite app_nil_r. Qed.
Lemma nrep_succ {A} (x : A) k : nrep x (N.succ k) = x :: nrep x k.
Proof. rewrite !nrep_repeat, N2Nat.inj_succ. reflexivity. Qed.
Lemma nset_app_here {A} (l1 : list A) x v t : nset (nlen l1) v (l1 ++ x :: t) = l1 ++ v :: t.
Proof.
  induction l1 as [|y l IH]; cbn [nlen app nset]; [reflexivity|].
  destruct (N.eqb_spec (N.succ (nlen l)) 0); [lia|]. now rewrite N.pred_succ, IH.
Qed.

Lemma ceil8_bound n : n <= 8 * ceil8 n /\ (n <= 8 * 0 -> ceil8 n = 0).
Proof. unfold ceil8. destruct (N.eqb_spec (n mod 8) 0); split; intros; try lia; rewrite N.div_small; lia. Qed.
Lemma ceil8_le n k : n <= 8 * k -> ceil8 n <= k.
Proof. unfold ceil8. destruct (N.eqb_spec (n mod 8) 0); lia. Qed.
Lemma ceil8_mono a b : a <= b -> ceil8 a <= ceil8 b.
Proof. intros H. apply ceil8_le. pose proof (ceil8_bound b). lia. Qed.

Definition cfg_ok (c : cfg) : Prop := 0 < sl c /\ sl c <= 32 /\ il c <= 32 /\ idl c <= 32.
(* the smallest workable PayloadMaxSize: room for AU-headers-length, one AU-header and one byte *)
Definition minmax (c : cfg) : N := 2 + ceil8 (hw c true) + 1.

Section P.
Variable c : cfg.
Variable max : N.
Hypothesis Hcfg : cfg_ok c.
Hypothesis Hmax : minmax c <= max.

Notation hw := (hw c).
Notation hbits := (hbits c).
Notation len_agg := (len_agg c).

Lemma hw_pos first : 0 < hw first.
Proof. destruct Hcfg. unfold Model.hw. destruct first; lia. Qed.

(* ---------- header sizes ---------- *)
Definition hrem (first : bool) (k : N) : N := if k =? 0 then 0 else hw first + (k - 1) * hw false.

Lemma nlen_au_hdr first size : nlen (au_hdr c first size) = hw first.
Proof.
  unfold au_hdr, Model.hw. rewrite nlen_app, !nlen_bits_be, !N2Nat.id. destruct first; reflexivity.
Qed.

Lemma nlen_hdr_bits aus : forall first, nlen (hdr_bits c first aus) = hrem first (nlen aus).
Proof.
  induction aus as [|a t IH]; intros first; cbn [hdr_bits nlen]; [reflexivity|].
  rewrite nlen_app, nlen_au_hdr, IH. unfold hrem.
  destruct (N.eqb_spec (N.succ (nlen t)) 0); [lia|]. replace (N.succ (nlen t) - 1) with (nlen t) by lia.
  destruct (N.eqb_spec (nlen t) 0) as [->|Hn]; [lia|].
  set (w := hw false). replace (nlen t * w) with (w + (nlen t - 1) * w) by nia. lia.
Qed.

Lemma hbits_hrem k : hbits k = hrem true k.
Proof. reflexivity. Qed.

Lemma nlen_pack_ceil8 bs : nlen (pack bs) = ceil8 (nlen bs).
Proof. apply nlen_pack. Qed.

Lemma len_agg_snoc b a : len_agg (b ++ [a]) None = len_agg b (Some a).
Proof.
  unfold Model.len_agg. rewrite nlen_app, concat_snoc, nlen_app. cbn [nlen].
  replace (nlen b + N.succ 0 + 0) with (nlen b + 1) by lia. lia.
Qed.

Definition psize (p : packet) : N := nlen (ppayload p).

Lemma write_agg_size aus ts seq p : In p (write_agg c aus ts seq) -> psize p = len_agg aus None.
Proof.
  intros [<-|[]]. unfold psize, Model.len_agg; cbn [ppayload be16].
  rewrite !nlen_app, nlen_pack_ceil8, nlen_hdr_bits. replace (nlen aus + 0) with (nlen aus) by lia.
  rewrite hbits_hrem. cbn [be16 nlen]. lia.
Qed.

(* ---------- sequence numbers and markers ---------- *)
Definition seqs_ok (seq : N) (ps : list packet) : Prop :=
  forall i p, nnth i ps = Some p -> pseq p = seq_add seq i.
Definition markers_ok (g : list packet) : Prop :=
  forall i p, nnth i g = Some p -> pmarker p = (i + 1 =? nlen g).

Lemma seqs_ok_app seq ps qs : seqs_ok seq ps -> seqs_ok (seq_add seq (nlen ps)) qs -> seqs_ok seq (ps ++ qs).
Proof.
  intros H1 H2 i p H. destruct (N.ltb_spec i (nlen ps)).
  - rewrite nnth_app_l in H by assumption. now apply H1.
  - rewrite nnth_app_r in H by assumption. apply H2 in H. rewrite H, seq_add_add. f_equal. lia.
Qed.

Lemma frag_pkts_len seq ts cs : nlen (frag_pkts c seq ts cs) = nlen cs.
Proof. revert seq; induction cs as [|x t IH]; intros seq; cbn [frag_pkts nlen]; [reflexivity|]. now rewrite IH. Qed.

Lemma frag_pkts_seq ts cs : forall seq, seq < 65536 -> seqs_ok seq (frag_pkts c seq ts cs).
Proof.
  induction cs as [|x t IH]; intros seq Hs i p H; cbn [frag_pkts nnth] in H; [discriminate|].
  destruct (N.eqb_spec i 0) as [->|Hi].
  - injection H as <-. cbn [pseq]. now rewrite seq_add_0.
  - apply IH in H; [|apply seq_next_lt]. rewrite H, seq_add_next. f_equal. lia.
Qed.

Lemma frag_pkts_marker ts cs : forall seq, markers_ok (frag_pkts c seq ts cs).
Proof.
  induction cs as [|x t IH]; intros seq i p H; cbn [frag_pkts nnth] in H; [discriminate|].
  rewrite frag_pkts_len. destruct (N.eqb_spec i 0) as [->|Hi].
  - injection H as <-. cbn [pmarker nlen]. destruct t; cbn [nlen]; [reflexivity|]. symmetry. apply N.eqb_neq. lia.
  - apply IH in H. rewrite H, frag_pkts_len. cbn [nlen].
    destruct (N.eqb_spec (N.pred i + 1) (nlen t)); destruct (N.eqb_spec (i + 1) (N.succ (nlen t))); try reflexivity; lia.
Qed.

Lemma frag_pkts_size ts cs : forall seq p, In p (frag_pkts c seq ts cs) ->
  exists x, In x cs /\ psize p = 2 + ceil8 (hw true) + nlen x /\ pts p = ts.
Proof.
  induction cs as [|x t IH]; intros seq p H; cbn [frag_pkts In] in H; [contradiction|].
  destruct H as [<-|H].
  - exists x. split; [now left|]. unfold psize; cbn [ppayload pts be16]. split; [|reflexivity].
    rewrite !nlen_app, nlen_pack_ceil8, nlen_au_hdr. cbn [nlen be16].
    lia.
  - destruct (IH _ _ H) as (y & Hy & Hs). exists y. split; [now right|assumption].
Qed.

(* ---------- one batch ---------- *)
(* a batch the loop can hand to writeBatch: two or more AUs only if they fit together *)
Definition batch_ok (b : list bytes) : Prop := 2 <= nlen b -> len_agg b None <= max.

Lemma avail_pos : 0 < max - 2 - ceil8 (hw true).
Proof. unfold minmax in Hmax. lia. Qed.

Lemma write_batch_wf b ts seq : batch_ok b -> seq < 65536 -> Forall (fun a => a <> []) b ->
  exists g, write_batch c max b ts seq = Some g /\ g <> [] /\
    Forall (fun p => psize p <= max /\ pts p = ts) g /\ seqs_ok seq g /\ markers_ok g.
Proof.
  intros Hb Hs Hne.
  assert (Hagg : (nlen b <> 1 \/ len_agg b None < max) -> len_agg b None <= max ->
     exists g, Some (write_agg c b ts seq) = Some g /\ g <> [] /\
       Forall (fun p => psize p <= max /\ pts p = ts) g /\ seqs_ok seq g /\ markers_ok g).
  { intros _ Hle. eexists. split; [reflexivity|]. split; [discriminate|]. splits.
    - constructor; [|constructor]. split; [|reflexivity]. rewrite (write_agg_size b ts seq); [assumption|now left].
    - intros i p H. unfold write_agg in H. cbn [nnth] in H. destruct (N.eqb_spec i 0) as [->|]; [|discriminate].
      injection H as <-. cbn [pseq]. now rewrite seq_add_0.
    - intros i p H. unfold write_agg in H. cbn [nnth] in H. destruct (N.eqb_spec i 0) as [->|]; [|discriminate].
      injection H as <-. reflexivity. }
  destruct b as [|a [|a2 t]].
  - (* empty batch: 2 bytes *) apply Hagg; [left; cbn; lia|]. unfold Model.len_agg, Model.hbits. cbn. unfold minmax in Hmax. lia.
  - cbn [write_batch]. destruct (N.ltb_spec (len_agg [a] None) max) as [Hlt|Hge].
    + apply Hagg; [now right|lia].
    + unfold write_frag. destruct (N.ltb_spec max (2 + ceil8 (hw true) + 1)); [unfold minmax in Hmax; lia|].
      pose proof avail_pos as Hav. inversion Hne as [|? ? Ha _]; subst.
      eexists. split; [reflexivity|]. splits.
      * rewrite chunks_cons by assumption. discriminate.
      * rewrite Forall_forall. intros p Hp. apply frag_pkts_size in Hp. destruct Hp as (x & Hx & Hsz & Hts).
        split; [|assumption]. pose proof (chunks_bounds (max - 2 - ceil8 (hw true)) a Hav) as Hcb.
        rewrite Forall_forall in Hcb. specialize (Hcb x Hx). lia.
      * now apply frag_pkts_seq.
      * apply frag_pkts_marker.
  - apply Hagg; [left; cbn [nlen]; lia|]. apply Hb. cbn [nlen]. lia.
Qed.

(* ---------- the batching loop ---------- *)
Lemma batch_loop_ok aus : forall b, batch_ok b -> Forall batch_ok (batch_loop c max aus b).
Proof.
  induction aus as [|a t IH]; intros b Hb; cbn [batch_loop]; [now constructor|].
  destruct (N.leb_spec (len_agg b (Some a)) max) as [Hle|Hgt].
  - apply IH. intros _. now rewrite len_agg_snoc.
  - assert (H1 : batch_ok [a]) by (intros H; cbn [nlen] in H; lia).
    destruct b; [now apply IH|]. constructor; [assumption|now apply IH].
Qed.

Lemma batch_loop_concat aus : forall b, concat (batch_loop c max aus b) = b ++ aus.
Proof.
  induction aus as [|a t IH]; intros b; cbn [batch_loop].
  - cbn. now rewrite !app_nil_r.
  - destruct (len_agg b (Some a) <=? max).
    + rewrite IH, <- app_assoc. reflexivity.
    + destruct b as [|b0 bt]; [now rewrite IH|]. cbn [concat]. rewrite IH. reflexivity.
Qed.

Lemma batch_loop_nonempty aus : forall b, (b <> [] \/ aus <> []) -> Forall (fun x => x <> []) (batch_loop c max aus b).
Proof.
  induction aus as [|a t IH]; intros b H; cbn [batch_loop].
  - constructor; [|constructor]. destruct H as [H|H]; [assumption|contradiction].
  - destruct (len_agg b (Some a) <=? max).
    + apply IH. left. destruct b; discriminate.
    + destruct b as [|b0 bt]; [apply IH; left; discriminate|].
      constructor; [discriminate|]. apply IH. left; discriminate.
Qed.

(* ---------- the whole Encode call, batch by batch ---------- *)
Fixpoint enc_groups (bs : list (list bytes)) (ts seq : N) : option (list (list packet)) :=
  match bs with
  | [] => Some []
  | b :: t =>
      match write_batch c max b ts seq with
      | None => None
      | Some g => option_map (cons g) (enc_groups t ((ts + nlen b * spau) mod 4294967296) (seq_add seq (nlen g)))
      end
  end.

Lemma enc_batches_groups bs : forall ts seq, seq < 65536 ->
  enc_batches c max bs ts seq =
  match enc_groups bs ts seq with
  | None => None
  | Some gs => Some (concat gs, seq_add seq (nlen (concat gs)))
  end.
Proof.
  induction bs as [|b t IH]; intros ts seq Hs; cbn [enc_batches enc_groups].
  - cbn. now rewrite seq_add_0.
  - destruct (write_batch c max b ts seq) as [g|]; [|reflexivity].
    rewrite IH by apply seq_add_lt. destruct (enc_groups t _ _) as [gs|]; cbn [option_map]; [|reflexivity].
    cbn [concat]. rewrite nlen_app, seq_add_add. reflexivity.
Qed.

Lemma enc_groups_wf bs : forall ts seq, seq < 65536 -> Forall batch_ok bs ->
  Forall (Forall (fun a => a <> [])) bs ->
  exists gs, enc_groups bs ts seq = Some gs /\ nlen gs = nlen bs /\
    Forall (fun g => g <> [] /\ markers_ok g /\ Forall (fun p => psize p <= max) g) gs /\
    seqs_ok seq (concat gs).
Proof.
  induction bs as [|b t IH]; intros ts seq Hs Hok Hne; cbn [enc_groups].
  - exists []. splits; try reflexivity; [constructor|]. intros i p H. cbn in H. discriminate.
  - inversion Hok as [|? ? Hb Ht]; subst. inversion Hne as [|? ? Hn Hnt]; subst.
    destruct (write_batch_wf b ts seq Hb Hs Hn) as (g & Hg & Hgne & Hgsz & Hgseq & Hgm). rewrite Hg.
    destruct (IH ((ts + nlen b * spau) mod 4294967296) (seq_add seq (nlen g)) (seq_add_lt _ _) Ht Hnt)
      as (gs & Hgs & Hlen & Hall & Hseq).
    rewrite Hgs. cbn [option_map]. exists (g :: gs). splits.
    + reflexivity.
    + cbn [nlen]. now rewrite Hlen.
    + constructor; [|assumption]. splits; try assumption.
      eapply Forall_impl; [|exact Hgsz]. cbn. tauto.
    + cbn [concat]. now apply seqs_ok_app.
Qed.

(* C06: every packet of an Encode call is within the limit, sequence numbers run on from the
   encoder's counter, every batch group ends with (exactly) one marker packet *)
Theorem enc_wellformed seq aus : seq < 65536 -> Forall (fun a => a <> []) aus ->
  exists gs, enc_groups (batch_loop c max aus []) 0 seq = Some gs /\
    enc c max seq aus = Some (concat gs, seq_add seq (nlen (concat gs))) /\
    Forall (fun g => g <> [] /\ markers_ok g /\ Forall (fun p => psize p <= max) g) gs /\
    seqs_ok seq (concat gs).
Proof.
  intros Hs Hne.
  destruct (enc_groups_wf (batch_loop c max aus []) 0 seq Hs) as (gs & Hgs & _ & Hall & Hseq).
  - apply batch_loop_ok. intros H. cbn in H. lia.
  - assert (G : forall bs, Forall (fun a : bytes => a <> []) (concat bs) -> Forall (Forall (fun a : bytes => a <> [])) bs).
    { induction bs as [|x t IHb]; intros H; constructor; cbn [concat] in H; apply Forall_app in H; [tauto|apply IHb; tauto]. }
    apply G. rewrite batch_loop_concat. exact Hne.
  - exists gs. splits; try assumption. unfold enc. rewrite enc_batches_groups by assumption. now rewrite Hgs.
Qed.

End P.

(* ====================================================================================== *)
(* ---------- decoder: invariant, totality, bounds (arbitrary histories, C08) ---------- *)
Section D.
Variable c : cfg.
Hypothesis Hcfg : cfg_ok c.
Notation hw := (hw c).

Lemma hw_pos' first : 0 < hw first.
Proof. destruct Hcfg. unfold Model.hw. destruct first; lia. Qed.

(* number of AU-headers still announced by a remaining headers length *)
Definition cntf (x : N) : N := (x + hw false - 1) / hw false.
Definition cnt_rem (hl : N) (first : bool) : N :=
  if first then (if hl =? 0 then 0 else 1 + cntf (hl - hw true)) else cntf hl.

Lemma cntf_0 : cntf 0 = 0.
Proof. unfold cntf. pose proof (hw_pos' false). apply N.div_small. lia. Qed.

Lemma cntf_step x : 0 < x -> cntf x = 1 + cntf (x - hw false).
Proof.
  intros Hx. unfold cntf. pose proof (hw_pos' false) as Hw. set (w := hw false) in *.
  destruct (N.leb_spec x w).
  - replace (x - w) with 0 by lia. rewrite (N.div_small (0 + w - 1)) by lia.
    rewrite N.add_0_r. symmetry. apply (N.div_unique (x + w - 1) w 1 (x - 1)); lia.
  - replace (x + w - 1) with ((x - w + w - 1) + 1 * w) by lia. rewrite N.div_add by lia. lia.
Qed.

Lemma cnt_rem_0 first : cnt_rem 0 first = 0.
Proof. unfold cnt_rem. destruct first; [reflexivity|apply cntf_0]. Qed.

Lemma cnt_rem_step hl first : 0 < hl -> cnt_rem hl first = 1 + cnt_rem (hl - hw first) false.
Proof.
  intros H. unfold cnt_rem. destruct first.
  - destruct (N.eqb_spec hl 0); [lia|reflexivity].
  - now apply cntf_step.
Qed.

Lemma hcount_closed hl : hcount c hl = Some (cnt_rem hl true).
Proof.
  unfold hcount, cnt_rem. pose proof (hw_pos' true). pose proof (hw_pos' false).
  destruct (N.eqb_spec hl 0); [reflexivity|].
  destruct (N.eqb_spec (hw true) 0); [lia|].
  destruct (N.leb_spec hl (hw true)).
  - replace (hl - hw true) with 0 by lia. now rewrite cntf_0.
  - destruct (N.eqb_spec (hw false) 0); [lia|]. reflexivity.
Qed.

Lemma ntake_nset_succ {A} (l : list A) : forall i v, i < nlen l -> ntake (i + 1) (nset i v l) = ntake i l ++ [v].
Proof.
  induction l as [|x t IH]; intros i v H; cbn [nlen] in H; [lia|]. cbn [nset].
  destruct (N.eqb_spec i 0) as [->|Hi].
  - cbn [ntake]. cbn. now rewrite ntake_0.
  - cbn [ntake]. destruct (N.eqb_spec (i + 1) 0); [lia|]. destruct (N.eqb_spec i 0); [lia|].
    cbn [app]. f_equal. replace (N.pred (i + 1)) with (N.pred i + 1) by lia. apply IH. lia.
Qed.

Definition posN (v : N) : Prop := 0 < v.

Lemma read_loop_spec fuel : forall bs hl first lens i,
  nlen bs < nlen fuel -> nlen lens = i + cnt_rem hl first -> Forall posN (ntake i lens) ->
  match read_loop c fuel bs hl first lens i with
  | RPanic => False
  | RErr => True
  | ROk lens' => nlen lens' = nlen lens /\ Forall posN lens' /\ hl <= nlen bs
  end.
Proof.
  destruct Hcfg as (Hsl & _).
  induction fuel as [|f0 fuel IH]; intros bs hl first lens i Hf Hn Hp; [cbn [nlen] in Hf; lia|].
  cbn [read_loop]. destruct (N.eqb_spec hl 0) as [->|Hhl].
  - rewrite cnt_rem_0 in Hn. splits; [reflexivity| |lia]. rewrite ntake_all in Hp by lia. exact Hp.
  - pose proof (read_bits_nopanic bs (sl c) Hsl) as Hnp.
    destruct (read_bits bs (sl c)) as [v bs1| |] eqn:E1; [|exact I|congruence].
    apply read_bits_ok in E1. destruct E1 as [E1a E1b].
    destruct (N.eqb_spec v 0) as [|Hv]; [exact I|].
    set (w := if first then il c else idl c).
    assert (Hidx : match (if 0 <? w then read_bits bs1 w else BOk 0 bs1) with
                   | BOk x bs2 => w <= nlen bs1 /\ nlen bs2 = nlen bs1 - w
                   | BErr => True | BPanic => False end).
    { destruct (N.ltb_spec 0 w) as [Hw|Hw].
      - pose proof (read_bits_nopanic bs1 w Hw). destruct (read_bits bs1 w) eqn:E2; [|exact I|congruence].
        now apply read_bits_ok in E2.
      - split; lia. }
    destruct (if 0 <? w then read_bits bs1 w else BOk 0 bs1) as [x bs2| |]; [|exact I|contradiction].
    destruct Hidx as [E2a E2b].
    destruct (N.eqb_spec x 0) as [|]; cbn [negb]; [|exact I].
    assert (Hstep : cnt_rem hl first = 1 + cnt_rem (hl - sl c - w) false).
    { rewrite cnt_rem_step by lia. f_equal. f_equal. unfold Model.hw, w. destruct first; lia. }
    destruct (N.ltb_spec i (nlen lens)) as [Hi|Hi]; [|lia].
    specialize (IH bs2 (hl - sl c - w) false (nset i v lens) (i + 1)).
    cbn [nlen] in Hf. rewrite nlen_nset in IH.
    destruct (read_loop c fuel bs2 (hl - sl c - w) false (nset i v lens) (i + 1)).
    + destruct IH as (H1 & H2 & H3); [lia|lia| |].
      * rewrite ntake_nset_succ by assumption. apply Forall_app. split; [assumption|]. constructor; [unfold posN; lia|constructor].
      * splits; [assumption|assumption|lia].
    + exact I.
    + apply IH; [lia|lia|]. rewrite ntake_nset_succ by assumption. apply Forall_app. split; [assumption|].
      constructor; [unfold posN; lia|constructor].
Qed.

Lemma read_au_headers_spec buf hl :
  match read_au_headers c buf hl with
  | RPanic => False
  | RErr => True
  | ROk lens => Forall posN lens /\ hl <= 8 * nlen buf
  end.
Proof.
  unfold read_au_headers. rewrite hcount_closed.
  pose proof (read_loop_spec (true :: bytes_bits buf) (bytes_bits buf) hl true (nrep 0 (cnt_rem hl true)) 0) as H.
  destruct (read_loop c _ _ _ _ _ _).
  - destruct H as (_ & H2 & H3); [cbn [nlen]; lia|rewrite nlen_nrep; lia|rewrite ntake_0; constructor|].
    split; [assumption|]. now rewrite nlen_bytes_bits in H3.
  - exact I.
  - apply H; [cbn [nlen]; lia|rewrite nlen_nrep; lia|rewrite ntake_0; constructor].
Qed.

(* ---- ADTS unmarshal: the AUs are disjoint pieces of the input ---- *)
Lemma adts_loop_size fuel : forall buf acc res, adts_loop fuel buf acc = Some res ->
  nlen (concat res) <= nlen (concat acc) + nlen buf.
Proof.
  induction fuel as [|f0 fuel IH]; intros buf acc res H; cbn [adts_loop] in H; [discriminate|].
  destruct buf as [|b0 [|b1 [|b2 [|b3 [|b4 [|b5 [|b6 [|b7 rest']]]]]]]]; try discriminate.
  remember (b7 :: rest') as rest eqn:Er.
  do 7 match type of H with (if ?b then None else _) = _ => destruct b; [discriminate|] end.
  set (fl := (b3 mod 4) * 2048 + b4 * 8 + (b5 / 32) mod 8 - 7) in *.
  destruct (N.ltb_spec (nlen rest) fl) as [|Hfl]; [discriminate|].
  assert (Hau : nlen (ntake fl rest) = fl) by (rewrite nlen_ntake; lia).
  assert (Hrest : nlen (ndrop fl rest) = nlen rest - fl) by apply nlen_ndrop.
  destruct (ndrop fl rest) as [|y yt] eqn:Ed.
  - injection H as <-. rewrite concat_snoc, nlen_app, Hau. cbn [nlen] in *. lia.
  - apply IH in H. rewrite concat_snoc, nlen_app, Hau in H. cbn [nlen] in *. lia.
Qed.

Lemma adts_unmarshal_size a x : adts_unmarshal a = Some [x] -> nlen x <= nlen a.
Proof.
  intros H. apply adts_loop_size in H. cbn [concat nlen] in H. rewrite app_nil_r in H. lia.
Qed.

Definition fsize (f : list bytes) : N := nlen (concat f).

Lemma remove_adts_spec d aus :
  let '(d', r) := remove_adts d aus in
  dfrags d' = dfrags d /\ dsize d' = dsize d /\ dnext d' = dnext d /\ r <> DPanic /\
  forall f, r = DFrame f -> fsize f <= fsize aus.
Proof.
  unfold remove_adts.
  assert (Hsame : forall d0, dfrags d0 = dfrags d -> dsize d0 = dsize d -> dnext d0 = dnext d ->
     dfrags d0 = dfrags d /\ dsize d0 = dsize d /\ dnext d0 = dnext d /\ DFrame aus <> DPanic /\
     forall f, DFrame aus = DFrame f -> fsize f <= fsize aus).
  { intros. splits; try assumption; [discriminate|]. intros f E; injection E as <-. lia. }
  destruct (dfirst d); cbn [negb].
  - destruct (dadts d).
    + destruct aus as [|a [|a2 t]]; try (splits; try reflexivity; [discriminate|discriminate]).
      destruct (adts_unmarshal a) as [[|x [|x2 xt]]|] eqn:E; try (splits; try reflexivity; [discriminate|discriminate]).
      splits; try reflexivity; [discriminate|]. intros f Ef; injection Ef as <-.
      apply adts_unmarshal_size in E. unfold fsize; cbn [concat]. rewrite !app_nil_r. exact E.
    + apply Hsame; reflexivity.
  - destruct aus as [|a [|a2 t]]; try (apply Hsame; reflexivity).
    destruct (adts_like a); [|apply Hsame; reflexivity].
    destruct (adts_unmarshal a) as [[|x [|x2 xt]]|] eqn:E; try (apply Hsame; reflexivity).
    splits; try reflexivity; [discriminate|]. intros f Ef; injection Ef as <-.
    apply adts_unmarshal_size in E. unfold fsize; cbn [concat]. rewrite !app_nil_r. exact E.
Qed.

(* ---- join ---- *)
Lemma join_aux_exact frags : forall size n acc,
  n = nlen acc -> size = n + nlen (concat frags) -> join_aux frags size n acc = Some (acc ++ concat frags).
Proof.
  induction frags as [|p t IH]; intros size n acc Hn Hs; cbn [join_aux concat] in *.
  - cbn [nlen] in Hs. replace (size - n) with 0 by lia. cbn [nrep]. reflexivity.
  - rewrite nlen_app in Hs. destruct (N.ltb_spec size n); [lia|].
    rewrite ntake_all by lia. rewrite IH; [now rewrite <- app_assoc| rewrite nlen_app; lia | lia].
Qed.
Lemma join_exact frags : join frags (nlen (concat frags)) = Some (concat frags).
Proof. unfold join. now rewrite join_aux_exact with (acc := []). Qed.

Lemma split_aus_size lens : forall data aus, split_aus lens data = Some aus -> fsize aus <= nlen data.
Proof.
  induction lens as [|l t IH]; intros data aus H; cbn [split_aus] in H.
  - injection H as <-. unfold fsize; cbn. lia.
  - destruct (N.ltb_spec (nlen data) l); [discriminate|].
    destruct (split_aus t (ndrop l data)) as [r|] eqn:E; [|discriminate]. cbn [option_map] in H. injection H as <-.
    apply IH in E. rewrite nlen_ndrop in E. unfold fsize in *; cbn [concat]. rewrite nlen_app, nlen_ntake. lia.
Qed.

(* ---- the invariant ---- *)
Definition Inv (d : dstate) : Prop :=
  dsize d = nlen (concat (dfrags d)) /\ (dsize d = 0 -> dfrags d = []) /\
  Forall (fun f => 0 < nlen f) (dfrags d).
Definition clean (d : dstate) : Prop := dsize d = 0 /\ dfrags d = [].

Lemma inv_init : Inv dinit.
Proof. unfold Inv, dinit; cbn. splits; auto. Qed.
Lemma inv_reset d : Inv (dreset d).
Proof. unfold Inv, dreset; cbn. splits; auto. Qed.
Lemma clean_reset d : clean (dreset d).
Proof. split; reflexivity. Qed.
Lemma clean_inv d : clean d -> Inv d.
Proof. intros [H1 H2]. unfold Inv. rewrite H1, H2. cbn. splits; auto. Qed.

Definition psz (p : packet) : N := nlen (ppayload p).

(* one Decode call: invariant, no panic, retained size and returned size bounded *)
Lemma dec_step P d p : Inv d -> dsize d <= N.max cap P -> psz p <= P ->
  let '(d', r) := dec c d p in
  Inv d' /\ dsize d' <= N.max cap P /\ r <> DPanic /\ (forall f, r = DFrame f -> fsize f <= N.max cap P).
Proof.
  intros HI HB HP.
  assert (Hreset : Inv (dreset d) /\ dsize (dreset d) <= N.max cap P /\ @DErr (list bytes) <> DPanic /\
                   (forall f, @DErr (list bytes) = DFrame f -> fsize f <= N.max cap P)).
  { splits; [apply inv_reset|cbn; lia|discriminate|discriminate]. }
  unfold dec. unfold psz in HP.
  destruct (ppayload p) as [|b0 [|b1 payload]]; try exact Hreset.
  cbn [nlen] in HP.
  destruct (b0 * 256 + b1 =? 0); [exact Hreset|]. set (hl := b0 * 256 + b1).
  pose proof (read_au_headers_spec payload hl) as Hr.
  destruct (read_au_headers c payload hl) as [lens| |]; [|exact Hreset|contradiction].
  destruct Hr as [Hpos Hhl].
  assert (Hc8 : ceil8 hl <= nlen payload) by (apply ceil8_le; lia).
  unfold nsub. destruct (N.leb_spec (ceil8 hl) (nlen payload)); [|lia].
  destruct (N.leb_spec (nlen payload) (nlen payload)); [|lia]. cbn [andb].
  set (data := ntake (nlen payload - ceil8 hl) (ndrop (ceil8 hl) payload)).
  assert (Hdata : nlen data <= P). { unfold data. rewrite nlen_ntake, nlen_ndrop. lia. }
  destruct HI as (Hs & Hz & Hfr).
  destruct (N.eqb_spec (dsize d) 0) as [Hd|Hd].
  - destruct (pmarker p).
    + destruct (split_aus lens data) as [aus|] eqn:Esp; [|exact Hreset].
      pose proof (remove_adts_spec (dreset d) aus) as Hra.
      destruct (remove_adts (dreset d) aus) as [d' r]. destruct Hra as (H1 & H2 & H3 & H4 & H5).
      splits.
      * unfold Inv. rewrite H1, H2. cbn. splits; auto.
      * rewrite H2. cbn. lia.
      * assumption.
      * intros f Ef. specialize (H5 f Ef). apply split_aus_size in Esp. lia.
    + destruct lens as [|l0 [|l1 lt]]; try exact Hreset.
      destruct (N.ltb_spec (nlen data) l0) as [|Hl0]; [exact Hreset|].
      inversion Hpos as [|? ? Hl0p _]; subst. unfold posN in Hl0p.
      splits; [|cbn [dsize]; lia|discriminate|discriminate].
      unfold Inv; cbn [dsize dfrags dreset app concat]. rewrite app_nil_r, nlen_ntake.
      splits; [lia|lia|]. constructor; [rewrite nlen_ntake; lia|constructor].
  - destruct lens as [|l0 [|l1 lt]]; try exact Hreset.
    destruct (N.ltb_spec (nlen data) l0) as [|Hl0]; [exact Hreset|].
    destruct (pseq p =? dnext d); cbn [negb]; [|exact Hreset].
    destruct (N.ltb_spec cap (dsize d + l0)) as [|Hcap]; [exact Hreset|].
    inversion Hpos as [|? ? Hl0p _]; subst. unfold posN in Hl0p.
    assert (Hlen : nlen (ntake l0 data) = l0) by (rewrite nlen_ntake; lia).
    assert (HI' : Inv (mkD (dfirst d) (dadts d) (dfrags d ++ [ntake l0 data]) (dsize d + l0) (seq_next (dnext d)))).
    { unfold Inv; cbn [dsize dfrags]. rewrite concat_snoc, nlen_app, Hlen. splits; [lia|lia|].
      apply Forall_app. split; [assumption|]. constructor; [lia|constructor]. }
    destruct (pmarker p); cbn [negb].
    + cbn [dfrags].
      replace (dsize d + l0) with (nlen (concat (dfrags d ++ [ntake l0 data])))
        by (rewrite concat_snoc, nlen_app, Hlen; lia).
      rewrite join_exact.
      match goal with |- context [remove_adts ?dd ?aa] => pose proof (remove_adts_spec dd aa) as Hra; destruct (remove_adts dd aa) as [d' r] end.
      destruct Hra as (H1 & H2 & H3 & H4 & H5). splits.
      * unfold Inv. rewrite H1, H2. cbn. splits; auto.
      * rewrite H2. cbn. lia.
      * assumption.
      * intros f Ef. specialize (H5 f Ef). unfold fsize in H5 at 2. cbn [concat] in H5.
        rewrite app_nil_r, concat_snoc, nlen_app, Hlen in H5. lia.
    + splits; [exact HI'|cbn [dsize]; lia|discriminate|discriminate].
Qed.

Definition BInv (P : N) (d : dstate) : Prop := Inv d /\ dsize d <= N.max cap P.

Lemma dec_run_spec P hist : forall d, BInv P d -> Forall (fun p => psz p <= P) hist ->
  let '(d', rs) := dec_run c d hist in
  BInv P d' /\ ~ In DPanic rs /\ forall f, In (DFrame f) rs -> fsize f <= N.max cap P.
Proof.
  induction hist as [|p t IH]; intros d [HI HB] HF; cbn [dec_run].
  - splits; [split; assumption|intros []|intros f []].
  - inversion HF as [|? ? Hp Ht]; subst.
    pose proof (dec_step P d p HI HB Hp) as Hstep. destruct (dec c d p) as [d' r].
    destruct Hstep as (HI' & HB' & Hnp & Hfr).
    specialize (IH d' (conj HI' HB') Ht). destruct (dec_run c d' t) as [d'' rs].
    destruct IH as (HB'' & Hnp' & Hfr').
    assert (G : BInv P d'' /\ ~ In DPanic (r :: rs) /\ forall f, In (DFrame f) (r :: rs) -> fsize f <= N.max cap P).
    { splits; [assumption| |].
      - intros [H|H]; [congruence|contradiction].
      - intros f [H|H]; [now apply Hfr|now apply Hfr']. }
    destruct r; try exact G. congruence.
Qed.

Lemma dec_run_inv hist d : Inv d ->
  Inv (fst (dec_run c d hist)) /\ ~ In DPanic (snd (dec_run c d hist)).
Proof.
  intros HI.
  assert (HP : exists P, Forall (fun p => psz p <= P) hist /\ dsize d <= N.max cap P).
  { clear HI. induction hist as [|p t IH].
    - exists (dsize d). split; [constructor|lia].
    - destruct IH as (P & HF & HB). exists (N.max P (psz p)). split; [|lia].
      constructor; [lia|]. eapply Forall_impl; [|exact HF]. cbn. intros; lia. }
  destruct HP as (P & HF & HB).
  pose proof (dec_run_spec P hist d (conj HI HB) HF) as H. destruct (dec_run c d hist) as [d' rs].
  destruct H as ([H1 _] & H2 & _). split; assumption.
Qed.

Theorem total hist : ~ In DPanic (snd (dec_run c dinit hist)).
Proof. apply (dec_run_inv hist dinit inv_init). Qed.

Lemma nlen_concat_ge {A} (l : list (list A)) : Forall (fun f => 0 < nlen f) l -> nlen l <= nlen (concat l).
Proof. induction 1 as [|x t Hx Ht IH]; cbn [nlen concat]; [lia|]. rewrite nlen_app. lia. Qed.

Theorem bounded P hist :
  Forall (fun p => psz p <= P) hist ->
  let '(d, rs) := dec_run c dinit hist in
  fst (retained d) <= N.max cap P /\ snd (retained d) <= N.max cap P /\
  forall f, In (DFrame f) rs -> fsize f <= N.max cap P.
Proof.
  intros HF. pose proof (dec_run_spec P hist dinit) as H. destruct (dec_run c dinit hist) as [d rs].
  destruct H as ([(Hs & Hz & Hne) Hb] & _ & Hfr); [split; [apply inv_init|cbn; lia]|assumption|].
  unfold retained; cbn [fst snd]. splits; [lia| |assumption].
  pose proof (nlen_concat_ge (dfrags d) Hne). lia.
Qed.

End D.

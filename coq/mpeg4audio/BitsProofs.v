(* Lemmas about the bit-level view (Bits.v) and the fast wire readers (WireF.v). *)
From GVL Require Import NList Wire Rtp.
From GV_mpeg4audio Require Import WireF Bits.
From Coq Require Import ZifyBool ZifyNat ZifyN.
Open Scope N_scope.

Lemma nshort_spec {A} (l : list A) : forall n, nshort n l = (nlen l <? n).
Proof.
  induction l as [|x t IH]; intros n; cbn [nshort nlen].
  - destruct (N.eqb_spec n 0); destruct (N.ltb_spec 0 n); cbn; try reflexivity; lia.
  - destruct (N.eqb_spec n 0) as [->|Hn].
    + destruct (N.ltb_spec (N.succ (nlen t)) 0); [lia|reflexivity].
    + rewrite IH. destruct (N.ltb_spec (nlen t) (N.pred n)); destruct (N.ltb_spec (N.succ (nlen t)) n); try reflexivity; lia.
Qed.

(* the fast readers are the shared ones *)
Lemma fgetl_getl l : fgetl l = getl l.
Proof.
  destruct l as [|n t]; [reflexivity|]. cbn [fgetl getl]. rewrite nshort_spec.
  destruct (N.ltb_spec (nlen t) n); destruct (N.leb_spec n (nlen t)); try reflexivity; lia.
Qed.

(* ---- bits_be / val_be ---- *)
Lemma length_bits_be n v : length (bits_be n v) = n.
Proof. induction n as [|k IH]; cbn [bits_be length]; [reflexivity|]. now rewrite IH. Qed.
Lemma nlen_bits_be n v : nlen (bits_be n v) = N.of_nat n.
Proof. now rewrite nlen_length, length_bits_be. Qed.

Lemma bits_be_0 n : bits_be n 0 = repeat false n.
Proof. induction n as [|k IH]; cbn [bits_be repeat]; [reflexivity|]. now rewrite N.bits_0, IH. Qed.

Lemma val_be_app acc a b : val_be acc (a ++ b) = val_be (val_be acc a) b.
Proof. revert acc; induction a as [|x t IH]; intros acc; cbn [app val_be]; [reflexivity|]. apply IH. Qed.

Lemma val_be_zeros n : forall acc, val_be acc (repeat false n) = acc * 2 ^ N.of_nat n.
Proof.
  induction n as [|k IH]; intros acc; cbn [repeat val_be].
  - cbn. lia.
  - rewrite IH. rewrite Nat2N.inj_succ, N.pow_succ_r'. lia.
Qed.

Lemma mod_pow2_succ v k : v mod 2 ^ N.succ k = N.b2n (N.testbit v k) * 2 ^ k + v mod 2 ^ k.
Proof.
  rewrite N.pow_succ_r', (N.mul_comm 2). rewrite N.mod_mul_r by (try apply N.pow_nonzero; lia).
  rewrite N.testbit_spec'. lia.
Qed.

Lemma val_be_bits_be n v : forall acc, val_be acc (bits_be n v) = acc * 2 ^ N.of_nat n + v mod 2 ^ N.of_nat n.
Proof.
  induction n as [|k IH]; intros acc; cbn [bits_be val_be].
  - cbn. rewrite N.mod_1_r. lia.
  - rewrite IH, Nat2N.inj_succ, mod_pow2_succ, N.pow_succ_r'.
    destruct (N.testbit v (N.of_nat k)); cbn [N.b2n]; lia.
Qed.

(* ---- bytes <-> bits ---- *)
Lemma bytes_bits_app a b : bytes_bits (a ++ b) = bytes_bits a ++ bytes_bits b.
Proof. unfold bytes_bits. apply flat_map_app. Qed.

Lemma nlen_bytes_bits l : nlen (bytes_bits l) = 8 * nlen l.
Proof.
  induction l as [|x t IH]; cbn [bytes_bits flat_map nlen]; [reflexivity|].
  fold (bytes_bits t). rewrite nlen_app, IH. unfold byte_bits. rewrite nlen_bits_be. lia.
Qed.

Lemma byte_bits_byte_of8 b7 b6 b5 b4 b3 b2 b1 b0 :
  byte_bits (byte_of [b7;b6;b5;b4;b3;b2;b1;b0]) = [b7;b6;b5;b4;b3;b2;b1;b0].
Proof. destruct b7, b6, b5, b4, b3, b2, b1, b0; reflexivity. Qed.

Lemma byte_bits_byte_of_short l : (length l < 8)%nat ->
  byte_bits (byte_of l) = l ++ repeat false (8 - length l).
Proof.
  intros H.
  destruct l as [|b7 [|b6 [|b5 [|b4 [|b3 [|b2 [|b1 [|b0 t]]]]]]]]; cbn [length] in H; try lia;
    repeat match goal with b : bool |- _ => destruct b end; reflexivity.
Qed.

Lemma list8_ind (P : list bool -> Prop) :
  (forall l, (length l < 8)%nat -> P l) ->
  (forall b7 b6 b5 b4 b3 b2 b1 b0 t, P t -> P (b7 :: b6 :: b5 :: b4 :: b3 :: b2 :: b1 :: b0 :: t)) ->
  forall l, P l.
Proof.
  intros Hs Hc l. remember (length l) as n eqn:E. revert l E.
  induction n as [n IH] using lt_wf_ind. intros l E.
  destruct l as [|b7 [|b6 [|b5 [|b4 [|b3 [|b2 [|b1 [|b0 t]]]]]]]]; try (apply Hs; cbn [length]; lia).
  apply Hc. apply (IH (length t)); [subst n; cbn [length]; lia|reflexivity].
Qed.

(* unpacking what was packed gives the bit string back, followed by the zero padding *)
Lemma bytes_bits_pack bs : exists pad, bytes_bits (pack bs) = bs ++ pad.
Proof.
  induction bs as [l Hl | b7 b6 b5 b4 b3 b2 b1 b0 t IH] using list8_ind.
  - destruct l as [|x t]; [exists []; reflexivity|].
    assert (E : pack (x :: t) = [byte_of (x :: t)]).
    { destruct t as [|b6 [|b5 [|b4 [|b3 [|b2 [|b1 [|b0 t]]]]]]]; try reflexivity. cbn [length] in Hl. lia. }
    rewrite E. unfold bytes_bits; cbn [flat_map]. rewrite app_nil_r, byte_bits_byte_of_short by assumption.
    eexists. reflexivity.
  - destruct IH as [pad IH]. exists pad. cbn [pack]. unfold bytes_bits in *; cbn [flat_map].
    rewrite byte_bits_byte_of8, IH. reflexivity.
Qed.

Lemma nlen_pack bs : nlen (pack bs) = nlen bs / 8 + (if nlen bs mod 8 =? 0 then 0 else 1).
Proof.
  induction bs as [l Hl | b7 b6 b5 b4 b3 b2 b1 b0 t IH] using list8_ind.
  - assert (Hn : nlen l < 8) by (rewrite nlen_length; lia).
    rewrite N.div_small, N.mod_small by assumption.
    destruct l as [|x t]; [reflexivity|].
    assert (E : pack (x :: t) = [byte_of (x :: t)]).
    { destruct t as [|b6 [|b5 [|b4 [|b3 [|b2 [|b1 [|b0 t]]]]]]]; try reflexivity. cbn [length] in Hl. lia. }
    rewrite E. cbn [nlen]. destruct (N.eqb_spec (N.succ (nlen t)) 0); [lia|reflexivity].
  - cbn [pack]. cbn [nlen]. rewrite IH.
    replace (N.succ (N.succ (N.succ (N.succ (N.succ (N.succ (N.succ (N.succ (nlen t))))))))) with (nlen t + 1 * 8) by lia.
    rewrite N.div_add, N.mod_add by lia. lia.
Qed.

(* ---- read_bits ---- *)
Lemma read_bits_field n v rest : (0 < n)%nat ->
  read_bits (bits_be n v ++ rest) (N.of_nat n) = BOk (v mod 2 ^ N.of_nat n) rest.
Proof.
  intros Hn. unfold read_bits. rewrite nshort_spec, nlen_app, nlen_bits_be.
  destruct (N.ltb_spec (N.of_nat n + nlen rest) (N.of_nat n)); [lia|].
  destruct (N.eqb_spec (N.of_nat n) 0); [lia|].
  pose proof (nlen_bits_be n v) as E. rewrite <- E.
  rewrite ntake_app_exact, ndrop_app_exact, val_be_bits_be, E. f_equal.
Qed.

Lemma read_bits_ok bs n v rest : read_bits bs n = BOk v rest -> n <= nlen bs /\ nlen rest = nlen bs - n.
Proof.
  unfold read_bits. rewrite nshort_spec. destruct (N.ltb_spec (nlen bs) n); [discriminate|].
  destruct (N.eqb_spec n 0) as [->|Hn].
  - destruct bs; [discriminate|]. intros E; injection E as _ <-. split; lia.
  - intros E; injection E as _ <-. rewrite nlen_ndrop. split; lia.
Qed.

Lemma read_bits_nopanic bs n : 0 < n -> read_bits bs n <> BPanic.
Proof.
  intros Hn. unfold read_bits. destruct (nshort n bs); [discriminate|].
  destruct (N.eqb_spec n 0); [lia|discriminate].
Qed.

(* C03, rtpmpeg4audio (RFC 3640) — statements only.
   cfg = (SizeLength, IndexLength, IndexDeltaLength); cfg_ok: 0 < SizeLength, all three <= 32;
   minmax = 2 + ceil((SizeLength+IndexLength)/8) + 1, the smallest workable PayloadMaxSize.
   valid_frame: at least one AU; every AU non-empty, shorter than 2^SizeLength and at most
   MaxAccessUnitSize; AU-headers of all AUs together fit the 16-bit AU-headers-length.
   sniff_safe d f: the decoder is not in ADTS mode and either has already returned an AU list or no
   AU of f starts with an ADTS sync word FF Fx (the decoder's documented camera tolerance).
   The decoder returns AUs per packet: "the frame" is the concatenation of the per-packet results. *)
From GVL Require Import NList Rtp.
From GV_mpeg4audio Require Import Model Proofs.
Open Scope N_scope.

(* packet by packet: inside a fragmented AU every packet but the last says "more", the packet that
   completes a batch returns exactly the AUs of that batch (same units, same bytes, same order); the
   batches concatenate to the frame; the decoder ends clean and past the ADTS sniff.  For every
   parameter triple, every limit >= minmax, every sequence number, from every clean decoder state *)
Theorem C03_mpeg4audio_roundtrip : forall c max, cfg_ok c -> minmax c <= max ->
  forall seq f d, valid_frame c f -> seq < 65536 -> clean d -> sniff_safe d f ->
  exists gs d', enc c max seq f = Some (concat gs, seq_add seq (nlen (concat gs))) /\
    dec_run c d (concat gs) = (d', expect gs (batch_loop c max f [])) /\ ready d' /\
    concat (batch_loop c max f []) = f /\ length gs = length (batch_loop c max f []).
Proof. exact roundtrip. Qed.
Print Assumptions C03_mpeg4audio_roundtrip.

(* as the caller sees it: every result is "more" or AUs (never an error or a panic), and the AUs
   collected in packet order are exactly the frame *)
Theorem C03_mpeg4audio_roundtrip_frames : forall c max, cfg_ok c -> minmax c <= max ->
  forall seq f d, valid_frame c f -> seq < 65536 -> clean d -> sniff_safe d f ->
  exists ps seq' d' rs, enc c max seq f = Some (ps, seq') /\ dec_run c d ps = (d', rs) /\
    frames_of rs = f /\ Forall progress rs /\ ready d'.
Proof. exact roundtrip_frames. Qed.
Print Assumptions C03_mpeg4audio_roundtrip_frames.

(* consecutive frames through one encoder/decoder pair; only the first frame ever decoded is exposed
   to the ADTS sniff *)
Theorem C03_mpeg4audio_roundtrip_seq : forall c max, cfg_ok c -> minmax c <= max ->
  forall fs, Forall (valid_frame c) fs -> forall seq d, seq < 65536 -> clean d ->
  dadts d = false ->
  (dfirst d = true \/ match fs with f :: _ => Forall (fun a => adts_like a = false) f | [] => True end) ->
  exists pss d' rs, enc_many c max seq fs = Some pss /\ dec_run c d (concat pss) = (d', rs) /\
    frames_of rs = concat fs /\ Forall progress rs /\ clean d' /\ dadts d' = false.
Proof. exact roundtrip_seq. Qed.
Print Assumptions C03_mpeg4audio_roundtrip_seq.

(* 13/3/3, limit 9 (5 data bytes per fragment): two small AUs aggregated, then a 12-byte AU in three fragments *)
Example C03_mpeg4audio_example :
  let c := mkCfg 13 3 3 in
  let f := [[1;2]; [3]; [4;5;6;7;8;9;10;11;12;13;14;15]] in
  (match enc c 9 65535 f with
   | Some (ps, _) => (map pseq ps, map pmarker ps, snd (dec_run c dinit ps))
   | None => ([], [], [])
   end) = ([65535; 0; 1; 2], [true; false; false; true],
           [DFrame [[1;2]; [3]]; DMore; DMore; DFrame [[4;5;6;7;8;9;10;11;12;13;14;15]]])
  /\ cfg_ok c /\ minmax c <= 9 /\ clean dinit /\ sniff_safe dinit f.
Proof.
  cbv zeta. split; [vm_compute; reflexivity|]. split; [unfold cfg_ok; cbn; lia|]. split; [vm_compute; discriminate|].
  split; [split; reflexivity|]. split; [reflexivity|]. right. repeat constructor.
Qed.

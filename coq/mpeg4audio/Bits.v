(* Bit-level view of byte strings, as used by mediacommon's bits.ReadBits / bits.WriteBitsUnsafe:
   most significant bit first.  Executable, proof-free (lemmas in BitsProofs.v). *)
From GVL Require Import NList.
From GV_mpeg4audio Require Export WireF.
Open Scope N_scope.

(* the n low bits of v, most significant first *)
Fixpoint bits_be (n : nat) (v : N) : list bool :=
  match n with
  | O => []
  | S k => N.testbit v (N.of_nat k) :: bits_be k v
  end.

(* value of a bit string read most significant bit first *)
Fixpoint val_be (acc : N) (bs : list bool) : N :=
  match bs with
  | [] => acc
  | b :: t => val_be (2 * acc + (if b then 1 else 0)) t
  end.

Definition byte_bits (b : N) : list bool := bits_be 8 b.
Definition bytes_bits (l : list N) : list bool := flat_map byte_bits l.

(* a partial last byte is completed with zero bits (the buffer comes from make([]byte, n)) *)
Definition byte_of (bs : list bool) : N := val_be 0 (bs ++ repeat false (8 - length bs)).

(* packing a bit string into ceil(n/8) bytes *)
Fixpoint pack (bs : list bool) : list N :=
  match bs with
  | b7 :: b6 :: b5 :: b4 :: b3 :: b2 :: b1 :: b0 :: t => byte_of [b7;b6;b5;b4;b3;b2;b1;b0] :: pack t
  | [] => []
  | l => [byte_of l]
  end.

(* bits.ReadBits(buf, &pos, n) seen from the bit string that starts at pos:
   HasSpace fails -> error; otherwise the next n bits.  ReadBitsUnsafe indexes buf[pos>>3] even
   when n = 0, which is out of range when pos is the end of the buffer: BPanic. *)
Inductive bres := BOk (v : N) (rest : list bool) | BErr | BPanic.
Definition read_bits (bs : list bool) (n : N) : bres :=
  if nshort n bs then BErr else
  if n =? 0 then (match bs with [] => BPanic | _ => BOk 0 bs end) else
  BOk (val_be 0 (ntake n bs)) (ndrop n bs).

(* C07, rtpmpeg4audio — statements only.
   The unconditional statement is FALSE of the code (C07_mpeg4audio_resync_refuted): the ADTS sniff
   in removeADTS looks at the first AU list the decoder ever returns, and packet loss can make that
   AU the tail of a fragmented AU.  If the tail happens to be a well-formed ADTS packet the decoder
   switches to ADTS mode for good and rejects every later frame.  What is proved instead
   (C07_mpeg4audio_resync_partial) is the full statement for a decoder that is "settled": it has
   returned an AU list before and did not take it for ADTS — a state that, once reached, is never
   left (C07_mpeg4audio_settled_stable) and that every loss-free first frame establishes
   (ready in C03_mpeg4audio_roundtrip).  Missing for the full statement: the sniff. *)
From GVL Require Import NList Rtp.
From GV_mpeg4audio Require Import Model Proofs.
Open Scope N_scope.

(* After ANY packet history (loss, duplication, reordering, foreign or hostile packets: [hist] is
   arbitrary) that leaves the decoder settled, one intact frame f1 is enough: the next intact frame
   f2 is returned exactly as in the loss-free case (its AUs, in order, at the completing packets;
   "more" inside fragmented AUs; no error).  s1, s2 arbitrary: whole frames may be lost in between. *)
Theorem C07_mpeg4audio_resync_partial : forall c max, cfg_ok c -> minmax c <= max ->
  forall hist f1 f2 s1 s2,
  valid_frame c f1 -> valid_frame c f2 -> s1 < 65536 -> s2 < 65536 ->
  let d0 := fst (dec_run c dinit hist) in
  settled d0 ->
  exists ps1 ps2 q1 q2 d2 rs, enc c max s1 f1 = Some (ps1, q1) /\ enc c max s2 f2 = Some (ps2, q2) /\
    dec_run c (fst (dec_run c d0 ps1)) ps2 = (d2, rs) /\
    frames_of rs = f2 /\ Forall progress rs /\ ready d2.
Proof. exact resync. Qed.
Print Assumptions C07_mpeg4audio_resync_partial.

(* settled is for ever: no packet history leaves it *)
Theorem C07_mpeg4audio_settled_stable : forall c hist d, settled d -> settled (fst (dec_run c d hist)).
Proof. exact dec_run_settled. Qed.
Print Assumptions C07_mpeg4audio_settled_stable.

(* the refutation: 13/3/3, limit 12; frame 0 (one 16-byte AU whose second half is an ADTS packet)
   loses its first packet; frames 1 and 2 arrive intact; frame 2 is answered with an error *)
Theorem C07_mpeg4audio_resync_refuted :
  exists c max f0 f1 f2 ps0 ps1 ps2 s1 s2 s3,
    cfg_ok c /\ minmax c <= max /\ valid_frame c f0 /\ valid_frame c f1 /\ valid_frame c f2 /\
    Forall (fun a => adts_like a = false) (f0 ++ f1 ++ f2) /\
    enc c max 0 f0 = Some (ps0, s1) /\ enc c max s1 f1 = Some (ps1, s2) /\ enc c max s2 f2 = Some (ps2, s3) /\
    snd (dec_run c (fst (dec_run c (fst (dec_run c dinit (tl ps0))) ps1)) ps2) = [DErr].
Proof. exact resync_refuted. Qed.
Print Assumptions C07_mpeg4audio_resync_refuted.

(* never panics (nor loops: every loop of the model is fuel-free or proved to have enough fuel) *)
Theorem C07_mpeg4audio_no_panic : forall c, cfg_ok c -> forall hist, ~ In DPanic (snd (dec_run c dinit hist)).
Proof. exact total. Qed.
Print Assumptions C07_mpeg4audio_no_panic.

(* first fragment of a 3-fragment AU lost after a good frame: damage stays local *)
Example C07_mpeg4audio_example :
  let c := mkCfg 13 3 3 in
  (match enc_many c 9 10 [[[1;2]]; [[3;4;5;6;7;8;9;10;11;12;13;14]]; [[15]]; [[16;17]]] with
   | Some [p0; p1; p2; p3] => snd (dec_run c dinit (p0 ++ tl p1 ++ p2 ++ p3))
   | _ => []
   end) = [DFrame [[1;2]]; DMore; DFrame [[8;9;10;11;12;13;14]]; DFrame [[15]]; DFrame [[16;17]]].
Proof. vm_compute. reflexivity. Qed.

(* ---- the translated kernels (tools/go2coq, regenerated from the Go source on every run) ----
   The resynchronisation tests of rtpmpeg4audio/decoder.go - d.fragmentsSize == 0, the two len(dataLens) != 1,
   d.fragmentNextSeqNum = pkt.SequenceNumber + 1, the continuity test pkt.SequenceNumber != d.fragmentNextSeqNum,
   d.fragmentNextSeqNum++ - ARE the tests of Model.dec: dsize d =? 0, match lens with [l0], seq_next (pseq p),
   pseq p =? dnext d, seq_next (dnext d). *)
From Coq Require Import ZArith.
From GVG Require Import Kern.
From GV_mpeg4audio Require Import BridgeLib Bridge.
Open Scope Z_scope.

Theorem C07_mpeg4audio_kernels_are_the_code : forall (seq next fs : N) (lens : list N),
  k_mpeg4audio_dec_idle (Z.of_N fs) = (fs =? 0)%N /\
  k_mpeg4audio_dec_one_a (Z.of_N (nlen lens)) = match lens with [_] => false | _ => true end /\
  k_mpeg4audio_dec_one_b (Z.of_N (nlen lens)) = match lens with [_] => false | _ => true end /\
  k_mpeg4audio_dec_nextseq (Z.of_N seq) = Z.of_N (seq_next seq) /\
  k_mpeg4audio_dec_gap (Z.of_N seq) (Z.of_N next) = negb (seq =? next)%N /\
  k_mpeg4audio_dec_incseq (Z.of_N next) = Z.of_N (seq_next next).
Proof. exact Bridge.resync_kernels_are_the_code. Qed.
Print Assumptions C07_mpeg4audio_kernels_are_the_code.

Example C07_mpeg4audio_example_kernels :
  k_mpeg4audio_dec_nextseq 65535 = 0 /\ k_mpeg4audio_dec_incseq 9 = 10 /\
  k_mpeg4audio_dec_gap 10 10 = false /\ k_mpeg4audio_dec_gap 11 10 = true /\
  k_mpeg4audio_dec_idle 0 = true /\ k_mpeg4audio_dec_idle 1 = false /\
  k_mpeg4audio_dec_one_a 1 = false /\ k_mpeg4audio_dec_one_a 2 = true /\ k_mpeg4audio_dec_one_b 0 = true.
Proof. vm_compute. repeat split. Qed.

(* BRIDGE: the integer formulas of pkg/format/rtpmpeg4audio (encoder.go, decoder.go) as TRANSLATED from the Go source on
   this run (GVG.Kern, tools/go2coq, spec.d/mpeg4audio.txt) are the formulas the hand-written Model.v uses: lenAggregated
   (every statement of its three loops: the AU-header bit lengths, the /8 and %8 round-up, the AU sizes) and its two
   comparisons with PayloadMaxSize, writeFragmented's AU-header length, its round-up to bytes, the budget
   PayloadMaxSize - 2 - auHeadersLenBytes, the fragment count, the size 2+auHeadersLenBytes+le, the two AU-headers-length
   bytes, the position of the marker, writeAggregated's `written` loop and pos = 2 + written/8 (+1), the sequence number
   and timestamp steps; in the decoder the length tests, the 16-bit AU-headers-length, pos = headersLen/8 (+1), the
   counting loop and the subtractions of readAUHeaders, the sequence-number continuity test, the size accumulation and the
   cap.  Re-checked against the regenerated Kern.v on every run. *)
From Coq Require Import ZArith NArith List Lia Bool.
From Coq Require Import ZifyBool ZifyN ZifyNat.
From GVL Require Import NList Wrap Chunks Rtp.
From GVG Require Import Consts Kern.
From GV_mpeg4audio Require Import Model BitsProofs Proofs BridgeLib.
Import ListNotations.
Open Scope Z_scope.

Definition isbyte (b : N) : Prop := (b < 256)%N.

(* ---------- x / 8, x % 8 != 0, byte(x >> 8), byte(x) on non-negative Go ints ---------- *)
Lemma quot8 (h : N) : Z.of_N h < i64max -> ki64 (Z.quot (Z.of_N h) 8) = Z.of_N (h / 8).
Proof.
  unfold i64max. intros H. rewrite Z.quot_div_nonneg by lia.
  assert (0 <= Z.of_N h / 8 <= Z.of_N h) by (split; [apply Z.div_pos; lia|apply Z.div_le_upper_bound; lia]).
  rewrite ki64_small by lia. rewrite N2Z.inj_div. reflexivity.
Qed.
Lemma rem8 (h : N) : negb (ki64 (Z.rem (Z.of_N h) 8) =? 0) = negb (h mod 8 =? 0)%N.
Proof.
  rewrite Z.rem_mod_nonneg by lia. pose proof (Z.mod_pos_bound (Z.of_N h) 8 ltac:(lia)).
  rewrite ki64_small by lia. f_equal. change 8 with (Z.of_N 8). rewrite <- N2Z.inj_mod. exact (eqb_N (h mod 8) 0).
Qed.
Lemma ceil8_alt (h : N) : ceil8 h = (if negb (h mod 8 =? 0) then h / 8 + 1 else h / 8)%N.
Proof. unfold ceil8. destruct (h mod 8 =? 0)%N; cbn [negb]; lia. Qed.
Lemma hi_lo (h : N) : Z.of_N h < i64max ->
  [w8 (ki64 (Z.shiftr (Z.of_N h) 8)); w8 (Z.of_N h)] = map Z.of_N (be16 h).
Proof.
  unfold be16, i64max, w8. intros H. cbn [map].
  change 8 with (Z.of_N 8). rewrite shiftr_N, N.shiftr_div_pow2. change (2 ^ 8)%N with 256%N.
  assert (h / 256 <= h)%N by (apply N.div_le_upper_bound; lia).
  rewrite ki64_small by lia. rewrite !N2Z.inj_mod. reflexivity.
Qed.

Section B.
Variable c : cfg.
Notation SL := (Z.of_N (sl c)).
Notation IL := (Z.of_N (il c)).
Notation IDL := (Z.of_N (idl c)).

Lemma hbits_succ k : hbits c (k + 1) = (if k =? 0 then hw c true else hbits c k + hw c false)%N.
Proof.
  unfold hbits. destruct (N.eqb_spec (k + 1) 0) as [E|_]; [lia|]. destruct (N.eqb_spec k 0) as [->|Hk]; [cbn; lia|].
  replace (k + 1 - 1)%N with (k - 1 + 1)%N by lia. lia.
Qed.
Lemma hbits_le k m : (hbits c k <= hbits c (k + m))%N.
Proof.
  unfold hbits. destruct (N.eqb_spec k 0) as [->|Hk]; [lia|]. destruct (N.eqb_spec (k + m) 0); [lia|].
  apply N.add_le_mono_l. apply N.mul_le_mono_r. lia.
Qed.

(* ---------- encoder (C06) ---------- *)

(* lenAggregated(aus, addAU): the skeleton of its three loops is written here, every statement is a translated kernel *)
Fixpoint la_hdr_loop (h i : Z) (aus : list bytes) : Z * Z :=
  match aus with
  | [] => (h, i)
  | _ :: t =>
      la_hdr_loop (if k_mpeg4audio_la_first i then k_mpeg4audio_la_hfirst h SL IL else k_mpeg4audio_la_hnext h SL IDL)
                  (k_mpeg4audio_la_inc i) t
  end.
Fixpoint la_au_loop (n : Z) (aus : list bytes) : Z :=
  match aus with
  | [] => n
  | x :: t => la_au_loop (k_mpeg4audio_la_au n (Z.of_N (nlen x))) t
  end.
Definition la_code (aus : list bytes) (add : option bytes) : Z :=
  let n := k_mpeg4audio_la_n0 in
  let '(h, i) := la_hdr_loop k_mpeg4audio_la_h0 k_mpeg4audio_la_i0 aus in
  let h := match add with
           | Some _ => if k_mpeg4audio_la_afirst i then k_mpeg4audio_la_ahfirst h SL IL else k_mpeg4audio_la_ahnext h SL IDL
           | None => h
           end in
  let n := k_mpeg4audio_la_hbytes n h in
  let n := if k_mpeg4audio_la_hrem h then k_mpeg4audio_la_hround n else n in
  let n := la_au_loop n aus in
  k_mpeg4audio_la_add n (match add with Some a => Z.of_N (nlen a) | None => 0 end).

Lemma hdr_step k : Z.of_N (hbits c (k + 1)) < i64max ->
  (if Z.of_N k =? 0 then ki64 (Z.of_N (hbits c k) + ki64 (SL + IL)) else ki64 (Z.of_N (hbits c k) + ki64 (SL + IDL)))
  = Z.of_N (hbits c (k + 1)).
Proof.
  unfold i64max. rewrite hbits_succ. intros H.
  destruct (N.eqb_spec k 0) as [Hk|Hk].
  - rewrite Hk in *. change (Z.of_N 0 =? 0) with true. cbv iota. unfold hbits, hw in *. cbn [N.eqb] in *.
    rewrite (ki64_small (SL + IL)) by lia. rewrite ki64_small by lia. lia.
  - destruct (Z.eqb_spec (Z.of_N k) 0); [lia|]. unfold hw in *.
    rewrite (ki64_small (SL + IDL)) by lia. rewrite ki64_small by lia. lia.
Qed.

Lemma la_hdr_loop_spec aus : forall k, Z.of_N (hbits c (k + nlen aus)) < i64max -> Z.of_N (k + nlen aus) < i64max ->
  la_hdr_loop (Z.of_N (hbits c k)) (Z.of_N k) aus = (Z.of_N (hbits c (k + nlen aus)), Z.of_N (k + nlen aus)).
Proof.
  induction aus as [|x t IH]; intros k H1 H2; cbn [la_hdr_loop nlen] in *.
  - rewrite N.add_0_r. reflexivity.
  - replace (k + N.succ (nlen t))%N with (k + 1 + nlen t)%N in * by lia.
    pose proof (hbits_le (k + 1) (nlen t)) as Hle.
    unfold k_mpeg4audio_la_first, k_mpeg4audio_la_hfirst, k_mpeg4audio_la_hnext, k_mpeg4audio_la_inc.
    rewrite (hdr_step k) by (unfold i64max in *; lia).
    unfold i64max in *. rewrite (ki64_small (Z.of_N k + 1)) by lia.
    replace (Z.of_N k + 1) with (Z.of_N (k + 1)) by lia. apply IH; unfold i64max; lia.
Qed.

Lemma la_au_loop_spec aus : forall n, 0 <= n -> n + Z.of_N (nlen (concat aus)) < i64max ->
  la_au_loop n aus = n + Z.of_N (nlen (concat aus)).
Proof.
  unfold i64max. induction aus as [|x t IH]; intros n Hn Hb; cbn [la_au_loop concat] in *; [cbn [nlen]; lia|].
  rewrite nlen_app in *. unfold k_mpeg4audio_la_au. rewrite ki64_small by lia. rewrite IH by lia. lia.
Qed.

Definition addn (add : option bytes) : N := match add with Some _ => 1 | None => 0 end.

Lemma bridge_len_agg aus add :
  Z.of_N (nlen aus + addn add) < i64max -> Z.of_N (hbits c (nlen aus + addn add)) < i64max ->
  Z.of_N (len_agg c aus add) < i64max ->
  la_code aus add = Z.of_N (len_agg c aus add).
Proof.
  intros Hk Hh Hl. unfold la_code, k_mpeg4audio_la_n0, k_mpeg4audio_la_h0, k_mpeg4audio_la_i0.
  pose proof (hbits_le (nlen aus) (addn add)) as Hle.
  change 0 with (Z.of_N (hbits c 0)) at 1. change 0 with (Z.of_N 0) at 1.
  rewrite la_hdr_loop_spec by (rewrite N.add_0_l; unfold i64max in *; lia). rewrite N.add_0_l.
  set (h := match add with
            | Some _ => if k_mpeg4audio_la_afirst (Z.of_N (nlen aus))
                        then k_mpeg4audio_la_ahfirst (Z.of_N (hbits c (nlen aus))) SL IL
                        else k_mpeg4audio_la_ahnext (Z.of_N (hbits c (nlen aus))) SL IDL
            | None => Z.of_N (hbits c (nlen aus))
            end).
  assert (Eh : h = Z.of_N (hbits c (nlen aus + addn add))).
  { subst h. destruct add as [a|]; cbn [addn] in *; [|rewrite N.add_0_r; reflexivity].
    unfold k_mpeg4audio_la_afirst, k_mpeg4audio_la_ahfirst, k_mpeg4audio_la_ahnext. apply (hdr_step (nlen aus)). exact Hh. }
  rewrite Eh. set (H := hbits c (nlen aus + addn add)) in *.
  unfold k_mpeg4audio_la_hbytes, k_mpeg4audio_la_hrem, k_mpeg4audio_la_hround, k_mpeg4audio_la_add.
  rewrite quot8 by exact Hh. rewrite rem8.
  unfold len_agg in *. fold (addn add) in Hl. fold H in Hl. fold (addn add). fold H.
  rewrite ceil8_alt in *. unfold i64max in *.
  assert (Hd : (H / 8 <= H)%N) by (apply N.div_le_upper_bound; lia).
  rewrite (ki64_small (2 + Z.of_N (H / 8))) by lia.
  destruct (negb (H mod 8 =? 0)%N).
  - rewrite (ki64_small (2 + Z.of_N (H / 8) + 1)) by lia.
    rewrite la_au_loop_spec by (unfold i64max; destruct add; lia).
    rewrite ki64_small by (destruct add; lia). destruct add; lia.
  - rewrite la_au_loop_spec by (unfold i64max; destruct add; lia).
    rewrite ki64_small by (destruct add; lia). destruct add; lia.
Qed.

(* if e.lenAggregated(batch, au) <= e.PayloadMaxSize   is the test of Model.batch_loop *)
Lemma bridge_agg_fits max batch au :
  Z.of_N (nlen batch + 1) < i64max -> Z.of_N (hbits c (nlen batch + 1)) < i64max ->
  Z.of_N (len_agg c batch (Some au)) < i64max ->
  k_mpeg4audio_agg_fits (la_code batch (Some au)) (Z.of_N max) = (len_agg c batch (Some au) <=? max)%N.
Proof. intros H1 H2 H3. rewrite bridge_len_agg by assumption. unfold k_mpeg4audio_agg_fits. apply leb_N. Qed.

(* writeBatch: len(aus) != 1 || e.lenAggregated(aus, nil) < e.PayloadMaxSize  is the dispatch of Model.write_batch *)
Lemma bridge_batch_agg max batch :
  Z.of_N (nlen batch + 0) < i64max -> Z.of_N (hbits c (nlen batch + 0)) < i64max ->
  Z.of_N (len_agg c batch None) < i64max ->
  k_mpeg4audio_batch_agg (Z.of_N (nlen batch)) (la_code batch None) (Z.of_N max)
  = (negb (nlen batch =? 1)%N || (len_agg c batch None <? max)%N).
Proof.
  intros H1 H2 H3. rewrite bridge_len_agg by assumption. unfold k_mpeg4audio_batch_agg. rewrite ltb_N.
  change 1 with (Z.of_N 1). rewrite eqb_N. reflexivity.
Qed.
Lemma write_batch_dispatch max batch ts seq :
  write_batch c max batch ts seq =
  if negb (nlen batch =? 1)%N || (len_agg c batch None <? max)%N then Some (write_agg c batch ts seq)
  else match batch with au :: _ => write_frag c max au ts seq | [] => None end.
Proof.
  destruct batch as [|f [|g t]]; cbn [write_batch nlen].
  - reflexivity.
  - change (N.succ 0 =? 1)%N with true. cbn [negb orb]. reflexivity.
  - destruct (N.eqb_spec (N.succ (N.succ (nlen t))) 1) as [E|E]; [lia|]. reflexivity.
Qed.

(* writeFragmented: auHeadersLen := e.SizeLength + e.IndexLength; auHeadersLenBytes := auHeadersLen / 8 (+1 if % 8 != 0) *)
Definition fr_hb_code : Z :=
  let h := k_mpeg4audio_fr_hlen SL IL in
  let b := k_mpeg4audio_fr_hbytes h in
  if k_mpeg4audio_fr_hrem h then k_mpeg4audio_fr_hround b else b.

Lemma bridge_fr_hlen : Z.of_N (hw c true) < i64max -> k_mpeg4audio_fr_hlen SL IL = Z.of_N (hw c true).
Proof. unfold k_mpeg4audio_fr_hlen, hw, i64max. intros H. rewrite ki64_small by lia. lia. Qed.
Lemma bridge_fr_hb : Z.of_N (hw c true) < i64max -> fr_hb_code = Z.of_N (ceil8 (hw c true)).
Proof.
  intros H. unfold fr_hb_code. rewrite bridge_fr_hlen by exact H.
  unfold k_mpeg4audio_fr_hbytes, k_mpeg4audio_fr_hrem, k_mpeg4audio_fr_hround. rewrite quot8 by exact H. rewrite rem8, ceil8_alt.
  assert (Hd : (hw c true / 8 <= hw c true)%N) by (apply N.div_le_upper_bound; lia). unfold i64max in *.
  destruct (negb (hw c true mod 8 =? 0)%N); [rewrite ki64_small by lia|]; lia.
Qed.

(* avail := e.PayloadMaxSize - 2 - auHeadersLenBytes; the packet count; the packet size 2+auHeadersLenBytes+le *)
Lemma bridge_fr_avail max : (2 + ceil8 (hw c true) <= max)%N -> Z.of_N max < i64max ->
  k_mpeg4audio_fr_avail (Z.of_N max) (Z.of_N (ceil8 (hw c true))) = Z.of_N (max - 2 - ceil8 (hw c true)).
Proof. unfold k_mpeg4audio_fr_avail, i64max. intros H1 H2. rewrite (ki64_small (Z.of_N max - 2)) by lia. rewrite ki64_small by lia. lia. Qed.

Lemma bridge_fr_count max (au : bytes) : (2 + ceil8 (hw c true) + 1 <= max)%N -> Z.of_N max < i64max ->
  Z.of_N (nlen au) < i64max -> Z.of_N (hw c true) < i64max ->
  k_mpeg4audio_packetCount (k_mpeg4audio_fr_avail (Z.of_N max) fr_hb_code) (Z.of_N (nlen au))
  = Some (Z.of_N (nlen (chunks (max - 2 - ceil8 (hw c true)) au))).
Proof.
  intros H1 H2 H3 Hw.
  rewrite bridge_fr_hb by exact Hw. rewrite bridge_fr_avail by (try assumption; lia).
  unfold k_mpeg4audio_packetCount. unfold i64max in *. rewrite pc_generic by lia.
  rewrite chunks_count_Z by lia. reflexivity.
Qed.

Lemma bridge_fr_size (p : bytes) : Z.of_N (2 + ceil8 (hw c true) + nlen p) < i64max ->
  k_mpeg4audio_fr_size (Z.of_N (ceil8 (hw c true))) (Z.of_N (nlen p))
  = Z.of_N (nlen (be16 (hw c true) ++ pack (au_hdr c true (nlen p)) ++ p)).
Proof.
  unfold k_mpeg4audio_fr_size, i64max. intros H. rewrite !nlen_app, nlen_pack_ceil8, nlen_au_hdr. unfold be16. cbn [nlen].
  rewrite (ki64_small (2 + _)) by lia. rewrite ki64_small by lia. lia.
Qed.

(* payload[0] = byte(auHeadersLen >> 8); payload[1] = byte(auHeadersLen)  are the two bytes of Model.be16 *)
Lemma bridge_hl_bytes (h : N) : Z.of_N h < i64max ->
  [k_mpeg4audio_fr_hl_hi (Z.of_N h); k_mpeg4audio_fr_hl_lo (Z.of_N h)] = map Z.of_N (be16 h) /\
  [k_mpeg4audio_wa_hl_hi (Z.of_N h); k_mpeg4audio_wa_hl_lo (Z.of_N h)] = map Z.of_N (be16 h).
Proof. intros H. split; exact (hi_lo h H). Qed.

Lemma bridge_fr_last (i pc : N) : Z.of_N pc < i64max -> (1 <= pc)%N ->
  k_mpeg4audio_fr_last (Z.of_N i) (Z.of_N pc) = (i + 1 =? pc)%N /\
  k_mpeg4audio_fr_marker (Z.of_N i) (Z.of_N pc) = (i + 1 =? pc)%N.
Proof.
  unfold k_mpeg4audio_fr_last, k_mpeg4audio_fr_marker, i64max. intros H1 H2. rewrite ki64_small by lia.
  split; destruct (Z.eqb_spec (Z.of_N i) (Z.of_N pc - 1)), (N.eqb_spec (i + 1) pc); lia.
Qed.

(* Model.frag_pkts marks the last chunk: packet i of the pc packets of a fragmented AU carries the marker iff i + 1 = pc *)
Lemma frag_pkts_marker_at ts : forall (cs : list bytes) seq i, (i < length cs)%nat ->
  nth i (map pmarker (frag_pkts c seq ts cs)) false = (N.of_nat i + 1 =? nlen cs)%N.
Proof.
  induction cs as [|x t IH]; intros seq i Hi; cbn [length] in Hi; [lia|].
  cbn [frag_pkts map pmarker]. destruct i as [|i]; cbn [nth].
  - destruct t as [|c' t']; cbn [nlen]; [reflexivity|].
    match goal with |- context [N.eqb ?a ?b] => destruct (N.eqb_spec a b) as [E|E] end; [lia|reflexivity].
  - rewrite IH by lia. cbn [nlen].
    repeat match goal with |- context [N.eqb ?a ?b] => destruct (N.eqb_spec a b) end; lia.
Qed.

(* writeAggregated: the `written` loop (i is the range index), pos = 2 + written / 8 (+1 if % 8 != 0) *)
Fixpoint wa_loop (w i : Z) (aus : list bytes) : Z :=
  match aus with
  | [] => w
  | _ :: t =>
      let w := k_mpeg4audio_wa_wsize w SL in
      let w := if k_mpeg4audio_wa_first i then k_mpeg4audio_wa_widx w IL else k_mpeg4audio_wa_wdelta w IDL in
      wa_loop w (i + 1) t
  end.
Definition wa_written (aus : list bytes) : Z := wa_loop k_mpeg4audio_wa_w0 0 aus.
Definition wa_pos_code (aus : list bytes) : Z :=
  let w := wa_written aus in
  let pos := k_mpeg4audio_wa_pos w in
  if k_mpeg4audio_wa_prem w then k_mpeg4audio_wa_pround pos else pos.

Lemma wa_loop_spec aus : forall k, Z.of_N (hbits c (k + nlen aus)) < i64max ->
  wa_loop (Z.of_N (hbits c k)) (Z.of_N k) aus = Z.of_N (hbits c (k + nlen aus)).
Proof.
  induction aus as [|x t IH]; intros k H1; cbn [wa_loop nlen] in *.
  - rewrite N.add_0_r. reflexivity.
  - replace (k + N.succ (nlen t))%N with (k + 1 + nlen t)%N in * by lia.
    pose proof (hbits_le (k + 1) (nlen t)) as Hle. cbv zeta.
    assert (E : (if k_mpeg4audio_wa_first (Z.of_N k)
                 then k_mpeg4audio_wa_widx (k_mpeg4audio_wa_wsize (Z.of_N (hbits c k)) SL) IL
                 else k_mpeg4audio_wa_wdelta (k_mpeg4audio_wa_wsize (Z.of_N (hbits c k)) SL) IDL)
                = Z.of_N (hbits c (k + 1))).
    { unfold k_mpeg4audio_wa_first, k_mpeg4audio_wa_widx, k_mpeg4audio_wa_wdelta, k_mpeg4audio_wa_wsize.
      rewrite hbits_succ in *. unfold i64max in *.
      destruct (N.eqb_spec k 0) as [->|Hk].
      - change (Z.of_N 0 =? 0) with true. cbv iota. unfold hbits, hw in *. cbn [N.eqb] in *.
        rewrite (ki64_small (_ + SL)) by lia. rewrite ki64_small by lia. lia.
      - destruct (Z.eqb_spec (Z.of_N k) 0); [lia|]. unfold hw in *.
        rewrite (ki64_small (_ + SL)) by lia. rewrite ki64_small by lia. lia. }
    rewrite E. replace (Z.of_N k + 1) with (Z.of_N (k + 1)) by lia. apply IH. exact H1.
Qed.

Lemma bridge_wa_written aus : Z.of_N (hbits c (nlen aus)) < i64max -> wa_written aus = Z.of_N (hbits c (nlen aus)).
Proof.
  intros H. unfold wa_written, k_mpeg4audio_wa_w0. change 0 with (Z.of_N (hbits c 0)) at 1. change 0 with (Z.of_N 0).
  rewrite wa_loop_spec; rewrite N.add_0_l; [reflexivity|exact H].
Qed.

(* the AUs start right after the AU-headers-length and the packed AU-headers of Model.write_agg *)
Lemma bridge_wa_pos aus : Z.of_N (hbits c (nlen aus)) < i64max ->
  wa_pos_code aus = Z.of_N (nlen (be16 (hbits c (nlen aus)) ++ pack (hdr_bits c true aus))).
Proof.
  intros H. unfold wa_pos_code. rewrite bridge_wa_written by exact H.
  unfold k_mpeg4audio_wa_pos, k_mpeg4audio_wa_prem, k_mpeg4audio_wa_pround. rewrite quot8 by exact H. rewrite rem8.
  rewrite nlen_app, nlen_pack_ceil8, nlen_hdr_bits, <- hbits_hrem, ceil8_alt. unfold be16. cbn [nlen].
  set (h := hbits c (nlen aus)) in *.
  assert (Hd : (h / 8 <= h)%N) by (apply N.div_le_upper_bound; lia). unfold i64max in *.
  rewrite (ki64_small (2 + Z.of_N (h / 8))) by lia.
  destruct (negb (h mod 8 =? 0)%N); [rewrite ki64_small by lia|]; lia.
Qed.

(* e.sequenceNumber++ (two copies) is Rtp.seq_next *)
Lemma bridge_seq (s : N) :
  k_mpeg4audio_seq_frag (Z.of_N s) = Z.of_N (seq_next s) /\ k_mpeg4audio_seq_agg (Z.of_N s) = Z.of_N (seq_next s).
Proof. unfold k_mpeg4audio_seq_frag, k_mpeg4audio_seq_agg, seq_next. split; apply w16_succ_N. Qed.

(* timestamp += uint32(len(batch)) * mpeg4audio.SamplesPerAccessUnit  is the step of Model.enc_batches *)
Lemma bridge_ts_step (ts lb sp : N) :
  k_mpeg4audio_ts_step (Z.of_N ts) (Z.of_N lb) (Z.of_N sp) = Z.of_N ((ts + lb * sp) mod 4294967296).
Proof.
  unfold k_mpeg4audio_ts_step, w32. rewrite Z.mul_mod_idemp_l, Z.add_mod_idemp_r by lia.
  rewrite N2Z.inj_mod, N2Z.inj_add, N2Z.inj_mul. reflexivity.
Qed.

Theorem enc_kernels_are_the_code (max : N) (batch : list bytes) (au p : bytes) (i pc s ts : N) :
  Z.of_N max < i64max -> Z.of_N (nlen batch + 1) < i64max -> Z.of_N (hbits c (nlen batch + 1)) < i64max ->
  Z.of_N (len_agg c batch (Some au)) < i64max ->
  Z.of_N (2 + ceil8 (hw c true) + nlen p) < i64max -> (1 <= pc)%N -> Z.of_N pc < i64max ->
  la_code batch None = Z.of_N (len_agg c batch None) /\
  k_mpeg4audio_agg_fits (la_code batch (Some au)) (Z.of_N max) = (len_agg c batch (Some au) <=? max)%N /\
  k_mpeg4audio_batch_agg (Z.of_N (nlen batch)) (la_code batch None) (Z.of_N max)
    = (negb (nlen batch =? 1)%N || (len_agg c batch None <? max)%N) /\
  k_mpeg4audio_fr_hlen SL IL = Z.of_N (hw c true) /\
  fr_hb_code = Z.of_N (ceil8 (hw c true)) /\
  ((2 + ceil8 (hw c true) + 1 <= max)%N ->
     k_mpeg4audio_fr_avail (Z.of_N max) fr_hb_code = Z.of_N (max - 2 - ceil8 (hw c true)) /\
     k_mpeg4audio_packetCount (k_mpeg4audio_fr_avail (Z.of_N max) fr_hb_code) (Z.of_N (nlen au))
       = Some (Z.of_N (nlen (chunks (max - 2 - ceil8 (hw c true)) au)))) /\
  k_mpeg4audio_fr_size fr_hb_code (Z.of_N (nlen p))
    = Z.of_N (nlen (be16 (hw c true) ++ pack (au_hdr c true (nlen p)) ++ p)) /\
  [k_mpeg4audio_fr_hl_hi (k_mpeg4audio_fr_hlen SL IL); k_mpeg4audio_fr_hl_lo (k_mpeg4audio_fr_hlen SL IL)]
    = map Z.of_N (be16 (hw c true)) /\
  k_mpeg4audio_fr_last (Z.of_N i) (Z.of_N pc) = (i + 1 =? pc)%N /\
  k_mpeg4audio_fr_marker (Z.of_N i) (Z.of_N pc) = (i + 1 =? pc)%N /\
  wa_written batch = Z.of_N (hbits c (nlen batch)) /\
  wa_pos_code batch = Z.of_N (nlen (be16 (hbits c (nlen batch)) ++ pack (hdr_bits c true batch))) /\
  [k_mpeg4audio_wa_hl_hi (wa_written batch); k_mpeg4audio_wa_hl_lo (wa_written batch)]
    = map Z.of_N (be16 (hbits c (nlen batch))) /\
  k_mpeg4audio_seq_frag (Z.of_N s) = Z.of_N (seq_next s) /\ k_mpeg4audio_seq_agg (Z.of_N s) = Z.of_N (seq_next s) /\
  k_mpeg4audio_ts_step (Z.of_N ts) (Z.of_N (nlen batch)) (Z.of_N spau) = Z.of_N ((ts + nlen batch * spau) mod 4294967296).
Proof.
  intros H1 H2 H3 H4 H5 H6 H7.
  pose proof (hbits_le (nlen batch) 1) as Hle.
  assert (Hb0 : Z.of_N (hbits c (nlen batch)) < i64max) by (unfold i64max in *; lia).
  assert (Hw : Z.of_N (hw c true) < i64max).
  { pose proof (hbits_le 1 (nlen batch)) as Hl1. replace (1 + nlen batch)%N with (nlen batch + 1)%N in Hl1 by lia.
    change (hbits c 1) with (hw c true + (1 - 1) * hw c false)%N in Hl1. unfold i64max in *. lia. }
  assert (Hn : Z.of_N (len_agg c batch None) < i64max).
  { unfold len_agg in *. pose proof (ceil8_mono _ _ Hle). replace (nlen batch + 0)%N with (nlen batch) by lia. unfold i64max in *. lia. }
  assert (Hau : Z.of_N (nlen au) < i64max) by (unfold len_agg, i64max in *; lia).
  split; [apply bridge_len_agg; cbn [addn]; rewrite ?N.add_0_r; try assumption; unfold i64max in *; lia|].
  split; [apply bridge_agg_fits; assumption|].
  split; [apply bridge_batch_agg; rewrite ?N.add_0_r; try assumption; unfold i64max in *; lia|].
  split; [apply bridge_fr_hlen; exact Hw|].
  split; [apply bridge_fr_hb; exact Hw|].
  split; [intros Hm; split; [rewrite bridge_fr_hb by exact Hw; apply bridge_fr_avail; [lia|assumption]|apply bridge_fr_count; assumption]|].
  split; [rewrite bridge_fr_hb by exact Hw; apply bridge_fr_size; exact H5|].
  split; [rewrite bridge_fr_hlen by exact Hw; apply (proj1 (bridge_hl_bytes _ Hw))|].
  destruct (bridge_fr_last i pc H7 H6) as (E & F). split; [exact E|]. split; [exact F|].
  split; [apply bridge_wa_written; exact Hb0|].
  split; [apply bridge_wa_pos; exact Hb0|].
  split; [rewrite bridge_wa_written by exact Hb0; apply (proj2 (bridge_hl_bytes _ Hb0))|].
  destruct (bridge_seq s) as (G & I). split; [exact G|]. split; [exact I|].
  apply bridge_ts_step.
Qed.

(* ---------- decoder: resynchronisation tests of the fragmented path (C07) ---------- *)

Lemma bridge_dec_one (lens : list N) :
  k_mpeg4audio_dec_one_a (Z.of_N (nlen lens)) = match lens with [_] => false | _ => true end /\
  k_mpeg4audio_dec_one_b (Z.of_N (nlen lens)) = match lens with [_] => false | _ => true end.
Proof.
  unfold k_mpeg4audio_dec_one_a, k_mpeg4audio_dec_one_b. destruct lens as [|a [|b t]]; cbn [nlen]; split; lia.
Qed.

Lemma bridge_dec_resync (seq next fs : N) :
  k_mpeg4audio_dec_nextseq (Z.of_N seq) = Z.of_N (seq_next seq) /\
  k_mpeg4audio_dec_incseq (Z.of_N next) = Z.of_N (seq_next next) /\
  k_mpeg4audio_dec_gap (Z.of_N seq) (Z.of_N next) = negb (seq =? next)%N /\
  k_mpeg4audio_dec_idle (Z.of_N fs) = (fs =? 0)%N.
Proof.
  unfold k_mpeg4audio_dec_nextseq, k_mpeg4audio_dec_incseq, k_mpeg4audio_dec_gap, k_mpeg4audio_dec_idle, seq_next.
  rewrite !w16_succ_N, eqb_N. repeat split. exact (eqb_N fs 0).
Qed.

Theorem resync_kernels_are_the_code (seq next fs : N) (lens : list N) :
  k_mpeg4audio_dec_idle (Z.of_N fs) = (fs =? 0)%N /\
  k_mpeg4audio_dec_one_a (Z.of_N (nlen lens)) = match lens with [_] => false | _ => true end /\
  k_mpeg4audio_dec_one_b (Z.of_N (nlen lens)) = match lens with [_] => false | _ => true end /\
  k_mpeg4audio_dec_nextseq (Z.of_N seq) = Z.of_N (seq_next seq) /\
  k_mpeg4audio_dec_gap (Z.of_N seq) (Z.of_N next) = negb (seq =? next)%N /\
  k_mpeg4audio_dec_incseq (Z.of_N next) = Z.of_N (seq_next next).
Proof.
  destruct (bridge_dec_one lens) as (A & B). destruct (bridge_dec_resync seq next fs) as (D & E & F & G).
  repeat split; assumption.
Qed.

(* ---------- decoder: length tests, header arithmetic, the cap (C08) ---------- *)

Lemma bridge_dec_short (pl : bytes) :
  k_mpeg4audio_dec_short (Z.of_N (nlen pl)) = match pl with _ :: _ :: _ => false | _ => true end.
Proof. unfold k_mpeg4audio_dec_short. destruct pl as [|a [|b t]]; cbn [nlen]; lia. Qed.

(* headersLen := int(uint16(Payload[0])<<8 | uint16(Payload[1])); if headersLen == 0 *)
Lemma bridge_dec_hlen (b0 b1 : N) : isbyte b0 -> isbyte b1 ->
  k_mpeg4audio_dec_hlen (Z.of_N b0) (Z.of_N b1) = Z.of_N (b0 * 256 + b1) /\
  k_mpeg4audio_dec_hzero (k_mpeg4audio_dec_hlen (Z.of_N b0) (Z.of_N b1)) = (b0 * 256 + b1 =? 0)%N.
Proof.
  unfold isbyte, k_mpeg4audio_dec_hlen, k_mpeg4audio_dec_hzero. intros H0 H1.
  assert (E : w16 (Z.lor (w16 (Z.shiftl (w16 (Z.of_N b0)) 8)) (w16 (Z.of_N b1))) = Z.of_N (b0 * 256 + b1)).
  { rewrite (w16_small (Z.of_N b0)), (w16_small (Z.of_N b1)) by lia.
    rewrite Z.shiftl_mul_pow2 by lia. change (2 ^ 8) with 256. rewrite (w16_small (Z.of_N b0 * 256)) by lia.
    rewrite <- (Z.shiftl_mul_pow2 _ 8) by lia. rewrite lor_shift8 by lia. rewrite w16_small by lia. lia. }
  rewrite E. rewrite ki64_small by lia. split; [reflexivity|]. exact (eqb_N (b0 * 256 + b1) 0).
Qed.

(* pos := headersLen / 8 (+1 if headersLen % 8 != 0)  is Model.ceil8 hl, the start of the AUs in Model.dec *)
Definition dec_pos_code (hl : Z) : Z :=
  let pos := k_mpeg4audio_dec_pos hl in
  if k_mpeg4audio_dec_prem hl then k_mpeg4audio_dec_pround pos else pos.
Lemma bridge_dec_pos (hl : N) : Z.of_N hl < i64max -> dec_pos_code (Z.of_N hl) = Z.of_N (ceil8 hl).
Proof.
  intros H. unfold dec_pos_code, k_mpeg4audio_dec_pos, k_mpeg4audio_dec_prem, k_mpeg4audio_dec_pround.
  rewrite quot8 by exact H. rewrite rem8, ceil8_alt.
  assert (Hd : (hl / 8 <= hl)%N) by (apply N.div_le_upper_bound; lia). unfold i64max in *.
  destruct (negb (hl mod 8 =? 0)%N); [rewrite ki64_small by lia|]; lia.
Qed.

(* the three  len(payload) < int(dataLen)  tests; d.fragmentsSize = int(dataLens[0]); d.fragmentsSize += int(dataLens[0]);
   if d.fragmentsSize > mpeg4audio.MaxAccessUnitSize *)
Lemma bridge_dec_sizes (payload : bytes) (l fs : N) : Z.of_N l < i64max -> Z.of_N (fs + l) < i64max ->
  k_mpeg4audio_dec_aushort (Z.of_N (nlen payload)) (Z.of_N l) = (nlen payload <? l)%N /\
  k_mpeg4audio_dec_fshort (Z.of_N (nlen payload)) (Z.of_N l) = (nlen payload <? l)%N /\
  k_mpeg4audio_dec_cshort (Z.of_N (nlen payload)) (Z.of_N l) = (nlen payload <? l)%N /\
  k_mpeg4audio_dec_first (Z.of_N l) = Z.of_N l /\
  k_mpeg4audio_dec_acc (Z.of_N fs) (Z.of_N l) = Z.of_N (fs + l) /\
  k_mpeg4audio_dec_cap (k_mpeg4audio_dec_acc (Z.of_N fs) (Z.of_N l)) (Z.of_N cap) = (cap <? fs + l)%N.
Proof.
  unfold k_mpeg4audio_dec_aushort, k_mpeg4audio_dec_fshort, k_mpeg4audio_dec_cshort, k_mpeg4audio_dec_first,
    k_mpeg4audio_dec_acc, k_mpeg4audio_dec_cap, i64max. intros H1 H2.
  rewrite (ki64_small (Z.of_N l)) by lia. rewrite ki64_small by lia. rewrite <- N2Z.inj_add.
  repeat split; try apply ltb_N. apply gtb_N.
Qed.

(* readAUHeaders, first loop:  for i := 0; i < headersLen; { if i == 0 { i += SizeLength; i += IndexLength } else
   { i += SizeLength; i += IndexDeltaLength }; count++ }.  The for condition is written here, every statement of the body is
   a translated kernel; with enough fuel the loop computes Model.hcount *)
Fixpoint hc_loop (fuel : nat) (hl i count : Z) : option Z :=
  match fuel with
  | O => None
  | S f =>
      if i <? hl then
        hc_loop f hl (if k_mpeg4audio_rh_cfirst i then k_mpeg4audio_rh_cidx (k_mpeg4audio_rh_csize i SL) IL
                      else k_mpeg4audio_rh_cdelta (k_mpeg4audio_rh_csize2 i SL) IDL)
                (k_mpeg4audio_rh_cinc count)
      else Some count
  end.

Hypothesis Hcfg : cfg_ok c.

Lemma hc_loop_spec (hl : N) : (hl < 65536)%N -> forall fuel (i count : N),
  (N.to_nat (hl - i) < fuel)%nat -> (i <= hl + 64)%N -> (count <= i)%N ->
  hc_loop fuel (Z.of_N hl) (Z.of_N i) (Z.of_N count) = Some (Z.of_N (count + cnt_rem c (hl - i) (i =? 0)%N)).
Proof.
  intros Hhl. destruct Hcfg as (C1 & C2 & C3 & C4).
  induction fuel as [|f IH]; intros i count Hf Hi Hc; [lia|]. cbn [hc_loop].
  destruct (Z.ltb_spec (Z.of_N i) (Z.of_N hl)) as [Hlt|Hge].
  - rewrite (cnt_rem_step c Hcfg (hl - i) (i =? 0)%N) by lia.
    unfold k_mpeg4audio_rh_cfirst, k_mpeg4audio_rh_cidx, k_mpeg4audio_rh_csize, k_mpeg4audio_rh_cdelta,
      k_mpeg4audio_rh_csize2, k_mpeg4audio_rh_cinc.
    rewrite (ki64_small (Z.of_N count + 1)) by lia. replace (Z.of_N count + 1) with (Z.of_N (count + 1)) by lia.
    assert (E : (if Z.of_N i =? 0 then ki64 (ki64 (Z.of_N i + SL) + IL) else ki64 (ki64 (Z.of_N i + SL) + IDL))
                = Z.of_N (i + hw c (i =? 0)%N)).
    { rewrite (ki64_small (Z.of_N i + SL)) by lia. rewrite !ki64_small by lia. unfold hw.
      destruct (N.eqb_spec i 0), (Z.eqb_spec (Z.of_N i) 0); lia. }
    rewrite E. assert (Hw : (0 < hw c (i =? 0)%N <= 64)%N) by (unfold hw; destruct (i =? 0)%N; lia).
    rewrite IH by lia.
    destruct (N.eqb_spec (i + hw c (i =? 0)%N) 0) as [E0|_]; [lia|].
    replace (hl - (i + hw c (i =? 0)%N))%N with (hl - i - hw c (i =? 0)%N)%N by lia. f_equal. lia.
  - replace (hl - i)%N with 0%N by lia. rewrite (cnt_rem_0 c Hcfg). f_equal. lia.
Qed.

Lemma bridge_hcount (hl : N) : (hl < 65536)%N ->
  hc_loop (S (N.to_nat hl)) (Z.of_N hl) k_mpeg4audio_rh_ci0 k_mpeg4audio_rh_c0 = option_map Z.of_N (hcount c hl).
Proof.
  intros H. unfold k_mpeg4audio_rh_ci0, k_mpeg4audio_rh_c0. change 0 with (Z.of_N 0).
  rewrite hc_loop_spec by lia. rewrite (hcount_closed c Hcfg). cbn [option_map]. rewrite N.sub_0_r. reflexivity.
Qed.

(* readAUHeaders, second loop: headersLen -= SizeLength; then -= IndexLength (first header, if IndexLength > 0) or
   -= IndexDeltaLength (later headers, if IndexDeltaLength > 0).  Go lets headersLen go negative and loops while > 0; the
   model subtracts in N (truncated): the same number after clamping, the same loop test *)
Definition rh_step (first : bool) (hl : Z) : Z :=
  let h := k_mpeg4audio_rh_hsize hl SL in
  if first then (if k_mpeg4audio_rh_hasidx IL then k_mpeg4audio_rh_hidx h IL else h)
  else (if k_mpeg4audio_rh_hasdelta IDL then k_mpeg4audio_rh_hdelta h IDL else h).

Lemma bridge_rh_step (first : bool) (hl : N) : Z.of_N hl < i64max ->
  Z.to_N (rh_step first (Z.of_N hl)) = (hl - sl c - (if first then il c else idl c))%N /\
  (0 <? rh_step first (Z.of_N hl)) = negb (hl - sl c - (if first then il c else idl c) =? 0)%N.
Proof.
  destruct Hcfg as (C1 & C2 & C3 & C4). unfold i64max. intros H.
  unfold rh_step, k_mpeg4audio_rh_hsize, k_mpeg4audio_rh_hasidx, k_mpeg4audio_rh_hidx, k_mpeg4audio_rh_hasdelta,
    k_mpeg4audio_rh_hdelta. cbv zeta.
  rewrite (ki64_small (Z.of_N hl - SL)) by lia.
  destruct first.
  - destruct (Z.gtb_spec IL 0); [rewrite ki64_small by lia|]; split; lia.
  - destruct (Z.gtb_spec IDL 0); [rewrite ki64_small by lia|]; split; lia.
Qed.

Lemma bridge_rh_tests (v x : N) :
  k_mpeg4audio_rh_zero (Z.of_N v) = (v =? 0)%N /\
  k_mpeg4audio_rh_hasidx IL = (0 <? il c)%N /\ k_mpeg4audio_rh_hasdelta IDL = (0 <? idl c)%N /\
  k_mpeg4audio_rh_idxnz (Z.of_N x) = negb (x =? 0)%N /\ k_mpeg4audio_rh_deltanz (Z.of_N x) = negb (x =? 0)%N.
Proof.
  unfold k_mpeg4audio_rh_zero, k_mpeg4audio_rh_hasidx, k_mpeg4audio_rh_hasdelta, k_mpeg4audio_rh_idxnz, k_mpeg4audio_rh_deltanz.
  change 0 with (Z.of_N 0). rewrite !gtb_N, !eqb_N. repeat split.
Qed.

Theorem caps_kernels_are_the_code (pl payload : bytes) (b0 b1 hl l fs v x : N) (first : bool) :
  isbyte b0 -> isbyte b1 -> (hl < 65536)%N -> Z.of_N l < i64max -> Z.of_N (fs + l) < i64max ->
  k_mpeg4audio_dec_short (Z.of_N (nlen pl)) = match pl with _ :: _ :: _ => false | _ => true end /\
  k_mpeg4audio_dec_hlen (Z.of_N b0) (Z.of_N b1) = Z.of_N (b0 * 256 + b1) /\
  k_mpeg4audio_dec_hzero (k_mpeg4audio_dec_hlen (Z.of_N b0) (Z.of_N b1)) = (b0 * 256 + b1 =? 0)%N /\
  dec_pos_code (Z.of_N hl) = Z.of_N (ceil8 hl) /\
  k_mpeg4audio_dec_aushort (Z.of_N (nlen payload)) (Z.of_N l) = (nlen payload <? l)%N /\
  k_mpeg4audio_dec_fshort (Z.of_N (nlen payload)) (Z.of_N l) = (nlen payload <? l)%N /\
  k_mpeg4audio_dec_cshort (Z.of_N (nlen payload)) (Z.of_N l) = (nlen payload <? l)%N /\
  k_mpeg4audio_dec_first (Z.of_N l) = Z.of_N l /\
  k_mpeg4audio_dec_acc (Z.of_N fs) (Z.of_N l) = Z.of_N (fs + l) /\
  k_mpeg4audio_dec_cap (k_mpeg4audio_dec_acc (Z.of_N fs) (Z.of_N l)) (Z.of_N cap) = (cap <? fs + l)%N /\
  hc_loop (S (N.to_nat hl)) (Z.of_N hl) k_mpeg4audio_rh_ci0 k_mpeg4audio_rh_c0 = option_map Z.of_N (hcount c hl) /\
  Z.to_N (rh_step first (Z.of_N hl)) = (hl - sl c - (if first then il c else idl c))%N /\
  (0 <? rh_step first (Z.of_N hl)) = negb (hl - sl c - (if first then il c else idl c) =? 0)%N /\
  k_mpeg4audio_rh_zero (Z.of_N v) = (v =? 0)%N /\
  k_mpeg4audio_rh_hasidx IL = (0 <? il c)%N /\ k_mpeg4audio_rh_hasdelta IDL = (0 <? idl c)%N /\
  k_mpeg4audio_rh_idxnz (Z.of_N x) = negb (x =? 0)%N /\ k_mpeg4audio_rh_deltanz (Z.of_N x) = negb (x =? 0)%N.
Proof.
  intros H0 H1 H2 H3 H4. assert (Hh : Z.of_N hl < i64max) by (unfold i64max; lia).
  destruct (bridge_dec_hlen b0 b1 H0 H1) as (A1 & A2).
  destruct (bridge_dec_sizes payload l fs H3 H4) as (B1 & B2 & B3 & B4 & B5 & B6).
  destruct (bridge_rh_step first hl Hh) as (C1 & C2).
  destruct (bridge_rh_tests v x) as (D1 & D2 & D3 & D4 & D5).
  split; [apply bridge_dec_short|]. split; [exact A1|]. split; [exact A2|].
  split; [apply bridge_dec_pos; exact Hh|].
  split; [exact B1|]. split; [exact B2|]. split; [exact B3|]. split; [exact B4|]. split; [exact B5|]. split; [exact B6|].
  split; [apply bridge_hcount; exact H2|].
  repeat split; assumption.
Qed.

End B.

(* Executable model of pkg/format/rtpmpeg4audio (encoder.go, decoder.go; RFC 3640). Proof-free.
   Scope: SizeLength/IndexLength/IndexDeltaLength with 0 < SizeLength, all <= 32 (Go reads the fields
   into uint64/int; wider fields are outside the model).  The encoder is exact for access units
   whose size fits SizeLength bits (bits.WriteBitsUnsafe ORs wider values into neighbouring bits:
   packet SIZES, sequence numbers, markers and timestamps are still exact then, header bytes not). *)
From GVL Require Import NList Wire Chunks Rtp.
From GVG Require Import Consts.
From GV_mpeg4audio Require Export Bits.
Open Scope N_scope.

Definition cap : N := mpeg4audio_max_au.          (* mpeg4audio.MaxAccessUnitSize *)
Definition spau : N := mpeg4audio_samples_per_au.  (* mpeg4audio.SamplesPerAccessUnit *)

Record cfg := mkCfg { sl : N; il : N; idl : N }.

(* the parameter sets the harness exercises: RFC 3640 AAC-hbr, AAC-lbr, a header-less-index mode and
   two triples whose AU-headers are not byte aligned *)
Definition cfg_of_param (p : N) : cfg :=
  match p with
  | 0 => mkCfg 13 3 3
  | 1 => mkCfg 6 2 2
  | 2 => mkCfg 16 0 0
  | 3 => mkCfg 12 4 2
  | _ => mkCfg 7 0 3
  end.

Definition ceil8 (n : N) : N := n / 8 + (if n mod 8 =? 0 then 0 else 1).

Section M.
Variable c : cfg.
Variable max : N.

(* width of the first / of any later AU-header *)
Definition hw (first : bool) : N := if first then sl c + il c else sl c + idl c.
(* total AU-headers length in bits for k access units *)
Definition hbits (k : N) : N := if k =? 0 then 0 else hw true + (k - 1) * hw false.

(* ---------- encoder ---------- *)
(* lenAggregated(aus, addAU) *)
Definition len_agg (batch : list bytes) (add : option bytes) : N :=
  2 + ceil8 (hbits (nlen batch + match add with Some _ => 1 | None => 0 end))
    + nlen (concat batch) + match add with Some a => nlen a | None => 0 end.

(* Encode's batching loop: the list of batches handed to writeBatch, in order.  (Go interleaves
   batching and writing; the batches, and therefore the packets, are the same.)  A nil batch is
   never flushed in the loop, but the final writeBatch is unconditional. *)
Fixpoint batch_loop (aus : list bytes) (batch : list bytes) : list (list bytes) :=
  match aus with
  | [] => [batch]
  | au :: t =>
      if len_agg batch (Some au) <=? max then batch_loop t (batch ++ [au])
      else match batch with
           | [] => batch_loop t [au]
           | _ => batch :: batch_loop t [au]
           end
  end.

Definition au_hdr (first : bool) (size : N) : list bool :=
  bits_be (N.to_nat (sl c)) size ++ bits_be (N.to_nat (if first then il c else idl c)) 0.

Fixpoint hdr_bits (first : bool) (aus : list bytes) : list bool :=
  match aus with
  | [] => []
  | au :: t => au_hdr first (nlen au) ++ hdr_bits false t
  end.

Definition be16 (v : N) : bytes := [(v / 256) mod 256; v mod 256].

(* writeAggregated: AU-headers-length, AU-headers, AUs; marker set *)
Definition write_agg (aus : list bytes) (ts seq : N) : list packet :=
  [mkPkt seq ts true (be16 (hbits (nlen aus)) ++ pack (hdr_bits true aus) ++ concat aus)].

(* writeFragmented: every piece with its own one-AU header section; marker on the last piece *)
Fixpoint frag_pkts (seq ts : N) (cs : list bytes) : list packet :=
  match cs with
  | [] => []
  | p :: t =>
      mkPkt seq ts (match t with [] => true | _ => false end)
            (be16 (hw true) ++ pack (au_hdr true (nlen p)) ++ p)
      :: frag_pkts (seq_next seq) ts t
  end.

(* None: avail <= 0 (Go divides by zero, makes a negative-length slice, or emits an oversized packet):
   PayloadMaxSize below the smallest workable value 2 + ceil((SizeLength+IndexLength)/8) + 1 *)
Definition write_frag (au : bytes) (ts seq : N) : option (list packet) :=
  let hb := ceil8 (hw true) in
  if max <? 2 + hb + 1 then None else
  Some (frag_pkts seq ts (chunks (max - 2 - hb) au)).

Definition write_batch (batch : list bytes) (ts seq : N) : option (list packet) :=
  match batch with
  | [au] => if len_agg batch None <? max then Some (write_agg batch ts seq) else write_frag au ts seq
  | _ => Some (write_agg batch ts seq)
  end.

(* timestamp += uint32(len(batch)) * SamplesPerAccessUnit, in uint32 *)
Fixpoint enc_batches (bs : list (list bytes)) (ts seq : N) : option (list packet * N) :=
  match bs with
  | [] => Some ([], seq)
  | b :: t =>
      match write_batch b ts seq with
      | None => None
      | Some ps =>
          match enc_batches t ((ts + nlen b * spau) mod 4294967296) (seq_add seq (nlen ps)) with
          | None => None
          | Some (qs, seq') => Some (ps ++ qs, seq')
          end
      end
  end.

Definition enc (seq : N) (aus : list bytes) : option (list packet * N) :=
  enc_batches (batch_loop aus []) 0 seq.

Fixpoint enc_many (seq : N) (frames : list (list bytes)) : option (list (list packet)) :=
  match frames with
  | [] => Some []
  | f :: t =>
      match enc seq f with
      | None => None
      | Some (ps, seq') => option_map (cons ps) (enc_many seq' t)
      end
  end.

(* ---------- decoder ---------- *)
Record dstate := mkD {
  dfirst : bool;        (* firstAUParsed *)
  dadts : bool;         (* adtsMode *)
  dfrags : list bytes;  (* fragments *)
  dsize : N;            (* fragmentsSize *)
  dnext : N }.          (* fragmentNextSeqNum *)
Definition dinit : dstate := mkD false false [] 0 0.
Definition dreset (d : dstate) : dstate := mkD (dfirst d) (dadts d) [] 0 (dnext d).

(* readAUHeaders, first loop: the number of AU-headers announced by AU-headers-length, in closed
   form (1 + ceil((hl - w1) / w2)); None = the counting loop never terminates (a zero width) *)
Definition hcount (hl : N) : option N :=
  if hl =? 0 then Some 0 else
  if hw true =? 0 then None else
  if hl <=? hw true then Some 1 else
  if hw false =? 0 then None else
  Some (1 + (hl - hw true + hw false - 1) / hw false).

Inductive rres := ROk (lens : list N) | RErr | RPanic.

(* readAUHeaders, second loop.  [bs] is the bit string of buf from pos on, [hl] the remaining
   headersLen (Go lets it go negative, the loop tests > 0: truncated subtraction is equivalent),
   [lens] the dataLens array and [i] the index written next: dataLens[i] is a checked store. *)
Fixpoint read_loop (fuel bs : list bool) (hl : N) (first : bool) (lens : list N) (i : N) : rres :=
  if hl =? 0 then ROk lens else
  match fuel with
  | [] => RPanic (* never reached: every iteration consumes at least one bit or fails *)
  | _ :: fuel' =>
    match read_bits bs (sl c) with
    | BPanic => RPanic
    | BErr => RErr
    | BOk v bs1 =>
      if v =? 0 then RErr else
      let w := if first then il c else idl c in
      match (if 0 <? w then read_bits bs1 w else BOk 0 bs1) with
      | BPanic => RPanic
      | BErr => RErr
      | BOk x bs2 =>
        if negb (x =? 0) then RErr else
        if i <? nlen lens then read_loop fuel' bs2 (hl - sl c - w) false (nset i v lens) (i + 1)
        else RPanic
      end
    end
  end.

Definition read_au_headers (buf : bytes) (hl : N) : rres :=
  match hcount hl with
  | None => RPanic
  | Some cnt => let bs := bytes_bits buf in read_loop (true :: bs) bs hl true (nrep 0 cnt) 0
  end.

(* aus[i] = payload[:dataLen]; payload = payload[dataLen:] after the length test *)
Fixpoint split_aus (lens : list N) (payload : bytes) : option (list bytes) :=
  match lens with
  | [] => Some []
  | l :: t =>
      if nlen payload <? l then None
      else option_map (cons (ntake l payload)) (split_aus t (ndrop l payload))
  end.

(* joinFragments: ret[n:] panics if n > size; copy truncates silently *)
Fixpoint join_aux (frags : list bytes) (size n : N) (acc : bytes) : option bytes :=
  match frags with
  | [] => Some (acc ++ nrep 0 (size - n))
  | p :: t =>
      if size <? n then None else
      let k := ntake (size - n) p in
      join_aux t size (n + nlen k) (acc ++ k)
  end.
Definition join (frags : list bytes) (size : N) : option bytes := join_aux frags size 0 [].

(* mediacommon mpeg4audio.ADTSPackets.Unmarshal, re-modelled (7-byte header, CRC-less, one raw data
   block per packet); returns the AUs.  All indices follow the (bl - pos) >= 8 test. *)
Fixpoint adts_loop (fuel buf : bytes) (acc : list bytes) : option (list bytes) :=
  match fuel with
  | [] => None
  | _ :: fuel' =>
    match buf with
    | b0 :: b1 :: b2 :: b3 :: b4 :: b5 :: b6 :: b7 :: rest' =>
        let rest := b7 :: rest' in
        if negb (b0 * 16 + b1 / 16 =? 4095) then None else
        if negb (b1 mod 2 =? 1) then None else
        if 12 <? (b2 / 4) mod 16 then None else
        if 8 <=? (b2 mod 2) * 4 + (b3 / 64) mod 4 then None else
        let fl16 := (b3 mod 4) * 2048 + b4 * 8 + (b5 / 32) mod 8 in
        if fl16 <=? 7 then None else
        let fl := fl16 - 7 in
        if cap <? fl then None else
        if negb (b6 mod 4 =? 0) then None else
        if nlen rest <? fl then None else
        let au := ntake fl rest in
        match ndrop fl rest with
        | [] => Some (acc ++ [au])
        | buf' => adts_loop fuel' buf' (acc ++ [au])
        end
    | _ => None
    end
  end.
Definition adts_unmarshal (buf : bytes) : option (list bytes) := adts_loop buf buf [].

Definition adts_like (a : bytes) : bool :=
  match a with
  | b0 :: b1 :: _ => (b0 =? 255) && (b1 / 16 =? 15)
  | _ => false
  end.

(* removeADTS *)
Definition remove_adts (d : dstate) (aus : list bytes) : dstate * dres (list bytes) :=
  if negb (dfirst d) then
    let d1 := mkD true (dadts d) (dfrags d) (dsize d) (dnext d) in
    match aus with
    | [a] =>
        if adts_like a then
          match adts_unmarshal a with
          | Some [x] => (mkD true true (dfrags d) (dsize d) (dnext d), DFrame [x])
          | _ => (d1, DFrame aus)
          end
        else (d1, DFrame aus)
    | _ => (d1, DFrame aus)
    end
  else if dadts d then
    match aus with
    | [a] =>
        match adts_unmarshal a with
        | Some [x] => (d, DFrame [x])
        | _ => (d, DErr)
        end
    | _ => (d, DErr)
    end
  else (d, DFrame aus).

Definition dec (d : dstate) (p : packet) : dstate * dres (list bytes) :=
  match ppayload p with
  | b0 :: b1 :: payload =>
    let hl := b0 * 256 + b1 in
    if hl =? 0 then (dreset d, DErr) else
    match read_au_headers payload hl with
    | RPanic => (d, DPanic)
    | RErr => (dreset d, DErr)
    | ROk lens =>
      match nsub payload (ceil8 hl) (nlen payload) with      (* payload = payload[pos:] *)
      | None => (d, DPanic)
      | Some data =>
        if dsize d =? 0 then
          let d0 := dreset d in
          if pmarker p then
            match split_aus lens data with
            | None => (d0, DErr)
            | Some aus => remove_adts d0 aus
            end
          else
            match lens with
            | [l0] =>
                if nlen data <? l0 then (d0, DErr) else
                (mkD (dfirst d) (dadts d) (dfrags d0 ++ [ntake l0 data]) l0 (seq_next (pseq p)), DMore)
            | _ => (d0, DErr)
            end
        else
          match lens with
          | [l0] =>
              if nlen data <? l0 then (dreset d, DErr) else
              if negb (pseq p =? dnext d) then (dreset d, DErr) else
              let size' := dsize d + l0 in
              if cap <? size' then (dreset d, DErr) else
              let d' := mkD (dfirst d) (dadts d) (dfrags d ++ [ntake l0 data]) size' (seq_next (dnext d)) in
              if negb (pmarker p) then (d', DMore) else
              match join (dfrags d') size' with
              | Some au => remove_adts (dreset d') [au]
              | None => (d', DPanic)
              end
          | _ => (dreset d, DErr)
          end
      end
    end
  | _ => (dreset d, DErr)      (* len(pkt.Payload) < 2 *)
  end.

(* a panic ends the run (the harness stops feeding a decoder that panicked) *)
Fixpoint dec_run (d : dstate) (ps : list packet) : dstate * list (dres (list bytes)) :=
  match ps with
  | [] => (d, [])
  | p :: t =>
      let '(d', r) := dec d p in
      match r with
      | DPanic => (d', [r])
      | _ => let '(d'', rs) := dec_run d' t in (d'', r :: rs)
      end
  end.

(* what the decoder retains: logical bytes and slice headers *)
Definition retained (d : dstate) : N * N := (nlen (concat (dfrags d)), nlen (dfrags d)).

End M.

(* ---------- wire ---------- *)
Definition put_res (r : dres (list bytes)) : list N :=
  match r with
  | DFrame f => 1 :: putls f
  | DMore => [0]
  | DErr => [2]
  | DPanic => [77]
  end.

Fixpoint get_frames (fuel : list N) (k : N) (l : list N) : option (list (list bytes)) :=
  if k =? 0 then Some [] else
  match fuel with
  | [] => None
  | _ :: fuel' =>
    match fgetls l with
    | None => None
    | Some (f, r) => option_map (cons f) (get_frames fuel' (N.pred k) r)
    end
  end.

(* case 1: param max seq nframes {nunits {len bytes}}  -> all packets of all frames (put_pkts) | 77
   case 2: param npackets {pkt}                        -> per packet result; retained bytes, slices *)
Definition run (cs : list N) : list N :=
  match cs with
  | 1 :: param :: max :: seq :: k :: t =>
      match get_frames cs k t with
      | Some frames =>
          match enc_many (cfg_of_param param) max seq frames with
          | Some pss => put_pkts (concat pss)
          | None => [77]
          end
      | None => bad_case
      end
  | 2 :: param :: t =>
      match fget_pkts t with
      | Some (ps, _) =>
          let '(d, rs) := dec_run (cfg_of_param param) dinit ps in
          concat (map put_res rs) ++ [fst (retained d); snd (retained d)]
      | None => bad_case
      end
  | _ => bad_case
  end.

(* C06, rtpmpeg4audio — statements only.  psize p = payload length; seqs_ok seq ps: packet i
   carries sequence number seq+i mod 2^16; markers_ok g: in a group, the marker is set on the last
   packet and on no other.  A "group" is what one batch becomes: one aggregated packet, or the
   fragments of one AU.  No validity of the AUs is needed beyond being non-empty (Go would panic). *)
From GVL Require Import NList Rtp.
From GV_mpeg4audio Require Import Model Proofs.
Open Scope N_scope.

(* one Encode call, any AUs, any limit >= minmax, any initial sequence number: Encode succeeds;
   every payload is within the limit; sequence numbers increase by one modulo 2^16 from the
   encoder's counter, which ends at seq + packet count; each batch's group is non-empty and has its
   marker exactly on its completing packet *)
Theorem C06_mpeg4audio_packets_wellformed : forall c max, minmax c <= max ->
  forall seq aus, seq < 65536 -> Forall (fun a => a <> []) aus ->
  exists gs, enc_groups c max (batch_loop c max aus []) 0 seq = Some gs /\
    enc c max seq aus = Some (concat gs, seq_add seq (nlen (concat gs))) /\
    Forall (fun g => g <> [] /\ markers_ok g /\ Forall (fun p => psize p <= max) g) gs /\
    seqs_ok seq (concat gs) /\ nlen gs = nlen (batch_loop c max aus []).
Proof. exact enc_wellformed. Qed.
Print Assumptions C06_mpeg4audio_packets_wellformed.

(* across any series of Encode calls on one encoder: gapless sequence numbers from the configured
   initial value, every payload within the limit, and every call ends with a marker packet *)
Theorem C06_mpeg4audio_gapless_across_calls : forall c max, minmax c <= max ->
  forall fs seq, seq < 65536 -> Forall (Forall (fun a => a <> [])) fs ->
  exists pss, enc_many c max seq fs = Some pss /\ nlen pss = nlen fs /\
    seqs_ok seq (concat pss) /\ Forall (fun p => psize p <= max) (concat pss) /\
    Forall (fun ps => exists ps' p, ps = ps' ++ [p] /\ pmarker p = true) pss.
Proof. exact enc_many_wellformed. Qed.
Print Assumptions C06_mpeg4audio_gapless_across_calls.

Example C06_mpeg4audio_example :
  (match enc_many (mkCfg 6 2 2) 6 65534 [[[1;2;3;4;5]]; [[6]; [7]]] with
   | Some pss => (map (map pseq) pss, map (map pmarker) pss, map (map (fun p => nlen (ppayload p))) pss)
   | None => ([], [], [])
   end) = ([[65534; 65535]; [0]], [[false; true]; [true]], [[6; 5]; [6]])
  /\ minmax (mkCfg 6 2 2) <= 6.
Proof. split; vm_compute; [reflexivity|discriminate]. Qed.

(* ---- the translated kernels (tools/go2coq, regenerated from the Go source on every run) ----
   The integer formulas of rtpmpeg4audio/encoder.go - lenAggregated (n := 2; auHeadersLen += SizeLength + IndexLength for the
   first AU / + IndexDeltaLength for the others, the same choice for addAU, n += auHeadersLen / 8, n++ if auHeadersLen % 8
   != 0, n += len(au), n += len(addAU): three loops over the translated statements), the aggregation test
   lenAggregated(batch, au) <= PayloadMaxSize, the writeBatch dispatch len(aus) != 1 || lenAggregated(aus, nil) <
   PayloadMaxSize, writeFragmented's auHeadersLen := SizeLength + IndexLength with its round-up to bytes, the budget
   PayloadMaxSize - 2 - auHeadersLenBytes, the fragment count, the size 2+auHeadersLenBytes+le, the bytes
   byte(auHeadersLen >> 8) / byte(auHeadersLen), the last-fragment test and the marker expression, writeAggregated's
   `written` loop, pos = 2 + written / 8 (+1), byte(written >> 8) / byte(written), the two e.sequenceNumber++,
   timestamp += uint32(len(batch)) * mpeg4audio.SamplesPerAccessUnit - ARE the formulas of Model.len_agg / hbits / ceil8 /
   batch_loop / write_batch / write_frag / frag_pkts / be16 / write_agg / enc_batches. *)
From Coq Require Import ZArith.
From GVL Require Import Chunks.
From GVG Require Import Kern.
From GV_mpeg4audio Require Import BridgeLib Bridge.
Open Scope Z_scope.

Theorem C06_mpeg4audio_kernels_are_the_code :
  forall (c : cfg) (max : N) (batch : list bytes) (au p : bytes) (i pc s ts : N),
  Z.of_N max < i64max -> Z.of_N (nlen batch + 1) < i64max -> Z.of_N (hbits c (nlen batch + 1)) < i64max ->
  Z.of_N (len_agg c batch (Some au)) < i64max ->
  Z.of_N (2 + ceil8 (hw c true) + nlen p) < i64max -> (1 <= pc)%N -> Z.of_N pc < i64max ->
  la_code c batch None = Z.of_N (len_agg c batch None) /\
  k_mpeg4audio_agg_fits (la_code c batch (Some au)) (Z.of_N max) = (len_agg c batch (Some au) <=? max)%N /\
  k_mpeg4audio_batch_agg (Z.of_N (nlen batch)) (la_code c batch None) (Z.of_N max)
    = (negb (nlen batch =? 1)%N || (len_agg c batch None <? max)%N) /\
  k_mpeg4audio_fr_hlen (Z.of_N (sl c)) (Z.of_N (il c)) = Z.of_N (hw c true) /\
  fr_hb_code c = Z.of_N (ceil8 (hw c true)) /\
  ((2 + ceil8 (hw c true) + 1 <= max)%N ->
     k_mpeg4audio_fr_avail (Z.of_N max) (fr_hb_code c) = Z.of_N (max - 2 - ceil8 (hw c true)) /\
     k_mpeg4audio_packetCount (k_mpeg4audio_fr_avail (Z.of_N max) (fr_hb_code c)) (Z.of_N (nlen au))
       = Some (Z.of_N (nlen (chunks (max - 2 - ceil8 (hw c true)) au)))) /\
  k_mpeg4audio_fr_size (fr_hb_code c) (Z.of_N (nlen p))
    = Z.of_N (nlen (be16 (hw c true) ++ pack (au_hdr c true (nlen p)) ++ p)) /\
  [k_mpeg4audio_fr_hl_hi (k_mpeg4audio_fr_hlen (Z.of_N (sl c)) (Z.of_N (il c)));
   k_mpeg4audio_fr_hl_lo (k_mpeg4audio_fr_hlen (Z.of_N (sl c)) (Z.of_N (il c)))]
    = map Z.of_N (be16 (hw c true)) /\
  k_mpeg4audio_fr_last (Z.of_N i) (Z.of_N pc) = (i + 1 =? pc)%N /\
  k_mpeg4audio_fr_marker (Z.of_N i) (Z.of_N pc) = (i + 1 =? pc)%N /\
  wa_written c batch = Z.of_N (hbits c (nlen batch)) /\
  wa_pos_code c batch = Z.of_N (nlen (be16 (hbits c (nlen batch)) ++ pack (hdr_bits c true batch))) /\
  [k_mpeg4audio_wa_hl_hi (wa_written c batch); k_mpeg4audio_wa_hl_lo (wa_written c batch)]
    = map Z.of_N (be16 (hbits c (nlen batch))) /\
  k_mpeg4audio_seq_frag (Z.of_N s) = Z.of_N (seq_next s) /\ k_mpeg4audio_seq_agg (Z.of_N s) = Z.of_N (seq_next s) /\
  k_mpeg4audio_ts_step (Z.of_N ts) (Z.of_N (nlen batch)) (Z.of_N spau) = Z.of_N ((ts + nlen batch * spau) mod 4294967296).
Proof. exact Bridge.enc_kernels_are_the_code. Qed.
Print Assumptions C06_mpeg4audio_kernels_are_the_code.

(* the dispatch of Model.write_batch is that boolean; Model.frag_pkts puts the marker where the kernel says *)
Theorem C06_mpeg4audio_write_batch_dispatch : forall c max batch ts seq,
  write_batch c max batch ts seq =
  if negb (nlen batch =? 1)%N || (len_agg c batch None <? max)%N then Some (write_agg c batch ts seq)
  else match batch with au :: _ => write_frag c max au ts seq | [] => None end.
Proof. exact Bridge.write_batch_dispatch. Qed.
Print Assumptions C06_mpeg4audio_write_batch_dispatch.

Theorem C06_mpeg4audio_marker_position : forall c ts (cs : list bytes) seq i, (i < length cs)%nat ->
  nth i (map pmarker (frag_pkts c seq ts cs)) false = (N.of_nat i + 1 =? nlen cs)%N.
Proof. exact Bridge.frag_pkts_marker_at. Qed.
Print Assumptions C06_mpeg4audio_marker_position.

(* the translated kernels compute, on the boundaries (AAC-hbr 13/3/3 and the unaligned 12/4/2): 16 header bits are 2
   bytes, 17 would be 3; a 1450-byte limit leaves 1446 bytes per fragment; an aggregate of exactly 1450 bytes fits, 1451
   does not; one AU whose aggregate is 1450 bytes is fragmented, 1449 is sent alone, two AUs are always aggregated;
   lenAggregated([3 bytes], 1 byte) = 2 + ceil(32/8) + 3 + 1 with 13/3/3 and 2 + ceil(30/8) + 4 with 12/4/2; the AUs of
   three 12/4/2 headers (16+14+14 = 44 bits) start at byte 2 + 6; 65535++ = 0; the timestamp wraps in uint32 *)
Example C06_mpeg4audio_example_kernels :
  fr_hb_code (mkCfg 13 3 3) = 2 /\ fr_hb_code (mkCfg 13 4 3) = 3 /\
  k_mpeg4audio_fr_avail 1450 2 = 1446 /\ k_mpeg4audio_fr_size 2 1446 = 1450 /\
  k_mpeg4audio_agg_fits 1450 1450 = true /\ k_mpeg4audio_agg_fits 1451 1450 = false /\
  k_mpeg4audio_batch_agg 1 1450 1450 = false /\ k_mpeg4audio_batch_agg 1 1449 1450 = true /\
  k_mpeg4audio_batch_agg 2 1450 1450 = true /\
  k_mpeg4audio_packetCount (k_mpeg4audio_fr_avail 1450 2) 2893 = Some 3 /\
  k_mpeg4audio_packetCount (k_mpeg4audio_fr_avail 1450 2) 2892 = Some 2 /\
  la_code (mkCfg 13 3 3) [[1; 2; 3]%N] (Some [4%N]) = 10 /\ la_code (mkCfg 12 4 2) [[1; 2; 3]%N] (Some [4%N]) = 10 /\
  la_code (mkCfg 12 4 2) [[1; 2; 3]%N] None = 7 /\
  wa_written (mkCfg 12 4 2) [[1]%N; [2]%N; [3]%N] = 44 /\ wa_pos_code (mkCfg 12 4 2) [[1]%N; [2]%N; [3]%N] = 8 /\
  k_mpeg4audio_fr_hl_hi 300 = 1 /\ k_mpeg4audio_fr_hl_lo 300 = 44 /\
  k_mpeg4audio_fr_marker 2 3 = true /\ k_mpeg4audio_fr_marker 1 3 = false /\
  k_mpeg4audio_seq_frag 65535 = 0 /\ k_mpeg4audio_ts_step 4294967295 2 1024 = 2047.
Proof. vm_compute. repeat split. Qed.

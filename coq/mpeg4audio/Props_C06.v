(* C06, rtpmpeg4audio — statements only.  psize p = payload length; seqs_ok seq ps: packet i
   carries sequence number seq+i mod 2^16; markers_ok g: in a group, the marker is set on the last
   packet and on no other.  A "group" is what one batch becomes: one aggregated packet, or the
   fragments of one AU.  No validity of the AUs is needed beyond being non-empty (Go would panic). *)
From GVL Require Import NList Rtp.
From GV_mpeg4audio Require Import Model Proofs.
Open Scope N_scope.

(* one Encode call, any AUs, any limit >= minmax, any initial sequence number: Encode succeeds;
   every payload is within the limit; sequence numbers increase by one modulo 2^16 from the
   encoder's counter, which ends at seq + packet count; each batch's group is non-empty and has its
   marker exactly on its completing packet *)
Theorem C06_mpeg4audio_packets_wellformed : forall c max, minmax c <= max ->
  forall seq aus, seq < 65536 -> Forall (fun a => a <> []) aus ->
  exists gs, enc_groups c max (batch_loop c max aus []) 0 seq = Some gs /\
    enc c max seq aus = Some (concat gs, seq_add seq (nlen (concat gs))) /\
    Forall (fun g => g <> [] /\ markers_ok g /\ Forall (fun p => psize p <= max) g) gs /\
    seqs_ok seq (concat gs) /\ nlen gs = nlen (batch_loop c max aus []).
Proof. exact enc_wellformed. Qed.
Print Assumptions C06_mpeg4audio_packets_wellformed.

(* across any series of Encode calls on one encoder: gapless sequence numbers from the configured
   initial value, every payload within the limit, and every call ends with a marker packet *)
Theorem C06_mpeg4audio_gapless_across_calls : forall c max, minmax c <= max ->
  forall fs seq, seq < 65536 -> Forall (Forall (fun a => a <> [])) fs ->
  exists pss, enc_many c max seq fs = Some pss /\ nlen pss = nlen fs /\
    seqs_ok seq (concat pss) /\ Forall (fun p => psize p <= max) (concat pss) /\
    Forall (fun ps => exists ps' p, ps = ps' ++ [p] /\ pmarker p = true) pss.
Proof. exact enc_many_wellformed. Qed.
Print Assumptions C06_mpeg4audio_gapless_across_calls.

Example C06_mpeg4audio_example :
  (match enc_many (mkCfg 6 2 2) 6 65534 [[[1;2;3;4;5]]; [[6]; [7]]] with
   | Some pss => (map (map pseq) pss, map (map pmarker) pss, map (map (fun p => nlen (ppayload p))) pss)
   | None => ([], [], [])
   end) = ([[65534; 65535]; [0]], [[false; true]; [true]], [[6; 5]; [6]])
  /\ minmax (mkCfg 6 2 2) <= 6.
Proof. split; vm_compute; [reflexivity|discriminate]. Qed.

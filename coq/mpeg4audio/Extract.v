From Coq Require Extraction ExtrOcamlBasic.
From GV_mpeg4audio Require Import Model.
Extraction Language OCaml.
Extraction "model.ml" run.

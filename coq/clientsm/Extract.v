From Coq Require Extraction ExtrOcamlBasic.
From GV_clientsm Require Import Model.
Extraction Language OCaml.
Extraction "model.ml" run.

(* Executable model of the RTSP client's control state machine (client.go of gortsplib):
   the run loop's API handlers as functions of a *response script*.

   What is modelled (file:line of /repo/client.go in comments): do (one authentication retry, OPTIONS
   before the first request), waitResponse (CSeq filter, server requests, frames, read errors, timeout),
   doOptions, doDescribe (redirect recursion, Content-Type / SDP / base URL checks), doSetup (protocol
   choice, 461 => TCP, key-management retry, the validation of the response Transport header against the
   request, automatic switch to TCP), doPlay / doRecord / doPause with their roll-back, the initial UDP
   check (trySwitchingProtocol), reset, doClose, and the API wrappers that return closeError once the run
   loop has ended.  Every Go pointer that is dereferenced without a nil check is an [option]/[bool] here and
   its dereference is a checked step with outcome [Panic].

   Script: the server is reactive. Every request the client writes (except TEARDOWN) consumes one *action*:
   the list of events the server emits in reaction (responses, unsolicited requests, interleaved frames,
   close); running out of events = silence, i.e. the ReadTimeout timer fires.

   Fixed by the model (stated in the trusted base): scheme rtsp (no TLS, no SRTP), no tunnel, dial and local
   UDP listeners succeed, UDP writes succeed, no RTP packet is ever received over UDP. Proof-free. *)
From GVL Require Import NList Wire.
From GVG Require Import Consts.
Open Scope N_scope.

(* ---------- result classes (shared with harness/clientsm/child.go) ---------- *)
Definition eTimeout := 1.      Definition eBadStatus := 2.   Definition eConn := 3.
Definition eInvalidState := 4. Definition eSessionHdr := 5.  Definition eAuthSetup := 6.
Definition eCTMissing := 7.    Definition eCTUnsupported := 8. Definition eSDPInvalid := 9.
Definition eBaseInvalid := 10. Definition eThInvalid := 11.  Definition eSrvTCP := 12.
Definition eSrvUDP := 13.      Definition eDelivery := 14.   Definition eNoServerPorts := 15.
Definition eNoInterleaved := 16. Definition eBadInterl := 17. Definition eInterlInUse := 18.
Definition eProfile := 19.     Definition eUnhandled := 20.  Definition eFrame := 21.
Definition eTerminated := 22.  Definition eUDPTimeout := 23. Definition eURLParse := 25.
Definition eBackChannel := 26. Definition eResolve := 27.    Definition eH264PM0 := 28.
Definition eNoDest := 30.      Definition eNoPorts := 31.    Definition eListen := 32.
Definition eMulticastRecord := 33.
Definition eTooManyRedirects := 35. Definition eNoTransport := 36. Definition eInvalidMediaURL := 37.
Definition cSkipped := 98.
(* never produced on a well-formed run; each has a lemma saying so *)
Definition eFuel := 900.  Definition eImpossible := 901.

(* method codes *)
Definition mOptions := 1.  Definition mDescribe := 2. Definition mAnnounce := 3. Definition mSetup := 4.
Definition mPlay := 5.     Definition mRecord := 6.   Definition mPause := 7.    Definition mTeardown := 9.

(* ---------- configuration ---------- *)
Inductive proto := PUDP | PTCP | PMC.
Definition proto_eqb (a b : proto) : bool :=
  match a, b with PUDP, PUDP | PTCP, PTCP | PMC, PMC => true | _, _ => false end.
Definition udpish (p : proto) : bool := match p with PTCP => false | _ => true end.

Record config := mkCfg {
  cproto : option proto;   (* Client.Protocol; None = automatic *)
  ccreds : bool;           (* the URL given to the API carries credentials *)
  cback : bool;            (* RequestBackChannels *)
  canyport : bool;         (* AnyPortEnable *)
  cresolve : bool;         (* ResolveIPAddr succeeds on the host names a server may send *)
  cmclisten : bool;        (* the multicast listeners can be opened *)
  (* Code variant. All on ([cfg_now]) = the code that exists in /repo: each flag is one "fix:" commit there
     (ddd2501+7724497, 09a799a, de76fe4, dea4e7d, f303bfa, d468819). [run] (the correspondence) uses [cfg_now]. All off
     ([cfg_old]) = the code before those commits; it is kept so that the old defects stay stated as
     regression lemmas (Proofs.v section 4) at no cost. *)
  xf10 : bool;             (* doSetup refuses a nil media URL just before the SETUP request *)
  xf11 : option nat;       (* doDescribe follows at most that many redirects (clientMaxRedirects) *)
  xn1 : bool;              (* the protocol switch skips the DESCRIBE when no DESCRIBE was ever made *)
  xn2 : bool;              (* the protocol switch fixes the transport after its DESCRIBE *)
  xn3 : bool;              (* Play / Record refuse to start without a set up transport *)
  xn4 : bool }.            (* reset() forgets the failure of the connection it has just replaced *)

(* the code that exists in /repo today (every repair is a commit there), and the code before them *)
Definition cfg_now (p : option proto) (creds back anyport resolve mclisten : bool) : config :=
  mkCfg p creds back anyport resolve mclisten true (Some (N.to_nat csm_max_redirects)) true true true true.
Definition cfg_old (p : option proto) (creds back anyport resolve mclisten : bool) : config :=
  mkCfg p creds back anyport resolve mclisten false None false false false false.

(* ---------- what the server says ---------- *)
Inductive ctl := CtlOk | CtlNil | CtlErr.   (* Media.URL: a URL / (nil, nil) / an error *)
Record media := mkMedia { mctl : ctl; mback : bool; mpm0 : bool }.

Inductive sessh := SessAbsent | SessBad | SessOk.
Inductive loch := LocAbsent | LocBad | LocOk.

Record descr := mkDescr {
  dct : N;             (* Content-Type: 0 application/sdp, 1 missing or repeated, 2 something else *)
  dsdp_bad : bool;     (* sdp or description.Session unmarshal fails *)
  dbase_bad : bool;    (* session control attribute / Content-Base present but unusable *)
  dnobase : bool;      (* neither a session control attribute nor Content-Base: the request URL is used *)
  dmedias : list media }.

Record transp := mkTh {
  tbad : bool;                 (* Transport header missing, repeated or unparsable *)
  ttcp : bool; tsecure : bool;
  tdeliv : N;                  (* 0 absent, 1 unicast, 2 multicast *)
  tsp : option (N * N);        (* server_port *)
  til : option (N * N);        (* interleaved *)
  tsrc : N;                    (* source: 0 absent, 1 IP literal, 2 host name *)
  tdest : bool; tports : bool  (* destination (IP literal) / port present *) }.

Record resp := mkResp {
  rstatus : N; rsess : sessh;
  rauth : bool;                (* WWW-Authenticate carries a method auth.Sender accepts *)
  rloc : loch; rkeymsg : bool; (* status message is "key management failure" *)
  rdesc : option descr; rth : option transp }.

(* [EvGap q]: nothing arrives for q quarters of ReadTimeout; every other event takes no time *)
Inductive event := EvResp (r : resp) | EvOptReq | EvBadReq | EvFrame | EvClose | EvStale | EvGap (q : N).
Definition action := (N * list event)%type.     (* method the server read, what it sent back *)
Definition script := list action.

(* ---------- client state ---------- *)
Inductive cstate := SInitial | SPrePlay | SPlay | SPreRecord | SRecord.
Definition cstate_eqb (a b : cstate) : bool :=
  match a, b with
  | SInitial, SInitial | SPrePlay, SPrePlay | SPlay, SPlay | SPreRecord, SPreRecord | SRecord, SRecord => true
  | _, _ => false end.
Inductive wstate := WNone | WCreated | WStarted.

Record smedia := mkSM { smchan : N; smudp : bool; smback : bool; smmedia : media }.

Record cst := mkSt {
  st_state : cstate;
  st_conn : bool;        (* c.nconn / c.conn non-nil *)
  st_reader : bool;      (* c.reader non-nil *)
  st_frames : bool;      (* reader.allowInterleavedFrames *)
  st_sender : bool;      (* c.sender non-nil *)
  st_optsent : bool;
  st_baseurl : bool;     (* c.baseURL non-nil *)
  st_strans : option (proto * bool);   (* c.setuppedTransport: protocol, secure profile *)
  st_medias : list smedia;
  st_back : bool; st_std : bool;
  st_writer : wstate;
  st_lasturl : bool;     (* c.lastDescribeURL non-nil *)
  st_axis : bool;
  st_mustclose : bool;
  st_tcheck : N;         (* checkTimeoutTimer: 0 idle, 1 armed for the initial UDP check, 2 periodic *)
  st_listeners : N;      (* open UDP listeners (resource ledger) *)
  st_ctx : bool }.       (* c.ctx cancelled *)

Definition st0 : cst :=
  mkSt SInitial false false false false false false None [] false false WNone false false false 0 0 false.

Definition set_state x s := mkSt x (st_conn s) (st_reader s) (st_frames s) (st_sender s) (st_optsent s) (st_baseurl s) (st_strans s) (st_medias s) (st_back s) (st_std s) (st_writer s) (st_lasturl s) (st_axis s) (st_mustclose s) (st_tcheck s) (st_listeners s) (st_ctx s).
Definition set_conn x s := mkSt (st_state s) x (st_reader s) (st_frames s) (st_sender s) (st_optsent s) (st_baseurl s) (st_strans s) (st_medias s) (st_back s) (st_std s) (st_writer s) (st_lasturl s) (st_axis s) (st_mustclose s) (st_tcheck s) (st_listeners s) (st_ctx s).
Definition set_reader x s := mkSt (st_state s) (st_conn s) x (st_frames s) (st_sender s) (st_optsent s) (st_baseurl s) (st_strans s) (st_medias s) (st_back s) (st_std s) (st_writer s) (st_lasturl s) (st_axis s) (st_mustclose s) (st_tcheck s) (st_listeners s) (st_ctx s).
Definition set_frames x s := mkSt (st_state s) (st_conn s) (st_reader s) x (st_sender s) (st_optsent s) (st_baseurl s) (st_strans s) (st_medias s) (st_back s) (st_std s) (st_writer s) (st_lasturl s) (st_axis s) (st_mustclose s) (st_tcheck s) (st_listeners s) (st_ctx s).
Definition set_sender x s := mkSt (st_state s) (st_conn s) (st_reader s) (st_frames s) x (st_optsent s) (st_baseurl s) (st_strans s) (st_medias s) (st_back s) (st_std s) (st_writer s) (st_lasturl s) (st_axis s) (st_mustclose s) (st_tcheck s) (st_listeners s) (st_ctx s).
Definition set_optsent x s := mkSt (st_state s) (st_conn s) (st_reader s) (st_frames s) (st_sender s) x (st_baseurl s) (st_strans s) (st_medias s) (st_back s) (st_std s) (st_writer s) (st_lasturl s) (st_axis s) (st_mustclose s) (st_tcheck s) (st_listeners s) (st_ctx s).
Definition set_baseurl x s := mkSt (st_state s) (st_conn s) (st_reader s) (st_frames s) (st_sender s) (st_optsent s) x (st_strans s) (st_medias s) (st_back s) (st_std s) (st_writer s) (st_lasturl s) (st_axis s) (st_mustclose s) (st_tcheck s) (st_listeners s) (st_ctx s).
Definition set_strans x s := mkSt (st_state s) (st_conn s) (st_reader s) (st_frames s) (st_sender s) (st_optsent s) (st_baseurl s) x (st_medias s) (st_back s) (st_std s) (st_writer s) (st_lasturl s) (st_axis s) (st_mustclose s) (st_tcheck s) (st_listeners s) (st_ctx s).
Definition set_medias x s := mkSt (st_state s) (st_conn s) (st_reader s) (st_frames s) (st_sender s) (st_optsent s) (st_baseurl s) (st_strans s) x (st_back s) (st_std s) (st_writer s) (st_lasturl s) (st_axis s) (st_mustclose s) (st_tcheck s) (st_listeners s) (st_ctx s).
Definition set_back x s := mkSt (st_state s) (st_conn s) (st_reader s) (st_frames s) (st_sender s) (st_optsent s) (st_baseurl s) (st_strans s) (st_medias s) x (st_std s) (st_writer s) (st_lasturl s) (st_axis s) (st_mustclose s) (st_tcheck s) (st_listeners s) (st_ctx s).
Definition set_std x s := mkSt (st_state s) (st_conn s) (st_reader s) (st_frames s) (st_sender s) (st_optsent s) (st_baseurl s) (st_strans s) (st_medias s) (st_back s) x (st_writer s) (st_lasturl s) (st_axis s) (st_mustclose s) (st_tcheck s) (st_listeners s) (st_ctx s).
Definition set_writer x s := mkSt (st_state s) (st_conn s) (st_reader s) (st_frames s) (st_sender s) (st_optsent s) (st_baseurl s) (st_strans s) (st_medias s) (st_back s) (st_std s) x (st_lasturl s) (st_axis s) (st_mustclose s) (st_tcheck s) (st_listeners s) (st_ctx s).
Definition set_lasturl x s := mkSt (st_state s) (st_conn s) (st_reader s) (st_frames s) (st_sender s) (st_optsent s) (st_baseurl s) (st_strans s) (st_medias s) (st_back s) (st_std s) (st_writer s) x (st_axis s) (st_mustclose s) (st_tcheck s) (st_listeners s) (st_ctx s).
Definition set_axis x s := mkSt (st_state s) (st_conn s) (st_reader s) (st_frames s) (st_sender s) (st_optsent s) (st_baseurl s) (st_strans s) (st_medias s) (st_back s) (st_std s) (st_writer s) (st_lasturl s) x (st_mustclose s) (st_tcheck s) (st_listeners s) (st_ctx s).
Definition set_mustclose x s := mkSt (st_state s) (st_conn s) (st_reader s) (st_frames s) (st_sender s) (st_optsent s) (st_baseurl s) (st_strans s) (st_medias s) (st_back s) (st_std s) (st_writer s) (st_lasturl s) (st_axis s) x (st_tcheck s) (st_listeners s) (st_ctx s).
Definition set_tcheck x s := mkSt (st_state s) (st_conn s) (st_reader s) (st_frames s) (st_sender s) (st_optsent s) (st_baseurl s) (st_strans s) (st_medias s) (st_back s) (st_std s) (st_writer s) (st_lasturl s) (st_axis s) (st_mustclose s) x (st_listeners s) (st_ctx s).
Definition set_listeners x s := mkSt (st_state s) (st_conn s) (st_reader s) (st_frames s) (st_sender s) (st_optsent s) (st_baseurl s) (st_strans s) (st_medias s) (st_back s) (st_std s) (st_writer s) (st_lasturl s) (st_axis s) (st_mustclose s) (st_tcheck s) x (st_ctx s).
Definition set_ctx x s := mkSt (st_state s) (st_conn s) (st_reader s) (st_frames s) (st_sender s) (st_optsent s) (st_baseurl s) (st_strans s) (st_medias s) (st_back s) (st_std s) (st_writer s) (st_lasturl s) (st_axis s) (st_mustclose s) (st_tcheck s) (st_listeners s) x.

(* world: client state, what is left of the script, requests written so far (TEARDOWN not counted),
   and whether a request was answered with the action recorded for a different method *)
Record W := mkW { wst : cst; wsc : script; wsent : N; wdesync : bool }.
Definition upd (f : cst -> cst) (w : W) : W := mkW (f (wst w)) (wsc w) (wsent w) (wdesync w).

Inductive R (A : Type) := Ok (a : A) | Err (e : N) | Panic.
Arguments Ok {A} a. Arguments Err {A} e. Arguments Panic {A}.

Definition is_none {A} (o : option A) : bool := match o with None => true | Some _ => false end.
Definition playing (s : cst) : bool := match st_state s with SPlay | SRecord => true | _ => false end.
Definition check_state (allowed : list cstate) (s : cst) : bool := existsb (cstate_eqb (st_state s)) allowed.
Definition pre_states := [SInitial; SPrePlay; SPreRecord].

(* the request is written: the server reads it and reacts with the next action *)
Definition pop (m : N) (w : W) : W * list event :=
  match wsc w with
  | [] => (mkW (wst w) [] (wsent w + 1) (wdesync w), [])
  | (m', evs) :: t => (mkW (wst w) t (wsent w + 1) (wdesync w || negb (m' =? m)), evs)
  end.

(* client.go waitResponse. [lost]: the reader goroutine has ended (c.reader = nil).
   The timer is created ONCE, before the loop (t := time.NewTimer(c.ReadTimeout)): the deadline is relative to
   the start of the wait. [budget] is what is left of it, in quarters of ReadTimeout; messages that are not
   the awaited response (stale responses, server requests, frames) are consumed without moving the deadline,
   so a server that keeps talking without ever answering cannot keep the call waiting. *)
Definition wait_quarters : N := 4.
Inductive waitres := WResp (r : resp) | WErr (e : N) (lost : bool).
Fixpoint wait (frames : bool) (budget : N) (evs : list event) : waitres :=
  match evs with
  | [] => WErr eTimeout false                      (* silence: <-t.C *)
  | EvGap q :: t => if budget <=? q then WErr eTimeout false       (* <-t.C fires during the gap *)
                    else wait frames (budget - q) t
  | EvResp r :: _ => WResp r                      (* CSeq absent, repeated or equal to the request's *)
  | EvStale :: t => wait frames budget t          (* a response with another CSeq is dropped *)
  | EvOptReq :: t => wait frames budget t         (* handleServerRequest answers OPTIONS *)
  | EvBadReq :: _ => WErr eUnhandled false        (* ErrClientUnhandledMethod *)
  | EvFrame :: t => if frames then wait frames budget t else WErr eFrame true   (* client_reader.go *)
  | EvClose :: _ => WErr eConn true               (* chReadError *)
  end.

(* how long that wait lasts, in quarters of ReadTimeout *)
Fixpoint wait_time (frames : bool) (budget : N) (evs : list event) : N :=
  match evs with
  | [] => budget
  | EvGap q :: t => if budget <=? q then budget else q + wait_time frames (budget - q) t
  | EvStale :: t | EvOptReq :: t => wait_time frames budget t
  | EvFrame :: t => if frames then wait_time frames budget t else 0
  | _ => 0
  end.

(* client.go:1243-1315: one round of do, without the OPTIONS pre-step and without the retry *)
Inductive d1 := D1Resp (r : resp) | D1Skip | D1Err (e : N) | D1Panic | D1Retry.

Definition do1 (cfg : config) (m : N) (urlnil skip : bool) (w : W) : W * d1 :=
  let s := wst w in
  if st_sender s && urlnil then (w, D1Panic) else        (* :1258 AddAuthorization: req.URL.CloneWithoutCredentials() *)
  if negb (st_conn s) then (w, D1Panic) else             (* :1263 c.nconn.SetWriteDeadline *)
  let '(w1, evs) := if m =? mTeardown then (w, []) else pop m w in
  if skip then (w1, D1Skip) else
  if st_ctx s then (upd (set_mustclose true) w1, D1Err eTerminated) else
  match wait (st_frames s) wait_quarters evs with
  | WErr e lost =>
      (upd (fun s' => set_mustclose true (set_reader (st_reader s' && negb lost) s')) w1, D1Err e)
  | WResp r =>
      match rsess r with
      | SessBad => (w1, D1Err eSessionHdr)               (* :1282 *)
      | _ =>
        if rstatus r =? csm_status_unauthorized then
          if urlnil then (w1, D1Panic)                   (* :1297 req.URL.User *)
          else if ccreds cfg && negb (st_sender s) then
            if rauth r then (upd (set_sender true) w1, D1Retry) else (w1, D1Err eAuthSetup)
          else (w1, D1Resp r)
        else (w1, D1Resp r)
      end
  end.

(* client.go:1151-1233 connOpen (dial succeeds; a new reader does not allow frames) *)
Definition conn_open (w : W) : W :=
  if st_conn (wst w) then w else upd (fun s => set_frames false (set_reader true (set_conn true s))) w.

(* do for an OPTIONS request: no pre-step *)
Definition doA (cfg : config) (m : N) (urlnil : bool) (w : W) : W * d1 :=
  match do1 cfg m urlnil false w with
  | (w1, D1Retry) =>
      match do1 cfg m urlnil false w1 with
      | (w2, D1Retry) => (w2, D1Err eImpossible)
      | x => x
      end
  | x => x
  end.

(* client.go:1393-1429 doOptions *)
Definition do_options (cfg : config) (urlnil : bool) (w : W) : W * R resp :=
  if negb (check_state pre_states (wst w)) then (w, Err eInvalidState) else
  match doA cfg mOptions urlnil (conn_open w) with
  | (w1, D1Resp r) =>
      if rstatus r =? csm_status_ok then (upd (set_optsent true) w1, Ok r)
      else if rstatus r =? csm_status_not_found then (w1, Ok r)
      else (w1, Err eBadStatus)
  | (w1, D1Err e) => (w1, Err e)
  | (w1, D1Panic) => (w1, Panic)
  | (w1, D1Skip) => (w1, Err eImpossible)
  | (w1, D1Retry) => (w1, Err eImpossible)
  end.

Definition pre_options (cfg : config) (m : N) (urlnil : bool) (w : W) : W * R unit :=
  if negb (st_optsent (wst w)) && negb (m =? mOptions) then
    match do_options cfg urlnil w with
    | (w1, Ok _) => (w1, Ok tt) | (w1, Err e) => (w1, Err e) | (w1, Panic) => (w1, Panic)
    end
  else (w, Ok tt).

Definition d1_result (x : W * d1) : W * R (option resp) :=
  match x with
  | (w, D1Resp r) => (w, Ok (Some r))
  | (w, D1Skip) => (w, Ok None)
  | (w, D1Err e) => (w, Err e)
  | (w, D1Panic) => (w, Panic)
  | (w, D1Retry) => (w, Err eImpossible)
  end.

(* client.go:1235-1316 do *)
Definition do_ (cfg : config) (m : N) (urlnil skip : bool) (w : W) : W * R (option resp) :=
  match pre_options cfg m urlnil w with
  | (w0, Err e) => (w0, Err e)
  | (w0, Panic) => (w0, Panic)
  | (w0, Ok _) =>
    match do1 cfg m urlnil skip w0 with
    | (w1, D1Retry) =>                                   (* :1312 return c.do(req, skipResponse) *)
        match pre_options cfg m urlnil w1 with
        | (w2, Err e) => (w2, Err e)
        | (w2, Panic) => (w2, Panic)
        | (w2, Ok _) => d1_result (do1 cfg m urlnil skip w2)
        end
    | x => d1_result x
    end
  end.

(* client.go:1143-1149, 1097-1110 *)
Definition destroy_writer (s : cst) : option cst :=
  match st_writer s with WNone => None | _ => Some (set_writer WNone s) end.
Definition stop_transport (s : cst) : cst :=
  set_tcheck 0 (if st_reader s then set_frames false s else s).

(* client.go:951-986 doClose *)
Definition do_close (cfg : config) (w : W) : W * R unit :=
  let s := wst w in
  match (if playing s then option_map stop_transport (destroy_writer s) else Some s) with
  | None => (w, Panic)
  | Some s1 =>
    let w1 := upd (fun _ => s1) w in
    let '(w2, r) :=
      if st_conn s1 && st_baseurl s1 then
        match do_ cfg mTeardown false true w1 with
        | (w', Panic) => (w', Panic)
        | (w', _) => (w', Ok tt)
        end
      else (w1, Ok tt) in
    match r with
    | Panic => (w2, Panic)
    | _ => (upd (fun s' => set_listeners 0 (set_reader false (set_conn false s'))) w2, Ok tt)
    end
  end.

(* client.go:988-1003 reset *)
Definition reset (cfg : config) (w : W) : W * R unit :=
  match do_close cfg w with
  | (w1, Panic) => (w1, Panic)
  | (w1, _) =>
    (upd (fun s => set_state SInitial (set_sender false (set_optsent false (set_baseurl false
            (set_strans None (set_back false (set_std false (set_medias []
               (if xn4 cfg then set_mustclose false s else s))))))))) w1, Ok tt)
  end.

Definition loc_absent (l : loch) : bool := match l with LocAbsent => true | _ => false end.

(* client.go:1444-1539 doDescribe; [urlnil]: the URL argument is nil (only on the protocol-switch paths) *)
Fixpoint do_describe (fuel : nat) (cfg : config) (nred : option nat) (urlnil : bool) (w : W) : W * R descr :=
  match fuel with
  | O => (w, Err eFuel)
  | S f =>
    if negb (check_state pre_states (wst w)) then (w, Err eInvalidState) else
    match do_ cfg mDescribe urlnil false (conn_open w) with
    | (w1, Err e) => (w1, Err e)
    | (w1, Panic) => (w1, Panic)
    | (w1, Ok None) => (w1, Err eImpossible)
    | (w1, Ok (Some r)) =>
      if rstatus r =? csm_status_ok then
        match rdesc r with
        | None => (w1, Err eCTMissing)
        | Some d =>
          if dct d =? 1 then (w1, Err eCTMissing)
          else if dct d =? 2 then (w1, Err eCTUnsupported)
          else if dsdp_bad d then (w1, Err eSDPInvalid)
          else if dbase_bad d then (w1, Err eBaseInvalid)
          else if urlnil && negb (dnobase d) then (w1, Panic)     (* :134/153/164 ret.User = u.User *)
          else (upd (set_lasturl (negb urlnil)) w1, Ok d)
        end
      else if (csm_status_moved_permanently <=? rstatus r) && (rstatus r <=? csm_status_use_proxy)
              && negb (loc_absent (rloc r)) then
        match nred with
        | Some O => (w1, Err eTooManyRedirects)                    (* redirectCount >= clientMaxRedirects *)
        | _ =>
        match reset cfg w1 with
        | (w2, Panic) => (w2, Panic)
        | (w2, _) =>
          match rloc r with
          | LocBad => (w2, Err eURLParse)
          | _ => if urlnil then (w2, Panic)                        (* u.User *)
                 else do_describe f cfg (match nred with Some (S k) => Some k | _ => None end) false w2
          end
        end
        end
      else (w1, Err eBadStatus)
    end
  end.

(* client.go:2161-2176 *)
Definition in_use (ms : list smedia) (ch : N) : bool :=
  existsb (fun cm => (smchan cm + 1 =? ch) || (smchan cm =? ch) || (smchan cm =? ch + 1)) ms.
Definition candidates (ms : list smedia) : list N :=
  map (fun k => 2 * N.of_nat k) (seq 0 (3 * length ms + 1)).
Definition free_channel (ms : list smedia) : option N :=
  find (fun i => negb (in_use ms i)) (candidates ms).

Definition any_port (p : N) : bool := (p =? 0) || (p =? 1).
Definition is_prerecord (s : cst) : bool := cstate_eqb (st_state s) SPreRecord.
Definition play_side (s : cst) : bool := cstate_eqb (st_state s) SInitial || cstate_eqb (st_state s) SPrePlay.

(* client.go:1886-2072: the decision tree applied to a 200 SETUP response *)
Inductive verdict := VAccept (chan : N) | VReject (e : N) | VSwitch.

Definition validate (cfg : config) (s : cst) (p : proto) (secure : bool) (t : transp) : verdict :=
  if tbad t then VReject eThInvalid else
  if udpish p && ttcp t then
    (if is_none (st_strans s) && is_none (cproto cfg) then VSwitch else VReject eSrvTCP)
  else
  match
    match p with
    | PUDP =>
        if tdeliv t =? 2 then VReject eDelivery else
        let spvalid := match tsp t with
                       | Some (a, b) => negb (any_port a) && negb (any_port b)
                       | None => false end in
        if (is_prerecord s || negb (canyport cfg)) && negb spvalid then VReject eNoServerPorts else
        if (tsrc t =? 2) && negb (cresolve cfg) then VReject eResolve else VAccept 0
    | PMC =>
        if negb (tdeliv t =? 2) then VReject eDelivery else
        if (tsrc t =? 2) && negb (cresolve cfg) then VReject eResolve else
        if negb (tdest t) then VReject eNoDest else
        if negb (tports t) then VReject eNoPorts else
        if negb (cmclisten cfg) then VReject eListen else VAccept 0
    | PTCP =>
        if negb (ttcp t) then VReject eSrvUDP else
        if tdeliv t =? 2 then VReject eDelivery else
        match til t with
        | None => VReject eNoInterleaved
        | Some (a, b) =>
            if negb (a + 1 =? b) then VReject eBadInterl else
            if in_use (st_medias s) a then VReject eInterlInUse else VAccept a
        end
    end
  with
  | VAccept ch => if Bool.eqb (tsecure t) secure then VAccept ch else VReject eProfile
  | v => v
  end.

Definition accept_setup (p : proto) (secure : bool) (ch : N) (m : media) (s : cst) : cst :=
  let s1 := set_medias (st_medias s ++ [mkSM ch (udpish p) (mback m) m]) s in
  let s2 := set_strans (Some (p, secure)) (set_baseurl true s1) in
  let s3 := if mback m then set_back true s2 else set_std true s2 in
  let s4 := if udpish p then set_listeners (st_listeners s3 + 2) s3 else s3 in
  if cstate_eqb (st_state s4) SInitial then set_state SPrePlay s4 else s4.

(* client.go:1640-2159 doSetup *)
Fixpoint do_setup (fuel : nat) (cfg : config) (m : media) (w : W) : W * R unit :=
  match fuel with
  | O => (w, Err eFuel)
  | S f =>
    if negb (check_state pre_states (wst w)) then (w, Err eInvalidState) else
    let w0 := conn_open w in
    let s0 := wst w0 in
    let '(p, secure) :=
      match st_strans s0 with
      | Some ps => ps
      | None => (match cproto cfg with
                 | Some p => p
                 | None => if mpm0 m && play_side s0 then PTCP else PUDP
                 end, false)
      end in
    match (match p with PTCP => free_channel (st_medias s0) | _ => Some 0 end) with
    | None => (w0, Err eImpossible)          (* findFreeChannelPair would not terminate: never, see Proofs *)
    | Some _ =>
    match mctl m with
    | CtlErr => (w0, Err eURLParse)          (* medi.URL(baseURL) returns an error *)
    | _ =>
    let urlnil := match mctl m with CtlNil => true | _ => false end in
    if mback m && negb (cback cfg) then (w0, Err eBackChannel) else
    if urlnil && xf10 cfg then (w0, Err eInvalidMediaURL) else      (* if mediaURL == nil (ddd2501, 7724497) *)
    if mpm0 m && (negb (play_side s0) || negb (proto_eqb p PTCP)) then (w0, Err eH264PM0) else
    match do_ cfg mSetup urlnil false w0 with
    | (w1, Panic) => (w1, Panic)
    | (w1, Err e) => (w1, Err e)
    | (w1, Ok None) => (w1, Err eImpossible)
    | (w1, Ok (Some r)) =>
      let s1 := wst w1 in
      if negb (rstatus r =? csm_status_ok) then
        if (rstatus r =? csm_status_unsupported_transport) && is_none (st_strans s1) && is_none (cproto cfg) then
          do_setup f cfg m (upd (set_strans (Some (PTCP, secure))) w1)          (* :1864-1873 *)
        else if (rstatus r =? csm_status_key_mgmt_failure) && rkeymsg r && negb (st_axis s1) then
          do_setup f cfg m (upd (set_axis true) w1)                             (* :1876-1880 *)
        else (w1, Err eBadStatus)
      else
      match rth r with
      | None => (w1, Err eThInvalid)
      | Some t =>
        match validate cfg s1 p secure t with
        | VReject e => (w1, Err e)
        | VAccept ch => (upd (accept_setup p secure ch m) w1, Ok tt)
        | VSwitch =>                                                            (* :1896-1914 *)
          match reset cfg (upd (set_baseurl true) w1) with
          | (w2, Panic) => (w2, Panic)
          | (w2, _) =>
            (* the transport is assigned before the re-DESCRIBE (old code) or after it (xn2) *)
            let w3 := if xn2 cfg then w2 else upd (set_strans (Some (PTCP, secure))) w2 in
            let fixt := fun wx : W => if xn2 cfg then upd (set_strans (Some (PTCP, secure))) wx else wx in
            if xn1 cfg && negb (st_lasturl (wst w3)) then do_setup f cfg m (fixt w3) else
            match do_describe (S (length (wsc w3))) cfg (xf11 cfg) (negb (st_lasturl (wst w3))) w3 with
            | (w4, Ok _) => do_setup f cfg m (fixt w4)
            | (w4, Err e) => (w4, Err e)
            | (w4, Panic) => (w4, Panic)
            end
          end
        end
      end
    end
    end
    end
  end.

(* client.go:1060-1095 startTransportRoutines *)
Definition start_transport (s : cst) : option cst :=
  match st_strans s with
  | None => None                                           (* c.setuppedTransport.Protocol *)
  | Some (p, _) =>
    let s1 := if cstate_eqb (st_state s) SPlay && st_std s
              then set_tcheck (match p with PUDP => 1 | _ => 2 end) s else s in
    match p with
    | PTCP => if st_reader s1 then Some (set_frames true s1) else None   (* c.reader.setAllowInterleavedFrames *)
    | _ => Some s1
    end
  end.

(* client.go:2215-2307 doPlay and 2323-2358 doRecord *)
Definition do_start (cfg : config) (from to : cstate) (m : N) (w : W) : W * R unit :=
  if negb (check_state [from] (wst w)) then (w, Err eInvalidState) else
  if xn3 cfg && is_none (st_strans (wst w)) then (w, Err eNoTransport) else
  match start_transport (set_state to (wst w)) with
  | None => (w, Panic)
  | Some s1 =>
    let w1 := upd (fun _ => set_writer WCreated s1) w in
    let rollback := fun w' : W =>
      match destroy_writer (wst w') with
      | None => None
      | Some s' => Some (upd (fun _ => set_state from (stop_transport s')) w')
      end in
    match do_ cfg m false false w1 with
    | (w2, Panic) => (w2, Panic)
    | (w2, Err e) => match rollback w2 with Some w3 => (w3, Err e) | None => (w2, Panic) end
    | (w2, Ok None) => (w2, Err eImpossible)
    | (w2, Ok (Some r)) =>
      if rstatus r =? csm_status_ok then (upd (set_writer WStarted) w2, Ok tt)
      else match rollback w2 with Some w3 => (w3, Err eBadStatus) | None => (w2, Panic) end
    end
  end.
Definition do_play cfg := do_start cfg SPrePlay SPlay mPlay.
Definition do_record cfg := do_start cfg SPreRecord SRecord mRecord.

(* client.go:2374-2413 doPause *)
Definition do_pause (cfg : config) (w : W) : W * R unit :=
  if negb (check_state [SPlay; SRecord] (wst w)) then (w, Err eInvalidState) else
  match destroy_writer (wst w) with
  | None => (w, Panic)
  | Some s1 =>
    match do_ cfg mPause false false (upd (fun _ => s1) w) with
    | (w2, Panic) => (w2, Panic)
    | (w2, Err e) => (upd (set_writer WStarted) w2, Err e)
    | (w2, Ok None) => (w2, Err eImpossible)
    | (w2, Ok (Some r)) =>
      if rstatus r =? csm_status_ok then
        (upd (fun s => set_state (match st_state s with SPlay => SPrePlay | SRecord => SPreRecord | x => x end)
                         (stop_transport s)) w2, Ok tt)
      else (upd (set_writer WStarted) w2, Err eBadStatus)
    end
  end.

(* client.go:1554-1625 doAnnounce *)
Definition do_announce (cfg : config) (w : W) : W * R unit :=
  if negb (check_state [SInitial] (wst w)) then (w, Err eInvalidState) else
  match cproto cfg with
  | Some PMC => (w, Err eMulticastRecord)
  | _ =>
    match do_ cfg mAnnounce false false (conn_open w) with
    | (w1, Panic) => (w1, Panic)
    | (w1, Err e) => (w1, Err e)
    | (w1, Ok None) => (w1, Err eImpossible)
    | (w1, Ok (Some r)) =>
      if rstatus r =? csm_status_ok
      then (upd (fun s => set_state SPreRecord (set_baseurl true s)) w1, Ok tt)
      else (w1, Err eBadStatus)
    end
  end.

Fixpoint setup_all (cfg : config) (ms : list smedia) (w : W) : W * R unit :=
  match ms with
  | [] => (w, Ok tt)
  | cm :: t =>
    match do_setup (S (length (wsc w))) cfg (smmedia cm) w with
    | (w1, Ok _) => setup_all cfg t w1
    | x => x
    end
  end.

(* client.go:1020-1058 trySwitchingProtocol; [rev]: the iteration order of the map of setupped medias *)
Definition try_switch (cfg : config) (rev : bool) (w : W) : W * R unit :=
  match st_strans (wst w) with
  | None => (w, Panic)                                       (* c.setuppedTransport.Profile *)
  | Some (_, secure) =>
    let prev := st_medias (wst w) in
    match reset cfg w with
    | (w1, Panic) => (w1, Panic)
    | (w1, _) =>
      let w2 := if xn2 cfg then w1 else upd (set_strans (Some (PTCP, secure))) w1 in
      let fixt := fun wx : W => if xn2 cfg then upd (set_strans (Some (PTCP, secure))) wx else wx in
      let continue := fun w3 : W =>
        match setup_all cfg (if rev then List.rev prev else prev) w3 with
        | (w4, Ok _) => do_play cfg w4
        | x => x
        end in
      if xn1 cfg && negb (st_lasturl (wst w2)) then continue (fixt w2) else
      match do_describe (S (length (wsc w2))) cfg (xf11 cfg) (negb (st_lasturl (wst w2))) w2 with
      | (w3, Panic) => (w3, Panic)
      | (w3, Err e) => (w3, Err e)
      | (w3, Ok _) => continue (fixt w3)
      end
    end
  end.

(* client.go:1355-1375 doCheckTimeout when the timer armed by Play for the initial UDP check fires and no
   packet has arrived. An error ends the run loop. *)
Definition do_idle (cfg : config) (rev : bool) (w : W) : W * R unit :=
  let s := wst w in
  if negb (st_tcheck s =? 1) then (w, Ok tt) else
  match st_strans s with
  | None => (w, Panic)
  | Some (p, _) =>
    if udpish p then
      if negb (st_back s) && is_none (cproto cfg) then
        match try_switch cfg rev w with
        | (w1, Ok _) => (upd (set_tcheck 2) w1, Ok tt)
        | x => x
        end
      else (w, Err eUDPTimeout)
    else (w, Ok tt)
  end.

(* ---------- the API as seen by the caller ---------- *)
Inductive api := AOptions | ADescribe | ASetup (i : N) | APlay | ARecord | APause | AAnnounce | AIdle | AClose.

Record cl := mkCl {
  cl_w : W;
  cl_dead : option N;              (* the run loop has ended; closeError class (0 = nil error) *)
  cl_desc : option (list media);   (* caller side: medias of the last description it obtained *)
  cl_done : list N }.              (* caller side: media indices it has set up (it never sets one up twice) *)

Definition default_medias (n : N) : list media := nrep (mkMedia CtlOk false false) n.

(* client.go:784-792 run: closeError = err; ctxCancel; doClose *)
Definition die (cfg : config) (e : N) (c : cl) (w : W) : option cl :=
  match do_close cfg (upd (set_ctx true) w) with
  | (_, Panic) => None
  | (w1, _) => Some (mkCl w1 (Some e) (cl_desc c) (cl_done c))
  end.

Definition class_of {A} (r : R A) : N := match r with Ok _ => 0 | Err e => e | Panic => 77 end.

(* one API call: None = the client goroutine panicked *)
Definition call (cfg : config) (nmedia : N) (rev : bool) (a : api) (c : cl) : option (cl * N) :=
  let w := cl_w c in
  let fin := fun (A : Type) (x : W * R A) (desc : option (list media)) (done : list N) =>
    match x with
    | (_, Panic) => None
    | (w1, r) =>
      let c1 := mkCl w1 None desc (match r with Ok _ => done | _ => cl_done c end) in
      if st_mustclose (wst w1)
      then option_map (fun c2 => (c2, class_of r)) (die cfg (class_of r) c1 w1)
      else Some (c1, class_of r)
    end in
  let dead := fun (k : unit -> option (cl * N)) =>
    match cl_dead c with
    | Some e => Some (c, e)                                 (* case <-c.done: return nil, c.closeError *)
    | None => k tt
    end in
  match a with
  | AOptions => dead (fun _ => fin _ (do_options cfg false w) (cl_desc c) (cl_done c))
  | ADescribe =>
      dead (fun _ =>
        let x := do_describe (S (length (wsc w))) cfg (xf11 cfg) false w in
        fin _ x (match snd x with Ok d => Some (dmedias d) | _ => cl_desc c end) (cl_done c))
  | ASetup i =>
      match cl_desc c with
      | None => Some (c, cSkipped)
      | Some ms =>
        match nnth i ms with
        | None => Some (c, cSkipped)
        | Some m =>
          if existsb (N.eqb i) (cl_done c) then Some (c, cSkipped) else
          dead (fun _ => fin _ (do_setup (S (length (wsc w))) cfg m w) (cl_desc c) (i :: cl_done c))
        end
      end
  | APlay => dead (fun _ => fin _ (do_play cfg w) (cl_desc c) (cl_done c))
  | ARecord => dead (fun _ => fin _ (do_record cfg w) (cl_desc c) (cl_done c))
  | APause => dead (fun _ => fin _ (do_pause cfg w) (cl_desc c) (cl_done c))
  | AAnnounce =>
      dead (fun _ =>
        let x := do_announce cfg w in
        fin _ x (match snd x with Ok _ => Some (default_medias nmedia) | _ => cl_desc c end) (cl_done c))
  | AIdle =>
      dead (fun _ =>
        match do_idle cfg rev w with
        | (_, Panic) => None
        | (w1, Ok _) => Some (mkCl w1 None (cl_desc c) (cl_done c), 0)
        | (w1, Err e) => option_map (fun c2 => (c2, e)) (die cfg e (mkCl w1 None (cl_desc c) (cl_done c)) w1)
        end)
  | AClose => dead (fun _ => option_map (fun c2 => (c2, 0)) (die cfg eTerminated c w))
  end.

Fixpoint calls (cfg : config) (nmedia : N) (rev : bool) (steps : list api) (c : cl) : option (cl * list N) :=
  match steps with
  | [] => Some (c, [])
  | a :: t =>
    match call cfg nmedia rev a c with
    | None => None
    | Some (c1, k) =>
      match calls cfg nmedia rev t c1 with
      | None => None
      | Some (c2, ks) => Some (c2, k :: ks)
      end
    end
  end.

(* resources still held: connection, reader goroutine, writer goroutine, UDP listeners *)
Definition ledger (s : cst) : N :=
  (if st_conn s then 1 else 0) + (if st_reader s then 1 else 0)
  + (match st_writer s with WNone => 0 | _ => 1 end) + st_listeners s.

(* ---------- wire protocol ---------- *)
Definition dec_proto (n : N) : option (option proto) :=
  if n =? 0 then Some None else if n =? 1 then Some (Some PUDP) else if n =? 2 then Some (Some PTCP)
  else if n =? 3 then Some (Some PMC) else None.

Definition dec_api (o a : N) : option api :=
  if o =? 1 then Some AOptions else if o =? 2 then Some ADescribe else if o =? 3 then Some (ASetup a)
  else if o =? 4 then Some APlay else if o =? 5 then Some ARecord else if o =? 6 then Some APause
  else if o =? 7 then Some AAnnounce else if o =? 8 then Some AIdle else if o =? 9 then Some AClose else None.

Fixpoint dec_steps (fuel : list N) (n : N) (l : list N) : option (list api * list N) :=
  if n =? 0 then Some ([], l) else
  match fuel with
  | [] => None
  | _ :: fuel' =>
    match l with
    | o :: a :: t =>
      match dec_api o a, dec_steps fuel' (N.pred n) t with
      | Some x, Some (xs, r) => Some (x :: xs, r)
      | _, _ => None
      end
    | _ => None
    end
  end.

Definition dec_ctl (n : N) : ctl := if n =? 1 then CtlNil else if n =? 2 then CtlErr else CtlOk.

Fixpoint dec_medias (fuel : list N) (n : N) (l : list N) : option (list media * list N) :=
  if n =? 0 then Some ([], l) else
  match fuel with
  | [] => None
  | _ :: fuel' =>
    match l with
    | c :: b :: p :: t =>
      match dec_medias fuel' (N.pred n) t with
      | Some (ms, r) => Some (mkMedia (dec_ctl c) (getb b) (getb p) :: ms, r)
      | None => None
      end
    | _ => None
    end
  end.

Definition dec_desc (l : list N) : option (option descr * list N) :=
  match l with
  | 0 :: t => Some (None, t)
  | 1 :: ct :: sdp :: bs :: nb :: n :: t =>
    match dec_medias t n t with
    | Some (ms, r) => Some (Some (mkDescr ct (getb sdp) (getb bs) (getb nb) ms), r)
    | None => None
    end
  | _ => None
  end.

Definition dec_th (l : list N) : option (option transp * list N) :=
  match l with
  | 0 :: t => Some (None, t)
  | 1 :: bad :: tcp :: sec :: dl :: sp :: sp1 :: sp2 :: il :: il1 :: il2 :: src :: dst :: pts :: t =>
    Some (Some (mkTh (getb bad) (getb tcp) (getb sec) dl
                     (if getb sp then Some (sp1, sp2) else None)
                     (if getb il then Some (il1, il2) else None) src (getb dst) (getb pts)), t)
  | _ => None
  end.

Definition dec_sess (n : N) : sessh := if n =? 1 then SessBad else if n =? 2 then SessOk else SessAbsent.
Definition dec_loc (n : N) : loch := if n =? 1 then LocBad else if n =? 2 then LocOk else LocAbsent.

Fixpoint dec_events (fuel : list N) (l : list N) : option (list event) :=
  match fuel with
  | [] => match l with [] => Some [] | _ => None end
  | _ :: fuel' =>
    match l with
    | [] => Some []
    | 1 :: st :: se :: au :: lo :: km :: t =>
      match dec_desc t with
      | Some (d, t1) =>
        match dec_th t1 with
        | Some (th, t2) =>
          option_map (cons (EvResp (mkResp st (dec_sess se) (getb au) (dec_loc lo) (getb km) d th)))
                     (dec_events fuel' t2)
        | None => None
        end
      | None => None
      end
    | 2 :: t => option_map (cons EvOptReq) (dec_events fuel' t)
    | 3 :: t => option_map (cons EvBadReq) (dec_events fuel' t)
    | 4 :: t => option_map (cons EvFrame) (dec_events fuel' t)
    | 5 :: t => option_map (cons EvClose) (dec_events fuel' t)
    | 6 :: t => option_map (cons EvStale) (dec_events fuel' t)
    | 7 :: q :: t => option_map (cons (EvGap q)) (dec_events fuel' t)
    | _ => None
    end
  end.

Fixpoint dec_script (fuel : list N) (n : N) (l : list N) : option script :=
  if n =? 0 then Some [] else
  match fuel with
  | [] => None
  | _ :: fuel' =>
    match l with
    | m :: t =>
      match getl t with
      | Some (evl, r) =>
        match dec_events evl evl, dec_script fuel' (N.pred n) r with
        | Some evs, Some sc => Some ((m, evs) :: sc)
        | _, _ => None
        end
      | None => None
      end
    | [] => None
    end
  end.

(* case: 1 proto creds back anyport nmedia local rev  nsteps {op arg}  k {k concrete tokens, ignored}
         nreq { method len {event tokens} }
   observable: 77 if the client panicked; otherwise the class of every call, then 9, the closeError class
   after Close, the number of requests written (TEARDOWN excluded), the desynchronisation flag and the
   resource ledger after Close *)
Definition run (c : list N) : list N :=
  match c with
  | 1 :: pr :: cr :: bk :: ap :: nm :: lc :: rv :: ns :: t =>
    match dec_proto pr, dec_steps t ns t with
    | Some cp, Some (steps, t1) =>
      match getl t1 with
      | Some (_, nreq :: t2) =>
        match dec_script t2 nreq t2 with
        | Some sc =>
          let cfg := cfg_now cp (getb cr) (getb bk) (getb ap) false false in
          let c0 := mkCl (mkW st0 sc 0 false) None (if getb lc then Some (default_medias nm) else None) [] in
          match calls cfg nm (getb rv) (steps ++ [AClose]) c0 with
          | None => [77]
          | Some (c1, ks) =>
            let w := cl_w c1 in
            removelast ks ++ [9; match cl_dead c1 with Some e => e | None => 99 end;
                              wsent w; putb (wdesync w); ledger (wst w)]
          end
        | None => bad_case
        end
      | _ => bad_case
      end
    | _, _ => bad_case
    end
  | _ => bad_case
  end.

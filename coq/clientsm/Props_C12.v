(* C12 — the client survives hostile servers. Statements only: each theorem is closed by [exact] of a
   lemma proved in Proofs.v / Proofs2.v and followed by Print Assumptions.

   Reading guide. [calls cfg nmedia rev steps c] runs an API sequence against the response script held in
   the client value [c]; [None] means the client goroutine panicked. [cfg_now p creds back anyport resolve
   mclisten] is the code that exists in /repo (client options: forced protocol or automatic, credentials,
   back channels, any-port, resolver and multicast environment). A script is a list of actions, one per
   request the client writes: what the server sends back (responses with any status/headers, stale or
   CSeq-less responses, requests, interleaved frames, close); an exhausted action is silence, i.e. the
   ReadTimeout timer.  The six defects found by this domain (F10, F11, N1-N4) are repaired in /repo
   (ddd2501, 09a799a, de76fe4, dea4e7d, f303bfa, d468819); the theorems below are the full statements for
   the repaired code; the old refutation witnesses are kept at the end as regression Examples about the code
   before those commits ([cfg_before]); the former statement file is history/Props_C12_before_fixes.v. *)
From GVL Require Import NList.
From GVG Require Import Consts Kern.
From GV_clientsm Require Import Model Proofs Proofs2 Bridge.
Open Scope N_scope.

(* An accepted SETUP response agrees with the request: same lower transport, compatible delivery, same
   profile; UDP: usable server ports unless any-port mode; TCP: a consecutive, unused channel pair, which
   is the one registered. (Literal transcription of the decision tree in doSetup.) *)
Theorem C12_clientsm_setup_validation_sound : forall cfg s p secure t ch,
  validate cfg s p secure t = VAccept ch -> th_agrees cfg s p secure t ch.
Proof. exact validate_sound. Qed.
Print Assumptions C12_clientsm_setup_validation_sound.

(* The client never panics: for every client configuration, every API sequence (valid or not) and every
   response script, every call returns a result, and the run-loop invariant holds afterwards. *)
Theorem C12_clientsm_no_panic : forall p creds back anyport resolve mclisten nm rev steps sc desc,
  exists c ks, calls (cfg_now p creds back anyport resolve mclisten) nm rev steps (cl_init sc desc) = Some (c, ks) /\
               cl_ok c /\ length ks = length steps.
Proof. intros. apply client_no_panic. apply cfg_now_repaired. Qed.
Print Assumptions C12_clientsm_no_panic.

(* Every call returns within its timeouts: from any state and against any script a call writes at most
   [call_bound] requests, each of which is waited for at most ReadTimeout: Describe 10 (L+1) + 4,
   Setup 30 (L+2) + 4, the protocol switch of the idle timer 4 + 10 (L+1) + 30 (L+2) n + 10 for n set-up medias,
   every other call 10, where L = clientMaxRedirects (regenerated from client.go). *)
Theorem C12_clientsm_call_terminates : forall p creds back anyport resolve mclisten nm rev a c c' k,
  call (cfg_now p creds back anyport resolve mclisten) nm rev a c = Some (c', k) ->
  wsent (cl_w c) <= wsent (cl_w c') /\
  wsent (cl_w c') <= wsent (cl_w c) + call_bound (N.to_nat csm_max_redirects) a c.
Proof. intros. eapply call_bounded; [apply cfg_now_repaired|eassumption]. Qed.
Print Assumptions C12_clientsm_call_terminates.

(* The response deadline is relative to the START of the wait: however many messages that are not the awaited
   response arrive, a wait lasts at most what is left of ReadTimeout ([wait_time] is in quarters of it), and a
   server that keeps talking without ever answering (stale responses, OPTIONS requests, frames while they are
   allowed, at any pace) gets "request timed out" after exactly that time. Together with call_terminates
   (number of waits per call) this is "every call returns within its timeouts". *)
Theorem C12_clientsm_wait_deadline : forall frames evs b,
  wait_time frames b evs <= b /\
  (Forall (chatter frames) evs -> wait frames b evs = WErr eTimeout false /\ wait_time frames b evs = b).
Proof. intros. split; [apply wait_deadline|apply chatter_times_out]. Qed.
Print Assumptions C12_clientsm_wait_deadline.

(* After the run loop has ended every call returns the stored closeError at once: it consumes no event and
   changes nothing (a Setup the caller skips is reported as skipped). *)
Theorem C12_clientsm_failure_is_sticky : forall cfg nm rev a c e,
  cl_dead c = Some e ->
  call cfg nm rev a c = Some (c, e) \/ (exists i, a = ASetup i /\ call cfg nm rev a c = Some (c, cSkipped)).
Proof. exact dead_call_sticky. Qed.
Print Assumptions C12_clientsm_failure_is_sticky.

(* ... and the stored error is the failure: whenever a call ends the run loop of a live client, the
   closeError it stores is the error class that very call returned, and it did return an error (never a
   nil error); Close stores "terminated"; for the idle timer the stored error is the one its handler got.
   A client that stays alive has no pending failure. [cl_ok2] holds initially and after every call. *)
Theorem C12_clientsm_failure_reported : forall p creds back anyport resolve mclisten nm rev a c c' k,
  cl_ok2 c -> call (cfg_now p creds back anyport resolve mclisten) nm rev a c = Some (c', k) ->
  (cl_dead c' = None -> st_mustclose (wst (cl_w c')) = false) /\
  (cl_dead c = None -> forall e, cl_dead c' = Some e ->
     (a = AClose /\ e = eTerminated) \/ (e = k /\ (k <> 0 \/ a = AIdle))).
Proof. intros. eapply failure_reported; [apply cfg_now_repaired|eassumption|eassumption]. Qed.
Print Assumptions C12_clientsm_failure_reported.

Theorem C12_clientsm_reachable_states_ok : forall p creds back anyport resolve mclisten nm rev steps sc desc,
  exists c ks, calls (cfg_now p creds back anyport resolve mclisten) nm rev steps (cl_init sc desc) = Some (c, ks) /\
               cl_ok2 c.
Proof. intros. apply calls_keep_ok2; [apply cfg_now_repaired|apply cl_init_ok2]. Qed.
Print Assumptions C12_clientsm_reachable_states_ok.

(* Close (and any failure that ends the run loop) releases everything: from every state satisfying the
   run-loop invariant, the ledger of connection, reader goroutine, writer goroutine and UDP listeners is
   empty afterwards, and the teardown itself does not panic. *)
Theorem C12_clientsm_close_releases : forall cfg e c w,
  inv (wst w) ->
  exists c', die cfg e c w = Some c' /\ cl_dead c' = Some e /\ ledger (wst (cl_w c')) = 0.
Proof. exact die_spec. Qed.
Print Assumptions C12_clientsm_close_releases.

(* every call keeps the invariant; whenever a call ends the run loop the ledger is empty *)
Theorem C12_clientsm_every_death_releases : forall p creds back anyport resolve mclisten nm rev a c,
  cl_ok c ->
  exists c' k, call (cfg_now p creds back anyport resolve mclisten) nm rev a c = Some (c', k) /\ cl_ok c' /\
               (cl_dead c = None -> cl_dead c' <> None -> ledger (wst (cl_w c')) = 0).
Proof. intros. apply call_keeps_ok; [apply cfg_now_repaired|assumption]. Qed.
Print Assumptions C12_clientsm_every_death_releases.

(* ---------- non-vacuity ---------- *)

(* ---- BRIDGE (tools/go2coq) ----
   Integer kernels of client.go TRANSLATED from the Go source on this run are the formulas of the model: any_port IS the
   translated isAnyPort; in_use IS "some set-up media satisfies the translated test of isChannelPairInUse"; the
   redirect countdown of do_describe ([nred_of count] = clientMaxRedirects - redirectCount, starting from count 0) is
   refused exactly when the translated redirectCount >= clientMaxRedirects holds and is decremented exactly when the
   translated argument redirectCount+1 is passed on; the interleaved-pair test of validate is the translated
   (a + 1) != b; the server-port test of validate's UDP branch is the translated
   (state == PreRecord || !AnyPortEnable) && !serverPortsValid, for any injective numbering of the states. *)
Theorem C12_clientsm_kernels_are_the_code :
  (forall p, k_csm_is_any_port (Z.of_N p) = any_port p) /\
  (forall ms ch, chanN ch -> Forall (fun cm => chanN (smchan cm)) ms ->
     in_use ms ch = existsb (fun cm => k_csm_chan_in_use (Z.of_N (smchan cm)) (Z.of_N ch)) ms) /\
  (forall count, (0 <= count <= Z.of_N csm_max_redirects)%Z ->
     k_csm_too_many_redirects count (Z.of_N csm_max_redirects) = match nred_of count with O => true | S _ => false end /\
     nred_of (k_csm_next_redirect count) = pred (nred_of count)) /\
  (forall p creds back anyport resolve mclisten, xf11 (cfg_now p creds back anyport resolve mclisten) = Some (nred_of 0)) /\
  (forall a b, chanN a -> k_csm_il_not_consec (Z.of_N a) (Z.of_N b) = negb (a + 1 =? b)) /\
  (forall (num : cstate -> Z) cfg s t, (forall a b, num a = num b -> a = b) ->
     ((is_prerecord s || negb (canyport cfg)) &&
      negb (match tsp t with Some (a, b) => negb (any_port a) && negb (any_port b) | None => false end)) =
     k_csm_need_server_ports (num (st_state s)) (num SPreRecord) (canyport cfg)
       (match tsp t with Some (a, b) => negb (k_csm_is_any_port (Z.of_N a)) && negb (k_csm_is_any_port (Z.of_N b)) | None => false end)).
Proof. exact clientsm_kernels_are_the_code. Qed.
Print Assumptions C12_clientsm_kernels_are_the_code.

(* the translated kernels compute: ports 0 and 1 are "any", 2 is not; the 10th redirect is followed, the 11th is not *)
Example C12_example_kernels :
  k_csm_is_any_port 0 = true /\ k_csm_is_any_port 1 = true /\ k_csm_is_any_port 2 = false /\
  k_csm_chan_in_use 0 1 = true /\ k_csm_chan_in_use 0 2 = false /\
  k_csm_too_many_redirects 9 (Z.of_N csm_max_redirects) = false /\ k_csm_too_many_redirects 10 (Z.of_N csm_max_redirects) = true /\
  k_csm_next_redirect 9 = 10%Z /\ k_csm_il_not_consec 2 3 = false /\ k_csm_il_not_consec 2 2 = true /\
  k_csm_need_server_ports 3 3 true false = true /\ k_csm_need_server_ports 1 3 true false = false /\
  k_csm_need_server_ports 1 3 false false = true /\ k_csm_need_server_ports 3 3 false true = false.
Proof. vm_compute. repeat split. Qed.

(* the bounds in numbers, for the constant read from client.go today *)
Example C12_example_bounds : forall c,
  call_bound (N.to_nat csm_max_redirects) ADescribe c = 114 /\
  call_bound (N.to_nat csm_max_redirects) (ASetup 0) c = 364 /\
  call_bound (N.to_nat csm_max_redirects) APlay c = 10.
Proof. intro c. vm_compute. repeat split; reflexivity. Qed.

(* a correct conversation over TCP: every call succeeds, Close leaves nothing behind *)
Example C12_example_correct_conversation :
  let sc := [(mOptions, [EvResp (rsimple 200)]); (mDescribe, [EvResp (rdescribe [mOK; mOK])]);
             (mSetup, [EvResp (rsetup_tcp 0 1)]); (mSetup, [EvResp (rsetup_tcp 2 3)]);
             (mPlay, [EvResp (rsimple 200)]); (mPause, [EvResp (rsimple 200)])] in
  exists c, calls (cfg_cur (Some PTCP) false) 2 false [ADescribe; ASetup 0; ASetup 1; APlay; APause; AClose]
              (cl_init sc None) = Some (c, [0; 0; 0; 0; 0; 0]) /\
            cl_dead c = Some eTerminated /\ ledger (wst (cl_w c)) = 0 /\ wsent (cl_w c) = 6.
Proof. eexists. vm_compute. repeat split; reflexivity. Qed.

(* silence after the SETUP request: timeout, the client is dead and says so afterwards *)
Example C12_example_timeout_is_sticky :
  let sc := [(mOptions, [EvResp (rsimple 200)]); (mDescribe, [EvResp (rdescribe [mOK])]); (mSetup, [])] in
  exists c, calls (cfg_cur None false) 1 false [ADescribe; ASetup 0; APlay; AOptions] (cl_init sc None)
            = Some (c, [0; eTimeout; eTimeout; eTimeout]) /\ ledger (wst (cl_w c)) = 0.
Proof. eexists. vm_compute. split; reflexivity. Qed.

(* a SETUP response that is rejected by the validation: interleaved ids already in use *)
Example C12_example_validation_rejects :
  let sc := [(mOptions, [EvResp (rsimple 200)]); (mDescribe, [EvResp (rdescribe [mOK; mOK])]);
             (mSetup, [EvResp (rsetup_tcp 0 1)]); (mSetup, [EvResp (rsetup_tcp 1 2)])] in
  exists c, calls (cfg_cur (Some PTCP) false) 2 false [ADescribe; ASetup 0; ASetup 1] (cl_init sc None)
            = Some (c, [0; 0; eInterlInUse]).
Proof. eexists. vm_compute. reflexivity. Qed.

(* a server that never answers DESCRIBE but sends a stale response every quarter of ReadTimeout, 24 times:
   the call times out (after 4 of them), it does not wait for the chatter to end *)
Example C12_example_chatter :
  let chat := concat (repeat [EvGap 1; EvStale] 24) in
  exists c, calls (cfg_cur None false) 1 false [ADescribe] (cl_init [(mOptions, [EvResp (rsimple 200)]); (mDescribe, chat)] None)
            = Some (c, [eTimeout]) /\ wait_time false 4 chat = 4.
Proof. eexists. vm_compute. split; reflexivity. Qed.

(* the scripts that used to break the client are now answered with plain errors *)
Example C12_example_F10_now : exists c ks,
  calls (cfg_cur None true) 1 false [ADescribe; ASetup 0] (cl_init script_f10 None) = Some (c, ks) /\
  ks = [0; eInvalidMediaURL] /\ cl_dead c = None.
Proof. exact f10_repaired. Qed.
Example C12_example_N2_now : exists c ks,
  calls (cfg_cur None false) 1 false [ADescribe; ASetup 0] (cl_init (script_n2 20) None) = Some (c, ks) /\
  wsent (cl_w c) < 12.
Proof. exact n2_repaired. Qed.
Example C12_example_F11_now : exists c ks,
  calls (cfg_cur None false) 1 false [ADescribe] (cl_init (redirects 50) None) = Some (c, ks) /\
  ks = [eTooManyRedirects] /\ wsent (cl_w c) = 22.
Proof. eexists; eexists. vm_compute. repeat split; reflexivity. Qed.
Example C12_example_N1_now : exists c,
  calls (cfg_cur None false) 1 false [AAnnounce; ASetup 0] (cl_init script_n1 None) = Some (c, [0; eThInvalid]).
Proof. eexists. vm_compute. reflexivity. Qed.
Example C12_example_N3_now : exists c,
  calls (cfg_cur None false) 1 false [AAnnounce; ASetup 0; ARecord] (cl_init script_n3 None)
  = Some (c, [0; eBadStatus; eNoTransport]).
Proof. eexists. vm_compute. reflexivity. Qed.
Example C12_example_N4_now : exists c,
  calls (cfg_cur (Some PTCP) false) 1 false [ADescribe; ASetup 0; ADescribe] (cl_init script_n4 None)
  = Some (c, [0; 0; 0]) /\ cl_dead c = None.
Proof. eexists. vm_compute. split; reflexivity. Qed.

(* ---------- regression: the same scripts against the code BEFORE the fix commits ---------- *)
Example C12_regression_old_F10 :
  calls (cfg_before None true) 1 false [ADescribe; ASetup 0] (cl_init script_f10 None) = None /\
  calls (cfg_before None false) 1 false [ADescribe; ASetup 0] (cl_init script_f10b None) = None.
Proof. split; [exact f10_panics|exact f10b_panics]. Qed.
Example C12_regression_old_F11 : forall n : nat,
  exists sc w' r,
    do_describe (S (length sc)) (cfg_before None false) None false (mkW st0 sc 0 false) = (w', r) /\
    wsent w' = 2 * N.of_nat n + 1.
Proof. exact describe_requests_unbounded. Qed.
Example C12_regression_old_N1_N3 :
  calls (cfg_before None false) 1 false [AAnnounce; ASetup 0] (cl_init script_n1 None) = None /\
  calls (cfg_before None false) 1 false [AAnnounce; ASetup 0; ARecord] (cl_init script_n3 None) = None.
Proof. split; [exact n1_panics|exact n3_panics]. Qed.
Example C12_regression_old_N2 :
  exists c ks, calls (cfg_before None false) 1 false [ADescribe; ASetup 0] (cl_init (script_n2 20) None) = Some (c, ks) /\
               100 < wsent (cl_w c) /\ wsc (cl_w c) = [].
Proof. exact n2_setup_loops. Qed.
Example C12_regression_old_N4 :
  exists c ks, calls (cfg_before (Some PTCP) false) 1 false [ADescribe; ASetup 0; ADescribe; AOptions]
                 (cl_init script_n4 None) = Some (c, ks) /\
               ks = [0; 0; 0; 0] /\ cl_dead c = Some 0 /\ wsc (cl_w c) = [].
Proof. exact n4_nil_close_error. Qed.
